------------------------------ MODULE ChainQuery ------------------------------
(***************************************************************************)
(* X01  The READ SIDE of the chain modules.                                *)
(*                                                                         *)
(* The gRPC query servers of x/deployment, x/market, x/provider, x/audit   *)
(* and the escrow keeper's getters, over the store record S of Chain.tla.  *)
(* A request is answered from ONE state S; the servers are read-only.      *)
(*                                                                         *)
(*   part 1  coordinates, store key order, the context X of a state        *)
(*   part 2  the operational model: what each handler computes             *)
(*           (QOp(X, q)); Impl = "asfound" describes two behaviours of the *)
(*           code that break the properties (see docs/chainq.md)           *)
(*   part 3  the PROPERTIES, declaratively, over (X, q, r): r is a         *)
(*           response (of the model, or observed on the real servers)      *)
(*   part 4  the request universe of a state (J2)                          *)
(*                                                                         *)
(* Every record is addressed by a 5-tuple of coordinates                   *)
(*   <<owner, dseq, gseq, oseq, provider-or-auditor>>   (unused: 0 / "")   *)
(* so that requests of all kinds are values of one shape.                  *)
(***************************************************************************)
EXTENDS Chain

CONSTANTS
  StrRank,       \* [party name -> Nat]: order of the bech32 strings (deployment / market / escrow store keys)
  ByteRank,      \* [party name -> Nat]: order of the raw address bytes (provider / audit store keys)
  Impl,          \* "intended" | "asfound"
  DefaultLimit   \* query.DefaultLimit of the SDK (100)

NoKey    == <<"", 0, 0, 0, "">>
NoFilter == [owner |-> "", dseq |-> 0, gseq |-> 0, oseq |-> 0, provider |-> "", state |-> "", auditor |-> ""]
NoPg     == [mode |-> "none", key |-> NoKey, offset |-> 0, limit |-> 0, ct |-> FALSE]

-----------------------------------------------------------------------------
(* part 1: coordinates and key order *)

DepU  == {<<t, d, 0, 0, "">> : t \in Tenants, d \in DSeqs}
GrpU  == {<<t, d, g, 0, "">> : t \in Tenants, d \in DSeqs, g \in GSeqs}
OrdU  == {<<t, d, g, o, "">> : t \in Tenants, d \in DSeqs, g \in GSeqs, o \in OSeqs}
BidU  == {<<t, d, g, o, p>> : t \in Tenants, d \in DSeqs, g \in GSeqs, o \in OSeqs, p \in Providers}
ProvU == {<<p, 0, 0, 0, "">> : p \in Providers}
AttU  == {<<p, 0, 0, 0, a>> : p \in Providers, a \in Auditors}

Universe(store) ==
  CASE store = "dep" -> DepU [] store = "grp" -> GrpU [] store = "ord" -> OrdU
    [] store \in {"bid", "lease", "epay"} -> BidU
    [] store = "prov" -> ProvU [] store = "attest" -> AttU
    [] store = "eacct" -> DepU \cup BidU

StoreOf(S, store) ==
  CASE store = "dep" -> S.dep [] store = "grp" -> S.grp [] store = "ord" -> S.ord [] store = "bid" -> S.bid
    [] store = "lease" -> S.lease [] store = "prov" -> S.prov [] store = "attest" -> S.attest
    [] store = "eacct" -> S.eacct [] store = "epay" -> S.epay

IdOf(store, c) ==
  CASE store = "dep" -> DId(c[1], c[2])
    [] store = "grp" -> GId(c[1], c[2], c[3])
    [] store = "ord" -> OId(c[1], c[2], c[3], c[4])
    [] store \in {"bid", "lease", "epay"} -> BId(c[1], c[2], c[3], c[4], c[5])
    [] store = "prov" -> c[1]
    [] store = "attest" -> AttId(c[5], c[1])
    [] store = "eacct" -> IF c[5] = "" THEN DAcc(DId(c[1], c[2])) ELSE BAcc(BId(c[1], c[2], c[3], c[4], c[5]))

\* the store key of a record, as a vector of naturals compared lexicographically
KeyVec(store, c) ==
  CASE store = "dep"  -> <<StrRank[c[1]], c[2]>>
    [] store = "grp"  -> <<StrRank[c[1]], c[2], c[3]>>
    [] store = "ord"  -> <<StrRank[c[1]], c[2], c[3], c[4]>>
    [] store \in {"bid", "lease", "epay"} -> <<StrRank[c[1]], c[2], c[3], c[4], StrRank[c[5]]>>
    [] store = "prov" -> <<ByteRank[c[1]]>>
    [] store = "attest" -> <<ByteRank[c[1]], ByteRank[c[5]]>>
    \* "/bid/owner/dseq/gseq/oseq/provider" before "/deployment/owner/dseq"
    [] store = "eacct" -> IF c[5] = "" THEN <<1, StrRank[c[1]], c[2], 0, 0, 0>>
                                       ELSE <<0, StrRank[c[1]], c[2], c[3], c[4], StrRank[c[5]]>>

LexLess(u, v)         == \E i \in 1..Len(u) : u[i] < v[i] /\ \A j \in 1..(i - 1) : u[j] = v[j]
QKeyLess(store, a, b) == LexLess(KeyVec(store, a), KeyVec(store, b))
SeqRange(s)           == {s[i] : i \in 1..Len(s)}

(* The context of a state: X = [S, D, K].  S the store record, D the digests of the stored bytes                   *)
(* (D[store][id]), K[store] the ENTRIES [c, id, rec] of a store in key order (computed once per state).           *)
Entries(S, store) ==
  SetToSortSeq({[c |-> c, id |-> IdOf(store, c), rec |-> StoreOf(S, store)[IdOf(store, c)]] :
                   c \in {x \in Universe(store) : Has(StoreOf(S, store), IdOf(store, x))}},
               LAMBDA a, b : QKeyLess(store, a.c, b.c))
MkK(S) == [dep |-> Entries(S, "dep"), grp |-> Entries(S, "grp"), ord |-> Entries(S, "ord"), bid |-> Entries(S, "bid"),
           lease |-> Entries(S, "lease"), prov |-> Entries(S, "prov"), attest |-> Entries(S, "attest"),
           eacct |-> Entries(S, "eacct"), epay |-> Entries(S, "epay")]
MkX(S, D) == [S |-> S, D |-> D, K |-> MkK(S)]
Ents(X, store) == StoreOf(X.K, store)
CsOfEnts(es)   == [i \in 1..Len(es) |-> es[i].c]
PresentCs(X, store) == {Ents(X, store)[i].c : i \in 1..Len(Ents(X, store))}
EntOf(X, store, c)  == LET es == Ents(X, store) IN es[CHOOSE i \in 1..Len(es) : es[i].c = c]

-----------------------------------------------------------------------------
(* kinds of request *)

PagedKinds == {"deployments", "orders", "bids", "leases", "providers", "audits", "auditor"}   \* gRPC listings
IterKinds  == {"eaccts", "epays",                                                             \* escrow keeper With* iterators
               "k_deployments", "k_orders", "k_bids", "k_leases", "k_providers", "k_attests"}     \* With* of the other keepers
ListKinds  == PagedKinds \cup IterKinds
\* keeper reads by a parent id (never "not found": the list may be empty): GetGroups, WithOrdersForGroup, WithBidsForOrder,
\* BidCountForOrder, audit WithProvider; and LeaseForOrder (the lease of the order's active bid)
SubKinds   == {"k_groups", "k_ordersforgroup", "k_bidsfororder", "k_bidcount", "k_attests_owner"}
GetKinds   == {"deployment", "group", "order", "bid", "lease", "provider", "audit_owner", "audit_pair", "eacct", "epay",
               "k_leasefororder"} \cup SubKinds

KStore(kind) ==
  CASE kind \in {"deployments", "deployment", "k_deployments"} -> "dep"
    [] kind \in {"group", "k_groups"} -> "grp"
    [] kind \in {"orders", "order", "k_orders", "k_ordersforgroup"} -> "ord"
    [] kind \in {"bids", "bid", "k_bids", "k_bidsfororder", "k_bidcount"} -> "bid"
    [] kind \in {"leases", "lease", "k_leases", "k_leasefororder"} -> "lease"
    [] kind \in {"providers", "provider", "k_providers"} -> "prov"
    [] kind \in {"audits", "auditor", "audit_owner", "audit_pair", "k_attests", "k_attests_owner"} -> "attest"
    [] kind \in {"eaccts", "eacct"} -> "eacct"
    [] kind \in {"epays", "epay"} -> "epay"

StateFiltered(kind) == kind \in {"deployments", "orders", "bids", "leases"}
ValidStates(kind) ==
  CASE kind = "deployments" -> {"active", "closed"}
    [] kind = "orders" -> {"open", "active", "closed"}
    [] kind = "bids"   -> {"open", "active", "lost", "closed"}
    [] kind = "leases" -> {"active", "insufficient_funds", "closed"}
    [] OTHER -> {}
StateOK(kind, f) == ~StateFiltered(kind) \/ f.state = "" \/ f.state \in ValidStates(kind)

\* a malformed account address ("!" stands for a string that is not bech32, "" for the empty string)
BadAddr(n) == n \in {"!", ""}
\* address fields a Get handler validates (positions of the coordinate tuple)
AddrFields(kind) ==
  CASE kind \in {"deployment", "group", "order", "provider", "audit_owner"} -> {1}
    [] kind \in {"bid", "lease", "audit_pair"} -> {1, 5}
    [] OTHER -> {}
BadRequest(kind, c) == \E i \in AddrFields(kind) : BadAddr(c[i])
BadClass(kind) == IF kind \in {"provider", "audit_owner", "audit_pair"} THEN "InvalidAddress" ELSE "InvalidArgument"

-----------------------------------------------------------------------------
(* what the filter of a listing means (x/*/types Accept): a zero field is a wildcard.  e: an entry of the store. *)
MatchI(kind, e, f) ==
  LET c == e.c IN
  CASE kind = "deployments" ->
         /\ f.owner = "" \/ f.owner = c[1]
         /\ f.dseq = 0 \/ f.dseq = c[2]
         /\ f.state = "" \/ f.state = e.rec.state
    [] kind = "orders" ->
         /\ f.owner = "" \/ f.owner = c[1]
         /\ f.dseq = 0 \/ f.dseq = c[2]
         /\ f.gseq = 0 \/ f.gseq = c[3]
         /\ f.oseq = 0 \/ f.oseq = c[4]
         /\ f.state = "" \/ f.state = e.rec.state
    [] kind \in {"bids", "leases"} ->
         /\ f.owner = "" \/ f.owner = c[1]
         /\ f.dseq = 0 \/ f.dseq = c[2]
         /\ f.gseq = 0 \/ f.gseq = c[3]
         /\ f.oseq = 0 \/ f.oseq = c[4]
         /\ f.provider = "" \/ f.provider = c[5]
         /\ f.state = "" \/ f.state = e.rec.state
    [] kind = "auditor" -> f.auditor = c[5]          \* "all providers signed by this auditor"
    [] OTHER -> TRUE

\* AS FOUND: Query/AuditorAttributes never looks at the auditor of the request
MatchOp(kind, e, f, impl) == IF impl = "asfound" /\ kind = "auditor" THEN TRUE ELSE MatchI(kind, e, f)

\* the escrow record a listing joins to every returned record
JoinMissing(X, kind, c) ==
  CASE kind \in {"deployments", "deployment"} -> ~Has(X.S.eacct, DAcc(IdOf("dep", c)))
    [] kind \in {"bids", "bid"} -> ~Has(X.S.eacct, BAcc(IdOf("bid", c)))
    [] kind \in {"leases", "lease"} -> ~Has(X.S.epay, IdOf("lease", c))
    [] OTHER -> FALSE
JoinsPresent(X, kind) == \A c \in PresentCs(X, KStore(kind)) : ~JoinMissing(X, kind, c)

-----------------------------------------------------------------------------
(* part 2: the operational model *)

EffLimit(pg)  == IF pg.mode = "none" \/ pg.limit = 0 THEN DefaultLimit ELSE pg.limit
EffCt(pg)     == pg.mode = "none" \/ pg.limit = 0 \/ pg.ct
EffOffset(pg) == IF pg.mode \in {"offset", "both"} THEN pg.offset ELSE 0

ErrResp(e) == [err |-> e, cs |-> <<>>, next |-> NoKey, total |-> 0]
PosOf(es, c) == CHOOSE i \in 1..Len(es) : es[i].c = c

(* types/query FilteredPaginate and Paginate (Paginate = every key is a hit).  keys: the entries of the prefix    *)
(* store in key order.  Key mode: iterate from the key (or the next larger one); the key FOLLOWING the limit-th hit (whether it matches or *)
(* not) is next_key; no total.  Offset mode: the whole store is scanned, hits offset+1..offset+limit are          *)
(* returned, next_key is the key of hit offset+limit+1.                                                          *)
(* AS FOUND with count_total the scan continues after that hit and next_key is overwritten with every key        *)
(* visited while the hit count stays offset+limit+1, i.e. with the non-matching keys that follow it.             *)
Paginate(store, keys, Hit(_), pg, impl) ==
  IF pg.mode = "both" THEN ErrResp("Internal")
  ELSE IF pg.mode = "key" THEN
    LET lim == EffLimit(pg)
        ks  == SelectSeq(keys, LAMBDA e : ~QKeyLess(store, e.c, pg.key))     \* Iterator(key, nil): from the first key >= the given one
        hs  == SelectSeq(ks, Hit)
        nxt == IF Len(hs) < lim THEN NoKey
               ELSE LET p == PosOf(ks, hs[lim].c) IN IF p < Len(ks) THEN ks[p + 1].c ELSE NoKey
    IN [err |-> "", cs |-> CsOfEnts(SubSeq(hs, 1, Min2(lim, Len(hs)))), next |-> nxt, total |-> 0]
  ELSE
    LET lim == EffLimit(pg)
        off == EffOffset(pg)
        end == off + lim
        ct  == EffCt(pg)
        hs  == SelectSeq(keys, Hit)
        nxt == IF Len(hs) < end + 1 THEN NoKey
               ELSE IF ct /\ impl = "asfound"
                    THEN IF Len(hs) >= end + 2 THEN keys[PosOf(keys, hs[end + 2].c) - 1].c ELSE keys[Len(keys)].c
                    ELSE hs[end + 1].c
    IN [err |-> "", cs |-> CsOfEnts(SubSeq(hs, off + 1, Min2(end, Len(hs)))), next |-> nxt, total |-> IF ct THEN Len(hs) ELSE 0]

ListOpI(X, kind, f, pg, impl) ==
  IF kind \in IterKinds THEN LET keys == Ents(X, KStore(kind)) IN [err |-> "", cs |-> CsOfEnts(keys), next |-> NoKey, total |-> Len(keys)]
  ELSE IF ~StateOK(kind, f) THEN ErrResp("InvalidArgument")
  ELSE LET page == Paginate(KStore(kind), Ents(X, KStore(kind)), LAMBDA e : MatchOp(kind, e, f, impl), pg, impl) IN
       IF page.err = "" /\ \E i \in 1..Len(page.cs) : JoinMissing(X, kind, page.cs[i]) THEN ErrResp("Internal") ELSE page

ListOp(X, kind, f, pg) == ListOpI(X, kind, f, pg, Impl)

\* the records a keeper read by parent id selects, in key order (prefix iteration)
SubEnts(X, kind, c) ==
  CASE kind = "k_groups" -> SelectSeq(Ents(X, "grp"), LAMBDA e : e.c[1] = c[1] /\ e.c[2] = c[2])
    [] kind = "k_ordersforgroup" -> SelectSeq(Ents(X, "ord"), LAMBDA e : e.c[1] = c[1] /\ e.c[2] = c[2] /\ e.c[3] = c[3])
    [] kind \in {"k_bidsfororder", "k_bidcount"} ->
         SelectSeq(Ents(X, "bid"), LAMBDA e : e.c[1] = c[1] /\ e.c[2] = c[2] /\ e.c[3] = c[3] /\ e.c[4] = c[4])
    [] kind \in {"k_attests_owner", "audit_owner"} -> SelectSeq(Ents(X, "attest"), LAMBDA e : e.c[1] = c[1])
\* LeaseForOrder: the lease of the first ACTIVE bid of the order (found only if that lease exists)
LeaseForOrder(X, c) ==
  LET act == SelectSeq(SubEnts(X, "k_bidsfororder", c), LAMBDA e : e.rec.state = "active") IN
  IF act = <<>> THEN <<>> ELSE IF act[1].c \in PresentCs(X, "lease") THEN <<act[1].c>> ELSE <<>>
SubOp(X, kind, c) ==
  LET es == SubEnts(X, kind, c) IN
  IF kind = "k_bidcount" THEN [err |-> "", cs |-> <<>>, next |-> NoKey, total |-> Len(es)]
  ELSE [err |-> "", cs |-> CsOfEnts(es), next |-> NoKey, total |-> 0]

GetOp(X, kind, c) ==
  IF BadRequest(kind, c) THEN ErrResp(BadClass(kind))
  ELSE IF kind \in SubKinds THEN SubOp(X, kind, c)
  ELSE IF kind = "k_leasefororder" THEN
    LET t == LeaseForOrder(X, c) IN IF t = <<>> THEN ErrResp("NotFound") ELSE [err |-> "", cs |-> t, next |-> NoKey, total |-> 0]
  ELSE IF kind = "audit_owner" THEN
    LET es == SubEnts(X, kind, c) IN
    IF es = <<>> THEN ErrResp("NotFound") ELSE [err |-> "", cs |-> CsOfEnts(es), next |-> NoKey, total |-> 0]
  ELSE IF c \notin PresentCs(X, KStore(kind)) THEN ErrResp("NotFound")
  ELSE IF JoinMissing(X, kind, c) THEN ErrResp("NotFound")       \* the escrow keeper's own not-found error
  ELSE [err |-> "", cs |-> <<c>>, next |-> NoKey, total |-> 0]

\* a paging client: first page by limit, then next_key until it is empty
FirstPg(limit, ct) == [mode |-> "offset", key |-> NoKey, offset |-> 0, limit |-> limit, ct |-> ct]
NextPg(key, limit, ct) == [mode |-> "key", key |-> key, offset |-> 0, limit |-> limit, ct |-> ct]

QOp(X, q) ==
  CASE q.op = "list" -> ListOp(X, q.kind, q.f, q.pg)
    [] q.op = "get"  -> GetOp(X, q.kind, q.c)

-----------------------------------------------------------------------------
(* a response as a client sees it: every returned record with its content, the digest of its bytes and the        *)
(* escrow record joined to it.  Realize(X, kind, o) is the response of a faithful server for model result o.      *)
Join(X, store, id)  == [id |-> id, rec |-> StoreOf(X.S, store)[id], dg |-> StoreOf(X.D, store)[id]]
Plain(X, store, c)  == LET id == IdOf(store, c) IN [c |-> c, rec |-> StoreOf(X.S, store)[id], dg |-> StoreOf(X.D, store)[id]]
GroupsOf(X, c)      == CsOfEnts(SelectSeq(Ents(X, "grp"), LAMBDA e : e.c[1] = c[1] /\ e.c[2] = c[2]))
Joined(kind) == kind \in {"deployments", "deployment", "bids", "bid", "leases", "lease"}    \* the gRPC responses that carry an escrow record
ItemOf(X, kind, c) ==
  LET st == KStore(kind)  b == Plain(X, st, c) IN
  IF ~Joined(kind) THEN b ELSE
  CASE st = "dep"   -> [c |-> b.c, rec |-> b.rec, dg |-> b.dg, acct |-> Join(X, "eacct", DAcc(IdOf("dep", c))),
                        groups |-> LET gs == GroupsOf(X, c) IN [i \in 1..Len(gs) |-> Plain(X, "grp", gs[i])]]
    [] st = "bid"   -> [c |-> b.c, rec |-> b.rec, dg |-> b.dg, acct |-> Join(X, "eacct", BAcc(IdOf("bid", c)))]
    [] st = "lease" -> [c |-> b.c, rec |-> b.rec, dg |-> b.dg, pay |-> Join(X, "epay", IdOf("lease", c))]
    [] OTHER -> b
Realize(X, kind, o) ==
  [err |-> o.err, items |-> [i \in 1..Len(o.cs) |-> ItemOf(X, kind, o.cs[i])], next |-> o.next, total |-> o.total]
CsOf(r)  == [i \in 1..Len(r.items) |-> r.items[i].c]
Strip(r) == [err |-> r.err, cs |-> CsOf(r), next |-> r.next, total |-> r.total]

-----------------------------------------------------------------------------
(* part 3: THE PROPERTIES.  r = [err, items, next, total] answers request q in the state of X.                    *)

\* every returned record is a record of S, equal to the stored one (content and bytes), joined with ITS escrow record
ItemOK(X, kind, it) == it.c \in PresentCs(X, KStore(kind)) /\ it = ItemOf(X, kind, it.c)

Full(X, kind, f) == SelectSeq(Ents(X, KStore(kind)), LAMBDA e : MatchI(kind, e, f))

\* what this page has to hold, and what is still to come after it
Slice(X, kind, f, pg) ==
  LET full == CsOfEnts(Full(X, kind, f))  lim == EffLimit(pg) IN
  IF pg.mode = "key"
  THEN LET tail == SelectSeq(full, LAMBDA c : ~QKeyLess(KStore(kind), c, pg.key)) IN
       [page |-> SubSeq(tail, 1, Min2(lim, Len(tail))), rest |-> SubSeq(tail, lim + 1, Len(tail))]
  ELSE LET off == EffOffset(pg) IN
       [page |-> SubSeq(full, off + 1, Min2(off + lim, Len(full))), rest |-> SubSeq(full, off + lim + 1, Len(full))]

ValidList(X, kind, f, pg) == StateOK(kind, f) /\ pg.mode # "both" /\ JoinsPresent(X, kind)

\* a request that is not valid is rejected, never answered from a wider filter
P_Rejected(X, kind, f, pg, r)  == (~StateOK(kind, f) \/ pg.mode = "both") => r.err # ""
\* a valid request is answered
P_Answered(X, kind, f, pg, r)  == ValidList(X, kind, f, pg) => r.err = ""
\* nothing extra, nothing altered, nothing duplicated, key order
P_PageSound(X, kind, f, pg, r) ==
  r.err = "" =>
    /\ \A i \in 1..Len(r.items) : ItemOK(X, kind, r.items[i]) /\ MatchI(kind, EntOf(X, KStore(kind), r.items[i].c), f)
    /\ kind \in PagedKinds => \A i \in 1..(Len(r.items) - 1) : QKeyLess(KStore(kind), r.items[i].c, r.items[i + 1].c)
    /\ kind \in PagedKinds => Len(r.items) <= EffLimit(pg)
\* exactly the matching records the page stands for
P_PageExact(X, kind, f, pg, r) == (r.err = "" /\ kind \in PagedKinds) => CsOf(r) = Slice(X, kind, f, pg).page
\* next_key: empty only when nothing is left; otherwise it moves forward and skips no matching record
P_NextSafe(X, kind, f, pg, r) ==
  (r.err = "" /\ kind \in PagedKinds /\ \A i \in 1..Len(r.items) : r.items[i].c \in PresentCs(X, KStore(kind))) =>
    LET rest == Slice(X, kind, f, pg).rest  st == KStore(kind) IN
    /\ r.next = NoKey => rest = <<>>
    /\ r.next # NoKey =>
         /\ r.next \in PresentCs(X, st)
         /\ \A i \in 1..Len(rest) : ~QKeyLess(st, rest[i], r.next)
         /\ \A i \in 1..Len(r.items) : QKeyLess(st, r.items[i].c, r.next)
         /\ pg.mode = "key" => QKeyLess(st, pg.key, r.next)
\* the total, when it is asked for (count_total is documented to be ignored with a key)
P_Total(X, kind, f, pg, r) ==
  (r.err = "" /\ kind \in PagedKinds /\ pg.mode \in {"none", "offset"} /\ EffCt(pg)) => r.total = Len(Full(X, kind, f))
\* the keeper iterators visit every record exactly once
P_IterExact(X, kind, r) ==
  kind \in IterKinds => /\ r.err = ""
                        /\ SeqRange(CsOf(r)) = PresentCs(X, KStore(kind))
                        /\ Len(r.items) = Len(Ents(X, KStore(kind)))

ListProps == <<"Rejected", "Answered", "PageSound", "PageExact", "NextSafe", "Total", "IterExact">>
ListProp(name, X, q, r) ==
  CASE name = "Rejected"  -> P_Rejected(X, q.kind, q.f, q.pg, r)
    [] name = "Answered"  -> P_Answered(X, q.kind, q.f, q.pg, r)
    [] name = "PageSound" -> P_PageSound(X, q.kind, q.f, q.pg, r)
    [] name = "PageExact" -> P_PageExact(X, q.kind, q.f, q.pg, r)
    [] name = "NextSafe"  -> P_NextSafe(X, q.kind, q.f, q.pg, r)
    [] name = "Total"     -> P_Total(X, q.kind, q.f, q.pg, r)
    [] name = "IterExact" -> P_IterExact(X, q.kind, r)

\* Get: malformed address -> rejected; absent -> not found; present -> that record, joined
GetTarget(X, kind, c) ==
  IF kind \in SubKinds \cup {"audit_owner"} THEN CsOfEnts(SubEnts(X, kind, c))
  ELSE IF kind = "k_leasefororder" THEN LeaseForOrder(X, c)
  ELSE IF c \in PresentCs(X, KStore(kind)) THEN <<c>> ELSE <<>>
P_GetRejected(X, kind, c, r) == BadRequest(kind, c) => r.err \in {"InvalidArgument", "InvalidAddress"}
P_GetNotFound(X, kind, c, r) == (kind \notin SubKinds /\ ~BadRequest(kind, c) /\ GetTarget(X, kind, c) = <<>>) => r.err = "NotFound"
\* keeper reads by parent id: exactly the parent's records, in key order (BidCountForOrder: their number)
P_SubExact(X, kind, c, r) ==
  kind \in SubKinds =>
     /\ r.err = ""
     /\ IF kind = "k_bidcount" THEN r.items = <<>> /\ r.total = Len(GetTarget(X, kind, c))
        ELSE CsOf(r) = GetTarget(X, kind, c) /\ \A i \in 1..Len(r.items) : ItemOK(X, kind, r.items[i])
P_GetFound(X, kind, c, r) ==
  (kind \notin SubKinds /\ ~BadRequest(kind, c) /\ GetTarget(X, kind, c) # <<>> /\ \A x \in SeqRange(GetTarget(X, kind, c)) : ~JoinMissing(X, kind, x)) =>
     /\ r.err = ""
     /\ CsOf(r) = GetTarget(X, kind, c)
     /\ \A i \in 1..Len(r.items) : ItemOK(X, kind, r.items[i])
GetProps == <<"GetRejected", "GetNotFound", "GetFound", "SubExact">>
GetProp(name, X, q, r) ==
  CASE name = "GetRejected" -> P_GetRejected(X, q.kind, q.c, r)
    [] name = "GetNotFound" -> P_GetNotFound(X, q.kind, q.c, r)
    [] name = "GetFound"    -> P_GetFound(X, q.kind, q.c, r)
    [] name = "SubExact"    -> P_SubExact(X, q.kind, q.c, r)

(* A walk: w = [pages |-> <<[pg, r], ...>>, truncated].  Paging through with next_key until it is empty returns    *)
(* every matching record exactly once, in key order.                                                             *)
WalkChained(q, w) ==
  /\ Len(w.pages) >= 1 /\ w.pages[1].pg = FirstPg(q.limit, q.ct)
  /\ \A i \in 1..(Len(w.pages) - 1) : w.pages[i].r.err = "" /\ w.pages[i + 1].pg = NextPg(w.pages[i].r.next, q.limit, q.ct)
Concat(ss) == FoldLeft(LAMBDA acc, s : acc \o s, <<>>, ss)
P_WalkComplete(X, q, w) ==
  (StateOK(q.kind, q.f) /\ JoinsPresent(X, q.kind)) =>
     /\ ~w.truncated
     /\ \A i \in 1..Len(w.pages) : w.pages[i].r.err = ""
     /\ w.pages[Len(w.pages)].r.next = NoKey
     /\ Concat([i \in 1..Len(w.pages) |-> CsOf(w.pages[i].r)]) = CsOfEnts(Full(X, q.kind, q.f))

-----------------------------------------------------------------------------
(* part 4: the request universe of a state (J2).  Filters are drawn from the records present (every mask of their *)
(* coordinates, with and without their state), from perturbations of one field to a value no record has, from     *)
(* every state name and invalid ones; pages from limits 1, 2, default, offsets 0..3, every present key.           *)

AbsD == Max(DSeqs) + 1
AbsG == Max(GSeqs) + 1
AbsO == Max(OSeqs) + 1
AbsC == <<"tX", AbsD, AbsG, AbsO, "pX">>

FFrom(c, m, s) ==
  [owner |-> IF 1 \in m THEN c[1] ELSE "", dseq |-> IF 2 \in m THEN c[2] ELSE 0, gseq |-> IF 3 \in m THEN c[3] ELSE 0,
   oseq |-> IF 4 \in m THEN c[4] ELSE 0, provider |-> IF 5 \in m THEN c[5] ELSE "", state |-> s, auditor |-> ""]

FieldsOf(kind) == CASE kind = "deployments" -> {1, 2} [] kind = "orders" -> {1, 2, 3, 4} [] kind \in {"bids", "leases"} -> {1, 2, 3, 4, 5}
                    [] OTHER -> {}
MasksOf(kind) ==
  CASE kind = "deployments" -> {{1}, {2}, {1, 2}}
    [] kind = "orders" -> {{1}, {1, 2}, {1, 2, 3}, {1, 2, 3, 4}, {2}, {3}, {4}, {2, 3}, {3, 4}}
    [] kind \in {"bids", "leases"} -> {{1}, {1, 2}, {1, 2, 3}, {1, 2, 3, 4}, {1, 2, 3, 4, 5}, {5}, {1, 5}, {2}, {3}, {4}, {2, 5}, {4, 5}}
    [] OTHER -> {}
MainMasks(kind) == IF kind \in {"deployments", "orders"} THEN {{1}, {1, 2}} ELSE {{1}, {5}, {1, 2}}
Perturb(c, i) == [c EXCEPT ![i] = AbsC[i]]
EntSet(X, store) == SeqRange(Ents(X, store))

\* filters tried with every page shape
FRich(X, kind) ==
  IF kind = "auditor" THEN {[NoFilter EXCEPT !.auditor = a] : a \in Auditors \cup {"aX"}}
  ELSE IF ~StateFiltered(kind) THEN {NoFilter}
  ELSE {NoFilter} \cup {[NoFilter EXCEPT !.state = s] : s \in ValidStates(kind)}
       \cup UNION {{FFrom(e.c, m, s) : m \in MainMasks(kind), s \in {"", e.rec.state}} : e \in EntSet(X, KStore(kind))}
\* filters tried with the whole listing and one small page
FAll(X, kind) ==
  IF ~StateFiltered(kind) THEN {}
  ELSE LET all == FieldsOf(kind) IN
       UNION {{FFrom(e.c, m, s) : m \in MasksOf(kind), s \in {"", e.rec.state}} : e \in EntSet(X, KStore(kind))}
       \cup {FFrom(Perturb(c, i), all, "") : c \in PresentCs(X, KStore(kind)), i \in all}
       \cup {FFrom(AbsC, {i}, "") : i \in all}
       \cup {[NoFilter EXCEPT !.state = s] : s \in {"bogus", "invalid", "Open"}}
       \cup {[NoFilter EXCEPT !.owner = "!"]}

PRich ==
  {NoPg}
  \cup {[mode |-> "offset", key |-> NoKey, offset |-> o, limit |-> n, ct |-> b] : o \in 0..3, n \in {1, 2}, b \in BOOLEAN}
  \cup {[mode |-> "offset", key |-> NoKey, offset |-> 1, limit |-> 0, ct |-> FALSE]}
\* pages that start at a key: every present key, tried with the filters that do not depend on a record
PKey(X, kind) ==
  {[mode |-> "key", key |-> k, offset |-> 0, limit |-> n, ct |-> b] : k \in PresentCs(X, KStore(kind)), n \in {1, 2}, b \in {FALSE}}
  \cup {[mode |-> "both", key |-> k, offset |-> 1, limit |-> 1, ct |-> FALSE] : k \in PresentCs(X, KStore(kind))}
FKey(X, kind) ==
  IF kind = "auditor" THEN FRich(X, kind)
  ELSE {NoFilter} \cup {[NoFilter EXCEPT !.state = s] : s \in ValidStates(kind)}
PBasic == {NoPg, [mode |-> "offset", key |-> NoKey, offset |-> 0, limit |-> 1, ct |-> TRUE]}
WalkShapes == {<<n, b>> : n \in {1, 2}, b \in BOOLEAN}

\* the plan of one kind, in factored form (the harness expands the products exactly as Lists / Walks below do)
Plan(X, kind) ==
  IF kind \in IterKinds THEN [kind |-> kind, rich |-> {NoFilter}, richpg |-> {NoPg}, keyf |-> {}, keypg |-> {}, all |-> {}, basicpg |-> {}, walks |-> {}]
  ELSE [kind |-> kind, rich |-> FRich(X, kind), richpg |-> PRich, keyf |-> FKey(X, kind), keypg |-> PKey(X, kind),
        all |-> FAll(X, kind) \ FRich(X, kind), basicpg |-> PBasic, walks |-> WalkShapes]
Lists(X, kind) ==
  LET p == Plan(X, kind) IN
  {[op |-> "list", kind |-> kind, f |-> f, pg |-> pg] : f \in p.rich, pg \in p.richpg}
  \cup {[op |-> "list", kind |-> kind, f |-> f, pg |-> pg] : f \in p.keyf, pg \in p.keypg}
  \cup {[op |-> "list", kind |-> kind, f |-> f, pg |-> pg] : f \in p.all, pg \in p.basicpg}
Walks(X, kind) ==
  LET p == Plan(X, kind) IN {[op |-> "walk", kind |-> kind, f |-> f, limit |-> w[1], ct |-> w[2]] : f \in p.rich, w \in p.walks}

\* Get: every present record, every one-field perturbation of it (absent value; malformed and empty address), one absent id
ParentStore(kind) ==
  CASE kind = "k_groups" -> "dep" [] kind = "k_ordersforgroup" -> "grp"
    [] kind \in {"k_bidsfororder", "k_bidcount", "k_leasefororder"} -> "ord" [] OTHER -> KStore(kind)
GetCoords(X, kind) ==
  LET st == ParentStore(kind)
      pres == IF kind \in {"audit_owner", "k_attests_owner"} THEN {<<c[1], 0, 0, 0, "">> : c \in PresentCs(X, "attest")} \cup {<<p, 0, 0, 0, "">> : p \in Providers}
              ELSE PresentCs(X, st)
      flds == CASE st = "dep" -> {1, 2} [] st = "grp" -> {1, 2, 3} [] st = "ord" -> {1, 2, 3, 4} [] st \in {"bid", "lease", "epay"} -> {1, 2, 3, 4, 5}
                [] st = "prov" -> {1} [] st = "attest" -> IF kind \in {"audit_owner", "k_attests_owner"} THEN {1} ELSE {1, 5} [] st = "eacct" -> {1, 2}
      zero == <<"", 0, 0, 0, "">>
      abs  == [i \in 1..5 |-> IF i \in flds THEN (IF st \in {"prov", "attest"} /\ i = 1 THEN "pX" ELSE IF st = "attest" /\ i = 5 THEN "aX" ELSE AbsC[i]) ELSE zero[i]]
  IN pres \cup {abs}
     \cup {[c EXCEPT ![i] = abs[i]] : c \in pres, i \in flds}
     \cup (IF kind = "k_attests_owner" THEN {}        \* the keeper takes an sdk.Address: a malformed string cannot be passed
          ELSE {[c EXCEPT ![i] = b] : c \in pres, i \in flds \cap {1, 5}, b \in {"!", ""}})
Gets(X, kind) == {[op |-> "get", kind |-> kind, c |-> c] : c \in GetCoords(X, kind)}

-----------------------------------------------------------------------------
(* part 5: a walk WHILE THE CHAIN MOVES.  Between two pages of a paging client any number of transactions may be   *)
(* committed; page i is answered in the state of context xs[i].  ww = [pages |-> <<[pg, r], ...>>, truncated].     *)
(* What key paging gives the client then (and what the provider's lease listing relies on): no record twice, key   *)
(* order over the whole walk, every page sound for ITS state, and every record that exists and matches at every    *)
(* page of the walk is returned (exactly once).                                                                    *)
MatchSet(X, kind, f) == SeqRange(CsOfEnts(Full(X, kind, f)))
P_WalkStable(q, xs, ww) ==
  LET n   == Len(ww.pages)
      st  == KStore(q.kind)
      got == Concat([i \in 1..n |-> CsOf(ww.pages[i].r)])
      stable == FoldLeft(LAMBDA acc, i : acc \cap MatchSet(xs[i], q.kind, q.f), MatchSet(xs[1], q.kind, q.f), [i \in 1..(n - 1) |-> i + 1])
  IN
  (StateOK(q.kind, q.f) /\ \A i \in 1..n : JoinsPresent(xs[i], q.kind)) =>
     /\ ~ww.truncated
     /\ \A i \in 1..n : ww.pages[i].r.err = ""
     /\ ww.pages[n].r.next = NoKey
     /\ \A i \in 1..n : P_PageSound(xs[i], q.kind, q.f, ww.pages[i].pg, ww.pages[i].r)
     /\ \A i \in 1..(Len(got) - 1) : QKeyLess(st, got[i], got[i + 1])
     /\ stable \subseteq SeqRange(got)

\* walks tried under writes: no filter, every state name, every owner; limit 1 and 2
WWKinds == {"deployments", "orders", "bids", "leases", "providers", "audits"}
WWFilters(X, kind) ==
  {NoFilter} \cup {[NoFilter EXCEPT !.state = s] : s \in ValidStates(kind)}
  \cup (IF StateFiltered(kind) THEN {FFrom(e.c, {1}, "") : e \in EntSet(X, KStore(kind))} ELSE {})
WWalks(X) == UNION {{[op |-> "wwalk", kind |-> k, f |-> f, limit |-> n, ct |-> FALSE] : f \in WWFilters(X, k), n \in {1, 2}} : k \in WWKinds}

=============================================================================
