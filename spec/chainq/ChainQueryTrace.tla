--------------------------- MODULE ChainQueryTrace ---------------------------
(***************************************************************************)
(* J3: requests issued against the real query servers (harness/chainqh)    *)
(* judged with the property definitions of ChainQuery.tla, and compared    *)
(* with its operational model (conformance).                               *)
(*                                                                         *)
(* trace.ndjson: line 1 = header [strRank, byteRank] (the order of the     *)
(* party addresses as bech32 strings and as bytes); every other line =     *)
(* [id, path, S, D, qs]: S the projected chain state (raw store scan of    *)
(* harness/chainh), D the digests of the stored bytes, qs a sequence of    *)
(* [q, r]: request and projected response, all answered in that state.     *)
(*                                                                         *)
(* A failed property prints <<"FAIL", name, l, i, class>> (the verdict;    *)
(* class names the two as-found behaviours when the response is exactly    *)
(* what the as-found model predicts and differs from the intended one);    *)
(* a response that differs from the operational model prints               *)
(* <<"DRIFT", l, i>> (conformance).                                        *)
(***************************************************************************)
EXTENDS ChainQuery, Json

CONSTANTS Which        \* subset of {"X01", "CONF"}

Trace == ndJsonDeserialize("trace.ndjson")
N     == Len(Trace)
Hdr   == Trace[1]
StrRankT  == [n \in Parties \cup {""} |-> IF n = "" THEN 0 ELSE Hdr.strRank[n]]
ByteRankT == [n \in Parties \cup {""} |-> IF n = "" THEN 0 ELSE Hdr.byteRank[n]]

VARIABLE l
Init == l = 1
Next == l < N /\ l' = l + 1
Spec == Init /\ [][Next]_l

QFail(name, i, cls) == PrintT(<<"FAIL", name, l, i, cls>>)
QDrift(i, what)     == PrintT(<<"DRIFT", l, i, what>>)

\* the two behaviours of the code that the as-found model describes
PageCls(X, q, pg, r) ==
  LET asf == ListOpI(X, q.kind, q.f, pg, "asfound")  int == ListOpI(X, q.kind, q.f, pg, "intended") IN
  IF Strip(r) = asf /\ asf # int
  THEN (IF q.kind = "auditor" THEN "auditor-filter-ignored" ELSE "count_total-next_key-overwritten") ELSE "other"

JudgePage(X, q, pg, r, i) ==
  LET lq == [op |-> "list", kind |-> q.kind, f |-> q.f, pg |-> pg] IN
  /\ "X01" \in Which => \A n \in 1..Len(ListProps) : ListProp(ListProps[n], X, lq, r) \/ QFail(ListProps[n], i, PageCls(X, q, pg, r))
  /\ "CONF" \in Which => Strip(r) = ListOp(X, q.kind, q.f, pg) \/ QDrift(i, "list")

JudgeGet(X, q, r, i) ==
  /\ "X01" \in Which => \A n \in 1..Len(GetProps) : GetProp(GetProps[n], X, q, r) \/ QFail(GetProps[n], i, "other")
  /\ "CONF" \in Which => Strip(r) = GetOp(X, q.kind, q.c) \/ QDrift(i, "get")

JudgeWalk(X, q, w, i) ==
  LET cl(j) == PageCls(X, q, w.pages[j].pg, w.pages[j].r)
      bad   == {j \in 1..Len(w.pages) : cl(j) # "other"}
      cls   == IF bad = {} THEN "other" ELSE cl(CHOOSE j \in bad : TRUE)
  IN
  /\ \A j \in 1..Len(w.pages) : JudgePage(X, q, w.pages[j].pg, w.pages[j].r, i)
  /\ "X01" \in Which => P_WalkComplete(X, q, w) \/ QFail("WalkComplete", i, cls)
  /\ "CONF" \in Which => WalkChained(q, w) \/ QDrift(i, "walk")

\* a walk while the chain moves: [q, states, segs (page i: si = index of the state it was answered in, pg, r), acts, truncated]
JudgeWW(t) ==
  LET q  == t.q
      n  == Len(t.segs)
      XS == FoldLeft(LAMBDA acc, j : Append(acc, MkX(t.states[j].S, t.states[j].D)), <<>>, [j \in 1..Len(t.states) |-> j])
      xs == [i \in 1..n |-> XS[t.segs[i].si]]
      w  == [pages |-> [i \in 1..n |-> [pg |-> t.segs[i].pg, r |-> t.segs[i].r]], truncated |-> t.truncated]
  IN
  /\ \A i \in 1..n : JudgePage(xs[i], q, t.segs[i].pg, t.segs[i].r, i)
  /\ "X01" \in Which => P_WalkStable(q, xs, w) \/ QFail("WalkStable", 0, "other")
  /\ "CONF" \in Which => WalkChained(q, w) \/ QDrift(0, "wwalk")

Judge ==
  l = 1 \/
  LET t == Trace[l] IN
  IF "ww" \in DOMAIN t THEN JudgeWW(t) ELSE
  LET X == MkX(t.S, t.D)
  IN \A i \in 1..Len(t.qs) :
       LET q == t.qs[i].q  r == t.qs[i].r IN
       CASE q.op = "list" -> JudgePage(X, q, q.pg, r, i)
         [] q.op = "walk" -> JudgeWalk(X, q, r, i)
         [] q.op = "get"  -> JudgeGet(X, q, r, i)

\* every line was consumed
Accepted == TLCGet("stats").diameter = N
=============================================================================
