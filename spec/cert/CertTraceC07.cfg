\* C07 stage for the chain family (cert.extra_stage): repeated executions of certificate transactions agree
SPECIFICATION TraceSpec
CONSTANTS
    Owners = {"A", "B"}
    Serials = {"z0", "s1", "s256", "s2e64"}
    Bodies = {1, 2, 3}
    ForeignBodies = {3}
    ForeignSerials = {"s1"}
    KeySeq <- KeySeqGen
    Spellings <- SpellingsGen
    ZeroSerials = {"z0"}
    Impl = "asfound"
    ZeroSerialPanics = FALSE
    MaxOps = 0
    PageSizes = {0, 1, 2}
    PageModes = {"key", "total", "offset"}
    WithQueries = TRUE
INVARIANTS T_Deterministic
POSTCONDITION T_AllConsumed
CHECK_DEADLOCK FALSE
