\* J1 (quick): 2 owners x 4 serial classes, at most 4 accepted transactions, every query
SPECIFICATION Spec
CONSTANTS
    Owners = {"A", "B"}
    Serials = {"z0", "s1", "s256", "s2e64"}
    Bodies = {1, 2, 3}
    ForeignBodies = {3}
    ForeignSerials = {"s1"}
    KeySeq <- KeySeqGen
    Spellings <- SpellingsGen
    ZeroSerials = {"z0"}
    Impl = "intended"
    ZeroSerialPanics = FALSE
    MaxOps = 4
    PageSizes = {0, 1, 2}
    PageModes = {"key", "total", "offset"}
    WithQueries = TRUE
VIEW RegView
INVARIANTS TypeOK
PROPERTIES Prop_Steps Prop_Queries
CHECK_DEADLOCK FALSE
