-------------------------------- MODULE Cert --------------------------------
(***************************************************************************)
(* On-chain certificate registry of akash (x/cert), property C17.          *)
(*                                                                         *)
(* Abstract state: reg[owner][serial] = [st, b]                            *)
(*   st \in {"none","valid","revoked"}; b = which certificate body (public *)
(*   key) is registered under that owner+serial (0 when none).             *)
(* Transactions (one action per message handler, plus the two layers that  *)
(* can refuse before it): Create(signer, mo, cn, s, b), Revoke(signer,o,s) *)
(* with s as SPELLED in the message (Spellings).                           *)
(* Queries (results are functions of reg): the gRPC listing with a filter  *)
(* and a page size (pages obtained by following next_key), the keeper's    *)
(* With* iterators, and the keeper's direct lookup.                        *)
(*                                                                         *)
(* The property definitions (StepXxx, QXxx) are parametrised by the values *)
(* they judge, so that CertTrace.tla evaluates the very same definitions   *)
(* on the registry and the query results recorded from the real code.      *)
(***************************************************************************)
EXTENDS Integers, Sequences, FiniteSets, TLC

CONSTANTS
    Owners,        \* set of owner ids (strings)
    Serials,       \* set of serial classes (strings)
    Bodies,        \* 1..n : distinct certificates (keys) available per (owner, serial)
    ForeignBodies, \* the bodies that are NOT self-issued: subject = the owner, issuer name = another account
    ForeignSerials,\* the serial classes for which such bodies exist (a bound of the model, not of the code)
    KeySeq,        \* all <<owner, serial>> pairs in the order the certificate store sorts them
    ZeroSerials,   \* serial classes whose big-endian byte encoding is empty (the number 0)
    Impl,          \* "intended" | "asfound". As found (known finding, root cause in the SDK's FilteredPaginate):
                   \* a first page requested with count_total keeps scanning after it has seen the next
                   \* page's first hit and overwrites next_key with every non-matching key that follows it
    ZeroSerialPanics, \* BOOLEAN: the defect D4 as found before the fix (decoding a key with an empty serial
                   \* suffix panics); FALSE describes the code after fix fe8a768
    MaxOps,        \* bound on accepted transactions per behaviour (model checking only)
    PageSizes,     \* page sizes of paginated listings; 0 = no pagination requested
    Spellings,     \* how a request may SPELL a serial: records [sp, rd] -- sp the text in the message / filter ("" =
                   \* canonical decimal), rd the class its DECIMAL reading names, "other" (a decimal number that
                   \* is no class of the model) or "invalid" (no decimal number). As built, requests are read
                   \* in base 10: leading zeros and "+" are fine, anything else is refused without effect.
    PageModes,     \* how a client pages: "key" (follow next_key), "total" (the same, asking for count_total),
                   \* "offset" (offset += page size until next_key is empty)
    WithQueries    \* BOOLEAN: include the query actions (off for behaviour export)

VARIABLES
    reg,           \* the registry
    out            \* the last action and its visible result

vars == <<reg, out>>

States   == {"valid", "revoked"}
NoEntry  == [st |-> "none", b |-> 0]
Foreign  == -1      \* body of an entry that holds a certificate of ANOTHER owner / serial (observed states only)
Entry    == [st : States, b : Bodies] \cup {NoEntry}
InitReg  == [o \in Owners |-> [s \in Serials |-> NoEntry]]
Filters  == [o : Owners \cup {""}, s : Serials \cup {""}, st : States \cup {""}]
QueryKinds == {"list", "iter", "get"}

Registered(r, o, s) == r[o][s].st # "none"

\* number of accepted transactions that produced r (every entry was created once and revoked at most once)
Ops(r) ==
    LET OpsOf(e) == IF e.st = "none" THEN 0 ELSE IF e.st = "valid" THEN 1 ELSE 2
        RECURSIVE S(_)
        S(i) == IF i = 0 THEN 0 ELSE OpsOf(r[KeySeq[i][1]][KeySeq[i][2]]) + S(i - 1)
    IN  S(Len(KeySeq))

-----------------------------------------------------------------------------
(* Transactions.                                                            *)
(* signer: the account whose signature the transaction carries.             *)
(* Create: mo = the message's Owner field (the account the message requires *)
(* to sign), cn = the account named in the certificate (CommonName),        *)
(* s, b = serial and body of the certificate.                               *)
(*   ante: signer must be mo; ValidateBasic + keeper: cn must be mo -- cn   *)
(*   is the SUBJECT of the certificate, "the account named in it"; who the  *)
(*   issuer name says (b \in ForeignBodies) plays no role;                  *)
(*   keeper: (cn, s) must not be registered.                                *)
(* Revoke: o, s = the id in the message; the message requires o to sign.    *)
(*   keeper: must be registered and valid.                                  *)

CreateOK(r, signer, mo, cn, s) == signer = mo /\ mo = cn /\ ~Registered(r, cn, s)
CreateReg(r, signer, mo, cn, s, b) ==
    IF CreateOK(r, signer, mo, cn, s) THEN [r EXCEPT ![cn][s] = [st |-> "valid", b |-> b]] ELSE r

RevokeOK(r, signer, o, s) == s \in Serials /\ signer = o /\ r[o][s].st = "valid"
RevokeReg(r, signer, o, s) ==
    IF RevokeOK(r, signer, o, s) THEN [r EXCEPT ![o][s].st = "revoked"] ELSE r

CreateAct(signer, mo, cn, s, b, ok) ==
    [k |-> "create", signer |-> signer, mo |-> mo, o |-> cn, s |-> s, b |-> b, sp |-> "", ok |-> ok]
RevokeAct(signer, o, s, ok) ==
    [k |-> "revoke", signer |-> signer, mo |-> "", o |-> o, s |-> s, b |-> 0, sp |-> "", ok |-> ok]
\* the same with the spelling the message used (s is always what the decimal reading names)
RevokeActSp(signer, o, spl, ok) == [RevokeAct(signer, o, spl.rd, ok) EXCEPT !.sp = spl.sp]

Create(signer, mo, cn, s, b) ==
    /\ reg' = CreateReg(reg, signer, mo, cn, s, b)
    /\ out' = CreateAct(signer, mo, cn, s, b, CreateOK(reg, signer, mo, cn, s))

\* spl \in Spellings: the message spells the serial spl.sp, which in decimal names spl.rd
Revoke(signer, o, spl) ==
    /\ reg' = RevokeReg(reg, signer, o, spl.rd)
    /\ out' = RevokeActSp(signer, o, spl, RevokeOK(reg, signer, o, spl.rd))

-----------------------------------------------------------------------------
(* Queries.                                                                 *)

Item(r, k) == [o |-> k[1], s |-> k[2], b |-> r[k[1]][k[2]].b, rs |-> k[2], st |-> r[k[1]][k[2]].st]

\* the stored keys an iterating query with filter f ranges over, in store order
ScanSeq(r, f) == SelectSeq(KeySeq, LAMBDA k : Registered(r, k[1], k[2]) /\ (f.o = "" \/ k[1] = f.o))
Hit(r, f, k)  == f.st = "" \/ r[k[1]][k[2]].st = f.st
IsDirect(f)   == f.o # "" /\ f.s # ""

\* index of the n-th hit of scan at or after position from; 0 if there is none
RECURSIVE NthHit(_, _, _, _, _)
NthHit(r, f, scan, from, n) ==
    IF from > Len(scan) THEN 0
    ELSE IF Hit(r, f, scan[from])
         THEN IF n = 1 THEN from ELSE NthHit(r, f, scan, from + 1, n - 1)
         ELSE NthHit(r, f, scan, from + 1, n)

Span(r, f, scan, a, b) ==
    [items   |-> LET hits == SelectSeq(SubSeq(scan, a, b), LAMBDA k : Hit(r, f, k))
                 IN  [i \in DOMAIN hits |-> Item(r, hits[i])],
     scanned |-> {scan[i] : i \in a..b}]

\* pages after the first: the request carries the key to start from (position p); the page is full after
\* ps hits and the next key is whatever key follows, hit or not
RECURSIVE LaterPages(_, _, _, _, _)
LaterPages(r, f, scan, p, ps) ==
    LET e == NthHit(r, f, scan, p, ps) IN
    IF e = 0 THEN << Span(r, f, scan, p, Len(scan)) >>
    ELSE IF e = Len(scan) THEN << Span(r, f, scan, p, e) >>
    ELSE << Span(r, f, scan, p, e) >> \o LaterPages(r, f, scan, e + 1, ps)

\* following next_key. First page: no key; the scan stops at the (ps+1)-th hit, whose key is the next key.
\* With count_total the first page scans on to the end to count; as found, every non-matching key after the
\* (ps+1)-th hit (up to the following hit) overwrites next_key, so that hit is skipped.
KeyPages(r, f, ps, total) ==
    LET scan == ScanSeq(r, f)
        j    == NthHit(r, f, scan, 1, ps + 1)
    IN  IF j = 0 THEN << Span(r, f, scan, 1, Len(scan)) >>
        ELSE LET j2    == NthHit(r, f, scan, j + 1, 1)
                 start == IF total /\ Impl = "asfound"
                          THEN (IF j2 = 0 THEN Len(scan) ELSE j2 - 1) ELSE j
                 upto  == IF total THEN Len(scan) ELSE j
             IN  << [items |-> Span(r, f, scan, 1, j - 1).items, scanned |-> {scan[i] : i \in 1..upto}] >>
                 \o LaterPages(r, f, scan, start, ps)

\* stepping the offset by the page size until a response carries no next_key (there is one iff a hit follows
\* the page); page n (from 0) holds hits n*ps+1 .. (n+1)*ps
RECURSIVE OffsetPages(_, _, _, _, _)
OffsetPages(r, f, scan, n, ps) ==
    LET a == IF n = 0 THEN 1 ELSE NthHit(r, f, scan, 1, n * ps + 1)   \* first hit of the page (exists for n > 0)
        j == NthHit(r, f, scan, 1, (n + 1) * ps + 1)                  \* the hit after the page, if any
    IN  IF j = 0 THEN << [items |-> Span(r, f, scan, a, Len(scan)).items, scanned |-> {scan[i] : i \in 1..Len(scan)}] >>
        ELSE << [items |-> Span(r, f, scan, a, j - 1).items, scanned |-> {scan[i] : i \in 1..j}] >>
             \o OffsetPages(r, f, scan, n + 1, ps)

PageSpans(r, f, ps, pm) ==
    LET scan == ScanSeq(r, f) IN
    IF ps = 0 THEN << Span(r, f, scan, 1, Len(scan)) >>
    ELSE IF pm = "offset" THEN OffsetPages(r, f, scan, 0, ps)
    ELSE KeyPages(r, f, ps, pm = "total")

\* D4 as found: decoding the serial of a stored key with an empty serial suffix panics
ScanFails(spans) == ZeroSerialPanics /\ \E i \in DOMAIN spans : \E k \in spans[i].scanned : k[2] \in ZeroSerials

ListRes(r, f, ps, pm) ==
    IF IsDirect(f)
    THEN IF f.s \notin Serials       \* a spelled serial that names no class: nothing; not a decimal number: refused
         THEN [ok |-> f.s # "invalid", pages |-> IF f.s = "invalid" THEN << >> ELSE << << >> >>]
         ELSE
         [ok |-> TRUE,
          pages |-> << IF Registered(r, f.o, f.s) /\ Hit(r, f, <<f.o, f.s>>)
                       THEN << Item(r, <<f.o, f.s>>) >> ELSE << >> >>]
    ELSE LET sp == PageSpans(r, f, ps, pm) IN
         [ok |-> ~ScanFails(sp), pages |-> [i \in DOMAIN sp |-> sp[i].items]]

IterRes(r, f) == ListRes(r, [f EXCEPT !.s = ""], 0, "key")
GetRes(r, o, s) ==
    [ok |-> TRUE, pages |-> << IF Registered(r, o, s) THEN << Item(r, <<o, s>>) >> ELSE << >> >>]

QRec(kind, f, ps, pm, res) == [k |-> kind, f |-> f, ps |-> ps, pm |-> pm, ok |-> res.ok, pages |-> res.pages]

List(f, ps, pm) == out' = QRec("list", f, ps, pm, ListRes(reg, f, ps, pm)) /\ UNCHANGED reg
\* lookup by owner and a SPELLED serial: the filter is what the decimal reading names
Lookup(o, spl)  == List([o |-> o, s |-> spl.rd, st |-> ""], 0, "key")
Iter(f)     == out' = QRec("iter", f, 0, "key", IterRes(reg, f)) /\ UNCHANGED reg
Get(o, s)   == out' = QRec("get", [o |-> o, s |-> s, st |-> ""], 0, "key", GetRes(reg, o, s)) /\ UNCHANGED reg

\* what the specification says a recorded query must have returned
SpecRes(r, q) ==
    CASE q.k = "list" -> ListRes(r, q.f, q.ps, q.pm)
      [] q.k = "iter" -> IterRes(r, q.f)
      [] q.k = "get"  -> GetRes(r, q.f.o, q.f.s)

-----------------------------------------------------------------------------
Init == reg = InitReg /\ out = [k |-> "init"]

MsgNext ==
    \/ \E signer \in Owners, mo \in Owners, cn \in Owners, s \in Serials, b \in Bodies :
          /\ b \in ForeignBodies => s \in ForeignSerials
          /\ b = 1 \/ b \in ForeignBodies \/ Registered(reg, cn, s)  \* self-issued bodies are interchangeable: the
                                                                   \* first of them to be registered is body 1
          /\ signer = mo \/ cn = mo                   \* a foreign signature is tried on well-formed messages only
          /\ CreateOK(reg, signer, mo, cn, s) => Ops(reg) < MaxOps
          /\ Create(signer, mo, cn, s, b)
    \/ \E signer \in Owners, o \in Owners, spl \in Spellings :
          /\ RevokeOK(reg, signer, o, spl.rd) => Ops(reg) < MaxOps
          /\ Revoke(signer, o, spl)

QueryNext ==
    /\ WithQueries
    /\ \/ \E f \in Filters, ps \in PageSizes, pm \in PageModes :
             /\ pm # "key" => (ps > 0 /\ f.s = "")   \* the other paging styles on the iterating listings only
             /\ List(f, ps, pm)
       \/ \E f \in Filters : f.s = "" /\ Iter(f)
       \/ \E o \in Owners, s \in Serials : Get(o, s)
       \/ \E o \in Owners, spl \in Spellings : spl.sp # "" /\ Lookup(o, spl)

Next == MsgNext \/ QueryNext
Spec == Init /\ [][Next]_vars

-----------------------------------------------------------------------------
(* C17, clause by clause.                                                   *)

\* "registered only by the account named in it": an entry appears only through a create transaction signed by
\* the account the certificate names, and it is that certificate, valid
StepRegister(r, r2, a) ==
    \A o \in Owners, s \in Serials :
        (~Registered(r, o, s) /\ Registered(r2, o, s)) =>
            /\ a.k = "create" /\ a.signer = o /\ a.o = o /\ a.s = s
            /\ r2[o][s] = [st |-> "valid", b |-> a.b]

\* "at most once per owner and serial ... never removed": what is registered stays, as the same certificate
StepOnce(r, r2, a) ==
    \A o \in Owners, s \in Serials :
        Registered(r, o, s) => Registered(r2, o, s) /\ r2[o][s].b = r[o][s].b

\* "state only ever moves from valid to revoked"
StepMonotone(r, r2, a) ==
    \A o \in Owners, s \in Serials :
        /\ r[o][s].st = "revoked" => r2[o][s].st = "revoked"
        /\ r[o][s].st = "valid" => r2[o][s].st \in {"valid", "revoked"}

\* "only at its owner's request"
StepRevoke(r, r2, a) ==
    \A o \in Owners, s \in Serials :
        (r[o][s].st = "valid" /\ r2[o][s].st = "revoked") =>
            a.k = "revoke" /\ a.signer = o /\ a.o = o /\ a.s = s

\* C06 (judged for the chain family by cert.extra_stage): a create / revoke changes no record other than the
\* owner+serial it names -- create: the message's Owner and the certificate's serial; revoke: the id's owner and
\* what the DECIMAL reading of the spelled serial names -- and so no record of another owner
StepTouch(r, r2, a) ==
    \A o \in Owners, s \in Serials :
        r2[o][s] # r[o][s] =>
            /\ a.k \in {"create", "revoke"}
            /\ s = a.s
            /\ o = IF a.k = "create" THEN a.mo ELSE a.o

\* a query never changes the registry
StepQuery(r, r2, a) == a.k \in QueryKinds => r2 = r

StepProps(r, r2, a) ==
    StepRegister(r, r2, a) /\ StepOnce(r, r2, a) /\ StepMonotone(r, r2, a) /\ StepRevoke(r, r2, a)
    /\ StepQuery(r, r2, a)

\* "listings never fail" (a request whose serial is not a decimal number may be refused)
QTotal(q) == q.ok \/ (q.k = "list" /\ q.f.s = "invalid")

RECURSIVE Flat(_)
Flat(pages) == IF pages = << >> THEN << >> ELSE Head(pages) \o Flat(Tail(pages))

FilterMatches(q, o, s, st) ==
    IF q.k = "get" THEN q.f.o = o /\ q.f.s = s
    ELSE (q.f.o = "" \/ q.f.o = o) /\ (q.f.s = "" \/ q.f.s = s) /\ (q.f.st = "" \/ q.f.st = st)

\* "can be found by owner and serial and appears, with its correct serial and state, in every listing whose
\* filter it matches" -- exactly once in the union of the pages (DESIGN 5.1)
QComplete(r, q) ==
    q.ok =>
        LET items == Flat(q.pages) IN
        \A o \in Owners, s \in Serials :
            (Registered(r, o, s) /\ FilterMatches(q, o, s, r[o][s].st)) =>
                LET occ == {i \in DOMAIN items : items[i].o = o /\ items[i].s = s} IN
                /\ Cardinality(occ) = 1
                /\ \A i \in occ : items[i].rs = s /\ items[i].st = r[o][s].st /\ items[i].b = r[o][s].b

\* "found by owner and serial": a lookup by owner and serial (the keeper's GetCertificateByID, the listing with
\* both owner and serial set) yields nothing but the certificate registered under that owner and serial
QLookupExact(r, q) ==
    (q.ok /\ (q.k = "get" \/ (q.k = "list" /\ IsDirect(q.f)))) =>
        LET items == Flat(q.pages) IN
        \A i \in DOMAIN items :
            /\ items[i].o = q.f.o /\ items[i].s = q.f.s /\ q.f.s \in Serials
            /\ Registered(r, q.f.o, q.f.s) /\ items[i].b = r[q.f.o][q.f.s].b

TypeOK ==
    /\ reg \in [Owners -> [Serials -> Entry]]
    /\ out.k \in {"init", "create", "revoke"} \cup QueryKinds

Inv_ListingsTotal   == out.k \in QueryKinds => QTotal(out)
Inv_ListingComplete == out.k \in QueryKinds => QComplete(reg, out)
Inv_QueryIsFunction == out.k \in QueryKinds => [ok |-> out.ok, pages |-> out.pages] = SpecRes(reg, out)

Prop_Steps == [][StepProps(reg, reg', out') /\ StepTouch(reg, reg', out')]_vars

\* the query clauses as an action property (what a query step leaves in out'): TLC evaluates it on every
\* generated successor, also when the ghost variable out is hidden by a VIEW
QProps(r, q) == QTotal(q) /\ QComplete(r, q) /\ QLookupExact(r, q)
Prop_Queries == [][out'.k \in QueryKinds =>
                      /\ QProps(reg', out')
                      /\ [ok |-> out'.ok, pages |-> out'.pages] = SpecRes(reg', out')]_vars
=============================================================================
