\* C06 stage for the chain family (cert.extra_stage): signer of certificate transactions, records they touch
SPECIFICATION TraceSpec
CONSTANTS
    Owners = {"A", "B"}
    Serials = {"z0", "s1", "s256", "s2e64"}
    Bodies = {1, 2, 3}
    ForeignBodies = {3}
    ForeignSerials = {"s1"}
    KeySeq <- KeySeqGen
    Spellings <- SpellingsGen
    ZeroSerials = {"z0"}
    Impl = "asfound"
    ZeroSerialPanics = FALSE
    MaxOps = 0
    PageSizes = {0, 1, 2}
    PageModes = {"key", "total", "offset"}
    WithQueries = TRUE
INVARIANTS T_C06_Signers
PROPERTIES T_C06_Touch
POSTCONDITION T_AllConsumed
CHECK_DEADLOCK FALSE
