\* as found (before the fix): TLC must report Prop_Queries violated (D4)
SPECIFICATION Spec
CONSTANTS
    Owners = {"A", "B"}
    Serials = {"z0", "s1", "s256", "s2e64"}
    Bodies = {1, 2}
    KeySeq <- KeySeqGen
    ZeroSerials = {"z0"}
    Impl = "asfound"
    MaxOps = 4
    PageSizes = {0, 1, 2}
    WithQueries = TRUE
VIEW RegView
INVARIANTS TypeOK
PROPERTIES Prop_Steps Prop_Queries
CHECK_DEADLOCK FALSE
