\* J2: export every edge of the bounded transaction graph (queries off, ghost output hidden by the VIEW)
SPECIFICATION Spec
CONSTANTS
    Owners = {"A", "B"}
    Serials = {"z0", "s1", "s256", "s2e64"}
    Bodies = {1, 2, 3}
    ForeignBodies = {3}
    ForeignSerials = {"s1"}
    KeySeq <- KeySeqGen
    Spellings <- SpellingsGen
    ZeroSerials = {"z0"}
    Impl = "intended"
    ZeroSerialPanics = FALSE
    MaxOps = 4
    PageSizes = {0, 1, 2}
    PageModes = {"key", "total", "offset"}
    WithQueries = FALSE
VIEW RegView
ACTION_CONSTRAINT ExportEdge
CHECK_DEADLOCK FALSE
