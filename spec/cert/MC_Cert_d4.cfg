\* defect D4 as found before fix fe8a768 (serial 0 => listings panic): TLC must report Prop_Queries violated
SPECIFICATION Spec
CONSTANTS
    Owners = {"A", "B"}
    Serials = {"z0", "s1", "s256", "s2e64"}
    Bodies = {1, 2, 3}
    ForeignBodies = {3}
    ForeignSerials = {"s1"}
    KeySeq <- KeySeqGen
    Spellings <- SpellingsGen
    ZeroSerials = {"z0"}
    Impl = "intended"
    ZeroSerialPanics = TRUE
    MaxOps = 4
    PageSizes = {0, 1, 2}
    PageModes = {"key", "total", "offset"}
    WithQueries = TRUE
VIEW RegView
INVARIANTS TypeOK
PROPERTIES Prop_Steps Prop_Queries
CHECK_DEADLOCK FALSE
