------------------------------ MODULE CertKeys ------------------------------
(* Store order of all <<owner, serial>> pairs (key = 0x01 | owner | big-endian serial bytes). This file is    *)
(* the default for owners A < B and the serial classes of the shipped configs; the check regenerates it from  *)
(* the harness' `vh cert info` (real addresses, real serial encodings) for the classes of each run.           *)
KeySeqGen ==
    << <<"A","z0">>, <<"A","s1">>, <<"A","s256">>, <<"A","s2e64">>,
       <<"B","z0">>, <<"B","s1">>, <<"B","s256">>, <<"B","s2e64">> >>
\* spellings of serials in requests; the default is the canonical decimal of every class
SpellingsGen == { [sp |-> "", rd |-> s] : s \in {"z0", "s1", "s256", "s2e64"} }
=============================================================================
