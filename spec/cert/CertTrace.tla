----------------------------- MODULE CertTrace -----------------------------
(***************************************************************************)
(* J3: validation of traces recorded from the real code (harness/certh).   *)
(*                                                                         *)
(* One ndjson line per step:                                               *)
(*   ev     "load" (continue from a registry state reached earlier / the   *)
(*          empty one) | "create" | "revoke"                               *)
(*   signer, mo, o, s, b, ok   the transaction and whether it was accepted *)
(*   reg    the registry AFTER the step, projected from the raw store      *)
(*          (list of [o, s, st, b] decided from the stored certificate)    *)
(*   q      results of every query run on that state (possibly empty)      *)
(*                                                                         *)
(* The variables reg / out always take the OBSERVED values, and            *)
(*  (i)  the property definitions of Cert.tla are evaluated on them        *)
(*       (T_Steps, T_NamedAccount, T_Unique, T_ListingsTotal, T_LookupExact,  *)
(*       T_ListingComplete): verdict; *)
(*  (ii) every step and query result is compared with what the spec's      *)
(*       action yields from the previous observed registry: mismatches are *)
(*       counted in `drift` and printed, never fatal.                      *)
(* Listings paged with count_total are judged by the same QComplete but    *)
(* reported through the counter `ctfail` (see IsCT below).                 *)
(***************************************************************************)
EXTENDS Cert, CertKeys, Json

VARIABLES l, drift, ctfail
tvars == <<reg, out, l, drift, ctfail>>

Trace == ndJsonDeserialize("trace.ndjson")

\* Where a record counts as registered: under the owner+serial its store key names (ko, ks: decoded by the
\* harness from the raw key by the documented layout), or, when the key follows some other layout ("?"), under
\* the owner+serial of the certificate it holds. A record that holds a certificate of another owner / serial
\* than the place it is registered under has body Foreign.
PlaceOf(e) == IF e.ko # "?" /\ e.ks # "?" THEN <<e.ko, e.ks>> ELSE <<e.o, e.s>>

RegOf(ents) ==
    [o \in Owners |-> [s \in Serials |->
        LET m == {i \in DOMAIN ents : PlaceOf(ents[i]) = <<o, s>>} IN
        IF m = {} THEN NoEntry
        ELSE LET i == CHOOSE i \in m : \A j \in m : i <= j IN
             [st |-> ents[i].st, b |-> IF <<ents[i].o, ents[i].s>> = <<o, s>> THEN ents[i].b ELSE Foreign]]]

\* "at most once per owner and serial": no two store records hold a certificate of the same owner and serial,
\* no two are registered under the same owner and serial
ProjUnique(ents) ==
    \A i \in DOMAIN ents, j \in DOMAIN ents :
        (ents[i].o = ents[j].o /\ ents[i].s = ents[j].s) \/ PlaceOf(ents[i]) = PlaceOf(ents[j]) => i = j

\* "registered ... by the account named in it": what is registered under an owner and serial is a certificate
\* that names that owner (subject) and carries that serial
ProjNamed(ents) == \A i \in DOMAIN ents : PlaceOf(ents[i]) = <<ents[i].o, ents[i].s>>

\* e.s of a revoke is the class the DECIMAL reading of the spelled serial names (decided by the check)
ActOf(e) == [k |-> e.ev, signer |-> e.signer, mo |-> e.mo, o |-> e.o, s |-> e.s, b |-> e.b, sp |-> e.sp, ok |-> e.ok]

StepConforms(r, e, r2) ==
    CASE e.ev = "create" -> /\ e.ok = CreateOK(r, e.signer, e.mo, e.o, e.s)
                            /\ r2 = CreateReg(r, e.signer, e.mo, e.o, e.s, e.b)
      [] e.ev = "revoke" -> /\ e.ok = RevokeOK(r, e.signer, e.o, e.s)
                            /\ r2 = RevokeReg(r, e.signer, e.o, e.s)
      [] OTHER -> TRUE

QConforms(r, q) == LET sp == SpecRes(r, q) IN q.ok = sp.ok /\ (q.ok => q.pages = sp.pages)

Count(b, msg) == IF b THEN 0 ELSE IF PrintT(msg) THEN 1 ELSE 1

RECURSIVE QDrift(_, _, _, _)
QDrift(r, qs, i, n) ==
    IF i > Len(qs) THEN 0
    ELSE Count(QConforms(r, qs[i]), <<"DRIFT", "query", n, i, qs[i].k, qs[i].f, qs[i].ps>>) + QDrift(r, qs, i + 1, n)

\* Listings paged with count_total are judged here, without stopping TLC: the known finding (a certificate is
\* skipped, exactly as the as-found pagination model says) must not hide any other violation. Every false
\* QComplete is printed, tagged "asfound" when the recorded result is the one Impl = "asfound" yields.
IsCT(q) == q.k = "list" /\ q.pm = "total"

RECURSIVE CTFails(_, _, _, _)
CTFails(r, qs, i, n) ==
    IF i > Len(qs) THEN 0
    ELSE (IF IsCT(qs[i])
          THEN Count(QComplete(r, qs[i]),
                     <<"CTFAIL", IF QConforms(r, qs[i]) THEN "asfound" ELSE "other", n, i>>)
          ELSE 0) + CTFails(r, qs, i + 1, n)

TraceInit == l = 0 /\ drift = 0 /\ ctfail = 0 /\ reg = InitReg /\ out = [k |-> "init"]

TraceNext ==
    /\ l < Len(Trace)
    /\ l' = l + 1
    /\ LET e == Trace[l'] IN
        /\ reg' = RegOf(e.reg)
        /\ out' = IF e.ev = "load" THEN [k |-> "load"] ELSE ActOf(e)
        /\ drift' = drift
                    + Count(StepConforms(reg, e, reg'), <<"DRIFT", "step", l', ActOf(e)>>)
                    + QDrift(reg', e.q, 1, l')
        /\ ctfail' = ctfail + CTFails(reg', e.q, 1, l')
        /\ l' = Len(Trace) => PrintT(<<"DRIFT_TOTAL", drift', ctfail'>>)

TraceSpec == TraceInit /\ [][TraceNext]_tvars

\* (i) the C17 definitions on what was observed
T_Steps == [][out'.k = "load" \/ StepProps(reg, reg', out')]_tvars

Fail(name, i) == PrintT(<<"QFAIL", name, l, i>>) /\ FALSE

T_Unique == l > 0 => ProjUnique(Trace[l].reg)
T_NamedAccount == l > 0 => ProjNamed(Trace[l].reg)
T_ListingsTotal ==
    l > 0 => \A i \in DOMAIN Trace[l].q : QTotal(Trace[l].q[i]) \/ Fail("ListingsTotal", i)
T_LookupExact ==
    l > 0 => \A i \in DOMAIN Trace[l].q : QLookupExact(reg, Trace[l].q[i]) \/ Fail("LookupExact", i)
T_ListingComplete ==
    l > 0 => \A i \in DOMAIN Trace[l].q :
                IsCT(Trace[l].q[i]) \/ QComplete(reg, Trace[l].q[i]) \/ Fail("ListingComplete", i)

\* C06 on what was observed (cert.extra_stage("C06")): the message requires exactly the signature of the owner it
\* names (create: Owner field; revoke: the id's owner), and touches only the record it names
T_C06_Signers ==
    (l > 0 /\ Trace[l].ev \in {"create", "revoke"}) =>
        Trace[l].signers = << IF Trace[l].ev = "create" THEN Trace[l].mo ELSE Trace[l].o >>
T_C06_Touch == [][out'.k = "load" \/ StepTouch(reg, reg', out')]_tvars

\* C07 on what was observed (cert.extra_stage("C07")): every execution of the step -- repetitions on sibling
\* branches, before and after the wall clock passed the timed certificates' validity edge, in two application
\* instances -- gave the same digest of result, gas, events and store bytes
T_Deterministic ==
    l > 0 => \A i \in DOMAIN Trace[l].digests, j \in DOMAIN Trace[l].digests : Trace[l].digests[i] = Trace[l].digests[j]

\* every recorded line was consumed
T_AllConsumed == TLCGet("stats").diameter = Len(Trace) + 1
=============================================================================
