------------------------------- MODULE CertMC -------------------------------
(* Model-checking wrapper of Cert.tla: constants as definitions (overridable from generated cfg files),   *)
(* the VIEW that hides the ghost output, and the edge export used for behaviour generation (J2).          *)
EXTENDS Cert, CertKeys, Json

RegView == reg

\* always true; its only effect is to print the edge (from, action, to) once per generated successor
\* registries are printed compactly: one code per position of KeySeq (0 none, 10+b valid, 20+b revoked)
Enc(r) == [i \in 1..Len(KeySeq) |->
             LET e == r[KeySeq[i][1]][KeySeq[i][2]] IN
             IF e.st = "none" THEN 0 ELSE (IF e.st = "valid" THEN 10 ELSE 20) + e.b]
ExportEdge == PrintT(ToJson([from |-> Enc(reg), act |-> out', to |-> Enc(reg')]))
=============================================================================
