\* J3 (the check regenerates the constants of each run; this is the default for the shipped 4 serial classes)
SPECIFICATION TraceSpec
CONSTANTS
    Owners = {"A", "B"}
    Serials = {"z0", "s1", "s256", "s2e64"}
    Bodies = {1, 2, 3}
    ForeignBodies = {3}
    ForeignSerials = {"s1"}
    KeySeq <- KeySeqGen
    Spellings <- SpellingsGen
    ZeroSerials = {"z0"}
    Impl = "asfound"
    ZeroSerialPanics = FALSE
    MaxOps = 0
    PageSizes = {0, 1, 2}
    PageModes = {"key", "total", "offset"}
    WithQueries = TRUE
INVARIANTS T_NamedAccount T_Unique T_ListingsTotal T_LookupExact T_ListingComplete
PROPERTIES T_Steps
POSTCONDITION T_AllConsumed
CHECK_DEADLOCK FALSE
