------------------------------- MODULE BidEngine -------------------------------
(***************************************************************************)
(* The order monitor of the provider bid engine                            *)
(* (provider/bidengine/order.go, func (o *order) run) for ONE order.       *)
(*                                                                         *)
(* One action per `select` case of the loop (Case...), one action per call *)
(* the exit path makes (XUnres.., XClose..), Finish for termination; the   *)
(* environment starts the call of a launched async operation (CallStart),  *)
(* completes it with a result (Complete), delivers chain events (Deliver), *)
(* fires the bid timeout (FireTimer), requests shutdown (Shutdown).        *)
(*                                                                         *)
(* Property C13 is written over the ghost call log `log` (Reserve /        *)
(* Unreserve / CreateBid(price) / CloseBid with start and end marks) and   *)
(* the fact `leaseOurs` (a lease for this order was created for us).       *)
(* The same operators are evaluated by BidEngineTrace.tla on call logs     *)
(* recorded from the real code.                                            *)
(***************************************************************************)
EXTENDS Integers, Sequences, FiniteSets, TLC

CONSTANTS
    Impl,        \* "intended": the exit path consumes results still in flight and undoes them
                 \* "asfound" : the exit path cleans up first and then discards results (snapshot 3b65494)
    Quiet,       \* TRUE: the environment acts only when the monitor is blocked with nothing ready
                 \*       (the schedules the harness forces); FALSE: any interleaving (Go select picks any ready case)
    Record,      \* TRUE: keep the stimulus history `hist` (behaviour export for replay)
    MaxFail,     \* injected failures per behaviour
    MaxIgnored,  \* ignorable events (lease of another group, another order closed, duplicate order-created) per behaviour
    MaxQ,        \* bound on events delivered to the subscription and not yet consumed
    MaxPrice,    \* the order's maximum price
    Prices,      \* answers the pricing strategy may give
    Modes,       \* subset of {"fresh", "catchup"}
    Kinds,       \* subset of EvKinds the environment may deliver
    ErrKinds,    \* shapes of a FAILED existing-bid lookup (1 plain client error, 2 context deadline exceeded,
                 \* 3 gRPC status Unavailable, 4 gRPC status Unknown without the "bid not found" text)
    NfKinds,     \* shapes of the "no such bid" answer (1 plain error with the text, 2 status NotFound + text,
                 \* 3 status Unknown + text).  The code as built tells the two apart by the text only.
    TimeoutCfgs, \* subset of BOOLEAN: is a bid timeout configured (Config.BidTimeout > 0)
    Lax          \* TRUE (trace validation only): also allow the stimuli that cannot matter any more -- events,
                 \* shutdown, timer and answers of calls nobody waits for after the loop has exited

ASSUME Impl \in {"intended", "asfound"}
ASSUME Quiet \in BOOLEAN /\ Record \in BOOLEAN /\ Lax \in BOOLEAN

Ops == {"qbid", "group", "should", "reserve", "price", "bcast"}

CallName(o) == CASE o = "qbid"    -> "Bid"
                 [] o = "group"   -> "Group"
                 [] o = "should"  -> "Auditor"
                 [] o = "reserve" -> "Reserve"
                 [] o = "price"   -> "Price"
                 [] o = "bcast"   -> "CreateBid"

\* the existing-bid query of a catch-up order answers with this provider's bid in one of its chain states
\* (open; active = matched by a lease; lost; closed), or "not found", or fails
FoundStates == {"open", "active", "lost", "closed"}
\* "err": the lookup failed and no bid of ours is on chain; "errbid": it failed while a bid of ours IS on chain
LookupFailed == {"err", "errbid"}
Results(o) == CASE o = "qbid"   -> FoundStates \cup {"notfound"} \cup LookupFailed
                [] o = "group"  -> {"ok", "err"}
                [] o = "should" -> {"yes", "no", "err"}
                [] OTHER        -> {"ok", "err"}

\* closed: this order closed; lost / won: lease created for another provider / for us; other: lease of another
\* group; xclosed: another order closed; created: the order-created event of this very order seen again (the
\* service must not start a second monitor for it, the monitor itself ignores it)
\* xowner / xownerp: a lease of ANOTHER tenant's order with the same dseq/gseq/oseq, to this provider / to another
\* provider (dseq defaults to the block height: two tenants deploying in one block collide); xdseq: a lease of another
\* deployment of the same tenant with the same gseq/oseq, to this provider.  None of them is a lease of this order.
EvKinds == {"closed", "lost", "won", "other", "xclosed", "created", "xowner", "xownerp", "xdseq"}
Ignorable == {"other", "xclosed", "created", "xowner", "xownerp", "xdseq"}

VARIABLES
    pc,          \* "loop" | "exit" | "x_unres" | "exit_u" | "x_close" | "exit_c" | "done"
    op,          \* [Ops -> "none" | "launched" | "run" | <result> | "used" | "aborted"]
    parked,      \* the group result channel is parked behind the existing-bid query (storedGroupCh)
    evq,         \* events delivered to the monitor's subscription, not yet consumed
    shut,        \* provider shutdown requested
    timer,       \* "off" | "armed" | "fired"
    bidPlaced, reservation, won,     \* the loop's locals
    priceVal,    \* answer of the pricing strategy (0: none)
    bidPrice,    \* price put in MsgCreateBid (0: none)
    log,         \* ghost: call log
    nfail, nign, \* budgets used
    chainBid,    \* ghost: an open bid of ours exists on chain (found open at catch-up or broadcast accepted)
    leased,      \* ghost: the order's lease has been created (for us or another provider)
    leaseOurs,   \* ghost: ... for us
    hist,        \* ghost: stimuli in order (only when Record)
    mode,        \* "fresh" | "catchup"
    tcfg         \* a bid timeout is configured

vars == <<pc, op, parked, evq, shut, timer, bidPlaced, reservation, won, priceVal, bidPrice,
          log, nfail, nign, chainBid, leased, leaseOurs, hist, mode, tcfg>>

-----------------------------------------------------------------------------
(* C13, over any call log lg (sequence of [c, ph, r, price]) *)

Starts(lg, c) == {i \in DOMAIN lg : lg[i].c = c /\ lg[i].ph = "start"}
OkEnds(lg, c) == {i \in DOMAIN lg : lg[i].c = c /\ lg[i].ph = "end" /\ lg[i].r = "ok"}

\* at most one bid is submitted for the order: the bid broadcasts of this monitor plus the bid this provider
\* already has on the order (the existing-bid query of a catch-up order answered with one, in whatever state)
\* ... or the chain holds one although the lookup failed ("errbid"); a failed lookup with no bid on chain ("err")
\* followed by a bid is harmless and not counted
FoundBids(lg) == {i \in DOMAIN lg : lg[i].c = "Bid" /\ lg[i].ph = "end" /\ lg[i].r \in FoundStates \cup {"errbid"}}
AtMostOneBid(lg) == Cardinality(Starts(lg, "CreateBid")) + Cardinality(FoundBids(lg)) <= 1
\* never above the order's maximum price
BidBounded(lg, mx) == \A i \in Starts(lg, "CreateBid") : lg[i].price <= mx
\* only after resources were reserved
BidAfterReserve(lg) == \A i \in Starts(lg, "CreateBid") : \E j \in OkEnds(lg, "Reserve") : j < i
\* every reservation made has been released
ReservationsReleased(lg) == \A i \in OkEnds(lg, "Reserve") : \E j \in Starts(lg, "Unreserve") : j > i
\* bids it placed that need closing: an accepted CreateBid broadcast, or its bid found OPEN on chain at catch-up
\* (the monitor has consumed the answer of the existing-bid query: entry "Bid"/"seen"; an answer still in flight
\* when the order ends is not yet a bid the monitor knows of; a bid found closed / lost / active needs no
\* close-bid -- the weaker readings; the code as it stands closes those too, which is allowed)
PlacedBids(lg) == OkEnds(lg, "CreateBid") \cup
                  {i \in DOMAIN lg : lg[i].c = "Bid" /\ lg[i].ph = "seen" /\ lg[i].r = "open"}
\* a close-bid transaction has been submitted for any bid it placed
BidsClosed(lg) == \A i \in PlacedBids(lg) : \E j \in Starts(lg, "CloseBid") : j > i

C13Safe(lg, mx) == AtMostOneBid(lg) /\ BidBounded(lg, mx) /\ BidAfterReserve(lg)
\* when handling ends without the provider having won the lease ...
C13End(lg, ours) == ours \/ (ReservationsReleased(lg) /\ BidsClosed(lg))

-----------------------------------------------------------------------------
H(tok) == IF Record THEN Append(hist, tok) ELSE hist
\* the ghost log keeps the calls C13 talks about (Reserve / CreateBid here; Unreserve / CloseBid in the exit path)
Logged(o) == o \in {"reserve", "bcast", "qbid"}
Entry(c, ph, r, p) == [c |-> c, ph |-> ph, r |-> r, price |-> p]

InFlight(o)   == op[o] \in {"launched", "run"}
Unconsumed(o) == op[o] \notin {"none", "used", "aborted"}
Ready(o)      == Unconsumed(o) /\ ~InFlight(o)
Selectable(o) == Ready(o) /\ (o = "group" => ~parked)
Use(o)        == [op EXCEPT ![o] = "used"]

\* channels the exit path waits for: groupch (nil while parked), clusterch, bidch, pricech
DrainWait(o) == /\ o \in {"group", "reserve", "bcast", "price"}
                /\ (o = "group" => ~parked)
                /\ InFlight(o)
Settled == \A o \in Ops : ~DrainWait(o)

Late      == Impl = "intended"   \* results that arrive after the loop exited are consumed and undone
WaitFirst == Impl = "intended"   \* ... so the exit path waits for them before cleaning up
HasRes == reservation \/ (Late /\ op["reserve"] = "ok")
HasBid == bidPlaced   \/ (Late /\ op["bcast"] = "ok")

XUnresStartEnabled == pc = "exit" /\ (WaitFirst => Settled) /\ ~won /\ HasRes
XCloseStartEnabled == /\ pc \in {"exit", "exit_u"} /\ (WaitFirst => Settled) /\ ~won /\ HasBid
                      /\ (pc = "exit" => ~HasRes)
FinishEnabled == /\ pc \in {"exit", "exit_u", "exit_c"} /\ Settled
                 /\ (pc = "exit" => (won \/ (~HasRes /\ ~HasBid)))
                 /\ (pc = "exit_u" => ~HasBid)

LoopReady == \/ shut
             \/ \E o \in Ops : Selectable(o)
             \/ evq # <<>>
             \/ timer = "fired"

\* something other than the environment can move
Busy == \/ \E o \in Ops : op[o] = "launched"
        \/ pc = "loop" /\ LoopReady
        \/ pc \in {"x_unres", "x_close"}
        \/ XUnresStartEnabled \/ XCloseStartEnabled \/ FinishEnabled

EnvOK == Quiet => (~Busy /\ pc # "done")

-----------------------------------------------------------------------------
InitFor(m, t) ==
    /\ mode = m /\ tcfg = t
    /\ pc = "loop"
    /\ op = [o \in Ops |-> IF o = "group" \/ (o = "qbid" /\ m = "catchup") THEN "launched" ELSE "none"]
    /\ parked = (m = "catchup")
    /\ evq = <<>> /\ shut = FALSE /\ timer = "off"
    /\ bidPlaced = FALSE /\ reservation = FALSE /\ won = FALSE
    /\ priceVal = 0 /\ bidPrice = 0
    /\ log = <<>> /\ nfail = 0 /\ nign = 0
    /\ chainBid = FALSE /\ leased = FALSE /\ leaseOurs = FALSE
    /\ hist = IF Record THEN <<[a |-> "begin", mode |-> m, tcfg |-> t]>> ELSE <<>>

Init == \E m \in Modes, t \in TimeoutCfgs : InitFor(m, t)

\* the same values as a step (used by the trace spec to start the next recorded trace)
Reset(m, t) ==
    /\ mode' = m /\ tcfg' = t
    /\ pc' = "loop"
    /\ op' = [o \in Ops |-> IF o = "group" \/ (o = "qbid" /\ m = "catchup") THEN "launched" ELSE "none"]
    /\ parked' = (m = "catchup")
    /\ evq' = <<>> /\ shut' = FALSE /\ timer' = "off"
    /\ bidPlaced' = FALSE /\ reservation' = FALSE /\ won' = FALSE
    /\ priceVal' = 0 /\ bidPrice' = 0
    /\ log' = <<>> /\ nfail' = 0 /\ nign' = 0
    /\ chainBid' = FALSE /\ leased' = FALSE /\ leaseOurs' = FALSE
    /\ hist' = <<>>

-----------------------------------------------------------------------------
(* Environment *)

\* the runner goroutine of a launched operation reaches the neighbour (query / cluster / pricing / tx client)
CallStart(o) ==
    /\ \/ op[o] = "launched" /\ op' = [op EXCEPT ![o] = "run"]
       \/ o = "should" /\ op[o] = "aborted" /\ Lax /\ op' = op   \* request accepted by the attribute service while it shuts down
    /\ log' = IF Logged(o) THEN Append(log, Entry(CallName(o), "start", "", IF o = "bcast" THEN bidPrice ELSE 0)) ELSE log
    /\ UNCHANGED <<pc, parked, evq, shut, timer, bidPlaced, reservation, won, priceVal, bidPrice,
                   nfail, nign, chainBid, leased, leaseOurs, hist, mode, tcfg>>

\* the neighbour answers. p is the price for a successful pricing, else 0
Complete(o, r, p) ==
    /\ EnvOK
    /\ r \in Results(o)
    /\ CASE o = "price" /\ r = "ok"          -> p \in Prices
         [] o = "qbid" /\ r \in LookupFailed -> p \in ErrKinds
         [] o = "qbid" /\ r = "notfound"     -> p \in NfKinds
         [] OTHER                            -> p = 0
    /\ \/ op[o] = "run" /\ op' = [op EXCEPT ![o] = r]
       \/ o = "should" /\ op[o] = "aborted" /\ Lax /\ op' = op   \* the answer nobody waits for any more
    /\ (~Lax /\ pc # "loop") => DrainWait(o)           \* after the loop: only answers the exit path waits for matter
    /\ LET free == (pc # "loop" /\ o # "reserve") \/ (o = "should" /\ shut)   \* cancelled context / service shutting down
       IN  nfail' = IF r \in LookupFailed /\ ~free THEN nfail + 1 ELSE nfail
    /\ nfail' <= MaxFail
    /\ priceVal' = IF o = "price" /\ r = "ok" THEN p ELSE priceVal
    /\ chainBid' = (chainBid \/ (o = "qbid" /\ r \in {"open", "errbid"}) \/ (o = "bcast" /\ r = "ok"))
    /\ leased' = (leased \/ (o = "qbid" /\ r \in {"active", "lost"}))        \* the order's lease exists already
    /\ leaseOurs' = (leaseOurs \/ (o = "qbid" /\ r = "active"))              \* ... and it is ours
    /\ log' = IF Logged(o) THEN Append(log, Entry(CallName(o), "end", r, p)) ELSE log
    /\ hist' = H([a |-> "complete", o |-> o, r |-> r, p |-> p])
    /\ UNCHANGED <<pc, parked, evq, shut, timer, bidPlaced, reservation, won, bidPrice,
                   nign, mode, tcfg>>

\* a chain event reaches the monitor's subscription
Deliver(k) ==
    /\ EnvOK
    /\ k \in Kinds
    /\ ~Lax => pc = "loop"
    /\ Len(evq) < MaxQ
    /\ k = "won" => chainBid                 \* a lease is created from an open bid
    /\ k \in {"won", "lost"} => ~leased      \* one lease per order
    /\ k \in Ignorable => nign < MaxIgnored
    /\ nign' = IF k \in Ignorable THEN nign + 1 ELSE nign
    /\ leased' = (leased \/ k \in {"won", "lost"})
    /\ leaseOurs' = (leaseOurs \/ k = "won")
    /\ evq' = IF pc = "loop" THEN Append(evq, k) ELSE evq    \* the subscription is closed on exit
    /\ hist' = H([a |-> "pub", k |-> k])
    /\ UNCHANGED <<pc, op, parked, shut, timer, bidPlaced, reservation, won, priceVal, bidPrice,
                   log, nfail, chainBid, mode, tcfg>>

Shutdown ==
    /\ EnvOK
    /\ ~shut
    /\ ~Lax => pc = "loop"
    /\ shut' = TRUE
    /\ hist' = H([a |-> "shutdown"])
    /\ UNCHANGED <<pc, op, parked, evq, timer, bidPlaced, reservation, won, priceVal, bidPrice,
                   log, nfail, nign, chainBid, leased, leaseOurs, mode, tcfg>>

FireTimer ==
    /\ EnvOK
    /\ timer = "armed"
    /\ ~Lax => pc = "loop"
    /\ timer' = "fired"
    /\ hist' = H([a |-> "fire"])
    /\ UNCHANGED <<pc, op, parked, evq, shut, bidPlaced, reservation, won, priceVal, bidPrice,
                   log, nfail, nign, chainBid, leased, leaseOurs, mode, tcfg>>

-----------------------------------------------------------------------------
(* The select loop: one action per case *)

LoopUnch0 == UNCHANGED <<nfail, nign, chainBid, leased, leaseOurs, hist, mode, tcfg, shut, priceVal>>
LoopUnch == LoopUnch0 /\ UNCHANGED log

CaseShutdown ==
    /\ pc = "loop" /\ shut
    /\ pc' = "exit"
    /\ UNCHANGED <<op, parked, evq, timer, bidPlaced, reservation, won, bidPrice>> /\ LoopUnch

CaseQBid ==
    /\ pc = "loop" /\ Selectable("qbid")
    /\ op' = Use("qbid")
    /\ IF op["qbid"] \in LookupFailed           \* as built: an error without the "bid not found" text stops the monitor
       THEN pc' = "exit" /\ UNCHANGED <<parked, bidPlaced>>
       ELSE /\ pc' = pc
            /\ bidPlaced' = (bidPlaced \/ op["qbid"] \in FoundStates)   \* as the code stands: whatever its state
            /\ parked' = FALSE                        \* allow getting the group result now
    /\ log' = Append(log, Entry("Bid", "seen", op["qbid"], 0))
    /\ UNCHANGED <<evq, timer, reservation, won, bidPrice>> /\ LoopUnch0

CaseEvent ==
    /\ pc = "loop" /\ evq # <<>>
    /\ evq' = Tail(evq)
    /\ LET k == Head(evq) IN
       /\ pc' = IF k \in Ignorable THEN pc ELSE "exit"
       /\ won' = (won \/ k = "won")
    /\ UNCHANGED <<op, parked, timer, bidPlaced, reservation, bidPrice>> /\ LoopUnch

CaseGroup ==
    /\ pc = "loop" /\ Selectable("group")
    /\ IF op["group"] = "err"
       THEN pc' = "exit" /\ op' = Use("group")
       ELSE pc' = pc /\ op' = [op EXCEPT !["group"] = "used", !["should"] = "launched"]
    /\ UNCHANGED <<parked, evq, timer, bidPlaced, reservation, won, bidPrice>> /\ LoopUnch

CaseShould ==
    /\ pc = "loop" /\ Selectable("should")
    /\ \/ op["should"] = "yes" /\ pc' = pc
          /\ op' = [op EXCEPT !["should"] = "used", !["reserve"] = "launched"]
       \/ op["should"] \in {"no", "err"} /\ pc' = "exit" /\ op' = Use("should")
       \/ shut /\ pc' = "exit" /\ op' = Use("should")      \* attribute service shutting down: its error wins
    /\ UNCHANGED <<parked, evq, timer, bidPlaced, reservation, won, bidPrice>> /\ LoopUnch

\* shutdown: the provider-attribute service aborts the eligibility check whose auditor query is outstanding
CaseShouldAborted ==
    /\ pc = "loop" /\ shut /\ InFlight("should")
    /\ pc' = "exit" /\ op' = [op EXCEPT !["should"] = "aborted"]
    /\ UNCHANGED <<parked, evq, timer, bidPlaced, reservation, won, bidPrice>> /\ LoopUnch

CaseReserve ==
    /\ pc = "loop" /\ Selectable("reserve")
    /\ IF op["reserve"] = "err"
       THEN pc' = "exit" /\ op' = Use("reserve") /\ UNCHANGED reservation
       ELSE /\ pc' = pc /\ reservation' = TRUE
            /\ op' = IF bidPlaced THEN Use("reserve")            \* bid recovered at catch-up: wait for events
                     ELSE [op EXCEPT !["reserve"] = "used", !["price"] = "launched"]
    /\ UNCHANGED <<parked, evq, timer, bidPlaced, won, bidPrice>> /\ LoopUnch

CasePrice ==
    /\ pc = "loop" /\ Selectable("price")
    /\ IF op["price"] = "err" \/ priceVal > MaxPrice
       THEN pc' = "exit" /\ op' = Use("price") /\ UNCHANGED bidPrice
       ELSE /\ pc' = pc /\ bidPrice' = priceVal
            /\ op' = [op EXCEPT !["price"] = "used", !["bcast"] = "launched"]
    /\ UNCHANGED <<parked, evq, timer, bidPlaced, reservation, won>> /\ LoopUnch

CaseBcast ==
    /\ pc = "loop" /\ Selectable("bcast")
    /\ op' = Use("bcast")
    /\ IF op["bcast"] = "err"
       THEN pc' = "exit" /\ UNCHANGED <<bidPlaced, timer>>
       ELSE pc' = pc /\ bidPlaced' = TRUE /\ timer' = IF tcfg THEN "armed" ELSE timer
    /\ UNCHANGED <<parked, evq, reservation, won, bidPrice>> /\ LoopUnch

CaseTimeout ==
    /\ pc = "loop" /\ timer = "fired"
    /\ pc' = "exit"
    /\ UNCHANGED <<op, parked, evq, timer, bidPlaced, reservation, won, bidPrice>> /\ LoopUnch

Loop == \/ CaseShutdown \/ CaseQBid \/ CaseEvent \/ CaseGroup \/ CaseShould \/ CaseShouldAborted
        \/ CaseReserve \/ CasePrice \/ CaseBcast \/ CaseTimeout

-----------------------------------------------------------------------------
(* The exit path.  asfound: unreserve a held reservation, close a placed bid, cancel, then wait for and
   discard whatever is still in flight.  intended: cancel, wait for what is in flight, take a late
   reservation / a late accepted bid into account, then unreserve and close. *)

ExitUnch == UNCHANGED <<op, parked, evq, shut, timer, bidPlaced, reservation, won, priceVal, bidPrice,
                        nign, chainBid, leased, leaseOurs, mode, tcfg>>

XUnresStart ==
    /\ XUnresStartEnabled
    /\ pc' = "x_unres"
    /\ log' = Append(log, Entry("Unreserve", "start", "", 0))
    /\ UNCHANGED <<nfail, hist>> /\ ExitUnch

XUnresEnd(r) ==
    /\ pc = "x_unres" /\ r \in {"ok", "err"}
    /\ nfail' = IF r = "err" THEN nfail + 1 ELSE nfail
    /\ nfail' <= MaxFail
    /\ pc' = "exit_u"
    /\ log' = Append(log, Entry("Unreserve", "end", r, 0))
    /\ hist' = H([a |-> "unres", r |-> r])
    /\ ExitUnch

XCloseStart ==
    /\ XCloseStartEnabled
    /\ pc' = "x_close"
    /\ log' = Append(log, Entry("CloseBid", "start", "", 0))
    /\ UNCHANGED <<nfail, hist>> /\ ExitUnch

XCloseEnd(r) ==
    /\ pc = "x_close" /\ r \in {"ok", "err"}
    /\ nfail' = IF r = "err" THEN nfail + 1 ELSE nfail
    /\ nfail' <= MaxFail
    /\ pc' = "exit_c"
    /\ log' = Append(log, Entry("CloseBid", "end", r, 0))
    /\ hist' = H([a |-> "close", r |-> r])
    /\ ExitUnch

Finish ==
    /\ FinishEnabled
    /\ pc' = "done"
    /\ UNCHANGED <<log, nfail, hist>> /\ ExitUnch

ExitPath == XUnresStart \/ XCloseStart \/ Finish \/ \E r \in {"ok", "err"} : XUnresEnd(r) \/ XCloseEnd(r)

-----------------------------------------------------------------------------
Env == \/ \E o \in Ops, r \in {"ok", "err", "errbid", "yes", "no", "notfound"} \cup FoundStates, p \in Prices \cup {0} \cup ErrKinds \cup NfKinds : Complete(o, r, p)
       \/ \E k \in Kinds : Deliver(k)
       \/ Shutdown
       \/ FireTimer

Internal == Loop \/ ExitPath \/ \E o \in Ops : CallStart(o)

Next == Internal \/ Env

Spec == Init /\ [][Next]_vars

\* fairness for the termination check: goroutines run, gates are eventually released
FairSpec == /\ Spec
            /\ WF_vars(Internal)
            /\ \A o \in Ops : WF_vars(\E r \in {"ok", "err", "errbid", "yes", "no", "notfound"} \cup FoundStates, p \in Prices \cup {0} \cup ErrKinds \cup NfKinds : Complete(o, r, p))

-----------------------------------------------------------------------------
(* Properties *)

OpStates == {"none", "launched", "run", "used", "aborted", "ok", "err", "errbid", "yes", "no", "notfound"} \cup FoundStates

TypeOK ==
    /\ pc \in {"loop", "exit", "x_unres", "exit_u", "x_close", "exit_c", "done"}
    /\ op \in [Ops -> OpStates]
    /\ parked \in BOOLEAN /\ shut \in BOOLEAN /\ bidPlaced \in BOOLEAN /\ reservation \in BOOLEAN /\ won \in BOOLEAN
    /\ timer \in {"off", "armed", "fired"}
    /\ evq \in Seq(EvKinds) /\ Len(evq) <= MaxQ
    /\ priceVal \in Prices \cup {0} /\ bidPrice \in Prices \cup {0}
    /\ nfail \in 0..MaxFail /\ nign \in 0..MaxIgnored
    /\ mode \in {"fresh", "catchup"} /\ tcfg \in BOOLEAN

\* C13, first sentence: holds of every prefix of the call log
C13Bid == C13Safe(log, MaxPrice)
\* C13, second sentence: when handling of the order has ended
C13Released == (pc = "done") => C13End(log, leaseOurs)

\* the loop believes it won only if a lease was created for us
WonIsOurs == won => leaseOurs
\* a step of the pipeline is started only by the step before it (at most one of them in flight)
Pipeline == Cardinality({o \in Ops \ {"qbid"} : InFlight(o) /\ ~(o = "group" /\ parked)}) <= 1
\* forced schedules really have at most one select case ready
OneReady == (Quiet /\ pc = "loop") =>
              Cardinality({o \in Ops : Selectable(o)}) + (IF evq # <<>> THEN 1 ELSE 0)
              + (IF timer = "fired" THEN 1 ELSE 0) + (IF shut THEN 1 ELSE 0) <= 1

\* once shutdown is requested and every gate is released, the monitor terminates
ShutdownTerminates == shut ~> (pc = "done")
\* a bid that is neither won nor lost is not held for ever once its timeout fires
TimeoutTerminates == (timer = "fired") ~> (pc = "done")

=============================================================================
