---------------------------- MODULE BidEngineTrace ----------------------------
(***************************************************************************)
(* Trace validation for BidEngine.tla.  trace.ndjson holds the recorded    *)
(* executions of the real order monitor, one JSON object per line, many    *)
(* executions concatenated (each starts with a "begin" line).              *)
(*                                                                         *)
(* Two specifications over the same file:                                  *)
(*                                                                         *)
(* SpecV (verdict): builds the call log from the recorded neighbour calls  *)
(*   (nothing of the model is involved) and, at every "done" line,         *)
(*   evaluates the C13 operators of BidEngine.tla on it.  The result of    *)
(*   each execution is printed as one <<"VERDICT", json>> line.            *)
(*                                                                         *)
(* SpecC (conformance): every recorded line must be a step of the          *)
(*   corresponding BidEngine action from the current model state; the      *)
(*   loop's projected locals logged at "select"/"exit" lines must equal    *)
(*   the model's.  Accepted iff all lines are consumed (TraceDone).        *)
(***************************************************************************)
EXTENDS BidEngine, Json

TracePrices == 0..1000000000

Rec == ndJsonDeserialize("trace.ndjson")
N == Len(Rec)

VARIABLES l,      \* next line
          olog,   \* observed call log of the current execution
          oours,  \* a lease for us was published in the current execution
          obid,   \* answer of the existing-bid query observed ("" none)
          verd    \* number of verdicts printed so far

tvars == <<l, olog, oours, obid, verd>>

Line == Rec[l]
Is(e) == l <= N /\ Line.e = e

-----------------------------------------------------------------------------
(* Verdict *)

Relevant == {"Reserve", "Unreserve", "CreateBid", "CloseBid", "Bid"}

Verdict(lg, ours, mx) ==
    [one      |-> AtMostOneBid(lg),
     bounded  |-> BidBounded(lg, mx),
     reserved |-> BidAfterReserve(lg),
     released |-> (ours \/ ReservationsReleased(lg)),
     closed   |-> (ours \/ BidsClosed(lg)),
     ok       |-> (C13Safe(lg, mx) /\ C13End(lg, ours))]

VInit == l = 1 /\ olog = <<>> /\ oours = FALSE /\ obid = "" /\ verd = 0

VStep ==
    /\ l <= N
    /\ l' = l + 1
    /\ CASE Line.e = "begin" ->
              olog' = <<>> /\ oours' = FALSE /\ obid' = "" /\ verd' = verd
         [] Line.e = "call" /\ Line.c \in Relevant ->
              /\ olog' = Append(olog, Entry(Line.c, Line.ph, Line.r, Line.price))
              /\ obid' = IF Line.c = "Bid" /\ Line.ph = "end" THEN Line.r ELSE obid
              \* a bid found matched by a lease: the provider has won this order's lease already
              /\ oours' = (oours \/ (Line.c = "Bid" /\ Line.ph = "end" /\ Line.r = "active"))
              /\ UNCHANGED verd
         [] Line.e = "case" /\ Line.c = "querybid" ->
              olog' = Append(olog, Entry("Bid", "seen", obid, 0)) /\ UNCHANGED <<oours, obid, verd>>
         [] Line.e = "pub" /\ Line.k = "won" ->
              oours' = TRUE /\ UNCHANGED <<olog, obid, verd>>
         [] Line.e = "done" ->
              /\ PrintT(<<"VERDICT", ToJson([sid |-> Line.sid, line |-> l] @@ Verdict(olog, oours, Line.max))>>)
              /\ verd' = verd + 1
              /\ UNCHANGED <<olog, oours, obid>>
         [] OTHER -> UNCHANGED <<olog, oours, obid, verd>>
    /\ UNCHANGED vars

SpecV == VInit /\ InitFor("fresh", TRUE) /\ [][VStep]_<<tvars, vars>>

\* accepted iff every line was consumed
VAccepted == TLCGet("stats").diameter = N + 1

-----------------------------------------------------------------------------
(* Conformance *)

OpOf(c) == CASE c = "Bid" -> "qbid" [] c = "Group" -> "group" [] c = "Auditor" -> "should"
             [] c = "Reserve" -> "reserve" [] c = "Price" -> "price" [] c = "CreateBid" -> "bcast"
OpCalls == {"Bid", "Group", "Auditor", "Reserve", "Price", "CreateBid"}

Proj == [g      |-> (~parked /\ Unconsumed("group")),
         sg     |-> parked,
         sb     |-> Unconsumed("should"),
         cl     |-> Unconsumed("reserve"),
         pr     |-> Unconsumed("price"),
         bd     |-> Unconsumed("bcast"),
         to     |-> (timer # "off"),
         res    |-> reservation,
         won    |-> won,
         placed |-> bidPlaced]

LineProj == [g |-> Line.g, sg |-> Line.sg, sb |-> Line.sb, cl |-> Line.cl, pr |-> Line.pr, bd |-> Line.bd,
             to |-> Line.to, res |-> Line.res, won |-> Line.won, placed |-> Line.placed]

CaseOf(c) == CASE c = "shutdown"  -> CaseShutdown
               [] c = "querybid"  -> CaseQBid
               [] c = "event"     -> CaseEvent
               [] c = "group"     -> CaseGroup
               [] c = "shouldbid" -> (CaseShould \/ CaseShouldAborted)
               [] c = "reserve"   -> CaseReserve
               [] c = "price"     -> CasePrice
               [] c = "bid"       -> CaseBcast
               [] c = "timeout"   -> CaseTimeout

CInit == l = 1 /\ olog = <<>> /\ oours = FALSE /\ obid = "" /\ verd = 0

CStep ==
    /\ l <= N
    /\ l' = l + 1
    /\ UNCHANGED <<olog, oours, obid, verd>>
    /\ CASE Line.e = "begin" -> Reset(Line.mode, Line.tcfg)
         [] Line.e = "call" /\ Line.ph = "start" /\ Line.c \in OpCalls ->
              /\ CallStart(OpOf(Line.c))
              /\ (Line.c = "CreateBid" => bidPrice = Line.price)     \* it bids the price the strategy answered
         [] Line.e = "call" /\ Line.ph = "end" /\ Line.c \in OpCalls -> Complete(OpOf(Line.c), Line.r, Line.price)
         [] Line.e = "call" /\ Line.ph = "start" /\ Line.c = "Unreserve" -> XUnresStart
         [] Line.e = "call" /\ Line.ph = "end"   /\ Line.c = "Unreserve" -> XUnresEnd(Line.r)
         [] Line.e = "call" /\ Line.ph = "start" /\ Line.c = "CloseBid"  -> XCloseStart
         [] Line.e = "call" /\ Line.ph = "end"   /\ Line.c = "CloseBid"  -> XCloseEnd(Line.r)
         [] Line.e = "pub"      -> Deliver(Line.k)
         [] Line.e = "shutdown" -> Shutdown
         [] Line.e = "fire"     -> FireTimer
         [] Line.e = "case"     -> CaseOf(Line.c)
         [] Line.e = "select"   -> pc = "loop" /\ Proj = LineProj /\ UNCHANGED vars
         [] Line.e = "exit"     -> pc = "exit" /\ Proj = LineProj /\ UNCHANGED vars
         [] Line.e = "done"     -> Finish

SpecC == CInit /\ InitFor("fresh", TRUE) /\ [][CStep]_<<tvars, vars>>

\* all lines consumed <=> some behaviour reaches l = N + 1 <=> the state graph has depth N + 1.
\* On rejection the depth reached (printed) is the first line no model step explains.
CAccepted == IF TLCGet("stats").diameter = N + 1 THEN TRUE
             ELSE PrintT(<<"STUCK", TLCGet("stats").diameter>>) /\ FALSE

-----------------------------------------------------------------------------
(* Loop-only conformance (SpecL): traces that hold only the monitor's own hook lines (begin / case / select /
   exit / done), e.g. the repository's own order tests run with the hooks on.  Everything the environment and the
   neighbours do is unobserved and composed as silent steps; a trace is accepted iff some interleaving of silent
   steps explains every line (then the invariant LNotAtEnd is violated -- that is the acceptance signal). *)

SilentPrices == {1, MaxPrice, MaxPrice + 1}

Silent == \/ \E o \in Ops : CallStart(o)
          \/ \E o \in Ops, r \in {"ok", "err", "errbid", "yes", "no", "notfound"} \cup FoundStates, p \in SilentPrices \cup {0} \cup ErrKinds \cup NfKinds : Complete(o, r, p)
          \/ \E k \in Kinds : Deliver(k)
          \/ Shutdown
          \/ FireTimer
          \/ XUnresStart \/ XCloseStart
          \/ \E r \in {"ok", "err"} : XUnresEnd(r) \/ XCloseEnd(r)

LStep ==
    /\ l <= N
    /\ UNCHANGED <<olog, oours, obid, verd>>
    /\ \/ Silent /\ UNCHANGED l
       \/ /\ l' = l + 1
          /\ CASE Line.e = "begin"  -> \E t \in BOOLEAN : Reset(Line.mode, t)
               [] Line.e = "case"   -> CaseOf(Line.c)
               [] Line.e = "select" -> pc = "loop" /\ Proj = LineProj /\ UNCHANGED vars
               [] Line.e = "exit"   -> pc = "exit" /\ Proj = LineProj /\ UNCHANGED vars
               [] Line.e = "done"   -> Finish

SpecL == CInit /\ InitFor("fresh", TRUE) /\ [][LStep]_<<tvars, vars>>

LNotAtEnd == l <= N

\* the model-side C13 invariants along the recorded path (model and observation must agree)
CModelProp == C13Bid /\ C13Released
=============================================================================
