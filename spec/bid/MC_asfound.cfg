\* the snapshot as found: C13Released is expected to FAIL here (defect D8); used as a self-check of the model
SPECIFICATION Spec
CONSTANTS
  Impl = "asfound"
  Quiet = FALSE
  Record = FALSE
  MaxFail = 1
  MaxIgnored = 1
  MaxQ = 2
  MaxPrice = 46
  Prices = {1, 46, 47}
  Modes = {"fresh", "catchup"}
  Kinds = {"closed", "lost", "won", "other"}
  Lax = FALSE
  ErrKinds = {1, 2, 3, 4}
  NfKinds = {1}
  TimeoutCfgs = {TRUE, FALSE}
INVARIANTS TypeOK C13Bid C13Released WonIsOurs Pipeline

CHECK_DEADLOCK FALSE
