\* J3 (i) verdict: C13 evaluated on the call log recorded from the real code
SPECIFICATION SpecV
CONSTANTS
  Impl = "intended"
  Quiet = FALSE
  Record = FALSE
  Lax = TRUE
  MaxFail = 99
  MaxIgnored = 99
  MaxQ = 99
  MaxPrice = 46
  Prices <- TracePrices
  Modes = {"fresh", "catchup"}
  Kinds = {"closed", "lost", "won", "other", "xclosed", "created", "xowner", "xownerp", "xdseq"}
  ErrKinds = {1, 2, 3, 4}
  NfKinds = {1, 2, 3}
  TimeoutCfgs = {TRUE, FALSE}

POSTCONDITION VAccepted
CHECK_DEADLOCK FALSE
