\* J3 (ii) conformance: every recorded line is a step of the model (any interleaving, any number of failures)
SPECIFICATION SpecC
CONSTANTS
  Impl = "intended"
  Quiet = FALSE
  Record = FALSE
  Lax = TRUE
  MaxFail = 99
  MaxIgnored = 99
  MaxQ = 99
  MaxPrice = 46
  Prices <- TracePrices
  Modes = {"fresh", "catchup"}
  Kinds = {"closed", "lost", "won", "other", "xclosed", "created", "xowner", "xownerp", "xdseq"}
  ErrKinds = {1, 2, 3, 4}
  NfKinds = {1, 2, 3}
  TimeoutCfgs = {TRUE, FALSE}
INVARIANT CModelProp
POSTCONDITION CAccepted
CHECK_DEADLOCK FALSE
