---------------------------- MODULE MCBidEngine ----------------------------
(* Model-checking shell: behaviour export for J2 (forced-schedule model, one JSON line per terminated behaviour). *)
EXTENDS BidEngine, Json

ExportDone == (Record /\ pc = "done") => PrintT(<<"SCRIPT", ToJson(hist)>>)
=============================================================================
