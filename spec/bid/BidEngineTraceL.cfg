\* J3 loop-only conformance (repo's own tests traced through the hooks): accepted iff LNotAtEnd is VIOLATED
SPECIFICATION SpecL
CONSTANTS
  Impl = "intended"
  Quiet = FALSE
  Record = FALSE
  Lax = FALSE
  MaxFail = 3
  MaxIgnored = 2
  MaxQ = 2
  MaxPrice = 46
  Prices <- SilentPrices
  Modes = {"fresh", "catchup"}
  Kinds = {"closed", "lost", "won", "other", "xclosed", "created", "xowner", "xownerp", "xdseq"}
  ErrKinds = {1}
  NfKinds = {1}
  TimeoutCfgs = {TRUE, FALSE}
INVARIANT LNotAtEnd
CHECK_DEADLOCK FALSE
