\* the snapshot as found (3b65494): used while developing to show the as-found model explains every recorded line of the unfixed code
SPECIFICATION SpecC
CONSTANTS
  Impl = "asfound"
  Quiet = FALSE
  Record = FALSE
  Lax = TRUE
  MaxFail = 99
  MaxIgnored = 99
  MaxQ = 99
  MaxPrice = 46
  Prices <- TracePrices
  Modes = {"fresh", "catchup"}
  Kinds = {"closed", "lost", "won", "other", "xclosed", "created", "xowner", "xownerp", "xdseq"}
  ErrKinds = {1, 2, 3, 4}
  NfKinds = {1, 2, 3}
  TimeoutCfgs = {TRUE, FALSE}

POSTCONDITION CAccepted
CHECK_DEADLOCK FALSE
