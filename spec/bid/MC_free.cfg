\* J1: every interleaving (Go select picks any ready case), intended exit path, at most one injected failure
SPECIFICATION FairSpec
CONSTANTS
  Impl = "intended"
  Quiet = FALSE
  Record = FALSE
  MaxFail = 1
  MaxIgnored = 1
  MaxQ = 2
  MaxPrice = 46
  Prices = {1, 46, 47}
  Modes = {"fresh", "catchup"}
  Kinds = {"closed", "lost", "won", "other"}
  Lax = FALSE
  ErrKinds = {1, 2, 3, 4}
  NfKinds = {1}
  TimeoutCfgs = {TRUE, FALSE}
INVARIANTS TypeOK C13Bid C13Released WonIsOurs Pipeline
PROPERTIES ShutdownTerminates TimeoutTerminates
CHECK_DEADLOCK FALSE
