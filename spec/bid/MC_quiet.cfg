\* J2: forced schedules (environment acts only when the monitor is blocked with nothing ready);
\* every terminated behaviour is exported for replay on the real code
SPECIFICATION Spec
CONSTANTS
  Impl = "intended"
  Quiet = TRUE
  Record = TRUE
  MaxFail = 1
  MaxIgnored = 1
  MaxQ = 1
  MaxPrice = 46
  Prices = {1, 46, 47}
  Modes = {"fresh", "catchup"}
  Kinds = {"closed", "lost", "won", "other", "xclosed", "created", "xowner", "xownerp", "xdseq"}
  Lax = FALSE
  ErrKinds = {1, 2, 3, 4}
  NfKinds = {1}
  TimeoutCfgs = {TRUE}
INVARIANTS TypeOK C13Bid C13Released WonIsOurs Pipeline OneReady ExportDone
CHECK_DEADLOCK FALSE
