\* J1: exhaustive check of the intended translation over the quick document space
CONSTANTS
  Impl = "intended"
  Walk = "sorted"
  Slices <- QuickSlices
SPECIFICATION Spec
INVARIANTS TypeOK Faithful RequirementsKept SelfConsistent
PROPERTIES Determinism
CHECK_DEADLOCK FALSE
