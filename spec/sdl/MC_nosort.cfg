\* negative control: walking the mappings in the order the run happens to give must violate Determinism
CONSTANTS
  Impl = "intended"
  Walk = "arbitrary"
  Slices <- TinySlices
SPECIFICATION Spec
INVARIANTS TypeOK Faithful SelfConsistent
PROPERTIES Determinism
CHECK_DEADLOCK FALSE
