\* J1: exhaustive check of the intended translation over the tiny document space
CONSTANTS
  Impl = "intended"
  Walk = "sorted"
  Slices <- TinySlices
SPECIFICATION Spec
INVARIANTS TypeOK Faithful RequirementsKept SelfConsistent
PROPERTIES Determinism
CHECK_DEADLOCK FALSE
