------------------------------- MODULE MCSdlTiny -------------------------------
EXTENDS MCSdl

\* ---- tiny: smoke / negative controls / evidence numbers of a replay ----
TinySlices == <<
  Sl("T", <<"api", "web">>, <<"large", "small">>, <<"east", "west">>,
     [s \in {"api", "web"} |-> IF s = "web" THEN NoneAll ELSE {{"command", "args", "env"}}],
     [s \in {"api", "web"} |-> IF s = "web" THEN {"two", "none"} ELSE {"local", "udp"}],
     {2}, [c \in {"large", "small"} |-> IF c = "large" THEN <<List(<<QLarge>>)>> ELSE <<List(<<QSmall>>)>>]) >>

\* one service, one placement, a compute profile with two / three storage attributes written out of key order:
\* the only thing a run can reorder is that nested attribute mapping (negative control MC_attrorder.cfg)
AttrSlices == <<
  Sl("U", <<"web">>, <<"large">>, <<"east">>, [s \in {"web"} |-> {{}}], [s \in {"web"} |-> {"http"}], {1},
     [c \in {"large"} |-> <<List(<<Q(CpuM(250), "", B(128, "Mi"), B(1, "Gi"), SA2u), Q(CpuM(250), "", B(128, "Mi"), B(1, "Gi"), SA3u)>>)>>]) >>

ASSUME ExportDocs(Slices)
=============================================================================
