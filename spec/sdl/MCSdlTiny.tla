------------------------------- MODULE MCSdlTiny -------------------------------
EXTENDS MCSdl

\* ---- tiny: smoke / negative controls / evidence numbers of a replay ----
TinySlices == <<
  Sl("T", <<"api", "web">>, <<"large", "small">>, <<"east", "west">>,
     [s \in {"api", "web"} |-> IF s = "web" THEN NoneAll ELSE {{"command", "args", "env"}}],
     [s \in {"api", "web"} |-> IF s = "web" THEN {"two", "none"} ELSE {"local", "udp"}],
     {2}, [c \in {"large", "small"} |-> IF c = "large" THEN <<List(<<QLarge>>)>> ELSE <<List(<<QSmall>>)>>]) >>

ASSUME ExportDocs(Slices)
=============================================================================
