------------------------------- MODULE MCSdlTiny -------------------------------
EXTENDS MCSdl

\* ---- tiny: smoke / binding self-test / negative controls ----
TinySlices == <<
  Sl(<<"api", "web">>, <<"large", "small">>, <<"east", "west">>,
     [s \in {"api", "web"} |-> IF s = "web" THEN NoneAll ELSE {{"command", "args", "env"}}],
     [s \in {"api", "web"} |-> IF s = "web" THEN {"two", "none"} ELSE {"local", "udp"}],
     {2}, [c \in {"large", "small"} |-> IF c = "large" THEN "QLarge" ELSE "QSmall"]) >>


TierQuants(tag) == BaseQuants(tag)

ASSUME ExportDocs(Slices)
=============================================================================
