------------------------------- MODULE MCSdlQuick -------------------------------
EXTENDS MCSdl

\* every CPU amount with at most two decimals from 0.01 to 10.00, a few millis, a few fixed 3-digit forms
CpusQuick == { CpuDec(10 * k) : k \in 1..1000 } \cup { CpuM(m) : m \in {10, 100, 1500, 10000, 9, 10001} }
             \cup { CpuDec3(m) : m \in {100, 1001, 2500} }
\* ---- quick ----
QuickSlices == <<
  \* A: one service, every body kind x every expose kind, one or two placements
  Sl(<<"web">>, <<"large">>, <<"east", "west">>, [s \in {"web"} |-> AllBodies], [s \in {"web"} |-> AllKinds],
     {1, 50}, [c \in {"large"} |-> "QLarge"]),
  \* B: two services on one placement, two profiles
  Sl(<<"api", "web">>, <<"large", "small">>, <<"east">>,
     [s \in {"api", "web"} |-> IF s = "web" THEN AllBodies ELSE NoneAll],
     [s \in {"api", "web"} |-> IF s = "web" THEN {"none", "http", "two", "fan"} ELSE {"none", "httphosts", "local", "udp"}],
     {2}, [c \in {"large", "small"} |-> IF c = "large" THEN "QLarge" ELSE "QSmall"]),
  \* C: two services, two profiles, two placements, every deployment mapping
  Sl(<<"api", "web">>, <<"large", "small">>, <<"east", "west">>,
     [s \in {"api", "web"} |-> IF s = "web" THEN NoneAll ELSE {{"command", "args", "env"}}],
     [s \in {"api", "web"} |-> IF s = "web" THEN {"http", "two"} ELSE {"local", "udp"}],
     {1}, [c \in {"large", "small"} |-> IF c = "large" THEN "QLarge" ELSE "QOdd"]),
  \* D: unit forms
  UnitsSlice >>


\* the unit universe of this tier (built on use: see Sdl!QuantsOf)
TierQuants(tag) == IF tag = "units" THEN QuantsVarying(CpusQuick,
             UNION {MemForms, DecForms("G", 0..17), DecForms("M", {1, 4, 8, 16, 100})},
             UNION {StorageForms, DecForms("G", 0..20), DecForms("M", 4..8)}) ELSE BaseQuants(tag)

ASSUME ExportDocs(Slices)
=============================================================================
