------------------------------- MODULE MCSdlQuick -------------------------------
EXTENDS MCSdl

\* ---- quick ----
QuickSlices == <<
  \* A: one service, every body kind x every expose kind, one or two placements
  Sl("A", <<"web">>, <<"large">>, <<"east", "west">>, [s \in {"web"} |-> AllBodies], [s \in {"web"} |-> AllKinds \cup BadKinds],
     {1, 49}, [c \in {"large"} |-> <<List(<<QLarge>>)>>]),
  \* B: two services on one placement, two profiles
  Sl("B", <<"api", "web">>, <<"large", "small">>, <<"east">>,
     [s \in {"api", "web"} |-> IF s = "web" THEN AllBodies ELSE NoneAll],
     [s \in {"api", "web"} |-> IF s = "web" THEN {"none", "http", "two", "fan", "twoglobal"} ELSE {"none", "httphosts", "local", "udp"}],
     {2}, [c \in {"large", "small"} |-> IF c = "large" THEN <<List(<<QLarge>>)>> ELSE <<List(<<QSmall>>)>>]),
  \* C: two services, two profiles, two placements, every deployment mapping
  Sl("C", <<"api", "web">>, <<"large", "small">>, <<"east", "west">>,
     [s \in {"api", "web"} |-> IF s = "web" THEN NoneAll ELSE {{"command", "args", "env"}}],
     [s \in {"api", "web"} |-> IF s = "web" THEN {"http", "two"} ELSE {"local", "udp"}],
     {1}, [c \in {"large", "small"} |-> IF c = "large" THEN <<List(<<QLarge>>)>> ELSE <<List(<<QOdd>>)>>]),
  \* D: unit forms -- every milli-CPU amount in decimal spelling in 0.01..0.3, 1.99..2.11, 4.0..4.1, 8.0..8.2,
  \* memory n.t G for n in 0..17, n.t M, storage n.t G / M, hand picked forms and attribute variants
  UnitsSlice("D", << CpuEdge, CpuFam("dec", 10, 300), CpuFam("dec", 1990, 2110), CpuFam("dec", 4000, 4100),
                     CpuFam("dec", 8000, 8200), CpuFam("dec3", 1000, 1020), MemForms, MemFam("G", 0, 17),
                     MemFam("M", 4, 8), StorageForms, StorageFam("G", 0, 20), StorageFam("M", 4, 8), AttrForms >>),
  \* S: seeded sample of the large structural space
  BigSlice("S", Samples) >>

ASSUME ExportDocs(Slices)
=============================================================================
