\* negative control: the as-found translation (command parsed, never copied: D7) must violate Faithful
CONSTANTS
  Impl = "asfound"
  Walk = "sorted"
  Slices <- TinySlices
SPECIFICATION Spec
INVARIANTS TypeOK Faithful
CHECK_DEADLOCK FALSE
