\* J3: judge the recorded outputs of the real code (trace.ndjson) with the definitions of Sdl.tla
CONSTANTS
  Impl = "intended"
  Walk = "sorted"
  Slices <- NoSlices
SPECIFICATION TSpec
CHECK_DEADLOCK FALSE
