------------------------------- MODULE Sdl -------------------------------
(***************************************************************************)
(* C18 -- SDL translation (sdl/sdl.go, sdl/v2.go, sdl/units.go, coin.go,   *)
(* resources.go; cross validation validation/manifest.go).                 *)
(*                                                                         *)
(* An abstract SDL v2 document is a record                                 *)
(*   [services, compute, placement, deployment]                            *)
(* (YAML mappings are kept as sequences of named entries: the names are    *)
(* unique by construction, and the *order* in which a run happens to walk  *)
(* a mapping -- YAML key order, Go map iteration order -- is the separate  *)
(* variable `ord`).  The INTENDED translation is given as the operators    *)
(* Groups(d, o) and Manifest(d, o); Version is modelled as the identity on *)
(* the (ordered) manifest, i.e. a collision free hash.                     *)
(*                                                                         *)
(* The machine: a document is read under some key order and translated     *)
(* (action Run); the keys are reordered (action Reorder); it is translated *)
(* again.  Properties:                                                     *)
(*   Determinism     [][...]_vars  two runs on the same document give the  *)
(*                   same groups, manifest and version, whatever happened  *)
(*                   to the key order in between;                          *)
(*   Faithful        every declared service field appears unchanged in the *)
(*                   outputs (independent declarative oracle, written per  *)
(*                   field so that a failure names the field);             *)
(*   SelfConsistent  the manifest matches the groups under the provider's  *)
(*                   cross validation (multiset equality of resource units *)
(*                   and of endpoint kinds, per group).                    *)
(* The same operators judge the outputs recorded from the real code in     *)
(* SdlTrace.tla.                                                           *)
(***************************************************************************)
EXTENDS Integers, Sequences, FiniteSets, TLC, SequencesExt

CONSTANTS
  Impl,        \* "intended" | "asfound"   asfound = command parsed but not copied into the manifest (D7)
  Walk,        \* "sorted" | "arbitrary"   arbitrary = mappings walked in whatever order the run gives (no sort)
  \* ---- the bounded document space: a sequence of slices, each a record
  \*   [svcs, profs, places : sequences of names (listed in sorted order),
  \*    body   : [service -> set of subsets of {"command","args","env"}],
  \*    expk   : [service -> set of expose kind names],
  \*    counts : set of replica counts,
  \*    quants : [profile -> sequence of quantity families],   (see Families below)
  \*    samples: <<>> (the slice is enumerated exhaustively) or a sequence of random tuples (it is sampled)]
  \* The document space is, per slice, the full product of the choices (DocsFor); Init ranges over all slices.
  Slices

VARIABLES doc, ord, out
vars == <<doc, ord, out>>

(***************************************************************************)
(* Names.  TLC cannot order strings, so the sort order of every name used  *)
(* is fixed here; the universe is listed in Go's string order.             *)
(***************************************************************************)
\* every name and attribute key the generated documents use, in Go's string order; a document carries its own
\* order (d.order): documents abstracted from files (harness: vh sdl abstract) bring the order of their own names
NameUniverse == <<"api", "arch", "class", "db", "east", "large", "north", "persistent", "region", "small", "tier", "web", "west", "zone">>
Rank(d, n) == IF \E i \in 1..Len(d.order) : d.order[i] = n THEN CHOOSE i \in 1..Len(d.order) : d.order[i] = n ELSE 0
SortedNames(d, S) == SelectSeq(d.order, LAMBDA n : n \in S)
SumSeq(s) == LET F[i \in 0..Len(s)] == IF i = 0 THEN 0 ELSE F[i - 1] + s[i] IN F[Len(s)]
WalkSeq(d, S, order) == IF Walk = "sorted" THEN SortedNames(d, S) ELSE SelectSeq(order, LAMBDA n : n \in S)

(***************************************************************************)
(* Quantities.                                                             *)
(* cpu:  [form, milli]      text "<milli>m" (form "m"), or the decimal     *)
(*       number milli/1000 (forms "dec": shortest, "dec3": three digits);  *)
(*       the declared amount is `milli` thousandths of a CPU.              *)
(* bytes: [n, tenths, suffix] text "<n>[.<tenths>]<suffix>"; the declared   *)
(*       amount is (n + tenths/10) * Mult(suffix) bytes -- a whole number  *)
(*       of bytes for every decimal suffix, and for tenths = 5 with a      *)
(*       binary suffix (the only fractions the universes use there).       *)
(*       TLC integers are 32 bit, so byte amounts are pairs                *)
(*       [mi, b] = mi * 2^20 + b, 0 <= b < 2^20.                           *)
(***************************************************************************)
Mi == 1048576
BigNorm(mi, b) == [mi |-> mi + (b \div Mi), b |-> b % Mi]
Mult(sfx) ==
  CASE sfx = ""   -> [mi |-> 0,       b |-> 1]
    [] sfx = "k"  -> [mi |-> 0,       b |-> 1000]
    [] sfx = "Ki" -> [mi |-> 0,       b |-> 1024]
    [] sfx = "M"  -> [mi |-> 0,       b |-> 1000000]
    [] sfx = "Mi" -> [mi |-> 1,       b |-> 0]
    [] sfx = "G"  -> [mi |-> 953,     b |-> 707072]     \* 10^9
    [] sfx = "Gi" -> [mi |-> 1024,    b |-> 0]
    [] sfx = "T"  -> [mi |-> 953674,  b |-> 331776]     \* 10^12
    [] sfx = "Ti" -> [mi |-> 1048576, b |-> 0]
Tenth(sfx) ==                                            \* Mult(sfx) / 10 for the decimal suffixes
  CASE sfx = "k"  -> [mi |-> 0,     b |-> 100]
    [] sfx = "M"  -> [mi |-> 0,     b |-> 100000]
    [] sfx = "G"  -> [mi |-> 95,    b |-> 385280]        \* 10^8
    [] sfx = "T"  -> [mi |-> 95367, b |-> 452608]        \* 10^11
BigMul(x, n) == BigNorm(x.mi * n, x.b * n)                 \* products stay below 2^31 for the universes used
BigHalf(x) == [mi |-> x.mi \div 2, b |-> (x.mi % 2) * (Mi \div 2) + (x.b \div 2)]   \* x even
BigAdd(x, y) == BigNorm(x.mi + y.mi, x.b + y.b)
Bytes(q) ==
  LET whole == BigMul(Mult(q.suffix), q.n) IN
  IF q.tenths = 0 THEN whole
  ELSE IF q.suffix \in {"k", "M", "G", "T"} THEN BigAdd(whole, BigMul(Tenth(q.suffix), q.tenths))
  ELSE BigAdd(whole, BigHalf(Mult(q.suffix)))             \* binary suffix: tenths = 5
CpuMilli(q) == q.milli

(***************************************************************************)
(* Fixed per-name content (distinct per name, so that a swap between two   *)
(* services / placements is visible).  Strings include YAML-hostile text.  *)
(***************************************************************************)
ImageOf(s)   == CASE s = "api" -> "quay.io/acme/api:1.2" [] s = "web" -> "nginx" [] s = "db" -> "postgres:13"
CommandOf(s) == CASE s = "api" -> <<"/bin/api", "serve">>
                  [] s = "web" -> <<"nginx", "-g", "daemon off;">>
                  [] s = "db"  -> <<"docker-entrypoint.sh">>
ArgsOf(s)    == CASE s = "api" -> <<"--listen=:8080", "-v", "key: value">>
                  [] s = "web" -> <<"#not a comment", "two words", "with \"quotes\"">>
                  [] s = "db"  -> <<"-c", "max_connections=10">>
EnvOf(s)     == CASE s = "api" -> <<"ZED=1", "ALPHA=two words", "FLAG">>
                  [] s = "web" -> <<"B=x=y", "A=">>
                  [] s = "db"  -> <<"POSTGRES_PASSWORD=a:b #c">>
HostsOf(s)   == CASE s = "api" -> <<"api.example.com", "api2.example.com">>
                  [] s = "web" -> <<"www.example.com">>
                  [] s = "db"  -> <<"db.example.com">>

G == [service |-> "", global |-> TRUE]
S(t) == [service |-> t, global |-> FALSE]
E(port, as, proto, to, accept) == [port |-> port, as |-> as, proto |-> proto, to |-> to, accept |-> accept]

\* the declared expose list of service s for an expose kind; t is the name used in `to: - service: t`
ExposeDef(s, t, kind) ==
  CASE kind = "none"      -> <<>>
    [] kind = "http"      -> << E(80, 0, "", <<G>>, <<>>) >>
    [] kind = "httphosts" -> << E(8080, 80, "tcp", <<G>>, HostsOf(s)) >>
    [] kind = "udp"       -> << E(53, 0, "udp", <<G>>, <<>>) >>
    [] kind = "local"     -> << E(5432, 0, "TCP", <<S(t)>>, <<>>) >>
    [] kind = "two"       -> << E(8080, 80, "tcp", <<G>>, HostsOf(s)), E(53, 0, "UDP", <<G>>, <<>>) >>
    [] kind = "fan"       -> << E(9000, 9001, "", <<G, S(t)>>, <<>>) >>
    [] kind = "bare"      -> << E(7000, 0, "", <<>>, <<>>), E(8443, 0, "tcp", <<G>>, <<>>) >>
    [] kind = "barehosts" -> << E(7000, 7001, "udp", <<>>, HostsOf(s)), E(80, 0, "", <<G>>, <<>>) >>
    \* `to` lists with two and three entries: several global entries, global + service scoped, duplicates
    [] kind = "twoglobal" -> << E(80, 0, "", <<G, [service |-> t, global |-> TRUE]>>, <<>>) >>
    [] kind = "threeto"   -> << E(8080, 80, "tcp", <<G, S(t), [service |-> t, global |-> TRUE]>>, <<>>) >>
    [] kind = "dupglobal" -> << E(9000, 0, "udp", <<G, G>>, <<>>), E(443, 80, "", <<S(t)>>, <<>>) >>
    [] kind = "tomix"     -> << E(5432, 0, "tcp", <<S(t), S(t), G>>, <<>>), E(80, 8080, "", <<[service |-> t, global |-> TRUE], G>>, <<>>) >>
    [] kind = "badproto"  -> << E(80, 0, "sctp", <<G>>, <<>>) >>                      \* unsupported protocol: invalid
    [] kind = "port0"     -> << E(0, 80, "", <<G>>, <<>>) >>                          \* port zero: invalid
    [] kind = "bareonly"  -> << E(7000, 0, "", <<>>, <<>>) >>                      \* no global service: invalid alone
    [] kind = "udp80"     -> << E(80, 0, "udp", <<G>>, <<>>) >>
    [] kind = "as8080"    -> << E(80, 8080, "tcp", <<G>>, <<>>) >>
    [] kind = "svcglobal" -> << E(3000, 0, "", << [service |-> t, global |-> TRUE] >>, <<>>) >>
    [] kind = "rev"       -> << E(9100, 0, "", <<G>>, <<>>), E(9000, 0, "tcp", <<G>>, <<>>), E(80, 0, "", <<S(t)>>, <<>>) >>
    [] kind = "mix"       -> << E(443, 0, "tcp", <<G>>, <<>>), E(80, 0, "", <<G>>, HostsOf(s)), E(80, 0, "udp", <<S(t), G>>, <<>>) >>

AttrsOf(p)  == CASE p = "east"  -> << <<"region", "us-east">>, <<"tier", "1">> >>
                 [] p = "west"  -> << <<"zone", "b">>, <<"region", "us-west">> >>     \* declared out of key order
                 [] p = "north" -> <<>>
AllOfOf(p)  == CASE p = "east" -> <<"akash1auditor3", "akash1auditor1">> [] p = "west" -> <<>> [] p = "north" -> <<"akash1auditor9">>
AnyOfOf(p)  == CASE p = "east" -> <<"akash1auditor2">> [] p = "west" -> <<>> [] p = "north" -> <<>>
PriceOf(p, c) == [denom |-> "uakt",
                  amount |-> (CASE p = "east" -> 50 [] p = "west" -> 333 [] p = "north" -> 10000000)
                           + (CASE c = "large" -> 1000 [] c = "small" -> 7)]

(***************************************************************************)
(* The bounded document space.                                             *)
(***************************************************************************)
Other(svcs, s) == IF Len(svcs) = 1 THEN s ELSE (CHOOSE t \in Range(svcs) : t # s)

MkDoc(svcs, profs, places, body, expk, assign, deploy, cnt, quant) ==
  [ services   |-> [i \in 1..Len(svcs) |->
                     LET s == svcs[i] IN
                     [ name    |-> s,
                       image   |-> ImageOf(s),
                       command |-> IF "command" \in body[s] THEN CommandOf(s) ELSE <<>>,
                       args    |-> IF "args" \in body[s] THEN ArgsOf(s) ELSE <<>>,
                       env     |-> IF "env" \in body[s] THEN EnvOf(s) ELSE <<>>,
                       expose  |-> ExposeDef(s, Other(svcs, s), expk[s]) ]],
    compute    |-> [i \in 1..Len(profs) |->
                     LET c == profs[i] IN
                     [ name |-> c, cpu |-> quant[c].cpu, cpuArch |-> quant[c].cpuArch, mem |-> quant[c].mem,
                       storage |-> quant[c].storage, storageAttrs |-> quant[c].storageAttrs ]],
    placement  |-> [i \in 1..Len(places) |->
                     LET p == places[i] IN
                     [ name |-> p, attrs |-> AttrsOf(p), allOf |-> AllOfOf(p), anyOf |-> AnyOfOf(p),
                       pricing |-> [j \in 1..Len(profs) |->
                                     [profile |-> profs[j], denom |-> PriceOf(p, profs[j]).denom,
                                      amount |-> PriceOf(p, profs[j]).amount]] ]],
    \* flattened deployment mapping: service -> placement -> {profile, count}; the count differs per placement
    deployment |-> LET pairs == SelectSeq(
                                  [k \in 1..(Len(svcs) * Len(places)) |->
                                     <<svcs[((k - 1) \div Len(places)) + 1], places[((k - 1) % Len(places)) + 1]>>],
                                  LAMBDA sp : sp[2] \in deploy[sp[1]])
                   IN [k \in 1..Len(pairs) |->
                        [ service |-> pairs[k][1], placement |-> pairs[k][2], profile |-> assign[pairs[k][1]],
                          count |-> cnt[pairs[k][1]] + (IF pairs[k][2] = places[1] THEN 1 ELSE 0) ]],
    order      |-> NameUniverse ]

\* all functions f on D with f[x] \in Choice[x]
FuncsBy(D, Choice) == {f \in [D -> UNION {Choice[x] : x \in D}] : \A x \in D : f[x] \in Choice[x]}

(***************************************************************************)
(* Quantity families.  Large unit universes (every CPU decimal, every      *)
(* n.t<suffix>) are described, not listed, and are enumerated through an   *)
(* integer index: TLC removes duplicates from UNIONs and \cup by linear     *)
(* search, so big sets of records must never be unioned.                   *)
(*   [k |-> "list", items |-> <<quantity records>>]                        *)
(*   [k |-> "cpu", form, lo, hi]        cpu = lo..hi milli in text form    *)
(*   [k |-> "mem" | "storage", sfx, lo, hi]   size = n.t sfx, n in lo..hi, *)
(*                                             t in 1..9                   *)
(* The dimensions a family does not vary are those of BaseQuantity.        *)
(***************************************************************************)
BaseQuantity == [cpu |-> [form |-> "m", milli |-> 100], cpuArch |-> "",
                 mem |-> [n |-> 128, tenths |-> 0, suffix |-> "Mi"],
                 storage |-> [n |-> 1, tenths |-> 0, suffix |-> "Gi"], storageAttrs |-> <<>>]
FamCount(f) == CASE f.k = "list" -> Len(f.items)
                 [] f.k = "cpu" -> f.hi - f.lo + 1
                 [] f.k \in {"mem", "storage"} -> (f.hi - f.lo + 1) * 9
FamAt(f, j) ==
  CASE f.k = "list" -> f.items[j]
    [] f.k = "cpu" -> [BaseQuantity EXCEPT !.cpu = [form |-> f.form, milli |-> f.lo + j - 1]]
    [] f.k = "mem" -> [BaseQuantity EXCEPT !.mem = [n |-> f.lo + ((j - 1) \div 9), tenths |-> ((j - 1) % 9) + 1, suffix |-> f.sfx]]
    [] f.k = "storage" -> [BaseQuantity EXCEPT !.storage = [n |-> f.lo + ((j - 1) \div 9), tenths |-> ((j - 1) % 9) + 1, suffix |-> f.sfx]]
FamOffset(fams, i) == SumSeq([x \in 1..(i - 1) |-> FamCount(fams[x])])
FamTotal(fams) == FamOffset(fams, Len(fams) + 1)
QuantityAt(fams, k) ==
  LET i == CHOOSE x \in 1..Len(fams) : FamOffset(fams, x) < k /\ k <= FamOffset(fams, x + 1)
  IN FamAt(fams[i], k - FamOffset(fams, i))

ExhaustiveDocs(sl) ==
  LET SS == Range(sl.svcs) PS == Range(sl.profs) LS == Range(sl.places)
      p1 == sl.profs[1]
      p2 == sl.profs[Len(sl.profs)]
  IN
  { MkDoc(sl.svcs, sl.profs, sl.places, body, expk, assign, deploy, cnt,
          [c \in PS |-> IF c = p1 THEN QuantityAt(sl.quants[p1], k1) ELSE QuantityAt(sl.quants[p2], k2)]) :
      k1     \in 1..FamTotal(sl.quants[p1]),
      k2     \in IF Len(sl.profs) = 1 THEN {1} ELSE 1..FamTotal(sl.quants[p2]),
      body   \in FuncsBy(SS, sl.body),
      expk   \in FuncsBy(SS, sl.expk),
      assign \in [SS -> PS],
      deploy \in [SS -> (SUBSET LS) \ {{}}],
      cnt    \in [SS -> sl.counts] }

(***************************************************************************)
(* A slice too large to enumerate is SAMPLED: sl.samples is a sequence of  *)
(* tuples of 20 random naturals (drawn by the check from VERIF_SEED); each *)
(* tuple picks one element of every choice set (index = number modulo the  *)
(* size of the set): numbers 4i-3..4i choose body, expose kind, profile    *)
(* and placements of the i-th service, 13..15 the counts, 16 and 17 the    *)
(* quantities.                                                             *)
(***************************************************************************)
Pick(choices, r) == LET q == SetToSeq(choices) IN q[(r % Len(q)) + 1]
SampledDocs(sl) ==
  LET SS == Range(sl.svcs) PS == Range(sl.profs) LS == Range(sl.places)
      p1 == sl.profs[1]
      p2 == sl.profs[Len(sl.profs)]
      Idx(s) == CHOOSE i \in 1..Len(sl.svcs) : sl.svcs[i] = s
  IN
  { LET r == sl.samples[j] IN
    MkDoc(sl.svcs, sl.profs, sl.places,
          [s \in SS |-> Pick(sl.body[s], r[4 * Idx(s) - 3])],
          [s \in SS |-> Pick(sl.expk[s], r[4 * Idx(s) - 2])],
          [s \in SS |-> Pick(PS, r[4 * Idx(s) - 1])],
          [s \in SS |-> Pick((SUBSET LS) \ {{}}, r[4 * Idx(s)])],
          [s \in SS |-> Pick(sl.counts, r[12 + Idx(s)])],
          [c \in PS |-> IF c = p1 THEN QuantityAt(sl.quants[p1], (r[16] % FamTotal(sl.quants[p1])) + 1)
                                  ELSE QuantityAt(sl.quants[p2], (r[17] % FamTotal(sl.quants[p2])) + 1)]) :
    j \in 1..Len(sl.samples) }

DocsFor(sl) == IF sl.samples = <<>> THEN ExhaustiveDocs(sl) ELSE SampledDocs(sl)

(***************************************************************************)
(* Look-ups on a document.                                                 *)
(***************************************************************************)
SvcNames(d)      == {d.services[i].name : i \in 1..Len(d.services)}
Svc(d, s)        == CHOOSE x \in Range(d.services) : x.name = s
Prof(d, c)       == CHOOSE x \in Range(d.compute) : x.name = c
Place(d, p)      == CHOOSE x \in Range(d.placement) : x.name = p
Pricing(d, p, c) == CHOOSE x \in Range(Place(d, p).pricing) : x.profile = c
Deps(d)          == Range(d.deployment)
HasDep(d, s, p)  == \E x \in Deps(d) : x.service = s /\ x.placement = p
Dep(d, s, p)     == CHOOSE x \in Deps(d) : x.service = s /\ x.placement = p
UsedPlaces(d)    == {x.placement : x \in Deps(d)}
DeployedSvcs(d)  == {x.service : x \in Deps(d)}

(***************************************************************************)
(* The intended translation.                                               *)
(***************************************************************************)
Proto(text) == IF text \in {"udp", "UDP", "Udp"} THEN "UDP" ELSE "TCP"      \* "" and any case of tcp -> TCP
ExtPort(port, as) == IF as = 0 THEN port ELSE as
IsIngress(x) == x.proto = "TCP" /\ x.global /\ ExtPort(x.port, x.as) = 80

\* one manifest expose entry per (expose, to) pair; an expose without `to` gives one entry with no target
ExposeEntries(e) ==
  IF Len(e.to) = 0
  THEN << [port |-> e.port, as |-> e.as, proto |-> Proto(e.proto), service |-> "", global |-> FALSE, hosts |-> e.accept] >>
  ELSE [i \in 1..Len(e.to) |->
         [port |-> e.port, as |-> e.as, proto |-> Proto(e.proto), service |-> e.to[i].service,
          global |-> e.to[i].global, hosts |-> e.accept]]

ExposeUnsorted(svc) == FlattenSeq([i \in 1..Len(svc.expose) |-> ExposeEntries(svc.expose[i])])

\* sdl/v2.go: sort by (service, port, proto, global first)
ExposeLess(d, a, b) ==
  IF a.service # b.service THEN
       \* "" sorts before every name
       IF a.service = "" THEN TRUE ELSE IF b.service = "" THEN FALSE ELSE Rank(d, a.service) < Rank(d, b.service)
  ELSE IF a.port # b.port THEN a.port < b.port
  ELSE IF a.proto # b.proto THEN a.proto = "TCP"          \* "TCP" < "UDP"
  ELSE IF a.global # b.global THEN a.global
  ELSE FALSE
ExposeOut(d, svc) == SortSeq(ExposeUnsorted(svc), LAMBDA a, b : ExposeLess(d, a, b))

EndpointKind(x) == IF IsIngress(x) THEN "SHARED_HTTP" ELSE "RANDOM_PORT"
EndpointsOf(svc) ==
  LET glob == SelectSeq(ExposeUnsorted(svc), LAMBDA x : x.global)
  IN [i \in 1..Len(glob) |-> EndpointKind(glob[i])]

CpuAttrs(c) == IF c.cpuArch = "" THEN <<>> ELSE << <<"arch", c.cpuArch>> >>

SortAttrs(d, as) == SortSeq(as, LAMBDA a, b : Rank(d, a[1]) < Rank(d, b[1]))
Units(d, c) == [cpu |-> CpuMilli(c.cpu), cpuAttrs |-> CpuAttrs(c), mem |-> Bytes(c.mem), storage |-> Bytes(c.storage),
                storageAttrs |-> SortAttrs(d, c.storageAttrs)]        \* attributes are a mapping: sorted by key
\* the units as one run derives them: attribute mappings (storage attributes of the compute profile) are sorted by key;
\* a translation that walks them as the document happens to list them (o.attrs: "fwd" as written, "rev" reversed)
\* makes the groups, the manifest and the version depend on the key order
UnitsRun(d, c, o) ==
  IF Walk = "sorted" THEN Units(d, c)
  ELSE [Units(d, c) EXCEPT !.storageAttrs = IF o.attrs = "fwd" THEN c.storageAttrs ELSE Reverse(c.storageAttrs)]

GroupResource(d, x, o) ==
  LET c == Prof(d, x.profile) pr == Pricing(d, x.placement, x.profile) u == UnitsRun(d, c, o) IN
  [cpu |-> u.cpu, cpuAttrs |-> u.cpuAttrs, mem |-> u.mem, storage |-> u.storage, storageAttrs |-> u.storageAttrs,
   count |-> x.count, price |-> [denom |-> pr.denom, amount |-> pr.amount],
   endpoints |-> EndpointsOf(Svc(d, x.service))]


Groups(d, o) ==
  LET places == WalkSeq(d, UsedPlaces(d), o.place) IN
  [gi \in 1..Len(places) |->
     LET p == places[gi]
         svcs == SelectSeq(WalkSeq(d, DeployedSvcs(d), o.svc), LAMBDA s : HasDep(d, s, p))
     IN [ name      |-> p,
          attrs     |-> SortAttrs(d, Place(d, p).attrs),
          allOf     |-> Place(d, p).allOf,
          anyOf     |-> Place(d, p).anyOf,
          resources |-> [ri \in 1..Len(svcs) |-> GroupResource(d, Dep(d, svcs[ri], p), o)] ]]

ManifestService(d, x, o) ==
  LET svc == Svc(d, x.service) u == UnitsRun(d, Prof(d, x.profile), o) IN
  [ name    |-> svc.name,
    image   |-> svc.image,
    command |-> IF Impl = "asfound" THEN <<>> ELSE svc.command,
    args    |-> svc.args,
    env     |-> svc.env,
    cpu |-> u.cpu, cpuAttrs |-> u.cpuAttrs, mem |-> u.mem, storage |-> u.storage, storageAttrs |-> u.storageAttrs,
    count   |-> x.count,
    expose  |-> ExposeOut(d, svc) ]

Manifest(d, o) ==
  LET places == WalkSeq(d, UsedPlaces(d), o.place) IN
  [gi \in 1..Len(places) |->
     LET p == places[gi]
         svcs == SelectSeq(WalkSeq(d, DeployedSvcs(d), o.svc), LAMBDA s : HasDep(d, s, p))
     IN [ name |-> p, services |-> [si \in 1..Len(svcs) |-> ManifestService(d, Dep(d, svcs[si], p), o)] ]]

(***************************************************************************)
(* Which documents are valid (sdl.Read accepts them): references resolve   *)
(* by construction; the manifest must have a global service, hostnames are *)
(* unique over all manifest expose entries, unit counts, unit sizes and    *)
(* per-group totals are within the network limits                          *)
(* (x/deployment/types/validation_config.go).                              *)
(***************************************************************************)
AllExposeEntries(d) == FlattenSeq([k \in 1..Len(d.deployment) |-> ExposeUnsorted(Svc(d, d.deployment[k].service))])
AllHosts(d) == FlattenSeq([k \in 1..Len(AllExposeEntries(d)) |-> AllExposeEntries(d)[k].hosts])
NoDup(s) == \A i, j \in 1..Len(s) : i # j => s[i] # s[j]
GroupCpu(d, p) == SumSeq([k \in 1..Len(d.deployment) |->
                    IF d.deployment[k].placement = p
                    THEN d.deployment[k].count * CpuMilli(Prof(d, d.deployment[k].profile).cpu) ELSE 0])
BigLe(x, y) == x.mi < y.mi \/ (x.mi = y.mi /\ x.b <= y.b)
BigSum(s) == LET F[i \in 0..Len(s)] == IF i = 0 THEN [mi |-> 0, b |-> 0] ELSE BigAdd(F[i - 1], s[i]) IN F[Len(s)]
GroupBytes(d, p, Field(_)) ==
  BigSum([k \in 1..Len(d.deployment) |->
            IF d.deployment[k].placement = p
            THEN BigMul(Bytes(Field(Prof(d, d.deployment[k].profile))), d.deployment[k].count)
            ELSE [mi |-> 0, b |-> 0]])
MemOf(c) == c.mem
StorageOf(c) == c.storage
Valid(d) ==
  /\ Len(d.deployment) > 0
  /\ \E k \in 1..Len(AllExposeEntries(d)) : AllExposeEntries(d)[k].global
  /\ NoDup(AllHosts(d))
  /\ \A k \in 1..Len(AllExposeEntries(d)) : AllExposeEntries(d)[k].port # 0
  /\ \A s \in Range(d.services) : \A e \in Range(s.expose) : e.proto \in {"", "tcp", "udp", "TCP", "UDP", "Tcp", "Udp"}
  /\ \A x \in Deps(d) :
       LET c == Prof(d, x.profile) pr == Pricing(d, x.placement, x.profile) IN
       /\ pr.denom = "uakt" /\ pr.amount \in 1..10000000
       /\ x.count \in 1..50
       /\ CpuMilli(c.cpu) \in 10..10000
       /\ BigLe([mi |-> 1, b |-> 0], Bytes(c.mem)) /\ BigLe(Bytes(c.mem), [mi |-> 16384, b |-> 0])
       /\ BigLe([mi |-> 5, b |-> 0], Bytes(c.storage)) /\ BigLe(Bytes(c.storage), [mi |-> 1048576, b |-> 0])
  /\ \A p \in UsedPlaces(d) :
       /\ GroupCpu(d, p) <= 20000
       /\ BigLe(GroupBytes(d, p, MemOf), [mi |-> 32768, b |-> 0])
       /\ BigLe(GroupBytes(d, p, StorageOf), [mi |-> 1048576, b |-> 0])

(***************************************************************************)
(* Output of one run.                                                      *)
(***************************************************************************)
NoOut == [state |-> "none"]
Out(d, o) == IF Valid(d)
             THEN [state |-> "ok", groups |-> Groups(d, o), manifest |-> Manifest(d, o), version |-> Manifest(d, o)]
             ELSE [state |-> "rejected"]

(***************************************************************************)
(* ORACLE 1 -- faithfulness, per declared field; order free where the      *)
(* tenant declared no order (groups, services, expose entries, endpoint    *)
(* kinds), order preserving for command / args / env / accept hosts.       *)
(* Returns the set of clause names that FAIL.                              *)
(***************************************************************************)
Count(s, x) == Cardinality({i \in 1..Len(s) : s[i] = x})
SameBag(a, b) == Len(a) = Len(b) /\ \A x \in Range(a) \cup Range(b) : Count(a, x) = Count(b, x)
MapSeq(s, f(_)) == [i \in 1..Len(s) |-> f(s[i])]
EpCounts(eps) == [http |-> Count(eps, "SHARED_HTTP"), random |-> Count(eps, "RANDOM_PORT"), n |-> Len(eps)]

\* what the tenant declared for the deployment entry x, read off the document without going through the translation
DeclaredExpose(svc) ==
  FlattenSeq([i \in 1..Len(svc.expose) |->
    LET e == svc.expose[i] IN
    IF Len(e.to) = 0
    THEN << [port |-> e.port, as |-> e.as, proto |-> Proto(e.proto), service |-> "", global |-> FALSE, hosts |-> e.accept] >>
    ELSE [j \in 1..Len(e.to) |-> [port |-> e.port, as |-> e.as, proto |-> Proto(e.proto),
                                  service |-> e.to[j].service, global |-> e.to[j].global, hosts |-> e.accept]]])
DeclaredEndpoints(svc) ==
  LET ex == DeclaredExpose(svc) IN
  [http   |-> Cardinality({i \in 1..Len(ex) : ex[i].global /\ ex[i].proto = "TCP" /\ ExtPort(ex[i].port, ex[i].as) = 80}),
   random |-> Cardinality({i \in 1..Len(ex) : ex[i].global /\ ~(ex[i].proto = "TCP" /\ ExtPort(ex[i].port, ex[i].as) = 80)}),
   n      |-> Cardinality({i \in 1..Len(ex) : ex[i].global})]
\* attributes are compared as mappings (sorted by key on both sides)
ResKey(d, r) == [cpu |-> r.cpu, cpuAttrs |-> SortAttrs(d, r.cpuAttrs), mem |-> r.mem, storage |-> r.storage,
                 storageAttrs |-> SortAttrs(d, r.storageAttrs)]

\* clause names are "<declared field>@<output>"
ServiceFailures(d, o, x) ==
  LET mg == SelectSeq(o.manifest, LAMBDA g : g.name = x.placement) IN
  IF Len(mg) # 1 THEN {"group@manifest"} ELSE
  LET ms == SelectSeq(mg[1].services, LAMBDA s : s.name = x.service) IN
  IF Len(ms) # 1 THEN {"service@manifest"} ELSE
  LET m == ms[1] svc == Svc(d, x.service) u == Units(d, Prof(d, x.profile)) IN
       (IF m.image = svc.image THEN {} ELSE {"image@manifest"})
  \cup (IF m.command = svc.command THEN {} ELSE {"command@manifest"})
  \cup (IF m.args = svc.args THEN {} ELSE {"args@manifest"})
  \cup (IF m.env = svc.env THEN {} ELSE {"env@manifest"})
  \cup (IF m.count = x.count THEN {} ELSE {"count@manifest"})
  \cup (IF m.cpu = u.cpu THEN {} ELSE {"cpu@manifest"})
  \cup (IF m.mem = u.mem THEN {} ELSE {"memory@manifest"})
  \cup (IF m.storage = u.storage THEN {} ELSE {"storage@manifest"})
  \cup (IF ResKey(d, m).cpuAttrs = u.cpuAttrs /\ ResKey(d, m).storageAttrs = u.storageAttrs
        THEN {} ELSE {"resource-attributes@manifest"})
  \cup (IF SameBag(m.expose, DeclaredExpose(svc)) THEN {} ELSE {"expose@manifest"})

GroupFailures(d, o, p) ==
  LET gg == SelectSeq(o.groups, LAMBDA g : g.name = p) IN
  IF Len(gg) # 1 THEN {"group@groups"} ELSE
  LET rs == gg[1].resources
      xs == SelectSeq(d.deployment, LAMBDA x : x.placement = p)
      want == [i \in 1..Len(xs) |->
                LET x == xs[i] pr == Pricing(d, p, x.profile) IN
                [res |-> ResKey(d, Units(d, Prof(d, x.profile))), count |-> x.count,
                 price |-> [denom |-> pr.denom, amount |-> pr.amount],
                 ep |-> DeclaredEndpoints(Svc(d, x.service))]]
      got == [i \in 1..Len(rs) |-> [res |-> ResKey(d, rs[i]), count |-> rs[i].count, price |-> rs[i].price,
                                    ep |-> EpCounts(rs[i].endpoints)]]
      Bad(f(_)) == ~SameBag(MapSeq(got, f), MapSeq(want, f))
      fields ==
             (IF Bad(LAMBDA r : r.res.cpu) THEN {"cpu@groups"} ELSE {})
        \cup (IF Bad(LAMBDA r : r.res.mem) THEN {"memory@groups"} ELSE {})
        \cup (IF Bad(LAMBDA r : r.res.storage) THEN {"storage@groups"} ELSE {})
        \cup (IF Bad(LAMBDA r : <<r.res.cpuAttrs, r.res.storageAttrs>>) THEN {"resource-attributes@groups"} ELSE {})
        \cup (IF Bad(LAMBDA r : r.count) THEN {"count@groups"} ELSE {})
        \cup (IF Bad(LAMBDA r : r.price) THEN {"price@groups"} ELSE {})
        \cup (IF Bad(LAMBDA r : r.ep) THEN {"expose@groups"} ELSE {})
  IN IF fields # {} THEN fields
     ELSE IF SameBag(got, want) THEN {} ELSE {"unit-binding@groups"}   \* right values, attached to the wrong unit

FaithfulFailures(d, o) ==
       UNION {ServiceFailures(d, o, x) : x \in Deps(d)}
  \cup UNION {GroupFailures(d, o, p) : p \in UsedPlaces(d)}
  \cup (IF Len(o.manifest) = Cardinality(UsedPlaces(d)) THEN {} ELSE {"extra-group@manifest"})
  \cup (IF Len(o.groups) = Cardinality(UsedPlaces(d)) THEN {} ELSE {"extra-group@groups"})
  \cup (IF \A i \in 1..Len(o.manifest) :
             Len(o.manifest[i].services) = Cardinality({x \in Deps(d) : x.placement = o.manifest[i].name})
        THEN {} ELSE {"extra-service@manifest"})

\* placement requirements are not among the fields the property lists: conformance only (drift)
RequirementFailures(d, o) ==
  UNION { LET gg == SelectSeq(o.groups, LAMBDA g : g.name = p) IN
          IF Len(gg) # 1 THEN {} ELSE
               (IF SameBag(gg[1].attrs, Place(d, p).attrs) THEN {} ELSE {"attributes"})
          \cup (IF gg[1].allOf = Place(d, p).allOf /\ gg[1].anyOf = Place(d, p).anyOf THEN {} ELSE {"signedBy"})
        : p \in UsedPlaces(d) }

(***************************************************************************)
(* ORACLE 2 -- the provider's cross validation as a multiset equality:     *)
(* same group names; per group the multiset of resource units (weighted by *)
(* count) of the manifest services equals that of the group's resources,   *)
(* and the numbers of SHARED_HTTP / RANDOM_PORT endpoints equal the        *)
(* numbers of ingress / other global exposes.                              *)
(***************************************************************************)
ResKeyCmp(r) == [cpu |-> r.cpu, cpuAttrs |-> r.cpuAttrs, mem |-> r.mem, storage |-> r.storage, storageAttrs |-> r.storageAttrs]
UnitWeight(rs, k) == SumSeq([i \in 1..Len(rs) |-> IF ResKeyCmp(rs[i]) = k THEN rs[i].count ELSE 0])
GroupMatches(mg, dg) ==
  LET ms == mg.services rs == dg.resources
      keys == {ResKeyCmp(ms[i]) : i \in 1..Len(ms)} \cup {ResKeyCmp(rs[i]) : i \in 1..Len(rs)}
      gl == FlattenSeq([i \in 1..Len(ms) |-> SelectSeq(ms[i].expose, LAMBDA x : x.global)])
      eps == FlattenSeq([i \in 1..Len(rs) |-> rs[i].endpoints])
  IN /\ \A k \in keys : UnitWeight(ms, k) = UnitWeight(rs, k)
     /\ Cardinality({i \in 1..Len(gl) : IsIngress(gl[i])}) = Count(eps, "SHARED_HTTP")
     /\ Cardinality({i \in 1..Len(gl) : ~IsIngress(gl[i])}) = Count(eps, "RANDOM_PORT")
ManifestMatch(m, g) ==
  /\ Len(m) = Len(g)
  /\ \A i \in 1..Len(m) : \E j \in 1..Len(g) : g[j].name = m[i].name
  /\ \A i \in 1..Len(m) : \A j \in 1..Len(g) : g[j].name = m[i].name => GroupMatches(m[i], g[j])

(***************************************************************************)
(* The machine.                                                            *)
(***************************************************************************)
Perms(s) == {p \in [1..Len(s) -> Range(s)] : \A i, j \in 1..Len(s) : i # j => p[i] # p[j]}
Orders(d) == [svc : Perms(SortedNames(d, SvcNames(d))), place : Perms(SortedNames(d, {d.placement[i].name : i \in 1..Len(d.placement)})), attrs : {"fwd", "rev"}]
CanonOrder(d) == [svc |-> SortedNames(d, SvcNames(d)), place |-> SortedNames(d, {d.placement[i].name : i \in 1..Len(d.placement)}), attrs |-> "fwd"]

Init == /\ \E i \in 1..Len(Slices) : doc \in DocsFor(Slices[i])
        /\ ord = CanonOrder(doc) /\ out = NoOut

\* sdl.Read + DeploymentGroups + Manifest + Version on the document as presently ordered
Run == out' = Out(doc, ord) /\ UNCHANGED <<doc, ord>>

\* the same document with its mapping keys in another order (and/or another process with another map seed)
\* (one adjacent transposition in one mapping per step: every order stays reachable, the branching stays small)
SwapAt(q, i) == [k \in 1..Len(q) |-> IF k = i THEN q[i + 1] ELSE IF k = i + 1 THEN q[i] ELSE q[k]]
Reorder ==
  /\ out.state # "none"
  /\ \/ \E i \in 1..(Len(ord.svc) - 1) : ord' = [ord EXCEPT !.svc = SwapAt(ord.svc, i)]
     \/ \E i \in 1..(Len(ord.place) - 1) : ord' = [ord EXCEPT !.place = SwapAt(ord.place, i)]
     \/ /\ \E c \in Range(doc.compute) : Len(c.storageAttrs) > 1          \* keys of a nested attribute mapping
        /\ ord' = [ord EXCEPT !.attrs = IF ord.attrs = "fwd" THEN "rev" ELSE "fwd"]
  /\ UNCHANGED <<doc, out>>

Next == Run \/ Reorder
Spec == Init /\ [][Next]_vars

(***************************************************************************)
(* Properties.                                                             *)
(***************************************************************************)
DeterministicStep == (out.state # "none" /\ out'.state # "none") => out' = out
Determinism == [][DeterministicStep]_vars
Faithful == out.state = "ok" => FaithfulFailures(doc, out) = {}
RequirementsKept == out.state = "ok" => RequirementFailures(doc, out) = {}
SelfConsistent == out.state = "ok" => ManifestMatch(out.manifest, out.groups)
TypeOK == out.state \in {"none", "ok", "rejected"}
=============================================================================
