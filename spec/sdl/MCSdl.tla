------------------------------- MODULE MCSdl -------------------------------
(* Shared definitions for the bounded document spaces of Sdl.tla (J1) and their export as ndjson (J2); the spaces themselves are in MCSdlTiny / MCSdlQuick / MCSdlThorough. *)
EXTENDS Sdl, Json

AllBodies == SUBSET {"command", "args", "env"}
NoneAll   == {{}, {"command", "args", "env"}}
AllKinds  == {"none", "http", "httphosts", "udp", "local", "two", "fan", "bare", "barehosts", "bareonly", "udp80", "as8080", "svcglobal", "rev", "mix"}

CpuM(m)   == [form |-> "m", milli |-> m]
CpuDec(m) == [form |-> "dec", milli |-> m]
CpuDec3(m) == [form |-> "dec3", milli |-> m]
B(n, sfx)     == [n |-> n, tenths |-> 0, suffix |-> sfx]
Bh(n, sfx)    == [n |-> n, tenths |-> 5, suffix |-> sfx]      \* n.5
Bt(n, t, sfx) == [n |-> n, tenths |-> t, suffix |-> sfx]      \* n.t, decimal suffixes only
Q(cpu, arch, mem, storage, sattrs) == [cpu |-> cpu, cpuArch |-> arch, mem |-> mem, storage |-> storage, storageAttrs |-> sattrs]

QLarge == Q(CpuM(100), "", B(128, "Mi"), B(1, "Gi"), <<>>)
QSmall == Q(CpuDec(500), "", Bh(1, "Gi"), B(512, "M"), <<>>)
QOdd   == Q(CpuDec(1250), "amd64", B(2, "G"), B(100, "Gi"), << <<"class", "ssd">> >>)

\* ---- quantity universes for the units slices: one dimension varies at a time ----
MemForms == { B(1, "Mi"), B(128, "Mi"), B(1, "Gi"), B(16, "Gi"), Bh(1, "Gi"), Bh(0, "Gi"), B(512, "M"), B(2, "G"),
              B(2047, "Ki"), B(2097152, ""), B(1500, "k"), Bh(2, "M"), B(16384, "Mi"), B(17, "Gi"), B(1000, "Ki") }
StorageForms == { B(5, "Mi"), B(1, "Ti"), B(1, "T"), B(100, "Gi"), Bh(512, "Mi"), B(1000, "Mi"), B(10, "G"),
                  B(5242880, ""), Bh(0, "Ti"), B(4, "Mi"), B(1025, "Gi") }
BaseQuants(tag) ==
  CASE tag = "QLarge" -> {QLarge} [] tag = "QSmall" -> {QSmall} [] tag = "QOdd" -> {QOdd} [] tag = "QLargeOdd" -> {QLarge, QOdd}

\* n.t <decimal suffix> for n in ns, t in 1..9
DecForms(sfx, ns) == { Bt(n, t, sfx) : n \in ns, t \in 1..9 }
QuantsVarying(cpus, mems, stors) ==
  UNION { { Q(c, "", B(128, "Mi"), B(1, "Gi"), <<>>) : c \in cpus },
          { Q(CpuM(100), "", m, B(1, "Gi"), <<>>) : m \in mems },
          { Q(CpuM(100), "", B(128, "Mi"), s, <<>>) : s \in stors },
          { Q(CpuM(250), "amd64", B(128, "Mi"), B(1, "Gi"), << <<"class", "ssd">> >>),
            Q(CpuM(250), "", B(128, "Mi"), B(1, "Gi"), << <<"class", "ssd">> >>),
            Q(CpuM(250), "amd64", B(128, "Mi"), B(1, "Gi"), <<>>) } }

Sl(svcs, profs, places, body, expk, counts, quants) ==
  [svcs |-> svcs, profs |-> profs, places |-> places, body |-> body, expk |-> expk, counts |-> counts, quants |-> quants]

UnitsSlice ==
  Sl(<<"web">>, <<"large">>, <<"east">>, [s \in {"web"} |-> {{}}], [s \in {"web"} |-> {"http"}], {1},
     [c \in {"large"} |-> "units"])

\* J2: the documents TLC enumerated, one JSON object per line, written next to the spec
ExportDocs(slices) ==
  LET seq == SetToSeq(DocSpaceOf(slices)) IN
  /\ ndJsonSerialize("docs.ndjson", seq)
  /\ PrintT(<<"docs", Len(seq), "valid", Cardinality({i \in 1..Len(seq) : Valid(seq[i])})>>)
=============================================================================
