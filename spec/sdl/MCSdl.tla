------------------------------- MODULE MCSdl -------------------------------
(* Shared definitions for the bounded document spaces of Sdl.tla (J1) and their export as ndjson (J2); the spaces
   themselves are in MCSdlTiny / MCSdlQuick / MCSdlThorough. *)
EXTENDS Sdl, Json, SdlSamples

AllBodies == SUBSET {"command", "args", "env"}
NoneAll   == {{}, {"command", "args", "env"}}
AllKinds  == {"none", "http", "httphosts", "udp", "local", "two", "fan", "bare", "barehosts", "bareonly", "udp80", "as8080",
              "svcglobal", "rev", "mix", "twoglobal", "threeto", "dupglobal", "tomix"}
\* documents the real Read must reject (conformance only)
BadKinds  == {"badproto", "port0"}

CpuM(m)   == [form |-> "m", milli |-> m]
CpuDec(m) == [form |-> "dec", milli |-> m]
CpuDec3(m) == [form |-> "dec3", milli |-> m]
B(n, sfx)     == [n |-> n, tenths |-> 0, suffix |-> sfx]
Bh(n, sfx)    == [n |-> n, tenths |-> 5, suffix |-> sfx]      \* n.5
Bt(n, t, sfx) == [n |-> n, tenths |-> t, suffix |-> sfx]      \* n.t, decimal suffixes only
Q(cpu, arch, mem, storage, sattrs) == [cpu |-> cpu, cpuArch |-> arch, mem |-> mem, storage |-> storage, storageAttrs |-> sattrs]

QLarge == Q(CpuM(100), "", B(128, "Mi"), B(1, "Gi"), <<>>)
QSmall == Q(CpuDec(500), "", Bh(1, "Gi"), B(512, "M"), <<>>)
QOdd   == Q(CpuDec(1250), "amd64", B(2, "G"), B(100, "Gi"), << <<"persistent", "true">>, <<"class", "ssd">> >>)

\* quantity families (see Sdl!FamAt)
List(items) == [k |-> "list", items |-> items]
CpuFam(form, lo, hi) == [k |-> "cpu", form |-> form, lo |-> lo, hi |-> hi]
MemFam(sfx, lo, hi) == [k |-> "mem", sfx |-> sfx, lo |-> lo, hi |-> hi]
StorageFam(sfx, lo, hi) == [k |-> "storage", sfx |-> sfx, lo |-> lo, hi |-> hi]
Mem(m) == [BaseQuantity EXCEPT !.mem = m]
Sto(x) == [BaseQuantity EXCEPT !.storage = x]
Cpu(c) == [BaseQuantity EXCEPT !.cpu = c]

\* hand picked forms, some outside the network limits (the real Read must reject those)
MemForms == List(<< Mem(B(1, "Mi")), Mem(B(128, "Mi")), Mem(B(1, "Gi")), Mem(B(16, "Gi")), Mem(Bh(1, "Gi")), Mem(Bh(0, "Gi")),
                    Mem(B(512, "M")), Mem(B(2, "G")), Mem(B(2047, "Ki")), Mem(B(2097152, "")), Mem(B(1500, "k")),
                    Mem(Bh(2, "M")), Mem(B(16384, "Mi")), Mem(B(17, "Gi")), Mem(B(1000, "Ki")) >>)
StorageForms == List(<< Sto(B(5, "Mi")), Sto(B(1, "Ti")), Sto(B(1, "T")), Sto(B(100, "Gi")), Sto(Bh(512, "Mi")), Sto(B(1000, "Mi")),
                        Sto(B(10, "G")), Sto(B(5242880, "")), Sto(Bh(0, "Ti")), Sto(B(4, "Mi")), Sto(B(1025, "Gi")) >>)
\* 0, 1, 2 and 3 storage attributes, declared in sorted and unsorted key orders
SA0 == <<>>
SA1 == << <<"class", "ssd">> >>
SA2s == << <<"class", "ssd">>, <<"persistent", "true">> >>
SA2u == << <<"persistent", "true">>, <<"class", "ssd">> >>
SA3u == << <<"tier", "fast">>, <<"class", "nvme">>, <<"persistent", "false">> >>
SA3v == << <<"persistent", "true">>, <<"tier", "slow">>, <<"class", "hdd">> >>
AttrForms == List(<< Q(CpuM(250), "amd64", B(128, "Mi"), B(1, "Gi"), SA1),
                     Q(CpuM(250), "", B(128, "Mi"), B(1, "Gi"), SA1),
                     Q(CpuM(250), "amd64", B(128, "Mi"), B(1, "Gi"), SA0),
                     Q(CpuM(250), "", B(128, "Mi"), B(1, "Gi"), SA2s),
                     Q(CpuM(250), "", B(128, "Mi"), B(1, "Gi"), SA2u),
                     Q(CpuM(250), "amd64", B(128, "Mi"), B(1, "Gi"), SA3u),
                     Q(CpuM(250), "", B(128, "Mi"), B(1, "Gi"), SA3v) >>)
CpuEdge == List(<< Cpu(CpuM(10)), Cpu(CpuM(100)), Cpu(CpuM(1500)), Cpu(CpuM(10000)), Cpu(CpuM(9)), Cpu(CpuM(10001)),
                   Cpu(CpuDec3(100)), Cpu(CpuDec3(1001)), Cpu(CpuDec3(2500)) >>)

Sl(name, svcs, profs, places, body, expk, counts, quants) ==
  [name |-> name, svcs |-> svcs, profs |-> profs, places |-> places, body |-> body, expk |-> expk, counts |-> counts,
   quants |-> quants, samples |-> <<>>]

\* the large structural space that is sampled, not enumerated: three services, three placements, two profiles, every
\* body subset, every expose kind, three counts, a mix of quantity forms
BigSlice(name, samples) ==
  [Sl(name, <<"api", "db", "web">>, <<"large", "small">>, <<"east", "north", "west">>,
      [s \in {"api", "db", "web"} |-> AllBodies], [s \in {"api", "db", "web"} |-> AllKinds], {1, 2, 7},
      [c \in {"large", "small"} |-> IF c = "large" THEN <<List(<<QLarge, QOdd>>), CpuFam("dec", 100, 600)>>
                                                   ELSE <<List(<<QSmall>>), MemFam("G", 0, 3), StorageFam("G", 1, 9)>>])
   EXCEPT !.samples = samples]

UnitsSlice(name, fams) ==
  Sl(name, <<"web">>, <<"large">>, <<"east">>, [s \in {"web"} |-> {{}}], [s \in {"web"} |-> {"http"}], {1},
     [c \in {"large"} |-> fams])

\* J2: the documents TLC enumerated, one JSON object per line, one file per slice, written next to the spec
ExportDocs(slices) ==
  \A i \in 1..Len(slices) :
    LET seq == SetToSeq(DocsFor(slices[i])) IN
    /\ ndJsonSerialize("docs_" \o slices[i].name \o ".ndjson", seq)
    /\ PrintT(<<"slice", slices[i].name, "docs", Len(seq), "valid", Cardinality({j \in 1..Len(seq) : Valid(seq[j])})>>)
=============================================================================
