------------------------------- MODULE MCSdlThorough -------------------------------
EXTENDS MCSdl

\* ---- thorough ----
ThoroughSlices == <<
  Sl("A", <<"web">>, <<"large">>, <<"east", "west">>, [s \in {"web"} |-> AllBodies], [s \in {"web"} |-> AllKinds \cup BadKinds],
     {1, 2, 49, 50}, [c \in {"large"} |-> <<List(<<QLarge, QOdd>>)>>]),
  Sl("B", <<"api", "web">>, <<"large", "small">>, <<"east">>,
     [s \in {"api", "web"} |-> AllBodies],
     [s \in {"api", "web"} |-> AllKinds \ {"bareonly", "barehosts", "udp80", "as8080", "svcglobal", "threeto", "dupglobal", "tomix"}],
     {2}, [c \in {"large", "small"} |-> IF c = "large" THEN <<List(<<QLarge>>)>> ELSE <<List(<<QSmall>>)>>]),
  Sl("C", <<"api", "web">>, <<"large", "small">>, <<"east", "west">>,
     [s \in {"api", "web"} |-> IF s = "web" THEN {{}, {"command"}, {"args", "env"}, {"command", "args", "env"}} ELSE NoneAll],
     [s \in {"api", "web"} |-> IF s = "web" THEN {"none", "http", "two", "fan", "mix"} ELSE {"none", "httphosts", "local", "udp", "rev"}],
     {1, 7}, [c \in {"large", "small"} |-> IF c = "large" THEN <<List(<<QLarge>>)>> ELSE <<List(<<QOdd>>)>>]),
  \* three services, three placements
  Sl("E", <<"api", "db", "web">>, <<"large", "small">>, <<"east", "north", "west">>,
     [s \in {"api", "db", "web"} |-> IF s = "db" THEN NoneAll ELSE {{"command", "args", "env"}}],
     [s \in {"api", "db", "web"} |-> IF s = "web" THEN {"two"} ELSE IF s = "db" THEN {"local", "none"} ELSE {"udp"}],
     {1}, [c \in {"large", "small"} |-> IF c = "large" THEN <<List(<<QLarge>>)>> ELSE <<List(<<QSmall>>)>>]),
  \* every CPU amount with at most three decimals from 0.009 to 10.001 (shortest spelling), 1.000..3.000 with three
  \* digits, 9m..1200m; memory n.t G (n 0..17), n.t M (1..600), n.t k (1040..1400); storage n.t G (0..1100),
  \* n.t M (4..600), n.t T (0..1)
  UnitsSlice("D", << CpuEdge, CpuFam("dec", 9, 10001), CpuFam("dec3", 1000, 3000), CpuFam("m", 9, 1200),
                     MemForms, MemFam("G", 0, 17), MemFam("M", 1, 600), MemFam("k", 1040, 1400),
                     StorageForms, StorageFam("G", 0, 1100), StorageFam("M", 4, 600), StorageFam("T", 0, 1), AttrForms >>),
  \* S: seeded sample of the large structural space
  BigSlice("S", Samples) >>

ASSUME ExportDocs(Slices)
=============================================================================
