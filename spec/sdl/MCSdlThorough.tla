------------------------------- MODULE MCSdlThorough -------------------------------
EXTENDS MCSdl

\* every CPU amount with at most three decimals from 0.010 to 10.000, in both decimal spellings
CpusThorough == UNION { { CpuDec(m) : m \in 10..10000 }, { CpuDec3(m) : m \in 10..10000 }, { CpuM(m) : m \in 9..10001 } }

\* ---- thorough ----
ThoroughSlices == <<
  Sl(<<"web">>, <<"large">>, <<"east", "west">>, [s \in {"web"} |-> AllBodies], [s \in {"web"} |-> AllKinds],
     {1, 2, 50}, [c \in {"large"} |-> "QLargeOdd"]),
  Sl(<<"api", "web">>, <<"large", "small">>, <<"east">>,
     [s \in {"api", "web"} |-> AllBodies],
     [s \in {"api", "web"} |-> AllKinds \ {"bareonly", "barehosts", "udp80", "as8080", "svcglobal"}],
     {2}, [c \in {"large", "small"} |-> IF c = "large" THEN "QLarge" ELSE "QSmall"]),
  Sl(<<"api", "web">>, <<"large", "small">>, <<"east", "west">>,
     [s \in {"api", "web"} |-> IF s = "web" THEN AllBodies ELSE NoneAll],
     [s \in {"api", "web"} |-> IF s = "web" THEN {"none", "http", "two", "fan", "mix"} ELSE {"none", "httphosts", "local", "udp", "rev"}],
     {1, 25}, [c \in {"large", "small"} |-> IF c = "large" THEN "QLarge" ELSE "QOdd"]),
  \* three services, three placements
  Sl(<<"api", "db", "web">>, <<"large", "small">>, <<"east", "north", "west">>,
     [s \in {"api", "db", "web"} |-> IF s = "db" THEN NoneAll ELSE {{"command", "args", "env"}}],
     [s \in {"api", "db", "web"} |-> IF s = "web" THEN {"two"} ELSE IF s = "db" THEN {"local", "none"} ELSE {"udp"}],
     {1}, [c \in {"large", "small"} |-> IF c = "large" THEN "QLarge" ELSE "QSmall"]),
  UnitsSlice >>


\* the unit universe of this tier (built on use: see Sdl!QuantsOf)
TierQuants(tag) == IF tag = "units" THEN QuantsVarying(CpusThorough,
             UNION {MemForms, DecForms("G", 0..17), DecForms("M", 1..2000), DecForms("k", 1040..2040)},
             UNION {StorageForms, DecForms("G", 0..1100), DecForms("M", 4..2000), DecForms("T", {0, 1})}) ELSE BaseQuants(tag)

ASSUME ExportDocs(Slices)
=============================================================================
