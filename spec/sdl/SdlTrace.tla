----------------------------- MODULE SdlTrace -----------------------------
(***************************************************************************)
(* J3 for C18: TLC reads what the harness recorded from the REAL           *)
(* sdl.Read / DeploymentGroups / Manifest / Version and                    *)
(* validation.ValidateManifestWithDeployment (trace.ndjson) and judges it  *)
(* with the definitions of Sdl.tla.                                        *)
(*                                                                         *)
(* trace.ndjson:  {"ev":"doc","id":i,"doc":D}       a new document         *)
(*                {"ev":"run","id":i,"proc","perm","via","call",           *)
(*                 "out":{"state","groups","manifest","version"},"xval"}   *)
(*                                                  one run on it          *)
(* A "doc" line starts a behaviour of the Sdl machine in state             *)
(* (doc, out = NoOut); every "run" line is one Run step (preceded by a     *)
(* Reorder step when the permutation / process changed) whose out' is the  *)
(* RECORDED output.  On every run step TLC evaluates                       *)
(*   - FaithfulFailures(doc, out')         (Sdl!Faithful),                 *)
(*   - DeterministicStep on (out, out')    (Sdl!Determinism),              *)
(*   - the recorded verdict of the real cross validation,                  *)
(* and, as conformance (drift): out' = Out(doc) exactly (order included),  *)
(* acceptance = Valid(doc), placement requirements kept, and the           *)
(* ManifestMatch oracle agreeing with the real validator.                  *)
(* Failing lines are printed as JSON (one per line) and the walk goes on,  *)
(* so that every violating document of a batch is reported.  All lines     *)
(* must be consumed: the check requires Len(Rec) + 1 distinct states.    *)
(***************************************************************************)
EXTENDS Sdl, Json

NoSlices == <<>>

Rec == ndJsonDeserialize("trace.ndjson")

VARIABLES l, exp
tvars == <<l, exp, doc, ord, out>>

NoDoc == [state |-> "none"]

TInit == l = 0 /\ doc = NoDoc /\ ord = NoDoc /\ out = NoOut /\ exp = NoOut

Exact(o, e) == o.state = e.state /\ (o.state = "ok" => o.groups = e.groups /\ o.manifest = e.manifest)

Drift(e) ==
       (IF exp.state = "ok" /\ out'.state # "ok" THEN {"valid-document-rejected"} ELSE {})
  \cup (IF exp.state # "ok" /\ out'.state = "ok" THEN {"invalid-document-accepted"} ELSE {})
  \cup (IF exp.state = "ok" /\ out'.state = "ok" /\ ~Exact(out', exp) THEN {"output-differs-from-spec"} ELSE {})
  \cup (IF out'.state = "ok" /\ exp.state = "ok" THEN RequirementFailures(doc, out') ELSE {})
  \cup (IF out'.state = "ok" /\ (ManifestMatch(out'.manifest, out'.groups) # (e.xval = "ok"))
        THEN {"oracle-disagrees-with-validator"} ELSE {})
  \cup (IF out'.state = "ok" /\ e.xval # e.xval2 THEN {"validators-disagree"} ELSE {})

\* the property is stated for valid documents: outputs of a document the spec calls invalid are conformance only
Verdict(e) ==
  [ l           |-> l',
    id          |-> e.id, proc |-> e.proc, perm |-> e.perm, call |-> e.call,
    faithful    |-> IF out'.state = "ok" /\ exp.state = "ok" THEN FaithfulFailures(doc, out') ELSE {},
    determinism |-> DeterministicStep,
    validates   |-> (out'.state = "ok" => e.xval = "ok"),
    xval        |-> e.xval,
    drift       |-> Drift(e) ]

Good(v) == v.faithful = {} /\ v.determinism /\ v.validates /\ v.drift = {}

DocStep(e) ==
  /\ doc' = e.doc
  /\ ord' = CanonOrder(e.doc)
  /\ exp' = Out(e.doc, CanonOrder(e.doc))
  /\ out' = NoOut

RunStep(e) ==
  /\ out' = e.out
  /\ UNCHANGED <<doc, ord, exp>>
  /\ LET v == Verdict(e) IN Good(v) \/ PrintT(ToJson(v))

TNext ==
  /\ l < Len(Rec)
  /\ l' = l + 1
  /\ LET e == Rec[l + 1] IN IF e.ev = "doc" THEN DocStep(e) ELSE RunStep(e)

TSpec == TInit /\ [][TNext]_tvars
=============================================================================
