\* J1: exhaustive check of the intended translation over the thorough document space
CONSTANTS
  Impl = "intended"
  Walk = "sorted"
  Slices <- ThoroughSlices
SPECIFICATION Spec
INVARIANTS TypeOK Faithful RequirementsKept SelfConsistent
PROPERTIES Determinism
CHECK_DEADLOCK FALSE
