\* negative control: deriving storage attributes in the order the document lists them must violate Determinism
CONSTANTS
  Impl = "intended"
  Walk = "arbitrary"
  Slices <- AttrSlices
SPECIFICATION Spec
INVARIANTS TypeOK Faithful SelfConsistent
PROPERTIES Determinism
CHECK_DEADLOCK FALSE
