--------------------------- MODULE DeployManager ---------------------------
(***************************************************************************)
(* The provider's deployment manager for ONE lease                          *)
(*   provider/cluster/manager.go  deploymentManager.run  (one action per    *)
(*                                select case), startDeploy/startTeardown,  *)
(*                                doDeploy/doTeardown (retry loop), exit    *)
(*   provider/cluster/service.go  the slice of service.run that routes      *)
(*                                ManifestReceived / EventLeaseClosed,      *)
(*                                collects a finished manager and releases  *)
(*                                the reservation, and shuts down           *)
(*   provider/cluster/hostname.go the reservation request / its result      *)
(*                                                                          *)
(* Property C14 is stated over the ghost history `hist` (call log with      *)
(* issue/start/end marks, manifests received, close / teardown request /    *)
(* shutdown marks) and the release observation (resv, hnHeld) only, so the  *)
(* very same operators are evaluated by DeployManagerTrace on histories     *)
(* recorded from the real code.                                             *)
(***************************************************************************)
EXTENDS Integers, Sequences, FiniteSets, TLC

CONSTANTS
  Impl,          \* "intended" | "asfound"  (the two places where the found tree differs, DESIGN section 7 D9)
  MaxManifests,  \* ManifestReceived events the environment publishes
  NContents,     \* manifests are VALUES: each published manifest has one of the contents 1..NContents (<= 4), so a later
                 \* manifest can be equal to an earlier one (A-B-A, A-A, A-B-B); manifest id = content id
  FreshOnly,     \* BOOLEAN: every published manifest has a new content (1, 2, 3, ..)
  MaxClosed,     \* EventLeaseClosed events the environment publishes
  MaxDeployErr,  \* Deploy calls the environment lets fail
  MaxTdErr,      \* TeardownLease attempts the environment lets fail
  MaxAttempts,   \* retry.Attempts of doTeardown (50 in the code)
  AllowShutdown, \* BOOLEAN: the environment may request provider shutdown
  Preexisting,   \* BOOLEAN: the lease's deployment is found in the cluster at service start (manager created by run())
  Atomic,        \* BOOLEAN: forced schedule -- a new stimulus only when every internal step has been taken
  MaxStimuli     \* bound on the number of environment stimuli

VARIABLES
  svc,     \* service loop: "running" | "stopping" (shutdown consumed, draining managers) | "stopped"
  shut,    \* BOOLEAN  Close() was called
  bus,     \* events published and not yet consumed by the service loop (FIFO)
  inbox,   \* the update / teardown request the manager has accepted (channel rendezvous) and not yet processed
  resv,    \* BOOLEAN  the inventory holds the order's reservation
  mgr,     \* "none" | "loop" | "exiting" (left the loop, waits for the in-flight op) | "stopped" (run returned) | "gone"
  state,   \* deploymentState
  mg,      \* manifest id held in dm.mgroup (0: none)
  hn,      \* hostname reservation request: "none" | "pending" | "ok" | "failed" (result sits in the channel)
  hnc,     \* BOOLEAN  manager consumed the hostname result
  hnHeld,  \* BOOLEAN  the hostname service holds the lease's hostnames
  hnRel,   \* BOOLEAN  release of the hostnames is deferred to manager exit
  op,      \* runch: "none" | "deploy" | "teardown"
  oph,     \* phase of the op goroutine: "idle" | "spawned" | "running" (inside the client call) | "ok" | "err" (result in runch)
  att,     \* TeardownLease attempts that failed in the current op
  hist,    \* ghost: history, see H
  script   \* ghost: environment stimuli so far

core == <<svc, shut, bus, inbox, resv, mgr, state, mg, hn, hnc, hnHeld, hnRel, op, oph, att>>
vars == <<svc, shut, bus, inbox, resv, mgr, state, mg, hn, hnc, hnHeld, hnRel, op, oph, att, hist, script>>

States == {"deploy-active", "deploy-pending", "deploy-complete",
           "teardown-active", "teardown-pending", "teardown-complete"}

\* history entries: k in recv | close | tdreq | shutdown | issue | start | end ; c in Deploy | Teardown | - ; m manifest id ; r ok | err | -
H(k, c, m, r) == [k |-> k, c |-> c, m |-> m, r |-> r]
Msg(t, m) == [t |-> t, m |-> m]
NoMsg == Msg("none", 0)

NStim(x) == Cardinality({i \in DOMAIN script : script[i] = x})

\* manifest stimuli carry their content
ManStims == <<"m1", "m2", "m3", "m4">>
IsManStim(s) == \E c \in 1..4 : ManStims[c] = s
ContentOf(s) == CHOOSE c \in 1..4 : ManStims[c] = s
NMan == Cardinality({i \in DOMAIN script : IsManStim(script[i])})
MaxUsed == LET U == {ContentOf(script[i]) : i \in {j \in DOMAIN script : IsManStim(script[j])}}
           IN IF U = {} THEN 0 ELSE CHOOSE x \in U : \A y \in U : y <= x
\* contents are interchangeable: a new content is always the next unused number
ContentChoices == IF FreshOnly THEN {MaxUsed + 1} \cap (1..4)
                  ELSE {c \in 1..4 : c <= NContents /\ c <= MaxUsed + 1}

TypeOK ==
  /\ svc \in {"running", "stopping", "stopped"} /\ shut \in BOOLEAN
  /\ mgr \in {"none", "loop", "exiting", "stopped", "gone"}
  /\ state \in States /\ mg \in 0..4
  /\ hn \in {"none", "pending", "ok", "failed"} /\ hnc \in BOOLEAN /\ hnHeld \in BOOLEAN /\ hnRel \in BOOLEAN
  /\ op \in {"none", "deploy", "teardown"} /\ oph \in {"idle", "spawned", "running", "ok", "err"}
  /\ att \in 0..MaxAttempts /\ resv \in BOOLEAN
  /\ inbox.t \in {"none", "update", "teardown"}
  /\ (op = "none") = (oph = "idle")

\* pre: the lease's deployment is found in the cluster at service start: run() creates its manager (manifest id 0)
\* before the loop; the reservation is re-created from the found deployment.
InitP(pre) ==
  /\ svc = "running" /\ shut = FALSE /\ bus = <<>> /\ inbox = NoMsg /\ resv = TRUE
  /\ mgr = IF pre THEN "loop" ELSE "none"
  /\ state = "deploy-active"
  /\ mg = 0
  /\ hn = IF pre THEN "pending" ELSE "none"
  /\ hnc = FALSE /\ hnHeld = FALSE /\ hnRel = FALSE
  /\ op = "none" /\ oph = "idle" /\ att = 0
  /\ hist = <<>> /\ script = <<>>

Init == InitP(Preexisting)

(* history helpers *)
Idx(h, P(_)) == {i \in DOMAIN h : P(h[i])}
Max(S) == CHOOSE x \in S : \A y \in S : y <= x

IsCallStart(e)   == e.k = "start"
IsCallEnd(e)     == e.k = "end"
IsDeployIssue(e) == e.k = "issue" /\ e.c = "Deploy"
IsDeployStart(e) == e.k = "start" /\ e.c = "Deploy"
IsDeployAny(e)   == e.c = "Deploy" /\ e.k \in {"start", "end"}
IsTdStart(e)     == e.k = "start" /\ e.c = "Teardown"
IsTdReq(e)       == e.k = "tdreq"
IsClose(e)       == e.k = "close"
IsShutdown(e)    == e.k = "shutdown"
IsRecv(e)        == e.k = "recv"
IsDeployFail(e)  == e.k = "end" /\ e.c = "Deploy" /\ e.r = "err"

----------------------------------------------------------------------------
(* guards of the internal (non-environment) steps *)

G_SvcShutdown  == svc = "running" /\ shut
G_SvcRoute     == svc = "running" /\ bus # <<>> /\ inbox.t = "none"
G_MgrInbox     == mgr = "loop" /\ inbox.t # "none"
G_MgrHostnames == mgr = "loop" /\ inbox.t = "none" /\ hn \in {"ok", "failed"} /\ ~hnc
G_MgrShutdown  == mgr = "loop" /\ inbox.t = "none" /\ svc # "running"
G_MgrResult    == mgr = "loop" /\ inbox.t = "none" /\ op # "none" /\ oph \in {"ok", "err"}
G_MgrExitWait  == mgr = "exiting" /\ (op = "none" \/ oph \in {"ok", "err"})
G_Collect      == mgr = "stopped" /\ svc = "running"
G_Drain        == mgr = "stopped" /\ svc = "stopping"
G_SvcStopped   == svc = "stopping" /\ mgr \in {"none", "gone"}
G_OpBegin      == op # "none" /\ oph = "spawned"

Stable == ~(G_SvcShutdown \/ G_SvcRoute \/ G_MgrInbox \/ G_MgrHostnames \/ G_MgrShutdown \/ G_MgrResult
            \/ G_MgrExitWait \/ G_Collect \/ G_Drain \/ G_SvcStopped \/ G_OpBegin)

\* Nothing more will happen without a new event: no internal step enabled, no gate closed.
Quiescent == Stable /\ op = "none" /\ hn # "pending"

----------------------------------------------------------------------------
(* manager.go startDeploy / startTeardown: set the state, spawn the op goroutine *)

StartDeploy(m) ==
  /\ state' = "deploy-active" /\ op' = "deploy" /\ oph' = "spawned" /\ att' = 0
  /\ hist' = Append(hist, H("issue", "Deploy", m, "-"))

StartTeardown ==
  /\ state' = "teardown-active" /\ op' = "teardown" /\ oph' = "spawned" /\ att' = 0
  /\ hist' = Append(hist, H("issue", "Teardown", 0, "-"))

NoOp == op' = "none" /\ oph' = "idle" /\ att' = 0

----------------------------------------------------------------------------
(* service.go run(): case ev := <-s.sub.Events() *)

\* ManifestReceived
SvcRouteManifest(m) ==
  /\ hist' = Append(hist, H("recv", "-", m, "-"))
  /\ IF ~resv THEN                                   \* inventory.lookup fails: dropped
       UNCHANGED <<inbox, mgr, state, mg, hn, hnc>>
     ELSE IF mgr \in {"none", "gone"} THEN           \* newDeploymentManager: run() requests the hostnames first
       /\ mgr' = "loop" /\ state' = "deploy-active" /\ mg' = m /\ hn' = "pending" /\ hnc' = FALSE
       /\ UNCHANGED inbox
     ELSE IF mgr = "loop" THEN                       \* manager.update(): rendezvous on updatech
       /\ inbox' = Msg("update", m) /\ UNCHANGED <<mgr, state, mg, hn, hnc>>
     ELSE                                            \* manager shutting down: ErrNotRunning, manifest lost
       UNCHANGED <<inbox, mgr, state, mg, hn, hnc>>
  /\ UNCHANGED <<resv>>

\* EventLeaseClosed -> teardownLease
SvcRouteClosed ==
  /\ IF mgr = "loop" THEN                            \* manager.teardown(): rendezvous on teardownch
       /\ inbox' = Msg("teardown", 0) /\ UNCHANGED resv
       /\ hist' = Append(Append(hist, H("close", "-", 0, "-")), H("tdreq", "-", 0, "-"))
     ELSE IF mgr \in {"exiting", "stopped"} THEN     \* ErrNotRunning
       /\ UNCHANGED <<inbox, resv>>
       /\ hist' = Append(hist, H("close", "-", 0, "-"))
     ELSE                                            \* no manager: unreserve the unmanaged order
       /\ resv' = FALSE /\ UNCHANGED inbox
       /\ hist' = Append(hist, H("close", "-", 0, "-"))
  /\ UNCHANGED <<mgr, state, mg, hn, hnc>>

SvcRoute ==
  /\ G_SvcRoute
  /\ bus' = Tail(bus)
  /\ IF Head(bus).t = "manifest" THEN SvcRouteManifest(Head(bus).m) ELSE SvcRouteClosed
  /\ UNCHANGED <<svc, shut, hnHeld, hnRel, op, oph, att, script>>

\* case err := <-s.lc.ShutdownRequest(): ShutdownInitiated closes ShuttingDown(), which every manager watches
SvcShutdown ==
  /\ G_SvcShutdown
  /\ svc' = "stopping"
  /\ UNCHANGED <<shut, bus, inbox, resv, mgr, state, mg, hn, hnc, hnHeld, hnRel, op, oph, att, hist, script>>

\* case dm := <-s.managerch: unreserve, forget the manager
SvcCollect ==
  /\ G_Collect
  /\ mgr' = "gone" /\ resv' = FALSE
  /\ UNCHANGED <<svc, shut, bus, inbox, state, mg, hn, hnc, hnHeld, hnRel, op, oph, att, hist, script>>

\* after the loop: drain the managers (no unreserve)
SvcDrain ==
  /\ G_Drain
  /\ mgr' = "gone"
  /\ UNCHANGED <<svc, shut, bus, inbox, resv, state, mg, hn, hnc, hnHeld, hnRel, op, oph, att, hist, script>>

SvcStopped ==
  /\ G_SvcStopped
  /\ svc' = "stopped"
  /\ UNCHANGED <<shut, bus, inbox, resv, mgr, state, mg, hn, hnc, hnHeld, hnRel, op, oph, att, hist, script>>

----------------------------------------------------------------------------
(* manager.go run(): one action per select case *)

\* case err := <-reserveHostnamesCh
MgrHostnames ==
  /\ G_MgrHostnames
  /\ hnc' = TRUE
  /\ IF hn = "failed" THEN
       /\ mgr' = "exiting" /\ UNCHANGED <<state, op, oph, att, hist, hnRel>>
     ELSE
       /\ hnRel' = TRUE /\ UNCHANGED mgr
       /\ IF Impl = "intended" /\ state = "teardown-pending"
            THEN StartTeardown          \* teardown was requested before anything was deployed
            ELSE StartDeploy(mg)        \* as found: unconditionally
  /\ UNCHANGED <<svc, shut, bus, inbox, resv, mg, hn, hnHeld, script>>

\* case shutdownErr = <-dm.lc.ShutdownRequest()
MgrShutdown ==
  /\ G_MgrShutdown
  /\ mgr' = "exiting"
  /\ UNCHANGED <<svc, shut, bus, inbox, resv, state, mg, hn, hnc, hnHeld, hnRel, op, oph, att, hist, script>>

\* case mgroup := <-dm.updatech
MgrUpdate ==
  /\ G_MgrInbox /\ inbox.t = "update"
  /\ inbox' = NoMsg
  /\ mg' = inbox.m                 \* assigned before the switch, in every state
  /\ CASE state = "deploy-active"   -> state' = "deploy-pending" /\ UNCHANGED <<op, oph, att, hist>>
       [] state = "deploy-pending"  -> UNCHANGED <<state, op, oph, att, hist>>
       [] state = "deploy-complete" -> StartDeploy(inbox.m)
       [] OTHER                     -> UNCHANGED <<state, op, oph, att, hist>>    \* teardown-*: ignored
  /\ UNCHANGED <<svc, shut, bus, resv, mgr, hn, hnc, hnHeld, hnRel, script>>

\* case <-dm.teardownch
MgrTeardown ==
  /\ G_MgrInbox /\ inbox.t = "teardown"
  /\ inbox' = NoMsg
  /\ CASE state \in {"deploy-active", "deploy-pending"} -> state' = "teardown-pending" /\ UNCHANGED <<op, oph, att, hist>>
       [] state = "deploy-complete" -> StartTeardown
       [] OTHER -> UNCHANGED <<state, op, oph, att, hist>>
  /\ UNCHANGED <<svc, shut, bus, resv, mgr, mg, hn, hnc, hnHeld, hnRel, script>>

\* case result := <-runch
MgrResult ==
  /\ G_MgrResult
  /\ CASE state = "deploy-active" /\ oph = "ok" ->
            state' = "deploy-complete" /\ NoOp /\ UNCHANGED <<mgr, hist>>
       [] state = "deploy-pending" /\ oph = "ok" ->
            StartDeploy(mg) /\ UNCHANGED mgr
       [] state \in {"deploy-active", "deploy-pending"} /\ oph = "err" ->
            IF Impl = "intended"
              THEN StartTeardown /\ UNCHANGED mgr              \* clean up what the failed deploy left behind
              ELSE mgr' = "exiting" /\ NoOp /\ UNCHANGED <<state, hist>>   \* as found: exit, no teardown
       [] state = "teardown-active" ->
            state' = "teardown-complete" /\ mgr' = "exiting" /\ NoOp /\ UNCHANGED hist
       [] state = "teardown-pending" ->
            StartTeardown /\ UNCHANGED mgr
  /\ UNCHANGED <<svc, shut, bus, inbox, resv, mg, hn, hnc, hnHeld, hnRel, script>>

\* after the loop: wait for the in-flight op, then the deferred ReleaseHostnames and ShutdownCompleted
MgrExitWait ==
  /\ G_MgrExitWait
  /\ mgr' = "stopped" /\ NoOp
  /\ hnHeld' = IF hnRel THEN FALSE ELSE hnHeld
  /\ UNCHANGED <<svc, shut, bus, inbox, resv, state, mg, hn, hnc, hnRel, hist, script>>

----------------------------------------------------------------------------
(* the op goroutine (dm.do): enters the scripted cluster client *)

\* doDeploy reads dm.mgroup inside the op goroutine, unsynchronised with the loop that assigns it on every update:
\* the manifest handed to Deploy is the one held at issue time or any one the manager has been given since.
\* (over-approximated by: issued with, held now, or received by the service since the issue.)  Under the forced schedule
\* there is no race.
LastIssue == LET I == Idx(hist, IsDeployIssue) IN IF I = {} THEN 0 ELSE Max(I)
IssuedM == IF LastIssue = 0 THEN mg ELSE hist[LastIssue].m
DeployArgs == IF Atomic THEN {mg}
              ELSE {IssuedM, mg} \cup {hist[i].m : i \in {j \in Idx(hist, IsRecv) : j > LastIssue}}

OpBeginM(m) ==
  /\ G_OpBegin
  /\ oph' = "running"
  /\ IF op = "deploy" THEN m \in DeployArgs ELSE m = 0
  /\ hist' = Append(hist, IF op = "deploy" THEN H("start", "Deploy", m, "-") ELSE H("start", "Teardown", 0, "-"))
  /\ UNCHANGED <<svc, shut, bus, inbox, resv, mgr, state, mg, hn, hnc, hnHeld, hnRel, op, att, script>>

OpBegin == \E m \in 0..4 : OpBeginM(m)

Internal ==
  \/ SvcShutdown \/ SvcRoute \/ SvcCollect \/ SvcDrain \/ SvcStopped
  \/ MgrHostnames \/ MgrShutdown \/ MgrUpdate \/ MgrTeardown \/ MgrResult \/ MgrExitWait
  \/ OpBegin

----------------------------------------------------------------------------
(* environment stimuli *)

EnvOK == Len(script) < MaxStimuli /\ (Atomic => Stable)
\* events may be published at any time; under the forced schedule nothing is published once shutdown was requested
\* (the service would never consume it)
PubOK == Atomic => ~shut

PubManifestC(c) ==
  /\ EnvOK /\ PubOK /\ NMan < MaxManifests /\ c \in 1..4
  /\ bus' = Append(bus, Msg("manifest", c))
  /\ script' = Append(script, ManStims[c])
  /\ UNCHANGED <<svc, shut, inbox, resv, mgr, state, mg, hn, hnc, hnHeld, hnRel, op, oph, att, hist>>

PubClosed ==
  /\ EnvOK /\ PubOK /\ NStim("c") < MaxClosed
  /\ bus' = Append(bus, Msg("closed", 0))
  /\ script' = Append(script, "c")
  /\ UNCHANGED <<svc, shut, inbox, resv, mgr, state, mg, hn, hnc, hnHeld, hnRel, op, oph, att, hist>>

ReqShutdown ==
  /\ EnvOK /\ AllowShutdown /\ ~shut
  /\ shut' = TRUE
  /\ hist' = Append(hist, H("shutdown", "-", 0, "-"))
  /\ script' = Append(script, "s")
  /\ UNCHANGED <<svc, bus, inbox, resv, mgr, state, mg, hn, hnc, hnHeld, hnRel, op, oph, att>>

\* the hostname service processes the reservation request
HnResolve(r) ==
  /\ EnvOK /\ hn = "pending"
  /\ hn' = r /\ hnHeld' = (r = "ok")
  /\ script' = Append(script, IF r = "ok" THEN "hok" ELSE "hfail")
  /\ UNCHANGED <<svc, shut, bus, inbox, resv, mgr, state, mg, hnc, hnRel, op, oph, att, hist>>

\* the cluster client call returns
OpReturn(r) ==
  /\ EnvOK /\ oph = "running"
  /\ IF op = "deploy" THEN
       /\ r = "err" => NStim("derr") < MaxDeployErr
       /\ oph' = r /\ att' = att
       /\ hist' = Append(hist, H("end", "Deploy", 0, r))
       /\ script' = Append(script, IF r = "ok" THEN "dok" ELSE "derr")
     ELSE
       /\ r = "err" => NStim("terr") < MaxTdErr
       /\ hist' = Append(hist, H("end", "Teardown", 0, r))
       /\ script' = Append(script, IF r = "ok" THEN "tok" ELSE "terr")
       /\ IF r = "ok" THEN oph' = "ok" /\ att' = att
          ELSE IF att + 1 >= MaxAttempts THEN oph' = "err" /\ att' = att + 1
          ELSE oph' = "spawned" /\ att' = att + 1        \* retry.Do: back-off, then the next attempt
  /\ UNCHANGED <<svc, shut, bus, inbox, resv, mgr, state, mg, hn, hnc, hnHeld, hnRel, op>>

PubManifest == \E c \in ContentChoices : PubManifestC(c)

Env == PubManifest \/ PubClosed \/ ReqShutdown \/ HnResolve("ok") \/ HnResolve("failed")
       \/ OpReturn("ok") \/ OpReturn("err")

Next == Internal \/ Env
Spec == Init /\ [][Next]_vars

----------------------------------------------------------------------------
(* C14, over the history and the release observation only *)

\* (a) never two cluster operations for the lease at the same time
NoConcurrentOps(h) ==
  \A n \in 0..Len(h) :
    LET p == SubSeq(h, 1, n)
        d == Cardinality(Idx(p, IsCallStart)) - Cardinality(Idx(p, IsCallEnd))
    IN d \in {0, 1}

\* (b) never a deploy started after teardown was requested.  The decision point is the manager's startDeploy
\* (issue); a client-call start after the request is tolerated only when its issue preceded the request.
NoDeployAfterTeardownRequested(h) ==
  \A t \in Idx(h, IsTdReq) :
    /\ \A j \in Idx(h, IsDeployIssue) : j < t
    /\ \A j \in Idx(h, IsDeployStart) :
         j > t => Cardinality({i \in Idx(h, IsDeployIssue) : i < t}) >= Cardinality({i \in Idx(h, IsDeployStart) : i <= j})

Closed(h)       == Idx(h, IsClose) # {}
ShutdownReq(h)  == Idx(h, IsShutdown) # {}
FailedDeploy(h) == Idx(h, IsDeployFail) # {}
Deployed(h)     == Idx(h, IsDeployStart) # {}

\* (c) at quiescence: the lease closed (and no shutdown) => teardown invoked after the last deploy finished,
\* reservation and hostnames released
TeardownAfterLastDeploy(h) ==
  Deployed(h) =>
    LET ld == Max(Idx(h, IsDeployAny)) IN
      /\ h[ld].k = "end"
      /\ \E j \in Idx(h, IsTdStart) : j > ld

ClosedThenTornDownAndReleased(h, reservationHeld, hostnamesHeld) ==
  (Closed(h) /\ ~ShutdownReq(h)) =>
    /\ TeardownAfterLastDeploy(h)
    /\ ~reservationHeld
    /\ ~hostnamesHeld

\* (d) at quiescence: no close, no failed deploy (and no shutdown) => the last deploy issued used the latest manifest
LastDeployUsesLatestManifest(h) ==
  (~Closed(h) /\ ~FailedDeploy(h) /\ ~ShutdownReq(h) /\ Deployed(h) /\ Idx(h, IsRecv) # {}) =>
    h[Max(Idx(h, IsDeployStart))].m = h[Max(Idx(h, IsRecv))].m

\* as a state invariant the prefixes have been checked in the predecessor states already
NoConcurrentOpsNow(h) == Cardinality(Idx(h, IsCallStart)) - Cardinality(Idx(h, IsCallEnd)) \in {0, 1}
Safety == NoConcurrentOpsNow(hist) /\ NoDeployAfterTeardownRequested(hist)
AtQuiescence ==
  Quiescent => /\ ClosedThenTornDownAndReleased(hist, resv, hnHeld)
               /\ LastDeployUsesLatestManifest(hist)

\* vacuity probes (expected to be VIOLATED when used as invariants; used once per config while developing)
NeverTeardown  == Idx(hist, IsTdStart) = {}
NeverTwoDeploy == Cardinality(Idx(hist, IsDeployStart)) < 2

----------------------------------------------------------------------------
(* export: one JSON line per stable state = one stimulus script (Atomic mode), see MC_export.cfg *)
=============================================================================
