CONSTANTS
  Impl = "intended"
  MaxManifests = 2
  MaxClosed = 1
  MaxDeployErr = 1
  MaxTdErr = 1
  MaxAttempts = 50
  AllowShutdown = TRUE
  NContents = 4
  FreshOnly = TRUE
  Preexisting = FALSE
  Atomic = TRUE
  MaxStimuli = 9
INIT Init
NEXT Next
INVARIANTS TypeOK Safety AtQuiescence
CONSTRAINT ExportConstraint
