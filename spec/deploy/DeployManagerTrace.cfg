CONSTANTS
  Impl = "intended"
  MaxManifests = 1000
  MaxClosed = 1000
  MaxDeployErr = 1000
  MaxTdErr = 1000
  MaxAttempts = 50
  AllowShutdown = TRUE
  NContents = 4
  FreshOnly = TRUE
  Preexisting = FALSE
  Atomic = TRUE
  MaxStimuli = 100000
INIT TInit
NEXT TNext
