------------------------- MODULE DeployManagerTrace -------------------------
(***************************************************************************)
(* Trace validation for DeployManager: reads the canonical step records    *)
(* recorded from the real provider/cluster service by harness/deployh.      *)
(*                                                                          *)
(* (i)  VERDICT.  The history `hist` is rebuilt from the OBSERVED events    *)
(*      only (ObsHist), on every path; at the end of each recorded          *)
(*      execution the C14 operators of DeployManager are evaluated on it    *)
(*      and on the release observations made through the public API.        *)
(* (ii) CONFORMANCE.  While `conf`, every observed event must be the        *)
(*      matching DeployManager action with the logged post-state; the       *)
(*      position where the specification can no longer follow is `dpos`.    *)
(* <<"RESULT", id, pos, dpos, obs, quiescent, a, b, c, d>> is printed at    *)
(* every quiescent point and <<"END", id, dpos, a, b>> at the end of each   *)
(* execution; tools/checks/deploy.py turns them into the verdict.           *)
(***************************************************************************)
EXTENDS DeployManager, Json

Trace == ndJsonDeserialize("trace.ndjson")

VARIABLES l, tid, conf, dpos

tvars == <<l, tid, conf, dpos>>

ev == Trace[l]

Hx(h, e) ==
  CASE e.e = "svc_route" /\ e.t = "manifest" -> Append(h, H("recv", "-", e.m, "-"))
    [] e.e = "svc_route" /\ e.t = "closed" ->
         IF e.out = "routed" THEN Append(Append(h, H("close", "-", 0, "-")), H("tdreq", "-", 0, "-"))
                             ELSE Append(h, H("close", "-", 0, "-"))
    [] e.e = "req_shutdown" -> Append(h, H("shutdown", "-", 0, "-"))
    [] e.e = "mgr" /\ e.issued # "-" -> Append(h, H("issue", e.issued, e.im, "-"))
    [] e.e = "op_begin" -> Append(h, H("start", e.c, e.m, "-"))
    [] e.e = "op_return" -> Append(h, H("end", e.c, 0, e.r))
    [] OTHER -> h

ObsHist == Hx(hist, ev)

RouteOutcome(t) ==
  IF t = "manifest"
    THEN IF ~resv THEN "dropped"
         ELSE IF mgr \in {"none", "gone"} THEN "created"
         ELSE IF mgr = "loop" THEN "update" ELSE "rejected"
    ELSE IF mgr = "loop" THEN "routed"
         ELSE IF mgr \in {"exiting", "stopped"} THEN "rejected" ELSE "unmanaged"

MgrPost ==
  /\ state' = ev.state
  /\ (op' # "none") = ev.runch
  /\ (mgr' = "exiting") = ev.exit
  /\ ~ev.exit => mg' = ev.m

\* the DeployManager action an observed event must be
SpecStep ==
  CASE ev.e = "pub_manifest" -> PubManifestC(ev.m)
    [] ev.e = "pub_closed"   -> PubClosed
    [] ev.e = "req_shutdown" -> ReqShutdown
    [] ev.e = "hn_resolve"   -> HnResolve(ev.r)
    [] ev.e = "op_begin"     -> OpBeginM(ev.m) /\ ev.c = (IF op = "deploy" THEN "Deploy" ELSE "Teardown")
    [] ev.e = "op_return"    -> OpReturn(ev.r) /\ ev.c = (IF op = "deploy" THEN "Deploy" ELSE "Teardown")
    [] ev.e = "svc_route"    -> SvcRoute /\ Head(bus).t = ev.t /\ RouteOutcome(ev.t) = ev.out
                                /\ (ev.t = "manifest" => Head(bus).m = ev.m)
    [] ev.e = "svc_shutdown" -> SvcShutdown
    [] ev.e = "svc_collect"  -> SvcCollect
    [] ev.e = "svc_drain"    -> SvcDrain
    [] ev.e = "svc_stopped"  -> SvcStopped
    [] ev.e = "mgr_start"    -> /\ mgr = "loop" /\ state = ev.state /\ mg = ev.m /\ op = "none" /\ ~ev.runch
                                /\ UNCHANGED vars
    [] ev.e = "mgr" /\ ev.case = "hostnames" -> MgrHostnames /\ (hn = "ok") = (ev.r = "ok") /\ MgrPost
    [] ev.e = "mgr" /\ ev.case = "shutdown"  -> MgrShutdown /\ MgrPost
    [] ev.e = "mgr" /\ ev.case = "update"    -> MgrUpdate /\ inbox.m = ev.um /\ MgrPost
    [] ev.e = "mgr" /\ ev.case = "teardown"  -> MgrTeardown /\ MgrPost
    [] ev.e = "mgr" /\ ev.case = "result"    -> MgrResult /\ oph = ev.r /\ MgrPost
    [] ev.e = "mgr_stopped"  -> MgrExitWait
    [] ev.e = "obs" -> /\ ev.obs => (hnHeld = ev.hn /\ (ev.rk => resv = ev.resv))   \* projected state agrees
                       /\ ev.by \in {"-", "ok"}      \* a bystander lease of the same deployment is left alone
                       /\ UNCHANGED vars
    [] ev.e \in {"end", "stuck", "skipped"} -> UNCHANGED vars
    [] OTHER -> FALSE          \* "inapplicable": the implementation was not where the script expected it

Follow == SpecStep /\ hist' = ObsHist

B(x) == IF x THEN 1 ELSE 0

\* "obs": at a stable point the harness looked at the inventory and the hostname service through the public API;
\* the C14 obligations "at quiescence" are judged where it found the implementation quiescent (ev.q)
Report ==
  IF ev.e = "obs" /\ ev.q THEN
    PrintT(<<"RESULT", tid, l, dpos, B(ev.obs), B(conf /\ Quiescent),
             B(NoConcurrentOps(hist)), B(NoDeployAfterTeardownRequested(hist)),
             B(ClosedThenTornDownAndReleased(hist, ev.resv, ev.hn)), B(LastDeployUsesLatestManifest(hist))>>)
  ELSE IF ev.e \in {"end", "stuck"} THEN
    /\ PrintT(<<"END", tid, dpos, B(NoConcurrentOps(hist)), B(NoDeployAfterTeardownRequested(hist))>>)
    /\ ev.e = "stuck" => PrintT(<<"STUCK", tid>>)
  ELSE IF ev.e = "skipped" THEN PrintT(<<"SKIPPED", tid>>)
  ELSE TRUE

TInit ==
  /\ l = 1 /\ tid = -1 /\ conf = TRUE /\ dpos = 0
  /\ InitP(FALSE)

TNext ==
  /\ l <= Len(Trace)
  /\ l' = l + 1
  /\ IF ev.e = "reset" THEN
       /\ tid' = ev.id /\ conf' = TRUE /\ dpos' = 0
       /\ svc' = "running" /\ shut' = FALSE /\ bus' = <<>> /\ inbox' = NoMsg /\ resv' = TRUE
       /\ mgr' = IF ev.pre THEN "loop" ELSE "none"
       /\ state' = "deploy-active" /\ mg' = 0
       /\ hn' = IF ev.pre THEN "pending" ELSE "none"
       /\ hnc' = FALSE /\ hnHeld' = FALSE /\ hnRel' = FALSE
       /\ op' = "none" /\ oph' = "idle" /\ att' = 0
       /\ hist' = <<>> /\ script' = <<>>
     ELSE
       /\ Report
       /\ tid' = tid
       /\ \/ /\ conf /\ Follow
             /\ conf' = TRUE /\ dpos' = dpos
          \/ /\ conf /\ ~ENABLED Follow                 \* the specification stops following here
             /\ conf' = FALSE /\ dpos' = l
             /\ hist' = ObsHist /\ UNCHANGED <<core, script>>
          \/ /\ ~conf
             /\ conf' = FALSE /\ dpos' = dpos
             /\ hist' = ObsHist /\ UNCHANGED <<core, script>>

TSpec == TInit /\ [][TNext]_<<vars, tvars>>
=============================================================================
