------------------------- MODULE MC_DeployManager -------------------------
EXTENDS DeployManager, Json

\* Export (Atomic mode): every stable state's stimulus script, printed once per generated state.
ExportScripts == (Stable /\ script # <<>>) => PrintT(<<"SCRIPT", ToJson(script)>>)
ExportConstraint == ExportScripts
=============================================================================
