package certh

import (
	"bytes"
	"crypto/ecdsa"
	"crypto/elliptic"
	"crypto/rand"
	"crypto/x509"
	"crypto/x509/pkix"
	"encoding/asn1"
	"encoding/hex"
	"encoding/pem"
	"fmt"
	"math/big"
	"sort"
	"time"

	sdk "github.com/cosmos/cosmos-sdk/types"

	ctypes "github.com/ovrclk/akash/x/cert/types"
)

// Concretisation of the model's identifiers.
//
// Owners are real 20-byte account addresses chosen at the edges of the key space (the prefix iterator's end
// bound for B is computed by carrying over twenty 0xff bytes; A's end bound is exactly B's prefix).
// Serial classes are chosen so that their big-endian byte encodings (the key suffix) are prefixes of one
// another: 0 -> "", 1 -> 01, 255 -> ff, 256 -> 0100, 2^64 -> 01 00*8, 2^159 -> 80 00*19, and, longer than the
// 20 octets of RFC 5280, 2^160 -> 01 00*20, 2^160+1, 2^168 (22 octets), 2^255 (32), 2^319 (40).
var ownerBytes = map[string][]byte{
	"A": append(bytes.Repeat([]byte{0xff}, 19), 0xfe),
	"B": bytes.Repeat([]byte{0xff}, 20),
	"C": append(bytes.Repeat([]byte{0x00}, 19), 0x01),
}

func serialOf(class string) *big.Int {
	switch class {
	case "z0":
		return big.NewInt(0)
	case "s1":
		return big.NewInt(1)
	case "s8", "s9", "s10": // small serials whose decimal spellings with a leading zero also read as octal
		return map[string]*big.Int{"s8": big.NewInt(8), "s9": big.NewInt(9), "s10": big.NewInt(10)}[class]
	case "s255":
		return big.NewInt(255)
	case "s256":
		return big.NewInt(256)
	case "s2e64":
		return new(big.Int).Lsh(big.NewInt(1), 64)
	case "s2e159":
		return new(big.Int).Lsh(big.NewInt(1), 159)
	// beyond the 20 octets RFC 5280 allows; Go's x509 creates and parses them, so any account can submit them
	case "s2e160": // 21 octets: 01 00*20
		return new(big.Int).Lsh(big.NewInt(1), 160)
	case "s2e160p1": // 21 octets: 01 00*19 01
		return new(big.Int).Add(new(big.Int).Lsh(big.NewInt(1), 160), big.NewInt(1))
	case "s2e168": // 22 octets
		return new(big.Int).Lsh(big.NewInt(1), 168)
	case "s2e255": // 32 octets
		return new(big.Int).Lsh(big.NewInt(1), 255)
	case "s2e319": // 40 octets
		return new(big.Int).Lsh(big.NewInt(1), 319)
	}
	return nil
}

var allSerialClasses = []string{"z0", "s1", "s255", "s256", "s2e64", "s2e159", "s2e160", "s2e160p1", "s2e168", "s2e255", "s2e319"}

type certBody struct {
	Issuer        string // model id of the account in the ISSUER name (= Owner when self-issued)
	Owner, Serial string // model ids
	Body          int
	CertPEM       []byte
	PubPEM        []byte
}

// universe is the finite world of one run: owners, serial classes, and `bodies` distinct real certificates
// (distinct ECDSA keys) for every (owner, serial).
// spelling is one way a request may SPELL a serial number: the text put in MsgRevokeCertificate.ID.Serial or
// CertificateFilter.Serial, and the serial class its decimal reading names ("other": a decimal number that is no
// class of the run; "invalid": not a decimal number). The reading is decided by the check, never by the code.
type spelling struct {
	Sp string `json:"sp"`
	Rd string `json:"rd"`
}

type universe struct {
	Spellings []spelling
	Owners    []string
	Serials   []string
	Bodies    int      // self-issued bodies 1..Bodies for every (owner, serial)
	Foreign   []string // serial classes that also have body Bodies+1: subject = owner, ISSUER = another owner
	addr      map[string]sdk.AccAddress
	certs     map[string]*certBody // key owner|serial|body
	byPEM     map[string]*certBody
	bySer     map[string]string // decimal serial -> class
}

var authVersionOID = asn1.ObjectIdentifier{2, 23, 133, 2, 6}

func newUniverse(owners, serials []string, bodies int, foreign []string) (*universe, error) {
	return newUniverseAt(owners, serials, bodies, foreign, nil)
}

// issuerOf: who issues the not-self-issued certificate whose subject is owner o (the next owner, cyclically).
func (u *universe) issuerOf(o string) string {
	for i, x := range u.Owners {
		if x == o {
			return u.Owners[(i+1)%len(u.Owners)]
		}
	}
	return o
}

// newUniverseAt: addrs, when given, replaces the fixed edge-of-keyspace addresses (signed-transaction mode
// needs addresses derived from real keys).
func newUniverseAt(owners, serials []string, bodies int, foreign []string, addrs map[string]sdk.AccAddress) (*universe, error) {
	u := &universe{Owners: owners, Serials: serials, Bodies: bodies, Foreign: foreign, addr: map[string]sdk.AccAddress{},
		certs: map[string]*certBody{}, byPEM: map[string]*certBody{}, bySer: map[string]string{}}
	for _, o := range owners {
		if a, ok := addrs[o]; ok {
			u.addr[o] = a
			continue
		}
		b, ok := ownerBytes[o]
		if !ok {
			return nil, fmt.Errorf("unknown owner id %q", o)
		}
		u.addr[o] = sdk.AccAddress(b)
	}
	for _, s := range serials {
		n := serialOf(s)
		if n == nil {
			return nil, fmt.Errorf("unknown serial class %q", s)
		}
		u.bySer[n.String()] = s
	}
	for _, o := range owners {
		for _, s := range serials {
			for b := 1; b <= bodies; b++ {
				cb, err := makeCert(u.addr[o], u.addr[o], serialOf(s))
				if err != nil {
					return nil, fmt.Errorf("generating certificate %s/%s/%d: %w", o, s, b, err)
				}
				cb.Owner, cb.Serial, cb.Body, cb.Issuer = o, s, b, o
				u.certs[fmt.Sprintf("%s|%s|%d", o, s, b)] = cb
				u.byPEM[string(cb.CertPEM)] = cb
			}
		}
	}
	for _, s := range foreign {
		if serialOf(s) == nil || u.bySer[serialOf(s).String()] != s {
			return nil, fmt.Errorf("foreign-issued serial class %q is not one of the run's classes", s)
		}
		for _, o := range owners {
			iss := u.issuerOf(o)
			cb, err := makeCert(u.addr[o], u.addr[iss], serialOf(s))
			if err != nil {
				return nil, fmt.Errorf("generating certificate %s/%s issued by %s: %w", o, s, iss, err)
			}
			cb.Owner, cb.Serial, cb.Body, cb.Issuer = o, s, bodies+1, iss
			u.certs[fmt.Sprintf("%s|%s|%d", o, s, bodies+1)] = cb
			u.byPEM[string(cb.CertPEM)] = cb
		}
	}
	return u, nil
}

// addTimed adds, for every (owner, serial), two self-issued bodies whose validity window has an edge at the
// returned wall-clock instant (a whole second, between window and window+1s from now): body Bodies+2 becomes
// valid then (NotBefore = boundary), body Bodies+3 expires then (NotAfter = boundary).
func (u *universe) addTimed(window time.Duration) (time.Time, error) {
	boundary := time.Now().Add(window).Truncate(time.Second).Add(time.Second)
	for _, o := range u.Owners {
		for _, s := range u.Serials {
			for i, w := range [][2]time.Time{{boundary, time.Time{}}, {time.Now().Add(-time.Hour), boundary}} {
				cb, err := makeCertValid(u.addr[o], u.addr[o], serialOf(s), w[0], w[1])
				if err != nil {
					return boundary, err
				}
				cb.Owner, cb.Serial, cb.Body, cb.Issuer = o, s, u.Bodies+2+i, o
				u.certs[fmt.Sprintf("%s|%s|%d", o, s, cb.Body)] = cb
				u.byPEM[string(cb.CertPEM)] = cb
			}
		}
	}
	return boundary, nil
}

func (u *universe) cert(o, s string, b int) *certBody {
	return u.certs[fmt.Sprintf("%s|%s|%d", o, s, b)]
}

// makeCert builds a real client certificate the way testutil.Certificate / `akash tx cert create` do, with
// the given serial number and subject CommonName = bech32(owner). With issuer = owner it is self-signed; else it
// is issued (signed) by a parent whose subject CommonName = bech32(issuer), with the parent's own key.
func makeCert(owner, issuer sdk.AccAddress, serial *big.Int) (*certBody, error) {
	return makeCertValid(owner, issuer, serial, time.Time{}, time.Time{})
}

// makeCertValid: as makeCert with the given validity window (zero values: from an hour ago, for a year).
func makeCertValid(owner, issuer sdk.AccAddress, serial *big.Int, notBefore, notAfter time.Time) (*certBody, error) {
	priv, err := ecdsa.GenerateKey(elliptic.P256(), rand.Reader)
	if err != nil {
		return nil, err
	}
	nbf := time.Now().Add(-time.Hour)
	if !notBefore.IsZero() {
		nbf = notBefore
	}
	naf := nbf.Add(365 * 24 * time.Hour)
	if !notAfter.IsZero() {
		naf = notAfter
	}
	tpl := x509.Certificate{
		SerialNumber: new(big.Int).Set(serial),
		Subject: pkix.Name{
			CommonName: owner.String(),
			ExtraNames: []pkix.AttributeTypeAndValue{{Type: authVersionOID, Value: "v0.0.1"}},
		},
		Issuer:                pkix.Name{CommonName: owner.String()},
		NotBefore:             nbf,
		NotAfter:              naf,
		KeyUsage:              x509.KeyUsageDataEncipherment | x509.KeyUsageKeyEncipherment,
		ExtKeyUsage:           []x509.ExtKeyUsage{x509.ExtKeyUsageClientAuth},
		BasicConstraintsValid: true,
	}
	parent, signKey := &tpl, priv
	if !issuer.Equals(owner) {
		// not self-issued: a parent certificate whose Subject names the issuer, signing with its own key
		signKey, err = ecdsa.GenerateKey(elliptic.P256(), rand.Reader)
		if err != nil {
			return nil, err
		}
		parent = &x509.Certificate{
			SerialNumber: big.NewInt(7),
			Subject: pkix.Name{
				CommonName: issuer.String(),
				ExtraNames: []pkix.AttributeTypeAndValue{{Type: authVersionOID, Value: "v0.0.1"}},
			},
			NotBefore:             nbf,
			NotAfter:              nbf.Add(365 * 24 * time.Hour),
			KeyUsage:              x509.KeyUsageCertSign,
			IsCA:                  true,
			BasicConstraintsValid: true,
		}
	}
	der, err := x509.CreateCertificate(rand.Reader, &tpl, parent, priv.Public(), signKey)
	if err != nil {
		return nil, err
	}
	// sanity: what we made is what the chain will parse
	parsed, err := x509.ParseCertificate(der)
	if err != nil {
		return nil, err
	}
	if parsed.SerialNumber.Cmp(serial) != 0 {
		return nil, fmt.Errorf("serial round trip: made %s parsed %s", serial, parsed.SerialNumber)
	}
	if parsed.Subject.CommonName != owner.String() || parsed.Issuer.CommonName != issuer.String() {
		return nil, fmt.Errorf("names round trip: subject %q issuer %q", parsed.Subject.CommonName, parsed.Issuer.CommonName)
	}
	pub, err := x509.MarshalPKIXPublicKey(priv.Public())
	if err != nil {
		return nil, err
	}
	return &certBody{
		CertPEM: pem.EncodeToMemory(&pem.Block{Type: ctypes.PemBlkTypeCertificate, Bytes: der}),
		PubPEM:  pem.EncodeToMemory(&pem.Block{Type: ctypes.PemBlkTypeECPublicKey, Bytes: pub}),
	}, nil
}

// keyOrder is the order of all (owner, serial) pairs in the certificate store as the key layout documented in
// the property (0x01 | owner | big-endian serial bytes) sorts them. It is information for the specification's
// pagination model (constant KeySeq); the harness itself never relies on it.
func (u *universe) keyOrder() [][2]string {
	type kv struct {
		k []byte
		p [2]string
	}
	var all []kv
	for _, o := range u.Owners {
		for _, s := range u.Serials {
			k := append([]byte{0x01}, u.addr[o].Bytes()...)
			k = append(k, serialOf(s).Bytes()...)
			all = append(all, kv{k, [2]string{o, s}})
		}
	}
	sort.Slice(all, func(i, j int) bool { return bytes.Compare(all[i].k, all[j].k) < 0 })
	out := make([][2]string, len(all))
	for i, e := range all {
		out[i] = e.p
	}
	return out
}

func (u *universe) info() map[string]interface{} {
	owners := map[string]interface{}{}
	for _, o := range u.Owners {
		owners[o] = map[string]string{"bech32": u.addr[o].String(), "hex": hex.EncodeToString(u.addr[o])}
	}
	serials := map[string]interface{}{}
	for _, s := range u.Serials {
		n := serialOf(s)
		serials[s] = map[string]string{"dec": n.String(), "keysuffix": hex.EncodeToString(n.Bytes())}
	}
	issuers := map[string]string{}
	for _, o := range u.Owners {
		issuers[o] = u.issuerOf(o)
	}
	return map[string]interface{}{"ev": "info", "owners": owners, "serials": serials, "bodies": u.Bodies,
		"foreign_serials": u.Foreign, "foreign_body": u.Bodies + 1, "foreign_issuer_of": issuers,
		"keyorder": u.keyOrder()}
}
