package certh

import (
	"crypto/sha256"
	"encoding/hex"
	"encoding/json"
	"flag"
	"fmt"
	"os"
	"strconv"
	"strings"
	"time"

	sdk "github.com/cosmos/cosmos-sdk/types"

	ctypes "github.com/ovrclk/akash/x/cert/types"

	"verif/harness/vcommon"
)

// action is one abstract action of Cert.tla (the record the spec leaves in `out`).
type action struct {
	K      string `json:"k"`      // create | revoke
	Signer string `json:"signer"` // who signs the transaction
	Mo     string `json:"mo"`     // create: the message's Owner field
	O      string `json:"o"`      // create: the CN of the certificate body; revoke: ID.Owner
	S      string `json:"s"`      // serial class
	B      int    `json:"b"`      // create: which of the distinct bodies for (o, s)
	Sp     string `json:"sp"`     // revoke: how the serial is spelled in the message ("" = canonical decimal of S)
}

// signerNames maps msg.GetSigners() to model owner ids.
func (u *universe) signerNames(msg sdk.Msg) (out []string) {
	defer func() {
		if r := recover(); r != nil {
			out = []string{"!panic"}
		}
	}()
	out = []string{}
	for _, a := range msg.GetSigners() {
		name := "?"
		for n, x := range u.addr {
			if x.Equals(a) {
				name = n
			}
		}
		out = append(out, name)
	}
	return out
}

// serialText is the text a request carries for the serial: the given spelling, or the canonical decimal.
func serialText(class, sp string) (string, error) {
	if sp != "" {
		return sp, nil
	}
	n := serialOf(class)
	if n == nil {
		return "", fmt.Errorf("unknown serial class %q", class)
	}
	return n.String(), nil
}

type edge struct {
	From string `json:"from"`
	Act  action `json:"act"`
	To   string `json:"to"`
}

// step is one ndjson line of the recorded trace.
type step struct {
	Ev      string   `json:"ev"` // load | create | revoke
	Signer  string   `json:"signer"`
	Mo      string   `json:"mo"`
	O       string   `json:"o"`
	S       string   `json:"s"`
	B       int      `json:"b"`
	Sp      string   `json:"sp"`      // revoke: the spelling of the serial in the message ("" = canonical decimal)
	Signers []string `json:"signers"` // msg.GetSigners() as model owner ids
	Digests []string `json:"digests"` // det mode: one digest (result, gas, events, store bytes) per repetition
	Iss     string   `json:"iss"`     // create: the account in the ISSUER name of the submitted certificate (information)
	OK      bool     `json:"ok"`
	Stage   string   `json:"stage"`
	Err     string   `json:"err"`
	Reg     []entry  `json:"reg"` // projected registry AFTER the step
	Sid     string   `json:"sid"`
	HasQ    bool     `json:"hasq"`
	Q       []qres   `json:"q"`
	Note    string   `json:"note"`
}

type runner struct {
	c     *chain
	u     *universe
	ps    []int
	w     *vcommon.Writer
	stats map[string]int
}

func (r *runner) exec(parent sdk.Context, a action) (txResult, sdk.Context, func(), error) {
	return r.execOn(r.c, parent, a)
}

func (r *runner) execOn(c *chain, parent sdk.Context, a action) (txResult, sdk.Context, func(), error) {
	nop := func() {}
	signer, ok := r.u.addr[a.Signer]
	if !ok {
		return txResult{}, parent, nop, fmt.Errorf("unknown signer %q", a.Signer)
	}
	switch a.K {
	case "create":
		cb := r.u.cert(a.O, a.S, a.B)
		if cb == nil {
			return txResult{}, parent, nop, fmt.Errorf("no certificate %s/%s/%d", a.O, a.S, a.B)
		}
		msg := &ctypes.MsgCreateCertificate{Owner: r.u.addr[a.Mo].String(), Cert: cb.CertPEM, Pubkey: cb.PubPEM}
		res, next, commit := c.runTx(parent, signer, msg, msgCreatePath)
		res.Signers = r.u.signerNames(msg)
		return res, next, commit, nil
	case "revoke":
		txt, err := serialText(a.S, a.Sp)
		if err != nil {
			return txResult{}, parent, nop, err
		}
		msg := &ctypes.MsgRevokeCertificate{ID: ctypes.CertificateID{Owner: r.u.addr[a.O].String(), Serial: txt}}
		res, next, commit := c.runTx(parent, signer, msg, msgRevokePath)
		res.Signers = r.u.signerNames(msg)
		return res, next, commit, nil
	}
	return txResult{}, parent, nop, fmt.Errorf("unknown action kind %q", a.K)
}

// materialise builds a fresh concrete state (one branch over the root) by running a script of transactions,
// each committed as runTx would; it returns the state and its projection.
func (r *runner) materialise(script []action) (sdk.Context, []entry, string, error) {
	ctx, _ := r.c.ctx.CacheContext()
	for _, a := range script {
		_, _, commit, err := r.exec(ctx, a)
		if err != nil {
			return ctx, nil, "", err
		}
		commit()
	}
	ents, raw, err := r.c.project(ctx, r.u)
	return ctx, ents, raw, err
}

// issuerName: the account in the ISSUER name of the certificate a create action submits ("" otherwise).
func (u *universe) issuerName(a action) string {
	if a.K != "create" {
		return ""
	}
	if cb := u.cert(a.O, a.S, a.B); cb != nil {
		return cb.Issuer
	}
	return ""
}

func (r *runner) write(s step) error {
	if s.Signers == nil {
		s.Signers = []string{}
	}
	if s.Digests == nil {
		s.Digests = []string{}
	}
	if s.Reg == nil {
		s.Reg = []entry{}
	}
	if s.Q == nil {
		s.Q = []qres{}
	}
	r.stats["lines"]++
	r.stats["query_results"] += len(s.Q)
	for _, q := range s.Q {
		if !q.OK {
			r.stats["queries_failed"]++
		}
	}
	return r.w.Write(s)
}

func rawHash(raw string) string {
	h := sha256.Sum256([]byte(raw))
	return hex.EncodeToString(h[:8])
}

// graph walks TLC's state graph: every edge (s, a, t) is executed once on a stored concrete representative of
// s (an unwritten CacheContext branch), the result becoming the representative of the state it projects to.
func (r *runner) graph(edges []edge, qmode string, pathsOut string) error {
	pathOf := map[string][]action{}
	byFrom := map[string][]edge{}
	for _, e := range edges {
		byFrom[e.From] = append(byFrom[e.From], e)
	}
	root, _ := r.c.ctx.CacheContext()
	ents, raw, err := r.c.project(root, r.u)
	if err != nil {
		return err
	}
	initID := stateID(ents)
	pathOf[initID] = []action{}
	reps := map[string]sdk.Context{initID: root}
	hashes := map[string]string{initID: rawHash(raw)}
	regs := map[string][]entry{initID: ents}
	queue := []string{initID}
	// the initial (empty) registry is queried too
	if err := r.write(step{Ev: "load", Reg: ents, Sid: initID, HasQ: true, Q: r.c.queries(root, r.u, r.ps)}); err != nil {
		return err
	}
	cur := initID
	for len(queue) > 0 {
		s := queue[0]
		queue = queue[1:]
		for _, e := range byFrom[s] {
			if cur != s {
				if err := r.write(step{Ev: "load", Reg: regs[s], Sid: s}); err != nil {
					return err
				}
				r.stats["segments"]++
			}
			res, next, _, err := r.exec(reps[s], e.Act)
			if err != nil {
				return err
			}
			ents, raw, err := r.c.project(next, r.u)
			if err != nil {
				return err
			}
			id := stateID(ents)
			st := step{Ev: e.Act.K, Signer: e.Act.Signer, Mo: e.Act.Mo, O: e.Act.O, S: e.Act.S, B: e.Act.B, Sp: e.Act.Sp, Signers: res.Signers, Iss: r.u.issuerName(e.Act),
				OK: res.OK, Stage: res.Stage, Err: res.Err, Reg: ents, Sid: id}
			_, seen := reps[id]
			if !seen {
				// the representative of the new state is rebuilt flat (one branch over the root) from its script
				pathOf[id] = append(append([]action{}, pathOf[s]...), e.Act)
				rep, rents, rraw, err := r.materialise(pathOf[id])
				if err != nil {
					return err
				}
				if stateID(rents) != id || rraw != raw {
					// keep the state actually reached (a nested branch) as the representative
					r.stats["rematerialise_mismatch"]++
					rep = next
				}
				reps[id], hashes[id], regs[id] = rep, rawHash(raw), ents
				queue = append(queue, id)
			} else if hashes[id] != rawHash(raw) {
				// not a reason to stop: the step is recorded from the actual state and judged like any other
				st.Note = "store bytes differ from the stored representative of this abstract state"
				r.stats["representative_mismatch"]++
			}
			if (qmode == "accepted" && (res.OK || id != s)) || (qmode == "new" && !seen) || qmode == "all" {
				st.HasQ, st.Q = true, r.c.queries(next, r.u, r.ps)
			}
			if res.OK {
				r.stats["accepted"]++
			} else {
				r.stats["rejected"]++
			}
			if id != e.To {
				r.stats["differs_from_model"]++
			}
			r.stats["steps"]++
			if err := r.write(st); err != nil {
				return err
			}
			cur = id
		}
		delete(byFrom, s)
	}
	for _, es := range byFrom {
		r.stats["unreached_edges"] += len(es)
	}
	r.stats["states"] = len(reps)
	if pathsOut != "" {
		b, err := json.Marshal(pathOf)
		if err != nil {
			return err
		}
		if err := os.WriteFile(pathsOut, b, 0o644); err != nil {
			return err
		}
	}
	return nil
}

// paths replays linear scripts, each from the empty registry, running every query after every step.
func (r *runner) paths(scripts [][]action) error {
	for _, sc := range scripts {
		ctx, _ := r.c.ctx.CacheContext()
		ents, _, err := r.c.project(ctx, r.u)
		if err != nil {
			return err
		}
		if err := r.write(step{Ev: "load", Reg: ents, Sid: stateID(ents), HasQ: true, Q: r.c.queries(ctx, r.u, r.ps)}); err != nil {
			return err
		}
		r.stats["segments"]++
		for _, a := range sc {
			res, _, commit, err := r.exec(ctx, a)
			if err != nil {
				return err
			}
			commit()
			ents, _, err := r.c.project(ctx, r.u)
			if err != nil {
				return err
			}
			st := step{Ev: a.K, Signer: a.Signer, Mo: a.Mo, O: a.O, S: a.S, B: a.B, Sp: a.Sp, Signers: res.Signers, Iss: r.u.issuerName(a), OK: res.OK, Stage: res.Stage,
				Err: res.Err, Reg: ents, Sid: stateID(ents), HasQ: true, Q: r.c.queries(ctx, r.u, r.ps)}
			if res.OK {
				r.stats["accepted"]++
			} else {
				r.stats["rejected"]++
			}
			r.stats["steps"]++
			if err := r.write(st); err != nil {
				return err
			}
		}
	}
	return nil
}

func splitList(s string) []string {
	var out []string
	for _, p := range strings.Split(s, ",") {
		if p = strings.TrimSpace(p); p != "" {
			out = append(out, p)
		}
	}
	return out
}

// Main is the entry point of `vh cert <mode> ...`. Exit codes: 0 done, 2 harness failure. It never judges.
func Main(args []string) int {
	if len(args) < 1 {
		fmt.Fprintln(os.Stderr, "usage: vh cert info|graph|paths|deliver|det [flags]")
		return 2
	}
	mode := args[0]
	fs := flag.NewFlagSet("cert", flag.ContinueOnError)
	owners := fs.String("owners", "A,B", "model owner ids")
	serials := fs.String("serials", "z0,s1,s256,s2e64", "serial classes")
	bodies := fs.Int("bodies", 2, "distinct self-issued certificates per (owner, serial)")
	spellings := fs.String("spellings", "", `JSON list [{"sp": text, "rd": class|"other"|"invalid"}]: spelled lookups run with every query set`)
	foreign := fs.String("foreign", "", "serial classes that also have body bodies+1: subject = owner, issuer = another owner")
	pss := fs.String("pagesizes", "1,2,0", "page sizes; 0 = no pagination")
	in := fs.String("in", "", "edges (graph) or scripts (paths) ndjson file")
	outp := fs.String("out", "", "trace ndjson to write")
	reps := fs.Int("reps", 2, "det mode: executions of every transaction on sibling branches, per pass")
	window := fs.Int("window", 2500, "det mode: ms from certificate generation to the validity edge of the timed bodies")
	pathsOut := fs.String("pathsout", "", "graph mode: write {state id: script that reached it} here")
	qmode := fs.String("queries", "accepted", "graph mode: run the queries after accepted steps | new states only | all steps; none: no queries in any mode")
	if err := fs.Parse(args[1:]); err != nil {
		return 2
	}
	fail := func(err error) int {
		fmt.Fprintln(os.Stderr, "certh:", err)
		return 2
	}
	u, err := newUniverse(splitList(*owners), splitList(*serials), *bodies, splitList(*foreign))
	if err != nil {
		return fail(err)
	}
	if *spellings != "" {
		if err := json.Unmarshal([]byte(*spellings), &u.Spellings); err != nil {
			return fail(fmt.Errorf("--spellings: %v", err))
		}
	}
	if mode == "info" {
		b, _ := json.Marshal(u.info())
		fmt.Println(string(b))
		return 0
	}
	var ps []int
	for _, p := range splitList(*pss) {
		n, err := strconv.Atoi(p)
		if err != nil || n < 0 {
			return fail(fmt.Errorf("bad page size %q", p))
		}
		ps = append(ps, n)
	}
	c, err := newChain()
	if err != nil {
		return fail(err)
	}
	w, err := vcommon.NewWriter(*outp)
	if err != nil {
		return fail(err)
	}
	c.noq = *qmode == "none"
	r := &runner{c: c, u: u, ps: ps, w: w, stats: map[string]int{}}
	switch mode {
	case "graph":
		var edges []edge
		if err := vcommon.ReadLines(*in, func(raw json.RawMessage) error {
			var e edge
			if err := json.Unmarshal(raw, &e); err != nil {
				return err
			}
			edges = append(edges, e)
			return nil
		}); err != nil {
			return fail(err)
		}
		if err := r.graph(edges, *qmode, *pathsOut); err != nil {
			return fail(err)
		}
	case "paths", "deliver", "det":
		var scripts [][]action
		if err := vcommon.ReadLines(*in, func(raw json.RawMessage) error {
			var sc []action
			if err := json.Unmarshal(raw, &sc); err != nil {
				return err
			}
			scripts = append(scripts, sc)
			return nil
		}); err != nil {
			return fail(err)
		}
		if mode == "deliver" {
			err = r.deliverScripts(scripts, u.Owners)
		} else if mode == "det" {
			err = r.det(scripts, *reps, time.Duration(*window)*time.Millisecond)
		} else {
			err = r.paths(scripts)
		}
		if err != nil {
			return fail(err)
		}
	default:
		return fail(fmt.Errorf("unknown mode %q", mode))
	}
	if err := w.Close(); err != nil {
		return fail(err)
	}
	b, _ := json.Marshal(r.stats)
	fmt.Println(string(b))
	return 0
}
