package certh

import (
	"bytes"
	"crypto/x509"
	"encoding/hex"
	"encoding/pem"
	"fmt"
	"math/big"
	"sort"

	sdk "github.com/cosmos/cosmos-sdk/types"
	sdkquery "github.com/cosmos/cosmos-sdk/types/query"
	abci "github.com/tendermint/tendermint/abci/types"

	ctypes "github.com/ovrclk/akash/x/cert/types"
)

// entry is one record of the projected registry, one raw (key, value) pair of the certificate store:
//   - what certificate it HOLDS, decided from the stored value alone (o, s, b: the x509 body names its owner
//     (CN) and serial), and its state;
//   - under which owner+serial it is STORED (ko, ks), decoded here from the raw key by the layout the property
//     documents (0x01 | owner(20) | big-endian serial bytes) -- the harness' own decoding, not the keeper's;
//     "?" when the key does not decode to a known owner / serial class (a different layout).
type entry struct {
	O   string `json:"o"`
	S   string `json:"s"`
	St  string `json:"st"`
	B   int    `json:"b"`
	Ko  string `json:"ko"`
	Ks  string `json:"ks"`
	Key string `json:"key"` // raw store key, hex (information)
}

// keyIdentity decodes a raw store key by the documented layout.
func (u *universe) keyIdentity(key []byte) (ko, ks string) {
	ko, ks = "?", "?"
	if len(key) < 1+sdk.AddrLen || key[0] != 0x01 {
		return
	}
	for name, a := range u.addr {
		if bytes.Equal(a.Bytes(), key[1:1+sdk.AddrLen]) {
			ko = name
		}
	}
	if cls, ok := u.bySer[new(big.Int).SetBytes(key[1+sdk.AddrLen:]).String()]; ok {
		ks = cls
	}
	return
}

// item is one certificate as returned by a query: which certificate it is (o, s, b: from the returned body),
// the serial the response REPORTS for it (rs: class name, or "?<text>" when it is no known class), and state.
type item struct {
	O  string `json:"o"`
	S  string `json:"s"`
	B  int    `json:"b"`
	Rs string `json:"rs"`
	St string `json:"st"`
}

type filter struct {
	O  string `json:"o"`
	S  string `json:"s"` // serial class; for a spelled lookup the class its decimal reading names / "other" / "invalid"
	St string `json:"st"`
}

// qres is the recorded result of one query: for paginated listings every page obtained by following next_key.
type qres struct {
	K     string   `json:"k"`   // "list" (gRPC Query/Certificates), "iter" (keeper With* iterator), "get" (GetCertificateByID)
	Via   string   `json:"via"` // route / method name
	F     filter   `json:"f"`
	Ps    int      `json:"ps"` // page size; 0 = no pagination requested
	Sp    string   `json:"sp"` // spelled lookup: the text sent as the filter's serial ("" = canonical decimal of f.s)
	Pm    string   `json:"pm"` // paging style: key (follow next_key) | total (same, count_total set) | offset
	OK    bool     `json:"ok"`
	Err   string   `json:"err"`
	Pages [][]item `json:"pages"`
}

func stateName(s ctypes.Certificate_State) string {
	switch s {
	case ctypes.CertificateValid:
		return "valid"
	case ctypes.CertificateRevoked:
		return "revoked"
	}
	return fmt.Sprintf("?%d", int32(s))
}

// identify maps a stored / returned certificate body to the model's (owner, serial, body).
func (u *universe) identify(certPEM []byte) (o, s string, b int) {
	if cb, ok := u.byPEM[string(certPEM)]; ok {
		return cb.Owner, cb.Serial, cb.Body
	}
	// not one of ours byte-for-byte: fall back to what the body says
	o, s = "?", "?"
	blk, _ := pem.Decode(certPEM)
	if blk == nil {
		return
	}
	c, err := x509.ParseCertificate(blk.Bytes)
	if err != nil {
		return
	}
	for name, a := range u.addr {
		if a.String() == c.Subject.CommonName {
			o = name
		}
	}
	if cls, ok := u.bySer[c.SerialNumber.String()]; ok {
		s = cls
	}
	return
}

func (u *universe) serialClass(dec string) string {
	if cls, ok := u.bySer[dec]; ok {
		return cls
	}
	return "?" + dec
}

// project scans the raw certificate store of ctx.
func (c *chain) project(ctx sdk.Context, u *universe) (entries []entry, raw string, err error) {
	store := ctx.KVStore(c.app.GetKey(ctypes.StoreKey))
	it := store.Iterator(nil, nil)
	defer it.Close()
	for ; it.Valid(); it.Next() {
		// every record reaches the judge: one that holds no (known) certificate is projected as a marked value
		// (o, s = "?", b = 0; state "undecodable" when the value is no Certificate at all) placed by its key
		var val ctypes.Certificate
		o, s, b, stn := "?", "?", 0, "undecodable"
		if e := c.app.AppCodec().UnmarshalBinaryBare(it.Value(), &val); e == nil {
			o, s, b = u.identify(val.Cert)
			stn = stateName(val.State)
			if o == "?" || s == "?" || b == 0 {
				o, s, b = "?", "?", 0
			}
		}
		ko, ks := u.keyIdentity(it.Key())
		entries = append(entries, entry{O: o, S: s, St: stn, B: b, Ko: ko, Ks: ks, Key: hex.EncodeToString(it.Key())})
		raw += hex.EncodeToString(it.Key()) + "=" + hex.EncodeToString(it.Value()) + ";"
	}
	sort.SliceStable(entries, func(i, j int) bool {
		if entries[i].O != entries[j].O {
			return entries[i].O < entries[j].O
		}
		if entries[i].S != entries[j].S {
			return entries[i].S < entries[j].S
		}
		return entries[i].Key < entries[j].Key
	})
	return entries, raw, nil
}

// stateID is the canonical identifier of a projected registry (same text the check derives from TLC's states).
// A record stored where the documented layout puts its certificate (or under a key of another layout) is
// "o/s=<state><body>"; a record stored under the key of ANOTHER owner+serial also names that place.
func stateID(entries []entry) string {
	parts := make([]string, 0, len(entries))
	for _, e := range entries {
		p := fmt.Sprintf("%s/%s=%s%d", e.O, e.S, e.St[:1], e.B)
		if e.Ko != "?" && e.Ks != "?" && (e.Ko != e.O || e.Ks != e.S) {
			p += fmt.Sprintf("@%s/%s", e.Ko, e.Ks)
		}
		parts = append(parts, p)
	}
	sort.Strings(parts)
	id := ""
	for i, p := range parts {
		if i > 0 {
			id += ","
		}
		id += p
	}
	return id
}

func (u *universe) toItem(r ctypes.CertificateResponse) item {
	o, s, b := u.identify(r.Certificate.Cert)
	return item{O: o, S: s, B: b, Rs: u.serialClass(r.Serial), St: stateName(r.Certificate.State)}
}

func (u *universe) filterReq(f filter, sp string) ctypes.CertificateFilter {
	out := ctypes.CertificateFilter{State: f.St}
	if f.O != "" {
		out.Owner = u.addr[f.O].String()
	}
	if sp != "" {
		out.Serial = sp
	} else if f.S != "" {
		out.Serial = serialOf(f.S).String()
	}
	return out
}

const maxPages = 64

// list runs the real gRPC Query/Certificates handler registered in the app's gRPC query router, page after
// page until a response carries no next_key: pm "key" passes next_key back, "total" does the same and asks for
// count_total, "offset" advances the offset by the page size. Any error or panic on any page makes the
// listing "failed".
func (c *chain) list(ctx sdk.Context, u *universe, f filter, ps int, pm string) (res qres) {
	return c.listSpelled(ctx, u, f, ps, pm, "")
}

// listSpelled: as list, the serial of the filter sent as the text sp when it is not empty.
func (c *chain) listSpelled(ctx sdk.Context, u *universe, f filter, ps int, pm string, sp string) (res qres) {
	res = qres{K: "list", Via: "grpc", F: f, Ps: ps, Pm: pm, Sp: sp, Pages: [][]item{}}
	defer func() {
		if r := recover(); r != nil {
			res.OK, res.Err = false, fmt.Sprintf("panic: %v", r)
		}
	}()
	h := c.route
	if h == nil {
		h = c.app.GRPCQueryRouter().Route(queryPath)
	}
	if h == nil {
		panic("no gRPC query route " + queryPath)
	}
	if c.route != nil {
		res.Via = "abci"
	}
	var key []byte
	for n := 0; ; n++ {
		if n >= maxPages {
			res.OK, res.Err = false, "pagination does not terminate"
			return
		}
		req := ctypes.QueryCertificatesRequest{Filter: u.filterReq(f, sp)}
		if ps > 0 {
			switch pm {
			case "offset":
				req.Pagination = &sdkquery.PageRequest{Offset: uint64(n * ps), Limit: uint64(ps)}
			case "total":
				req.Pagination = &sdkquery.PageRequest{Key: key, Limit: uint64(ps), CountTotal: true}
			default:
				req.Pagination = &sdkquery.PageRequest{Key: key, Limit: uint64(ps)}
			}
		}
		bz, err := req.Marshal()
		if err != nil {
			panic(err)
		}
		out, err := h(ctx, abci.RequestQuery{Data: bz, Path: queryPath})
		if err != nil {
			res.OK, res.Err = false, err.Error()
			return
		}
		var resp ctypes.QueryCertificatesResponse
		if err := resp.Unmarshal(out.Value); err != nil {
			res.OK, res.Err = false, "undecodable response: "+err.Error()
			return
		}
		page := []item{}
		for _, r := range resp.Certificates {
			page = append(page, u.toItem(r))
		}
		res.Pages = append(res.Pages, page)
		if ps == 0 || resp.Pagination == nil || len(resp.Pagination.NextKey) == 0 {
			break
		}
		key = resp.Pagination.NextKey
	}
	res.OK = true
	return
}

// iter runs one of the keeper's With* iterators to the end.
func (c *chain) iter(ctx sdk.Context, u *universe, f filter) (res qres) {
	res = qres{K: "iter", F: f, Pm: "key", Pages: [][]item{}}
	defer func() {
		if r := recover(); r != nil {
			res.OK, res.Err = false, fmt.Sprintf("panic: %v", r)
		}
	}()
	page := []item{}
	fn := func(r ctypes.CertificateResponse) bool { page = append(page, u.toItem(r)); return false }
	var st ctypes.Certificate_State
	if f.St != "" {
		st = ctypes.Certificate_State(ctypes.Certificate_State_value[f.St])
	}
	switch {
	case f.O == "" && f.St == "":
		res.Via = "WithCertificates"
		c.keeper.WithCertificates(ctx, fn)
	case f.O == "":
		res.Via = "WithCertificatesState"
		c.keeper.WithCertificatesState(ctx, st, fn)
	case f.St == "":
		res.Via = "WithOwner"
		c.keeper.WithOwner(ctx, u.addr[f.O], fn)
	default:
		res.Via = "WithOwnerState"
		c.keeper.WithOwnerState(ctx, u.addr[f.O], st, fn)
	}
	res.Pages = append(res.Pages, page)
	res.OK = true
	return
}

// get runs the keeper's GetCertificateByID.
func (c *chain) get(ctx sdk.Context, u *universe, o, s string) (res qres) {
	res = qres{K: "get", Via: "GetCertificateByID", F: filter{O: o, S: s}, Pm: "key", Pages: [][]item{}}
	defer func() {
		if r := recover(); r != nil {
			res.OK, res.Err = false, fmt.Sprintf("panic: %v", r)
		}
	}()
	page := []item{}
	r, found := c.keeper.GetCertificateByID(ctx, ctypes.CertID{Owner: u.addr[o], Serial: *serialOf(s)})
	if found {
		page = append(page, u.toItem(r))
	}
	res.Pages = append(res.Pages, page)
	res.OK = true
	return
}

// queries runs every query of the model on ctx: every filter (owner x serial x state, "" = unset) with every
// page size, every keeper iterator, and GetCertificateByID for every (owner, serial).
func (c *chain) queries(ctx sdk.Context, u *universe, pageSizes []int) []qres {
	var out []qres
	if c.noq {
		return out
	}
	owners := append([]string{""}, u.Owners...)
	serials := append([]string{""}, u.Serials...)
	states := []string{"", "valid", "revoked"}
	for _, o := range owners {
		for _, s := range serials {
			for _, st := range states {
				f := filter{O: o, S: s, St: st}
				for _, ps := range pageSizes {
					out = append(out, c.list(ctx, u, f, ps, "key"))
					if ps > 0 && s == "" {
						out = append(out, c.list(ctx, u, f, ps, "total"), c.list(ctx, u, f, ps, "offset"))
					}
				}
			}
		}
	}
	for _, o := range owners {
		for _, st := range states {
			out = append(out, c.iter(ctx, u, filter{O: o, St: st}))
		}
	}
	for _, o := range u.Owners {
		for _, s := range u.Serials {
			out = append(out, c.get(ctx, u, o, s))
		}
	}
	// lookups by owner and a SPELLED serial
	for _, o := range u.Owners {
		for _, sp := range u.Spellings {
			if sp.Sp != "" {
				out = append(out, c.listSpelled(ctx, u, filter{O: o, S: sp.Rd}, 0, "key", sp.Sp))
			}
		}
	}
	return out
}
