package certh

import (
	"crypto/sha256"
	"encoding/hex"
	"fmt"
	"time"
)

// Determinism mode (C07). Every transaction of every script is executed `reps` times on sibling branches of the
// same state in one application instance (pass A), then -- after ONE wait, for the wall clock to pass the
// validity edge of the timed certificate bodies -- `reps` times again in a second, fresh application instance
// that replays the same scripts (pass B). One digest per execution: result (accepted, stage, error text), gas,
// events, and every byte of the certificate store after the execution. A step line carries all its digests;
// CertTrace's T_Deterministic requires them equal.
type detStep struct {
	digests []string
	res     txResult
	ents    []entry
}

func digestOf(res txResult, raw string) string {
	h := sha256.Sum256([]byte(fmt.Sprintf("%v|%s|%s|%d|%s|%s", res.OK, res.Stage, res.Err, res.Gas, res.Events, raw)))
	return hex.EncodeToString(h[:10])
}

func (r *runner) detPass(c *chain, scripts [][]action, reps int, boundary time.Time, after bool) ([][]detStep, error) {
	out := make([][]detStep, len(scripts))
	margin := 150 * time.Millisecond
	for i, sc := range scripts {
		ctx, _ := c.ctx.CacheContext()
		for _, a := range sc {
			var ds detStep
			timed := a.K == "create" && a.B > r.u.Bodies+1
			for k := 0; k < reps; k++ {
				t0 := time.Now()
				res, next, commit, err := r.execOn(c, ctx, a)
				if err != nil {
					return nil, err
				}
				t1 := time.Now()
				ents, raw, err := c.project(next, r.u)
				if err != nil {
					return nil, err
				}
				ds.digests = append(ds.digests, digestOf(res, raw))
				if timed {
					switch {
					case !after && t1.Before(boundary.Add(-margin)):
						r.stats["timed_before_edge"]++
					case after && t0.After(boundary.Add(margin)):
						r.stats["timed_after_edge"]++
					default:
						r.stats["timed_near_edge"]++
					}
				}
				if k == reps-1 { // the last repetition is the one that happens
					commit()
					ds.res, ds.ents = res, ents
				}
			}
			out[i] = append(out[i], ds)
		}
	}
	return out, nil
}

func (r *runner) det(scripts [][]action, reps int, window time.Duration) error {
	c2, err := newChain() // the second application instance, built before the clock starts to matter
	if err != nil {
		return err
	}
	boundary, err := r.u.addTimed(window)
	if err != nil {
		return err
	}
	a, err := r.detPass(r.c, scripts, reps, boundary, false)
	if err != nil {
		return err
	}
	// the one deliberate wait: until the wall clock has passed the validity edge
	t0 := time.Now()
	for !time.Now().After(boundary.Add(200 * time.Millisecond)) {
		time.Sleep(time.Until(boundary.Add(210 * time.Millisecond)))
	}
	r.stats["boundary_wait_ms"] = int(time.Since(t0) / time.Millisecond)
	b, err := r.detPass(c2, scripts, reps, boundary, true)
	if err != nil {
		return err
	}
	for i, sc := range scripts {
		if err := r.write(step{Ev: "load", Sid: ""}); err != nil {
			return err
		}
		r.stats["segments"]++
		for j, act := range sc {
			x, y := a[i][j], b[i][j]
			st := step{Ev: act.K, Signer: act.Signer, Mo: act.Mo, O: act.O, S: act.S, B: act.B, Sp: act.Sp,
				Signers: y.res.Signers, Iss: r.u.issuerName(act), OK: y.res.OK, Stage: y.res.Stage, Err: y.res.Err,
				Reg: y.ents, Sid: stateID(y.ents), Digests: append(append([]string{}, x.digests...), y.digests...)}
			if x.res.OK != y.res.OK || x.res.Err != y.res.Err {
				st.Note = fmt.Sprintf("before the edge: ok=%v %s %s", x.res.OK, x.res.Stage, x.res.Err)
			}
			r.stats["steps"]++
			r.stats["executions"] += len(st.Digests)
			if err := r.write(st); err != nil {
				return err
			}
		}
	}
	return nil
}
