package certh

import (
	"bytes"
	"encoding/json"
	"fmt"
	"sort"
	"time"

	"github.com/cosmos/cosmos-sdk/crypto/keys/secp256k1"
	cryptotypes "github.com/cosmos/cosmos-sdk/crypto/types"
	"github.com/cosmos/cosmos-sdk/simapp"
	"github.com/cosmos/cosmos-sdk/simapp/helpers"
	sdk "github.com/cosmos/cosmos-sdk/types"
	authtypes "github.com/cosmos/cosmos-sdk/x/auth/types"
	abci "github.com/tendermint/tendermint/abci/types"
	"github.com/tendermint/tendermint/libs/log"
	tmproto "github.com/tendermint/tendermint/proto/tendermint/types"
	dbm "github.com/tendermint/tm-db"

	"github.com/ovrclk/akash/app"
	ckeeper "github.com/ovrclk/akash/x/cert/keeper"
	ctypes "github.com/ovrclk/akash/x/cert/types"
)

// Signed-transaction mode: the whole path a transaction takes on a node. Every transaction of a script is a
// real protobuf Tx signed with the signing account's secp256k1 key, delivered in its own block
// (BeginBlock / DeliverTx / EndBlock / Commit) through the app's real ante handler (signature verification
// against msg.GetSigners(), sequence numbers); all queries then run on the COMMITTED state: the gRPC listing
// through the ABCI Query entry point, the keeper iterators and the raw-store projection on a context over the
// committed multistore.

const deliverChainID = "verif-cert-deliver"

type dchain struct {
	chain
	priv   map[string]cryptotypes.PrivKey
	accNum map[string]uint64
	seq    map[string]uint64
	prop   []byte
	now    time.Time
}

// deliverKeys makes one key per owner such that the owners' addresses sort like the fixed addresses of the
// other modes do (the store order handed to the specification stays the same).
func deliverKeys(owners []string) (map[string]cryptotypes.PrivKey, map[string]sdk.AccAddress) {
	names := append([]string{}, owners...)
	sort.Slice(names, func(i, j int) bool { return bytes.Compare(ownerBytes[names[i]], ownerBytes[names[j]]) < 0 })
	keys := make([]cryptotypes.PrivKey, len(names))
	for i := range keys {
		keys[i] = secp256k1.GenPrivKey()
	}
	sort.Slice(keys, func(i, j int) bool {
		return bytes.Compare(keys[i].PubKey().Address(), keys[j].PubKey().Address()) < 0
	})
	priv, addr := map[string]cryptotypes.PrivKey{}, map[string]sdk.AccAddress{}
	for i, n := range names {
		priv[n], addr[n] = keys[i], sdk.AccAddress(keys[i].PubKey().Address())
	}
	return priv, addr
}

func newDeliverChain(u *universe, priv map[string]cryptotypes.PrivKey) (*dchain, error) {
	a := app.NewApp(log.NewNopLogger(), dbm.NewMemDB(), nil, true, 5, map[int64]bool{},
		app.DefaultHome, simapp.EmptyAppOptions{})
	gs := app.NewDefaultGenesisState()
	d := &dchain{priv: priv, accNum: map[string]uint64{}, seq: map[string]uint64{}, prop: bytes.Repeat([]byte{0x11}, 20),
		now: time.Unix(1700000000, 0).UTC()}
	var accs authtypes.GenesisAccounts
	for i, o := range u.Owners {
		accs = append(accs, authtypes.NewBaseAccount(u.addr[o], nil, uint64(i), 0))
		d.accNum[o] = uint64(i)
	}
	gs[authtypes.ModuleName] = a.AppCodec().MustMarshalJSON(authtypes.NewGenesisState(authtypes.DefaultParams(), accs))
	raw, err := json.Marshal(gs)
	if err != nil {
		return nil, err
	}
	a.InitChain(abci.RequestInitChain{ChainId: deliverChainID, AppStateBytes: raw,
		ConsensusParams: simapp.DefaultConsensusParams, Time: d.now})
	a.Commit()
	d.app, d.height = a, 1
	d.keeper = ckeeper.NewKeeper(a.AppCodec(), a.GetKey(ctypes.StoreKey))
	// account numbers as the chain assigned them
	ctx := d.committed()
	for _, o := range u.Owners {
		raw := ctx.KVStore(a.GetKey(authtypes.StoreKey)).Get(authtypes.AddressStoreKey(u.addr[o]))
		if raw == nil {
			return nil, fmt.Errorf("account %s not in genesis state", o)
		}
		var acc authtypes.AccountI
		if err := a.AppCodec().UnmarshalInterface(raw, &acc); err != nil {
			return nil, err
		}
		d.accNum[o] = acc.GetAccountNumber()
	}
	return d, nil
}

// committed is a read context over the committed state (the check state is reset to it by every Commit).
func (d *dchain) committed() sdk.Context {
	return d.app.BaseApp.NewContext(true, tmproto.Header{Height: d.height, ChainID: deliverChainID, Time: d.now})
}

// deliver signs msg with signer's key and delivers it in a block of its own.
func (d *dchain) deliver(signer string, msg sdk.Msg) (txResult, error) {
	txcfg := app.MakeEncodingConfig().TxConfig
	tx, err := helpers.GenTx(txcfg, []sdk.Msg{msg}, sdk.NewCoins(), helpers.DefaultGenTxGas, deliverChainID,
		[]uint64{d.accNum[signer]}, []uint64{d.seq[signer]}, d.priv[signer])
	if err != nil {
		return txResult{}, err
	}
	bz, err := txcfg.TxEncoder()(tx)
	if err != nil {
		return txResult{}, err
	}
	d.height++
	d.now = d.now.Add(6 * time.Second)
	hdr := tmproto.Header{Height: d.height, ChainID: deliverChainID, Time: d.now, ProposerAddress: d.prop}
	d.app.BeginBlock(abci.RequestBeginBlock{Header: hdr})
	res := d.app.DeliverTx(abci.RequestDeliverTx{Tx: bz})
	d.app.EndBlock(abci.RequestEndBlock{Height: d.height})
	d.app.Commit()
	// the ante handler increments the sequence iff it accepted the transaction; read it back from the chain
	ctx := d.committed()
	if raw := ctx.KVStore(d.app.GetKey(authtypes.StoreKey)).Get(authtypes.AddressStoreKey(sdk.AccAddress(d.priv[signer].PubKey().Address()))); raw != nil {
		var acc authtypes.AccountI
		if err := d.app.AppCodec().UnmarshalInterface(raw, &acc); err == nil {
			d.seq[signer] = acc.GetSequence()
		}
	}
	if res.Code != 0 {
		return txResult{Stage: "deliver:" + res.Codespace, Err: res.Log}, nil
	}
	return txResult{OK: true}, nil
}

// listABCI is the gRPC listing through the node's ABCI Query entry point (committed state).
func (d *dchain) queryABCI(ctx sdk.Context, req abci.RequestQuery) (abci.ResponseQuery, error) {
	res := d.app.Query(abci.RequestQuery{Path: queryPath, Data: req.Data})
	if res.Code != 0 {
		return res, fmt.Errorf("abci query code %d: %s", res.Code, res.Log)
	}
	return res, nil
}

// deliverScripts replays linear scripts, each on a fresh chain, every transaction in its own block.
func (r *runner) deliverScripts(scripts [][]action, owners []string) error {
	for _, sc := range scripts {
		priv, addrs := deliverKeys(owners)
		u, err := newUniverseAt(r.u.Owners, r.u.Serials, r.u.Bodies, r.u.Foreign, addrs)
		if err != nil {
			return err
		}
		u.Spellings = r.u.Spellings
		d, err := newDeliverChain(u, priv)
		if err != nil {
			return err
		}
		d.route = d.queryABCI
		d.noq = r.c.noq
		ctx := d.committed()
		ents, _, err := d.project(ctx, u)
		if err != nil {
			return err
		}
		if err := r.write(step{Ev: "load", Reg: ents, Sid: stateID(ents), HasQ: true, Q: d.queries(ctx, u, r.ps)}); err != nil {
			return err
		}
		r.stats["segments"]++
		for _, a := range sc {
			var msg sdk.Msg
			switch a.K {
			case "create":
				cb := u.cert(a.O, a.S, a.B)
				msg = &ctypes.MsgCreateCertificate{Owner: u.addr[a.Mo].String(), Cert: cb.CertPEM, Pubkey: cb.PubPEM}
			case "revoke":
				txt, err := serialText(a.S, a.Sp)
				if err != nil {
					return err
				}
				msg = &ctypes.MsgRevokeCertificate{ID: ctypes.CertificateID{Owner: u.addr[a.O].String(), Serial: txt}}
			default:
				return fmt.Errorf("unknown action kind %q", a.K)
			}
			res, err := d.deliver(a.Signer, msg)
			if err != nil {
				return err
			}
			res.Signers = u.signerNames(msg)
			ctx := d.committed()
			ents, _, err := d.project(ctx, u)
			if err != nil {
				return err
			}
			st := step{Ev: a.K, Signer: a.Signer, Mo: a.Mo, O: a.O, S: a.S, B: a.B, Sp: a.Sp, Signers: res.Signers, Iss: u.issuerName(a), OK: res.OK, Stage: res.Stage,
				Err: res.Err, Reg: ents, Sid: stateID(ents), HasQ: true, Q: d.queries(ctx, u, r.ps)}
			if res.OK {
				r.stats["accepted"]++
			} else {
				r.stats["rejected"]++
			}
			r.stats["steps"]++
			if err := r.write(st); err != nil {
				return err
			}
		}
	}
	return nil
}
