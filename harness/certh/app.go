// Package certh is the conformance harness of the `cert` family (property C17): it replays behaviours
// enumerated by TLC from spec/cert/Cert.tla on the REAL akash application (real MsgCreateCertificate /
// MsgRevokeCertificate through the app's msg service router, real gRPC Query/Certificates through the app's
// gRPC query router, real keeper iterators) and records one ndjson line per step for CertTrace.tla.
package certh

import (
	"encoding/json"
	"fmt"

	"github.com/cosmos/cosmos-sdk/simapp"
	sdk "github.com/cosmos/cosmos-sdk/types"
	abci "github.com/tendermint/tendermint/abci/types"
	"github.com/tendermint/tendermint/libs/log"
	tmproto "github.com/tendermint/tendermint/proto/tendermint/types"
	dbm "github.com/tendermint/tm-db"

	"github.com/ovrclk/akash/app"
	ckeeper "github.com/ovrclk/akash/x/cert/keeper"
	ctypes "github.com/ovrclk/akash/x/cert/types"
)

const (
	msgCreatePath = "/akash.cert.v1beta1.Msg/CreateCertificate"
	msgRevokePath = "/akash.cert.v1beta1.Msg/RevokeCertificate"
	queryPath     = "/akash.cert.v1beta1.Query/Certificates"
)

// chain is one real AkashApp instance (MemDB) after InitChain with the default genesis.
type chain struct {
	app    *app.AkashApp
	ctx    sdk.Context    // root context of the deliver state at height 1 (never written to directly)
	keeper ckeeper.Keeper // a real cert keeper over the app's own cert store key (for the With* iterators)
	height int64
	noq    bool // run no queries (stages that judge transactions only)
	// route, when set, replaces the app's gRPC query router handler (signed-transaction mode: ABCI Query)
	route func(ctx sdk.Context, req abci.RequestQuery) (abci.ResponseQuery, error)
}

func newChain() (*chain, error) {
	a := app.NewApp(log.NewNopLogger(), dbm.NewMemDB(), nil, true, 5, map[int64]bool{},
		app.DefaultHome, simapp.EmptyAppOptions{})
	gs := app.NewDefaultGenesisState()
	raw, err := json.Marshal(gs)
	if err != nil {
		return nil, err
	}
	a.InitChain(abci.RequestInitChain{ChainId: "verif-cert", AppStateBytes: raw,
		ConsensusParams: simapp.DefaultConsensusParams})
	c := &chain{app: a, height: 1}
	c.ctx = a.BaseApp.NewContext(false, tmproto.Header{Height: 1, ChainID: "verif-cert"})
	c.keeper = ckeeper.NewKeeper(a.AppCodec(), a.GetKey(ctypes.StoreKey))
	return c, nil
}

// txResult is the outcome of one emulated transaction.
type txResult struct {
	Signers []string // msg.GetSigners() as model owner ids ("?" unknown account, "!panic")
	Gas     uint64   // gas consumed by the execution (when the caller installed a gas meter)
	Events  string   // events emitted by the handler, JSON (accepted transactions)
	OK      bool
	Stage   string // "", "ante", "validate", "handler", "panic"
	Err     string
}

// runTx does what baseapp.runTx does for a single-message transaction signed by exactly `signer`:
//   - signature check of the ante handler, reduced to its essence: the set msg.GetSigners() must be {signer};
//   - msg.ValidateBasic();
//   - the handler the app itself registered for the message's service method (MsgServiceRouter), run on a
//     CacheContext branch; the branch is returned on success and dropped on error / panic.
//
// On success the returned context is the new state (an unwritten branch over parent, so that a parent can be
// the source of many steps) and commit writes it into parent, as runTx does. Branches are never nested deeper
// than two levels: the SDK's cache-merge iterator is exponential in the nesting depth.
func (c *chain) runTx(parent sdk.Context, signer sdk.AccAddress, msg sdk.Msg, path string) (res txResult, next sdk.Context, commit func()) {
	next, commit = parent, func() {}
	defer func() {
		if r := recover(); r != nil {
			res = txResult{OK: false, Stage: "panic", Err: fmt.Sprint(r)}
			next, commit = parent, func() {}
		}
	}()
	signers := msg.GetSigners()
	if len(signers) != 1 || !signers[0].Equals(signer) {
		return txResult{Stage: "ante", Err: "signature verification failed: signer is not the account the message requires"}, parent, commit
	}
	if err := msg.ValidateBasic(); err != nil {
		return txResult{Stage: "validate", Err: err.Error()}, parent, commit
	}
	h := c.app.MsgServiceRouter().Handler(path)
	if h == nil {
		panic("no handler registered for " + path)
	}
	gm := sdk.NewGasMeter(1 << 40)
	branch, write := parent.WithGasMeter(gm).CacheContext()
	if _, err := h(branch, msg); err != nil {
		return txResult{Stage: "handler", Err: err.Error(), Gas: gm.GasConsumed()}, parent, commit
	}
	ev, _ := json.Marshal(branch.EventManager().ABCIEvents())
	return txResult{OK: true, Events: string(ev), Gas: gm.GasConsumed()}, branch.WithGasMeter(parent.GasMeter()), write
}
