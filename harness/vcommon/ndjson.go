// Package vcommon holds the few helpers every harness family shares: ndjson trace I/O.
package vcommon

import (
	"bufio"
	"encoding/json"
	"io"
	"os"
	"sync"
)

// Writer writes one JSON value per line. Safe for concurrent use.
type Writer struct {
	mu sync.Mutex
	f  *os.File
	w  *bufio.Writer
	N  int
}

func NewWriter(path string) (*Writer, error) {
	f, err := os.Create(path)
	if err != nil {
		return nil, err
	}
	return &Writer{f: f, w: bufio.NewWriterSize(f, 1<<20)}, nil
}

func (w *Writer) Write(v interface{}) error {
	b, err := json.Marshal(v)
	if err != nil {
		return err
	}
	w.mu.Lock()
	defer w.mu.Unlock()
	w.N++
	if _, err := w.w.Write(b); err != nil {
		return err
	}
	return w.w.WriteByte('\n')
}

func (w *Writer) Close() error {
	w.mu.Lock()
	defer w.mu.Unlock()
	if err := w.w.Flush(); err != nil {
		return err
	}
	return w.f.Close()
}

// ReadLines decodes an ndjson file, calling fn for every line.
func ReadLines(path string, fn func(raw json.RawMessage) error) error {
	f, err := os.Open(path)
	if err != nil {
		return err
	}
	defer f.Close()
	r := bufio.NewReaderSize(f, 1<<20)
	for {
		line, err := r.ReadBytes('\n')
		if len(line) > 1 {
			if e := fn(json.RawMessage(line)); e != nil {
				return e
			}
		}
		if err == io.EOF {
			return nil
		}
		if err != nil {
			return err
		}
	}
}
