// Package deployh binds spec/deploy/DeployManager.tla to the real provider/cluster service: it builds the real
// cluster.NewService (public constructor) on a real pubsub bus with a scripted cluster.Client whose Deploy /
// TeardownLease calls block on gates, replays stimulus scripts enumerated by TLC under a forced schedule (at most one
// select case ready at a time), or lets everything run free with random delays, and records one ndjson line per
// specification step (canonical, causally ordered) for DeployManagerTrace.tla.
package deployh

import (
	"context"
	"errors"
	"fmt"
	"io"
	"math/rand"
	"os"
	"strings"
	"sync"
	"time"

	sdk "github.com/cosmos/cosmos-sdk/types"
	"github.com/tendermint/tendermint/libs/log"
	"k8s.io/client-go/tools/remotecommand"

	aclient "github.com/ovrclk/akash/client"
	"github.com/ovrclk/akash/client/broadcaster"
	"github.com/ovrclk/akash/manifest"
	"github.com/ovrclk/akash/provider/cluster"
	ctypes "github.com/ovrclk/akash/provider/cluster/types"
	"github.com/ovrclk/akash/provider/event"
	"github.com/ovrclk/akash/provider/session"
	"github.com/ovrclk/akash/pubsub"
	atypes "github.com/ovrclk/akash/types"
	"github.com/ovrclk/akash/util/veriftrace"
	dtypes "github.com/ovrclk/akash/x/deployment/types"
	mtypes "github.com/ovrclk/akash/x/market/types"
	ptypes "github.com/ovrclk/akash/x/provider/types"
)

const (
	hostA     = "a.c14.test"
	hostB     = "b.c14.test"
	hostC     = "c.c14.test" // the bystander lease's hostname
	hostD     = "d.c14.test" // where an update moves hostA to (hosts scheme "move")
	groupName = "g"
)

var errScripted = errors.New("scripted failure")

// raw is one observation: a veriftrace hook event, a mark of the scripted client, or a harness action.
type raw struct {
	Seq   int    // position in the sink (a total order consistent with each goroutine's program order)
	Th    string // logical thread: H harness, S service loop, D manager loop, C op goroutine, N hostname service
	K     string // kind
	C     string // Deploy | Teardown
	M     int    // manifest id
	R     string // result / outcome
	State string
	Runch bool
	Err   bool
	By    string
}

type blockedCall struct {
	kind    string
	release chan string
}

// world is one instance of the system under test plus the harness' view of it.
type world struct {
	mu     sync.Mutex
	pubMu  sync.Mutex
	notify chan struct{}
	raws   []raw

	forced bool
	hosts  string     // hosts scheme, see hostsOf
	rng    *rand.Rand // free mode only, guarded by mu
	plan   freePlan

	lease    mtypes.LeaseID
	leaseStr string
	gateName string
	otherDID dtypes.DeploymentID

	bus    pubsub.Bus
	svc    cluster.Service
	ctx    context.Context
	cancel context.CancelFunc

	// gates
	hnGate     chan struct{}
	hnGateHeld bool
	hnWillFail bool
	calls      []*blockedCall

	// expectation tracker (what the implementation still has to do before it is stable)
	pendingPub       int
	svcRejected      bool
	pendingInbox     int
	firstLoops       int
	gateEntered      int
	pendingHnResolve int
	dmBusy           bool
	created          int
	exited           int
	stopped          int
	collected        int
	pendingStart     int
	inCall           int
	pendingResult    int
	pendingEnd       int
	tdFailed         int
	svcShutReq       bool
	svcShutSeen      bool
	svcDone          bool
	hnReleased       bool
	hnConsumed       bool
	foreign          int // hook events for other leases / unknown kinds

	// bystander: a second lease of the SAME deployment (other group sequence), deployed before the script starts and
	// never closed; whatever happens to the lease under test must leave it alone (routing keys in service.go)
	bystander   bool
	settingUp   bool
	byLease     mtypes.LeaseID
	byStr       string
	byState     string
	byExited    bool
	byDeploys   int
	byTeardowns int
	byResvOK    bool
	misrouted   int
}

type freePlan struct {
	deployErrP float64
	tdErrP     float64
	maxDelayUs int
}

func manifestID(g *manifest.Group) int {
	if g == nil || len(g.Services) == 0 {
		return -1
	}
	var id int
	if _, err := fmt.Sscanf(g.Services[0].Image, "m%d", &id); err != nil {
		return -1
	}
	return id
}

func mkGroup(id int) manifest.Group { return mkGroupHosts(id, []string{hostA, hostB}) }

// hostsOf: the hostname dimension of a manifest content. The first manifest of a lease (content 0 of a deployment found
// at start-up, content 1) always names hostA and hostB - these are what the manager reserves. Under scheme "move" every
// later content names hostD instead of hostA, under "drop" it names no host at all, under "same" (default) nothing changes.
func hostsOf(scheme string, content int) []string {
	if content <= 1 {
		return []string{hostA, hostB}
	}
	switch scheme {
	case "move":
		return []string{hostD, hostB}
	case "drop":
		return []string{}
	}
	return []string{hostA, hostB}
}

func mkGroupHosts(id int, hosts []string) manifest.Group {
	return manifest.Group{
		Name: groupName,
		Services: []manifest.Service{{
			Name:  "web",
			Image: fmt.Sprintf("m%d", id),
			Resources: atypes.ResourceUnits{
				CPU:     &atypes.CPU{Units: atypes.NewResourceValue(100)},
				Memory:  &atypes.Memory{Quantity: atypes.NewResourceValue(1 << 20)},
				Storage: &atypes.Storage{Quantity: atypes.NewResourceValue(1 << 20)},
			},
			Count:  1,
			Expose: []manifest.ServiceExpose{{Port: 80, ExternalPort: 80, Proto: manifest.TCP, Global: true, Hosts: hosts}},
		}},
	}
}

// ---------------------------------------------------------------------------------------------------------------
// recording + tracker

func (w *world) record(r raw) {
	w.mu.Lock()
	w.recordLocked(r)
	w.mu.Unlock()
	select {
	case w.notify <- struct{}{}:
	default:
	}
}

func (w *world) recordLocked(r raw) {
	r.Seq = len(w.raws)
	w.raws = append(w.raws, r)
	switch r.Th + ":" + r.K {
	case "H:pub_manifest", "H:pub_closed":
		w.pendingPub++
	case "H:req_shutdown":
		w.svcShutReq = true
	case "N:hn_resolve":
		w.hnReleased = true
		if w.pendingHnResolve > 0 {
			w.pendingHnResolve--
		}
	case "S:update-rejected", "S:teardown-rejected":
		w.svcRejected = true
	case "S:update-routed", "S:teardown-routed":
		if !w.svcRejected {
			w.pendingInbox++
		}
	case "S:manager-created":
		w.created++
		w.hnReleased, w.hnConsumed = false, false
	case "S:event-done":
		w.pendingPub--
		w.svcRejected = false
	case "S:shutdown":
		w.svcShutSeen = true
	case "S:manager-done", "S:manager-drained":
		w.collected++
	case "S:svc-stopped":
		w.svcDone = true
	case "D:loop":
		if !w.dmBusy {
			w.firstLoops++ // the loop head reached for the first time (racing with the service's manager-created emit)
		}
		w.dmBusy = false
	case "D:recv-update", "D:recv-teardown":
		w.pendingInbox--
		w.dmBusy = true
	case "D:recv-hostnames":
		w.hnConsumed = true
		w.dmBusy = true
	case "D:recv-shutdown":
		w.dmBusy = true
	case "D:recv-result":
		w.pendingResult--
		w.dmBusy = true
	case "D:issue":
		w.pendingStart++
		w.tdFailed = 0
	case "D:exit":
		w.exited++
		w.dmBusy = false
	case "D:stopped":
		w.stopped++
		w.pendingResult = 0
	case "C:start":
		w.pendingStart--
		w.inCall++
	case "C:end":
		w.inCall--
		if w.pendingEnd > 0 {
			w.pendingEnd--
		}
		if r.C == "Teardown" && r.R == "err" {
			w.tdFailed++
			if w.tdFailed < 50 {
				w.pendingStart++ // retry.Do: back-off, then the next attempt
				break
			}
		}
		w.pendingResult++
	}
}

func (w *world) alive() bool { return w.created > w.exited }

// stableLocked: no internal step of the implementation is outstanding (the harness' rendering of the spec's Stable).
func (w *world) stableLocked() bool {
	if !w.svcShutSeen && w.pendingPub > 0 {
		return false
	}
	if w.pendingInbox > 0 || w.created > w.firstLoops || w.dmBusy || w.pendingStart > 0 {
		return false
	}
	if w.pendingHnResolve > 0 {
		return false
	}
	if w.created > w.gateEntered { // run() submits the hostname request before its loop; the hostname service has not picked it up yet
		return false
	}
	if w.pendingResult > 0 || w.pendingEnd > 0 {
		return false
	}
	if w.exited > w.stopped && w.inCall == 0 {
		return false
	}
	if w.stopped > w.collected {
		return false
	}
	if w.svcShutReq && !w.svcShutSeen {
		return false
	}
	if w.svcShutSeen && w.alive() {
		return false
	}
	if w.svcShutSeen && !w.svcDone && w.created == w.collected {
		// (the bystander's manager releases its hostname on exit, which waits for the hostname service: held at our gate)
		if !(w.bystander && w.hnGateHeld) {
			return false
		}
	}
	if w.hnReleased && !w.hnConsumed && w.alive() {
		return false
	}
	return true
}

func (w *world) trackerString() string {
	return fmt.Sprintf("pendingPub=%d pendingInbox=%d firstLoop=%d dmBusy=%v created=%d exited=%d stopped=%d collected=%d "+
		"pendingStart=%d inCall=%d pendingResult=%d pendingEnd=%d tdFailed=%d shutReq=%v shutSeen=%v svcDone=%v hnHeld=%v hnReleased=%v hnConsumed=%v",
		w.pendingPub, w.pendingInbox, w.created-w.firstLoops, w.dmBusy, w.created, w.exited, w.stopped, w.collected,
		w.pendingStart, w.inCall, w.pendingResult, w.pendingEnd, w.tdFailed, w.svcShutReq, w.svcShutSeen, w.svcDone, w.hnGateHeld, w.hnReleased, w.hnConsumed)
}

// waitFor blocks until cond (evaluated under the lock) holds; event driven, the timeout only bounds a dead system.
func (w *world) waitFor(what string, timeout time.Duration, cond func() bool) error {
	deadline := time.NewTimer(timeout)
	defer deadline.Stop()
	tick := time.NewTicker(100 * time.Millisecond) // safety net only: every state change also notifies
	defer tick.Stop()
	for {
		w.mu.Lock()
		ok := cond()
		w.mu.Unlock()
		if ok {
			return nil
		}
		select {
		case <-w.notify:
		case <-tick.C:
		case <-deadline.C:
			w.mu.Lock()
			defer w.mu.Unlock()
			if cond() {
				return nil
			}
			return fmt.Errorf("timeout waiting for %s: %s", what, w.trackerString())
		}
	}
}

func (w *world) waitStable(timeout time.Duration) error {
	return w.waitFor("stability", timeout, w.stableLocked)
}

// ---------------------------------------------------------------------------------------------------------------
// veriftrace sink and gate (process-wide; one world at a time per process)

var (
	curMu sync.RWMutex
	cur   *world
)

func setWorld(w *world) {
	curMu.Lock()
	cur = w
	curMu.Unlock()
}

func getWorld() *world {
	curMu.RLock()
	defer curMu.RUnlock()
	return cur
}

func installHooks() {
	veriftrace.SetSink(func(ev veriftrace.Event) {
		w := getWorld()
		if w == nil {
			return
		}
		w.sink(ev)
	})
	veriftrace.SetGate(func(name string) {
		w := getWorld()
		if w == nil {
			return
		}
		w.gate(name)
	})
}

func (w *world) sink(ev veriftrace.Event) {
	switch ev.Component {
	case "cluster-manager":
		if ev.ID != w.leaseStr {
			w.mu.Lock()
			if w.bystander && ev.ID == w.byStr {
				switch ev.Event {
				case "loop":
					if st, ok := ev.KV["state"].(string); ok {
						w.byState = st
					}
				case "exit":
					w.byExited = true
				case "recv-update", "recv-teardown":
					// a request the service routed for the lease under test ended up in the bystander's manager:
					// the rendezvous is over, do not wait for our manager to take it (the verdict will show the rest)
					if w.pendingInbox > 0 {
						w.pendingInbox--
						w.misrouted++
					}
				}
			} else {
				w.foreign++
			}
			w.mu.Unlock()
			select {
			case w.notify <- struct{}{}:
			default:
			}
			return
		}
		r := raw{Th: "D", K: ev.Event}
		if s, ok := ev.KV["state"].(string); ok {
			r.State = s
		}
		if b, ok := ev.KV["runch"].(bool); ok {
			r.Runch = b
		}
		if b, ok := ev.KV["err"].(bool); ok {
			r.Err = b
		}
		if g, ok := ev.KV["mgroup"].(*manifest.Group); ok {
			r.M = manifestID(g)
		}
		switch ev.Event {
		case "issue-deploy":
			r.K, r.C = "issue", "Deploy"
		case "issue-teardown":
			r.K, r.C = "issue", "Teardown"
		}
		w.record(r)
	case "cluster-service":
		r := raw{Th: "S", K: ev.Event}
		switch ev.Event {
		case "shutdown":
		case "event-done":
			switch e := ev.KV["ev"].(type) {
			case event.ManifestReceived:
				if e.LeaseID.String() != w.leaseStr {
					return
				}
				r.R = "manifest"
				r.M = manifestID(e.ManifestGroup())
			case mtypes.EventLeaseClosed:
				if e.ID.String() != w.leaseStr {
					return
				}
				r.R = "closed"
			default:
				return // ClusterDeployment etc.: not part of the model
			}
		default:
			if ev.ID != w.leaseStr {
				w.mu.Lock()
				w.foreign++
				w.mu.Unlock()
				return
			}
			if g, ok := ev.KV["mgroup"].(*manifest.Group); ok {
				r.M = manifestID(g)
			}
		}
		w.record(r)
	}
}

// gate: called from the hostname service loop before it processes a reservation request.
func (w *world) gate(name string) {
	if name != w.gateName {
		return
	}
	w.mu.Lock()
	if w.settingUp { // the bystander's request (same deployment id): not part of the script
		w.mu.Unlock()
		return
	}
	ch := make(chan struct{})
	w.hnGate = ch
	w.hnGateHeld = true
	w.gateEntered++
	forced := w.forced
	var d time.Duration
	if !forced {
		d = w.randDelayLocked()
	}
	w.mu.Unlock()
	select {
	case w.notify <- struct{}{}:
	default:
	}
	if forced {
		<-ch
	} else {
		time.Sleep(d)
	}
	w.mu.Lock()
	if !forced {
		w.hnGateHeld = false
	}
	r := "ok"
	if w.hnWillFail {
		r = "failed"
	}
	w.recordLocked(raw{Th: "N", K: "hn_resolve", R: r})
	w.mu.Unlock()
	select {
	case w.notify <- struct{}{}:
	default:
	}
}

func (w *world) randDelayLocked() time.Duration {
	if w.rng == nil || w.plan.maxDelayUs <= 0 {
		return 0
	}
	if w.rng.Intn(3) == 0 {
		return 0
	}
	return time.Duration(w.rng.Intn(w.plan.maxDelayUs)) * time.Microsecond
}

// ---------------------------------------------------------------------------------------------------------------
// scripted cluster.Client

type sclient struct {
	w        *world
	existing []ctypes.Deployment
}

type sdeployment struct {
	lid   mtypes.LeaseID
	group manifest.Group
}

func (d sdeployment) LeaseID() mtypes.LeaseID        { return d.lid }
func (d sdeployment) ManifestGroup() manifest.Group { return d.group }

func (c *sclient) call(kind string, m int) error {
	w := c.w
	bc := &blockedCall{kind: kind, release: make(chan string, 1)}
	w.mu.Lock()
	w.recordLocked(raw{Th: "C", K: "start", C: kind, M: m})
	forced := w.forced
	var d time.Duration
	res := "ok"
	if forced {
		w.calls = append(w.calls, bc)
	} else {
		d = w.randDelayLocked()
		p := w.plan.deployErrP
		if kind == "Teardown" {
			p = w.plan.tdErrP
		}
		if w.rng.Float64() < p {
			res = "err"
		}
	}
	w.mu.Unlock()
	select {
	case w.notify <- struct{}{}:
	default:
	}
	if forced {
		res = <-bc.release
	} else if d > 0 {
		time.Sleep(d)
	}
	w.record(raw{Th: "C", K: "end", C: kind, R: res})
	if res == "err" {
		return errScripted
	}
	return nil
}

func (c *sclient) Deploy(_ context.Context, lid mtypes.LeaseID, g *manifest.Group) error {
	if c.w.bystander && lid.Equals(c.w.byLease) {
		c.w.mu.Lock()
		c.w.byDeploys++
		c.w.mu.Unlock()
		return nil
	}
	if !lid.Equals(c.w.lease) { // not this lease's operation: never counts as its deploy
		c.w.record(raw{Th: "X", K: "foreign_call", C: "Deploy", R: lid.String()})
		return nil
	}
	return c.call("Deploy", manifestID(g))
}

func (c *sclient) TeardownLease(_ context.Context, lid mtypes.LeaseID) error {
	if c.w.bystander && lid.Equals(c.w.byLease) {
		c.w.mu.Lock()
		c.w.byTeardowns++
		c.w.mu.Unlock()
		return nil
	}
	if !lid.Equals(c.w.lease) { // tearing down some other lease is not the teardown C14 asks for
		c.w.record(raw{Th: "X", K: "foreign_call", C: "Teardown", R: lid.String()})
		return nil
	}
	return c.call("Teardown", 0)
}

func (c *sclient) Deployments(context.Context) ([]ctypes.Deployment, error) { return c.existing, nil }

func (c *sclient) Inventory(context.Context) ([]ctypes.Node, error) {
	big := atypes.ResourceUnits{
		CPU:     &atypes.CPU{Units: atypes.NewResourceValue(1000000)},
		Memory:  &atypes.Memory{Quantity: atypes.NewResourceValue(1 << 40)},
		Storage: &atypes.Storage{Quantity: atypes.NewResourceValue(1 << 40)},
	}
	return []ctypes.Node{cluster.NewNode("n1", big, big)}, nil
}

func (c *sclient) LeaseStatus(context.Context, mtypes.LeaseID) (*ctypes.LeaseStatus, error) {
	return &ctypes.LeaseStatus{Services: map[string]*ctypes.ServiceStatus{"web": {Name: "web", Available: 1, Total: 1}}}, nil
}

func (c *sclient) LeaseEvents(context.Context, mtypes.LeaseID, string, bool) (ctypes.EventsWatcher, error) {
	return nil, errScripted
}

func (c *sclient) LeaseLogs(context.Context, mtypes.LeaseID, string, bool, *int64) ([]*ctypes.ServiceLog, error) {
	return nil, errScripted
}

func (c *sclient) ServiceStatus(context.Context, mtypes.LeaseID, string) (*ctypes.ServiceStatus, error) {
	return nil, errScripted
}

func (c *sclient) Exec(context.Context, mtypes.LeaseID, string, uint, []string, io.Reader, io.Writer, io.Writer, bool,
	remotecommand.TerminalSizeQueue) (ctypes.ExecResult, error) {
	return nil, errScripted
}

// ---------------------------------------------------------------------------------------------------------------
// scripted chain client (only what cluster.NewService and the withdrawal / monitor helpers touch)

type squery struct {
	aclient.QueryClient
	leases []mtypes.QueryLeaseResponse
}

func (q squery) ActiveLeasesForProvider(sdk.AccAddress) ([]mtypes.QueryLeaseResponse, error) {
	return q.leases, nil
}

type stx struct{}

func (stx) Broadcast(context.Context, ...sdk.Msg) error { return nil }

type schain struct {
	q squery
}

func (c schain) Query() aclient.QueryClient { return c.q }
func (c schain) Tx() broadcaster.Client     { return stx{} }

// ---------------------------------------------------------------------------------------------------------------
// construction

type worldOpts struct {
	forced      bool
	hnFail      bool
	preexisting bool
	bystander   bool
	hosts       string
	seed        int64
	plan        freePlan
	dseq        uint64
}

func addr(b byte) sdk.AccAddress {
	a := make([]byte, 20)
	for i := range a {
		a[i] = b
	}
	return sdk.AccAddress(a)
}

func newWorld(o worldOpts) (*world, error) {
	owner, provider := addr(1), addr(2)
	if o.dseq == 0 {
		o.dseq = 7
	}
	lid := mtypes.LeaseID{Owner: owner.String(), DSeq: o.dseq, GSeq: 1, OSeq: 1, Provider: provider.String()}
	w := &world{
		notify:     make(chan struct{}, 1),
		forced:     o.forced,
		hosts:      o.hosts,
		rng:        rand.New(rand.NewSource(o.seed)),
		plan:       o.plan,
		lease:      lid,
		leaseStr:   lid.String(),
		gateName:   "cluster-hostnames/" + lid.DeploymentID().String(),
		otherDID:   dtypes.DeploymentID{Owner: addr(3).String(), DSeq: 99},
		hnWillFail: o.hnFail,
	}
	w.ctx, w.cancel = context.WithCancel(context.Background())
	setWorld(w)

	bus := pubsub.NewBus()
	w.bus = bus
	sc := &sclient{w: w}
	chain := schain{}
	if o.preexisting {
		sc.existing = []ctypes.Deployment{sdeployment{lid: lid, group: mkGroup(0)}}
		chain.q.leases = []mtypes.QueryLeaseResponse{{Lease: mtypes.Lease{LeaseID: lid, State: mtypes.LeaseActive}}}
		w.created = 1
	}
	sess := session.New(log.NewNopLogger(), chain, &ptypes.Provider{Owner: provider.String()})
	cfg := cluster.NewDefaultConfig()
	cfg.InventoryResourcePollPeriod = time.Hour
	cfg.InventoryExternalPortQuantity = 1000
	if o.hnFail {
		cfg.BlockedHostnames = []string{hostB}
	}
	svc, err := cluster.NewService(w.ctx, sess, bus, sc, cfg)
	if err != nil {
		return nil, err
	}
	w.svc = svc
	go func() {
		<-svc.Done()
		w.record(raw{Th: "S", K: "svc-stopped"})
	}()
	select {
	case <-svc.Ready():
	case <-time.After(20 * time.Second):
		return nil, errors.New("cluster service never became ready")
	}
	if !o.preexisting {
		// what the bid engine does before a lease can exist: reserve the order's resources
		g := mkGroup(1)
		gs := dtypes.GroupSpec{Name: groupName}
		for _, r := range g.GetResources() {
			gs.Resources = append(gs.Resources, dtypes.Resource{Resources: r.Resources, Count: r.Count})
		}
		if _, err := svc.Reserve(lid.OrderID(), gs); err != nil {
			return nil, fmt.Errorf("reserve: %w", err)
		}
	}
	if err := w.waitStable(20 * time.Second); err != nil {
		return nil, err
	}
	if o.bystander {
		if err := w.setupBystander(); err != nil {
			return w, err
		}
	}
	return w, nil
}

func (w *world) setupBystander() error {
	by := w.lease
	by.GSeq = 2
	w.mu.Lock()
	w.bystander, w.settingUp = true, true
	w.byLease, w.byStr = by, by.String()
	w.mu.Unlock()
	g := mkGroupHosts(900, []string{hostC})
	gs := dtypes.GroupSpec{Name: groupName}
	for _, r := range g.GetResources() {
		gs.Resources = append(gs.Resources, dtypes.Resource{Resources: r.Resources, Count: r.Count})
	}
	if _, err := w.svc.Reserve(by.OrderID(), gs); err != nil {
		return fmt.Errorf("bystander reserve: %w", err)
	}
	m := manifest.Manifest{g}
	if err := w.bus.Publish(event.ManifestReceived{LeaseID: by, Manifest: &m,
		Group: &dtypes.Group{GroupID: by.GroupID(), GroupSpec: dtypes.GroupSpec{Name: groupName}}}); err != nil {
		return err
	}
	if err := w.waitFor("bystander deployed", 20*time.Second, func() bool { return w.byState == "deploy-complete" }); err != nil {
		return err
	}
	w.mu.Lock()
	w.settingUp = false
	w.mu.Unlock()
	return nil
}

func (w *world) close() {
	// release everything so no goroutine of this world stays blocked, then stop it
	w.mu.Lock()
	w.forced = false
	if w.hnGateHeld && w.hnGate != nil {
		close(w.hnGate)
		w.hnGate = nil
	}
	for _, c := range w.calls {
		c.release <- "ok"
	}
	w.calls = nil
	w.mu.Unlock()
	done := make(chan struct{})
	go func() {
		_ = w.svc.Close()
		close(done)
	}()
	select {
	case <-done:
	case <-time.After(3 * time.Minute):
		// the system under test does not stop: later worlds in this process could not be trusted
		fmt.Fprintln(os.Stderr, "deployh: cluster service did not shut down:", w.trackerString())
		os.Exit(2)
	}
	w.mu.Lock()
	if w.created != w.collected || w.exited != w.stopped {
		fmt.Fprintln(os.Stderr, "deployh: manager outlived the service:", w.trackerString())
	}
	w.mu.Unlock()
	w.cancel()
	// The bus is deliberately left open (its idle goroutine is garbage of this short-lived process): the withdrawal
	// helper of the real code dereferences a nil subscriber when Subscribe fails on a closed bus
	// (lease_withdraw.go:62-69), which would kill the whole replay process.
	setWorld(nil)
}

// ---------------------------------------------------------------------------------------------------------------
// stimuli

func (w *world) pubManifest(id int) error {
	g := mkGroupHosts(id, hostsOf(w.hosts, id))
	m := manifest.Manifest{g}
	ev := event.ManifestReceived{
		LeaseID:  w.lease,
		Manifest: &m,
		Group:    &dtypes.Group{GroupID: w.lease.GroupID(), GroupSpec: dtypes.GroupSpec{Name: groupName}},
	}
	// concurrent publishers (free mode): the recorded order must be the order in which the bus accepted the events
	w.pubMu.Lock()
	defer w.pubMu.Unlock()
	w.record(raw{Th: "H", K: "pub_manifest", M: id})
	return w.bus.Publish(ev)
}

func (w *world) pubClosed() error {
	w.pubMu.Lock()
	defer w.pubMu.Unlock()
	w.record(raw{Th: "H", K: "pub_closed"})
	return w.bus.Publish(mtypes.EventLeaseClosed{ID: w.lease})
}

func (w *world) reqShutdown() {
	w.record(raw{Th: "H", K: "req_shutdown"})
	go func() { _ = w.svc.Close() }()
}

func (w *world) releaseHostnames() bool {
	w.mu.Lock()
	defer w.mu.Unlock()
	if !w.hnGateHeld || w.hnGate == nil {
		return false
	}
	close(w.hnGate)
	w.hnGate = nil
	w.hnGateHeld = false
	// the hostname service goroutine records hn_resolve itself; until then the system is not stable
	w.pendingHnResolve++
	return true
}

func (w *world) releaseCall(kind, res string) bool {
	w.mu.Lock()
	defer w.mu.Unlock()
	for i, c := range w.calls {
		if c.kind == kind {
			w.calls = append(w.calls[:i], w.calls[i+1:]...)
			// the op goroutine records the end mark; until then not stable
			w.pendingEnd++
			c.release <- res
			return true
		}
	}
	return false
}

// observe: release observations through the public API (non mutating).
func (w *world) observe() (resvHeld, hnHeld, ok bool) {
	w.mu.Lock()
	shut := w.svcShutReq
	gateHeld := w.hnGateHeld
	w.mu.Unlock()
	if gateHeld {
		return false, false, false
	}
	hch := make(chan error, 1)
	go func() { hch <- <-w.svc.HostnameService().CanReserveHostnames([]string{hostA}, w.otherDID) }()
	select {
	case err := <-hch:
		hnHeld = err != nil && !strings.Contains(err.Error(), "not running")
	case <-time.After(10 * time.Second):
		return false, false, false
	}
	if shut {
		return false, hnHeld, true
	}
	ctx, cancel := context.WithTimeout(context.Background(), 10*time.Second)
	defer cancel()
	st, err := w.svc.Status(ctx)
	if err != nil {
		return false, hnHeld, false
	}
	n := len(st.Inventory.Active) + len(st.Inventory.Pending)
	w.mu.Lock()
	if w.bystander {
		w.byResvOK = n >= 1
		n--
	}
	w.mu.Unlock()
	resvHeld = n > 0
	return resvHeld, hnHeld, true
}

// bystanderStatus: "-" no bystander, "ok" untouched, otherwise what happened to it.
func (w *world) bystanderStatus() string {
	w.mu.Lock()
	by, shut := w.bystander, w.svcShutReq
	td, ex, st, rok, mis := w.byTeardowns, w.byExited, w.byState, w.byResvOK, w.misrouted
	w.mu.Unlock()
	if !by {
		return "-"
	}
	if shut {
		return "ok" // provider shutdown stops every manager
	}
	hch := make(chan error, 1)
	go func() { hch <- <-w.svc.HostnameService().CanReserveHostnames([]string{hostC}, w.otherDID) }()
	held := false
	select {
	case err := <-hch:
		held = err != nil
	case <-time.After(10 * time.Second):
	}
	switch {
	case mis > 0:
		return "disturbed: took a request routed for the lease under test"
	case td > 0:
		return "disturbed: torn down"
	case ex:
		return "disturbed: manager exited"
	case st != "deploy-complete":
		return "disturbed: state " + st
	case !rok:
		return "disturbed: reservation gone"
	case !held:
		return "disturbed: hostname released"
	}
	return "ok"
}

// observeStable records the release observations at a stable point (nothing left to do for the last stimulus) unless the
// hostname service is held at the gate; Q marks the quiescent ones (nothing in flight, no gate closed), where the
// obligations "at quiescence" are judged.
func (w *world) observeStable() {
	w.mu.Lock()
	held := w.hnGateHeld
	q := w.stableLocked() && w.inCall == 0 && !w.hnGateHeld && len(w.calls) == 0
	w.mu.Unlock()
	if held {
		return
	}
	w.observeRecord(q)
}

func (w *world) observeFinal() {
	w.mu.Lock()
	dup := len(w.raws) > 0 && w.raws[len(w.raws)-1].K == "obs" && w.raws[len(w.raws)-1].C == "q"
	w.mu.Unlock()
	if dup {
		return // nothing happened since the last quiescent observation
	}
	w.observeRecord(true)
}

func (w *world) observeRecord(q bool) {
	resv, hn, ok := w.observe()
	w.mu.Lock()
	shut := w.svcShutReq
	w.mu.Unlock()
	r := raw{Th: "H", K: "obs", Runch: resv, Err: hn, R: "ok", State: "resv-known", By: w.bystanderStatus()}
	if shut {
		r.State = "resv-unknown" // Status() is refused once the service shuts down
	}
	if q {
		r.C = "q"
	}
	if !ok {
		r.R = "unavailable"
	}
	w.record(r)
}
