package deployh

import (
	"encoding/json"
	"flag"
	"fmt"
	"math/rand"
	"os"
	"strings"
	"sync"
	"time"

	"verif/harness/vcommon"
)

const stepTimeout = 30 * time.Second

// a free run settles in milliseconds, except for teardown back-off (100 ms .. 3 s per failed attempt, tdErrP <= 0.3)
const freeTimeout = 60 * time.Second

type scriptIn struct {
	ID   int      `json:"id"`
	Stim []string `json:"stim"`
	Pre  bool     `json:"pre"`
	// Burst: the script contains groups "x+y" applied back to back (several select cases ready at once). The
	// implementation may then legitimately end up where a later stimulus no longer applies: the script just ends there.
	Burst bool `json:"burst"`
	// By: a bystander lease of the same deployment is deployed before the script starts
	By bool `json:"by"`
	// Hosts: hostname dimension of the manifest contents: "" / "same" | "move" | "drop" (see hostsOf)
	Hosts string `json:"hosts"`
}

type scriptResult struct {
	recs   []rec
	raws   []raw
	status string // ok | stuck: ... | setup: ...
	forced int
}

func contains(xs []string, x string) bool {
	for _, y := range xs {
		if x == y {
			return true
		}
	}
	return false
}

// runScript replays one stimulus script under the forced schedule: the next stimulus is applied only when the
// implementation has nothing left to do for the previous one (every wait is on a hook event).
func runScript(sc scriptIn) scriptResult {
	w, err := newWorld(worldOpts{forced: true, hnFail: strings.Contains(strings.Join(sc.Stim, " "), "hfail"), preexisting: sc.Pre, bystander: sc.By, hosts: sc.Hosts, dseq: uint64(1000 + sc.ID)})
	if err != nil {
		if w != nil {
			w.close()
		}
		return scriptResult{status: "setup: " + err.Error()}
	}
	defer w.close()
	status := "ok"
	nman := 0
	inapplicable := ""
	// act performs one stimulus without waiting for its consequences; applicable=false: the gate it wants to open is
	// not closed (yet)
	act := func(st string) (applicable bool) {
		if len(st) >= 1 && st[0] == 'm' { // "m<k>": a manifest whose content is k; "m": a content not used before
			nman++
			content := nman
			if len(st) > 1 {
				if _, err := fmt.Sscanf(st[1:], "%d", &content); err != nil {
					return false
				}
			}
			if err := w.pubManifest(content); err != nil {
				status = "stuck: publish: " + err.Error()
			}
			return true
		}
		switch st {
		case "c":
			if err := w.pubClosed(); err != nil {
				status = "stuck: publish: " + err.Error()
			}
		case "s":
			w.reqShutdown()
		case "hok", "hfail":
			return w.releaseHostnames()
		case "dok", "derr":
			return w.releaseCall("Deploy", map[string]string{"dok": "ok", "derr": "err"}[st])
		case "tok", "terr":
			return w.releaseCall("Teardown", map[string]string{"tok": "ok", "terr": "err"}[st])
		default:
			return false
		}
		return true
	}
	settle := func(st string) bool {
		if status != "ok" {
			return false
		}
		if err := w.waitStable(stepTimeout); err != nil {
			status = "stuck: after " + st + ": " + err.Error()
			return false
		}
		w.observeStable()
		return true
	}
	// apply: one stimulus, or a burst "x+y+..": the members are applied back to back so that several select cases are
	// ready at the same time and the real select picks; a member whose gate is not closed yet waits for stability first.
	apply := func(st string) bool {
		members := strings.Split(st, "+")
		for k, m := range members {
			if !act(m) {
				if k == 0 || !settle(m) || !act(m) {
					inapplicable = m
					return false
				}
			}
			if status != "ok" {
				return false
			}
		}
		return settle(st)
	}
	for _, st := range sc.Stim {
		if !apply(st) {
			break
		}
	}
	// completion: open every gate (results ok) until nothing is blocked, so that the final state is quiescent
	if status == "ok" {
		for i := 0; i < 200; i++ {
			w.mu.Lock()
			hn := w.hnGateHeld
			var kind string
			if len(w.calls) > 0 {
				kind = w.calls[0].kind
			}
			w.mu.Unlock()
			if hn {
				if !apply(map[bool]string{false: "hok", true: "hfail"}[w.hnWillFail]) {
					break
				}
			} else if kind != "" {
				if !apply(map[string]string{"Deploy": "dok", "Teardown": "tok"}[kind]) {
					break
				}
			} else {
				break
			}
		}
	}
	if status == "ok" {
		w.observeFinal()
	}
	w.mu.Lock()
	raws := append([]raw(nil), w.raws...)
	w.mu.Unlock()
	recs, forcedN := canonical(raws, sc.Pre)
	head := blank("reset", "H", -1)
	head.ID, head.Pre, head.Script = sc.ID, sc.Pre, strings.Join(sc.Stim, " ")
	out := []rec{head}
	out = append(out, recs...)
	if inapplicable != "" && !sc.Burst {
		r := blank("inapplicable", "H", 0)
		r.R = inapplicable
		out = append(out, r)
	}
	end := blank("end", "H", 0)
	if status != "ok" {
		end.E = "stuck"
		end.Script = status
	}
	out = append(out, end)
	return scriptResult{recs: out, raws: raws, status: status, forced: forcedN}
}

// runFree lets the real service, manager, bus, hostname service and scripted client run without gates: stimuli come
// from concurrent goroutines with random pauses, client calls take random time and fail at random.
func runFree(id int, seed int64) scriptResult {
	rng := rand.New(rand.NewSource(seed))
	o := worldOpts{
		forced:      false,
		dseq:        uint64(1000 + id),
		hosts:       []string{"same", "move", "drop"}[rng.Intn(3)],
		seed:        seed ^ 0x5eed,
		hnFail:      rng.Intn(8) == 0,
		preexisting: rng.Intn(5) == 0,
		plan: freePlan{
			deployErrP: []float64{0, 0, 0.25, 0.5}[rng.Intn(4)],
			tdErrP:     []float64{0, 0, 0, 0.3}[rng.Intn(4)],
			maxDelayUs: []int{0, 50, 300, 2000}[rng.Intn(4)],
		},
	}
	w, err := newWorld(o)
	if err != nil {
		if w != nil {
			w.close()
		}
		return scriptResult{status: "setup: " + err.Error()}
	}
	defer w.close()
	// programme: manifests in id order from one goroutine, close / shutdown from another
	nm := 1 + rng.Intn(4)
	closeAt := -1
	if rng.Intn(4) != 0 {
		closeAt = rng.Intn(nm + 2)
	}
	shutAt := -1
	if rng.Intn(6) == 0 {
		shutAt = rng.Intn(nm + 2)
	}
	pause := func(r *rand.Rand) {
		switch r.Intn(4) {
		case 0:
		case 1:
			time.Sleep(time.Duration(r.Intn(100)) * time.Microsecond)
		case 2:
			time.Sleep(time.Duration(r.Intn(1500)) * time.Microsecond)
		case 3:
			time.Sleep(time.Duration(r.Intn(6000)) * time.Microsecond)
		}
	}
	// manifests are values: a later one may equal an earlier one (A-B-A, A-A, ...)
	contents := make([]int, nm)
	for i := range contents {
		contents[i] = 1 + rng.Intn(3)
	}
	contents[0] = 1 // the lease's first manifest (the one whose hostnames are reserved) is content 1, see hostsOf
	var descr []string
	descr = append(descr, fmt.Sprintf("free hosts=%s contents=%v seed=%d nm=%d closeAt=%d shutAt=%d hnFail=%v pre=%v derr=%.2f terr=%.2f delay=%dus",
		o.hosts, contents, seed, nm, closeAt, shutAt, o.hnFail, o.preexisting, o.plan.deployErrP, o.plan.tdErrP, o.plan.maxDelayUs))
	var wg sync.WaitGroup
	tick := make([]chan struct{}, nm+2)
	for i := range tick {
		tick[i] = make(chan struct{})
	}
	r1 := rand.New(rand.NewSource(seed + 1))
	r2 := rand.New(rand.NewSource(seed + 2))
	wg.Add(2)
	go func() {
		defer wg.Done()
		for i := 0; i < nm+2; i++ {
			close(tick[i])
			if i < nm {
				pause(r1)
				_ = w.pubManifest(contents[i])
			}
		}
	}()
	go func() {
		defer wg.Done()
		for i := 0; i < nm+2; i++ {
			<-tick[i]
			if i == closeAt {
				pause(r2)
				_ = w.pubClosed()
			}
			if i == shutAt {
				pause(r2)
				w.reqShutdown()
			}
		}
	}()
	wg.Wait()
	status := "ok"
	if err := w.waitFor("quiescence", freeTimeout, func() bool {
		return w.stableLocked() && w.inCall == 0 && !w.hnGateHeld
	}); err != nil {
		status = "stuck: " + err.Error()
	}
	if status == "ok" {
		w.observeFinal()
	}
	w.mu.Lock()
	raws := append([]raw(nil), w.raws...)
	w.mu.Unlock()
	recs, forcedN := canonical(raws, o.preexisting)
	head := blank("reset", "H", -1)
	head.ID, head.Pre, head.Script = id, o.preexisting, strings.Join(descr, " ")
	out := []rec{head}
	out = append(out, recs...)
	end := blank("end", "H", 0)
	if status != "ok" {
		end.E = "stuck"
		end.Script = status
	}
	out = append(out, end)
	return scriptResult{recs: out, raws: raws, status: status, forced: forcedN}
}

// Main: vh deploy replay -in scripts.ndjson -out trace.ndjson [-raw raw.ndjson]
//
//	vh deploy free -seed S -runs N -out trace.ndjson [-raw raw.ndjson]
func Main(args []string) int {
	if len(args) < 1 {
		fmt.Fprintln(os.Stderr, "usage: vh deploy replay|free ...")
		return 2
	}
	fs := flag.NewFlagSet("deploy", flag.ContinueOnError)
	in := fs.String("in", "", "scripts ndjson ({id, stim, pre})")
	outp := fs.String("out", "trace.ndjson", "canonical trace ndjson")
	rawp := fs.String("raw", "", "also dump raw observations")
	seed := fs.Int64("seed", 1, "seed (free)")
	runs := fs.Int("runs", 100, "runs (free)")
	verbose := fs.Bool("v", false, "print each script id to stderr before running it")
	if err := fs.Parse(args[1:]); err != nil {
		return 2
	}
	installHooks()
	outw, err := vcommon.NewWriter(*outp)
	if err != nil {
		fmt.Fprintln(os.Stderr, err)
		return 2
	}
	defer outw.Close()
	var raww *vcommon.Writer
	if *rawp != "" {
		if raww, err = vcommon.NewWriter(*rawp); err != nil {
			fmt.Fprintln(os.Stderr, err)
			return 2
		}
		defer raww.Close()
	}
	summary := struct {
		Scripts int `json:"scripts"`
		Steps   int `json:"steps"`
		Stuck   int `json:"stuck"`
		Forced  int `json:"forced_order"`
	}{}
	emit := func(id int, res scriptResult) {
		summary.Scripts++
		summary.Forced += res.forced
		if res.status != "ok" {
			summary.Stuck++
			fmt.Fprintf(os.Stderr, "script %d: %s\n", id, res.status)
		}
		if len(res.recs) == 0 {
			head := blank("reset", "H", -1)
			head.ID = id
			end := blank("stuck", "H", 0)
			end.Script = res.status
			res.recs = []rec{head, end}
		}
		for _, r := range res.recs {
			summary.Steps++
			_ = outw.Write(r)
		}
		if raww != nil {
			_ = raww.Write(map[string]interface{}{"reset": id})
			for _, r := range res.raws {
				_ = raww.Write(r)
			}
		}
	}
	switch args[0] {
	case "replay":
		var scripts []scriptIn
		err := vcommon.ReadLines(*in, func(b json.RawMessage) error {
			var s scriptIn
			if err := json.Unmarshal(b, &s); err != nil {
				return err
			}
			scripts = append(scripts, s)
			return nil
		})
		if err != nil {
			fmt.Fprintln(os.Stderr, err)
			return 2
		}
		stuckN := 0
		for _, sc := range scripts {
			if stuckN >= 3 {
				// the implementation keeps failing to settle (30 s each): do not burn the budget, report the rest as skipped
				head := blank("reset", "H", -1)
				head.ID, head.Pre, head.Script = sc.ID, sc.Pre, strings.Join(sc.Stim, " ")
				emit(sc.ID, scriptResult{recs: []rec{head, blank("skipped", "H", 0)}, status: "ok"})
				continue
			}
			if *verbose {
				fmt.Fprintln(os.Stderr, "script", sc.ID, sc.Pre, strings.Join(sc.Stim, " "))
			}
			res := runScript(sc)
			if res.status != "ok" {
				stuckN++
			}
			emit(sc.ID, res)
		}
	case "free":
		stuckN := 0
		for i := 0; i < *runs; i++ {
			if stuckN >= 3 {
				head := blank("reset", "H", -1)
				head.ID, head.Script = i, "free (skipped)"
				emit(i, scriptResult{recs: []rec{head, blank("skipped", "H", 0)}, status: "ok"})
				continue
			}
			if *verbose {
				fmt.Fprintln(os.Stderr, "free run", i)
			}
			res := runFree(i, *seed*1000003+int64(i))
			if res.status != "ok" {
				stuckN++
			}
			emit(i, res)
		}
	default:
		fmt.Fprintln(os.Stderr, "unknown sub-command", args[0])
		return 2
	}
	b, _ := json.Marshal(summary)
	fmt.Println(string(b))
	return 0
}
