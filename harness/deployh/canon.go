package deployh

import "sort"

// rec is one specification-level step as DeployManagerTrace.tla reads it (uniform shape: every field always present).
type rec struct {
	E      string `json:"e"`      // event, see fold()
	Case   string `json:"case"`   // mgr: hostnames | shutdown | update | result | teardown
	M      int    `json:"m"`      // manifest id (pub, route, update, op_begin Deploy, mgr post-state mgroup)
	R      string `json:"r"`      // result: ok | err | failed | - ; for mgr(hostnames/result): ok | err
	C      string `json:"c"`      // Deploy | Teardown | -
	T      string `json:"t"`      // svc_route: manifest | closed
	Out    string `json:"out"`    // svc_route outcome
	State  string `json:"state"`  // mgr / mgr_start: deploymentState after the iteration
	Runch  bool   `json:"runch"`  // mgr: runch != nil after the iteration
	Exit   bool   `json:"exit"`   // mgr: the iteration left the loop
	Issued string `json:"issued"` // mgr: Deploy | Teardown | - (startDeploy / startTeardown called in this iteration)
	IM     int    `json:"im"`     // mgr: manifest of the issued deploy
	UM     int    `json:"um"`     // mgr(update): manifest received on updatech
	Resv   bool   `json:"resv"`   // obs: the inventory still holds a reservation
	Hn     bool   `json:"hn"`     // obs: the hostname service still holds the lease's hostnames
	Obs    bool   `json:"obs"`    // obs: observations were possible
	Q      bool   `json:"q"`      // obs: the implementation is quiescent (nothing in flight, no gate closed)
	RK     bool   `json:"rk"`     // obs: resv is meaningful (the service answers Status)
	By     string `json:"by"`     // obs: bystander lease: - | ok | disturbed: ...
	ID     int    `json:"id"`     // reset: script number
	Pre    bool   `json:"pre"`    // reset: deployment pre-existing at service start
	Script string `json:"script"` // reset: the stimuli, space separated (information only)

	th string
	ts int
}

func blank(e, th string, ts int) rec {
	return rec{E: e, Case: "-", R: "-", C: "-", T: "-", Out: "-", State: "-", Issued: "-", By: "-", th: th, ts: ts}
}

// fold turns raw observations into per-thread sequences of specification steps.
//
//	H: pub_manifest(m) pub_closed req_shutdown
//	N: hn_resolve(r)
//	S: svc_route(t, m, out) svc_shutdown svc_collect svc_drain svc_stopped
//	D: mgr_start(state, m) mgr(case, r, state, runch, m, exit, issued, im) mgr_stopped
//	C: op_begin(c, m) op_return(c, r)
func fold(raws []raw) map[string][]rec {
	out := map[string][]rec{}
	add := func(r rec) { out[r.th] = append(out[r.th], r) }

	var open *rec // manager iteration in progress
	// service: emits since the previous event-done
	svcOut, svcTs, svcM := "", -1, 0
	for _, x := range raws {
		switch x.Th {
		case "H":
			r := blank(x.K, "H", x.Seq)
			r.M = x.M
			if x.K == "obs" {
				r.Resv, r.Hn, r.Obs = x.Runch, x.Err, x.R == "ok"
				r.Q, r.RK = x.C == "q", x.State == "resv-known"
				r.By = x.By
			}
			add(r)
		case "X":
			r := blank("foreign_call", "X", x.Seq)
			r.C = x.C
			add(r)
		case "N":
			r := blank("hn_resolve", "N", x.Seq)
			r.R = x.R
			add(r)
		case "C":
			if x.K == "start" {
				r := blank("op_begin", "C", x.Seq)
				r.C, r.M = x.C, x.M
				add(r)
			} else {
				r := blank("op_return", "C", x.Seq)
				r.C, r.R = x.C, x.R
				add(r)
			}
		case "S":
			switch x.K {
			case "shutdown":
				add(blank("svc_shutdown", "S", x.Seq))
			case "manager-done":
				add(blank("svc_collect", "S", x.Seq))
			case "manager-drained":
				add(blank("svc_drain", "S", x.Seq))
			case "svc-stopped":
				add(blank("svc_stopped", "S", x.Seq))
			case "event-done":
				r := blank("svc_route", "S", x.Seq)
				if svcTs >= 0 {
					r.ts = svcTs
				}
				r.T, r.M = x.R, x.M
				r.Out = svcOut
				if r.Out == "" {
					r.Out = "ignored"
				}
				if svcOut != "" && x.R == "manifest" && svcM != 0 {
					r.M = svcM
				}
				add(r)
				svcOut, svcTs, svcM = "", -1, 0
			default:
				if svcTs < 0 {
					svcTs = x.Seq
				}
				switch x.K {
				case "manifest-dropped":
					svcOut = "dropped"
				case "update-rejected", "teardown-rejected":
					svcOut = "rejected"
				case "update-routed":
					if svcOut != "rejected" {
						svcOut = "update"
					}
					svcM = x.M
				case "manager-created":
					svcOut = "created"
					svcM = x.M
				case "teardown-routed":
					if svcOut != "rejected" {
						svcOut = "routed"
					}
				case "teardown-unmanaged":
					svcOut = "unmanaged"
				}
			}
		case "D":
			switch x.K {
			case "loop":
				if open == nil {
					r := blank("mgr_start", "D", x.Seq)
					r.State, r.Runch, r.M = x.State, x.Runch, x.M
					add(r)
				} else {
					open.State, open.Runch, open.M = x.State, x.Runch, x.M
					add(*open)
					open = nil
				}
			case "exit":
				if open == nil {
					o := blank("mgr", "D", x.Seq)
					open = &o
				}
				open.State, open.Runch, open.Exit = x.State, x.Runch, true
				add(*open)
				open = nil
			case "issue":
				if open == nil {
					o := blank("mgr", "D", x.Seq)
					open = &o
				}
				open.Issued, open.IM = x.C, x.M
			case "stopped":
				add(blank("mgr_stopped", "D", x.Seq))
			default: // recv-*
				if open != nil { // an iteration that never reached the loop head again: keep what we have
					add(*open)
				}
				o := blank("mgr", "D", x.Seq)
				o.Case = x.K[len("recv-"):]
				switch o.Case {
				case "hostnames", "result":
					o.R = "ok"
					if x.Err {
						o.R = "err"
					}
				case "update":
					o.UM = x.M
				}
				open = &o
			}
		}
	}
	if open != nil {
		add(*open)
	}
	return out
}

// linearize merges the per-thread sequences into one sequence that respects program order and the causal relations the
// implementation guarantees (a hook is emitted AFTER the step it reports, so racing emits can appear in either order in
// the sink; the causal predecessor is always placed first). Among the placeable heads the earliest observed goes first.
// The second result counts heads that had to be forced (missing predecessor): 0 on a well-formed observation.
func linearize(th map[string][]rec, preexisting bool) ([]rec, int) {
	order := []string{"H", "S", "D", "C", "N", "X"}
	idx := map[string]int{}
	var out []rec
	forcedN := 0

	var pubs, routes, routedUpd, routedTd, created, hnRes int
	var mgrUpd, mgrTd, mgrStart, mgrHn, mgrRes int
	var slots, begins, results, tdFailed int
	var stopped, collected int
	var svcShut, reqShut, lastExitRunch bool
	// manifests are values: the op goroutine can only have read the content the deploy was issued with or one handed to
	// the manager (created with / update routed) since that issue
	issuedIM := -1
	given := map[int]bool{}
	if preexisting {
		created = 1
	}

	ready := func(r rec) bool {
		switch r.E {
		case "svc_route":
			return pubs >= routes+1
		case "svc_shutdown":
			return reqShut
		case "svc_collect", "svc_drain":
			return stopped >= collected+1
		case "svc_stopped":
			return svcShut
		case "mgr_start":
			return created >= mgrStart+1
		case "hn_resolve": // run() submits the request; the service's manager-created emit races with it
			return created >= hnRes+1
		case "mgr":
			switch r.Case {
			case "update":
				return routedUpd >= mgrUpd+1
			case "teardown":
				return routedTd >= mgrTd+1
			case "hostnames":
				return hnRes >= mgrHn+1
			case "shutdown":
				return svcShut
			case "result":
				return results >= mgrRes+1
			}
			return true
		case "mgr_stopped":
			if lastExitRunch {
				return results >= mgrRes+1
			}
			return true
		case "op_begin":
			// data dependency: the op goroutine can only have read a manifest the manager had been given
			return slots >= begins+1 && (r.C != "Deploy" || r.M == issuedIM || given[r.M])
		}
		return true
	}
	place := func(r rec) {
		switch r.E {
		case "pub_manifest", "pub_closed":
			pubs++
		case "req_shutdown":
			reqShut = true
		case "hn_resolve":
			hnRes++
		case "svc_route":
			routes++
			switch r.Out {
			case "update":
				routedUpd++
				given[r.M] = true
			case "routed":
				routedTd++
			case "created":
				created++
				given[r.M] = true
			}
		case "svc_shutdown":
			svcShut = true
		case "svc_collect", "svc_drain":
			collected++
		case "mgr_start":
			mgrStart++
		case "mgr":
			switch r.Case {
			case "update":
				mgrUpd++
			case "teardown":
				mgrTd++
			case "hostnames":
				mgrHn++
			case "result":
				mgrRes++
			}
			if r.Issued != "-" {
				slots++
				tdFailed = 0
				if r.Issued == "Deploy" {
					issuedIM = r.IM
					given = map[int]bool{}
				}
			}
			if r.Exit {
				lastExitRunch = r.Runch
			}
		case "mgr_stopped":
			stopped++
			if lastExitRunch {
				mgrRes++ // the exit path consumed the result
			}
		case "op_begin":
			begins++
		case "op_return":
			if r.C == "Teardown" && r.R == "err" {
				tdFailed++
				if tdFailed < 50 {
					slots++
					break
				}
			}
			results++
		}
		out = append(out, r)
	}
	for {
		best, bestTh := -1, ""
		any := false
		for _, t := range order {
			i := idx[t]
			if i >= len(th[t]) {
				continue
			}
			any = true
			r := th[t][i]
			if ready(r) && (best < 0 || r.ts < best) {
				best, bestTh = r.ts, t
			}
		}
		if !any {
			break
		}
		if bestTh == "" { // nothing placeable: force the earliest head
			forcedN++
			for _, t := range order {
				i := idx[t]
				if i < len(th[t]) && (best < 0 || th[t][i].ts < best) {
					best, bestTh = th[t][i].ts, t
				}
			}
		}
		place(th[bestTh][idx[bestTh]])
		idx[bestTh]++
	}
	return out, forcedN
}

func canonical(raws []raw, preexisting bool) ([]rec, int) {
	rs := make([]raw, len(raws))
	copy(rs, raws)
	sort.SliceStable(rs, func(i, j int) bool { return rs[i].Seq < rs[j].Seq })
	return linearize(fold(rs), preexisting)
}
