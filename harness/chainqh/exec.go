package chainqh

import (
	"crypto/sha256"
	"encoding/hex"
	"errors"
	"fmt"
	"strings"

	"github.com/cosmos/cosmos-sdk/codec"
	sdk "github.com/cosmos/cosmos-sdk/types"
	sdkerrors "github.com/cosmos/cosmos-sdk/types/errors"
	sdkquery "github.com/cosmos/cosmos-sdk/types/query"
	abci "github.com/tendermint/tendermint/abci/types"
	"google.golang.org/grpc/status"

	audtypes "github.com/ovrclk/akash/x/audit/types"
	dtypes "github.com/ovrclk/akash/x/deployment/types"
	etypes "github.com/ovrclk/akash/x/escrow/types"
	mtypes "github.com/ovrclk/akash/x/market/types"
	ptypes "github.com/ovrclk/akash/x/provider/types"

	"verif/harness/chainh"
)

const (
	rDeployments = "/akash.deployment.v1beta1.Query/Deployments"
	rDeployment  = "/akash.deployment.v1beta1.Query/Deployment"
	rGroup       = "/akash.deployment.v1beta1.Query/Group"
	rOrders      = "/akash.market.v1beta1.Query/Orders"
	rOrder       = "/akash.market.v1beta1.Query/Order"
	rBids        = "/akash.market.v1beta1.Query/Bids"
	rBid         = "/akash.market.v1beta1.Query/Bid"
	rLeases      = "/akash.market.v1beta1.Query/Leases"
	rLease       = "/akash.market.v1beta1.Query/Lease"
	rProviders   = "/akash.provider.v1beta1.Query/Providers"
	rProvider    = "/akash.provider.v1beta1.Query/Provider"
	rAuditAll    = "/akash.audit.v1beta1.Query/AllProvidersAttributes"
	rAuditOwner  = "/akash.audit.v1beta1.Query/ProviderAttributes"
	rAuditPair   = "/akash.audit.v1beta1.Query/ProviderAuditorAttributes"
	rAuditor     = "/akash.audit.v1beta1.Query/AuditorAttributes"
)

// addr maps a model name to the address string put into a request: party names to their addresses, "" to the
// empty string, "!" to a string that is not bech32, any other name (tX, pX, aX) to a well-formed address no
// party has.
func (q *Q) addr(name string) string {
	switch name {
	case "":
		return ""
	case "!":
		return "not-a-bech32-address"
	}
	if a, err := q.W.Addr(name); err == nil {
		return a.String()
	}
	h := sha256.Sum256([]byte("verif/chainqh/absent/" + name))
	return sdk.AccAddress(h[:20]).String()
}

// dseq maps a model dseq index to the concrete sequence number; 0 stays 0 (wildcard); an index outside the table
// is a number no deployment has.
func (q *Q) dseq(d int) uint64 {
	if d == 0 {
		return 0
	}
	if v, err := q.W.DSeq(d); err == nil {
		return v
	}
	return 900000 + uint64(d)
}

// call sends one request through the application's gRPC query router (proto-encoded, as an ABCI query would be).
func (q *Q) call(ctx sdk.Context, path string, req codec.ProtoMarshaler, res codec.ProtoMarshaler) (err error) {
	h := q.W.App.GRPCQueryRouter().Route(path)
	if h == nil {
		return fmt.Errorf("HARNESS: no query route %s", path)
	}
	cdc := q.W.App.AppCodec()
	bz, err := cdc.MarshalBinaryBare(req)
	if err != nil {
		return fmt.Errorf("HARNESS: marshal request: %v", err)
	}
	var out abci.ResponseQuery
	func() {
		defer func() {
			if r := recover(); r != nil {
				err = fmt.Errorf("panic: %v", r)
			}
		}()
		out, err = h(ctx, abci.RequestQuery{Data: bz, Path: path})
	}()
	if err != nil {
		return err
	}
	if err := cdc.UnmarshalBinaryBare(out.Value, res); err != nil {
		return fmt.Errorf("HARNESS: unmarshal response of %s: %v", path, err)
	}
	return nil
}

// errClass projects an error: gRPC status errors to their code name; the module's registered not-found /
// invalid-address errors to "NotFound" / "InvalidAddress"; anything else keeps its text (and matches nothing).
func errClass(kind string, err error) string {
	if err == nil {
		return ""
	}
	var se *sdkerrors.Error
	if !errors.As(err, &se) {
		if s, ok := status.FromError(err); ok {
			return s.Code().String()
		}
	}
	nf := map[string][]*sdkerrors.Error{
		"deployment": {dtypes.ErrDeploymentNotFound, etypes.ErrAccountNotFound}, "group": {dtypes.ErrGroupNotFound},
		"order": {mtypes.ErrOrderNotFound}, "bid": {mtypes.ErrBidNotFound, etypes.ErrAccountNotFound},
		"lease": {mtypes.ErrLeaseNotFound, etypes.ErrPaymentNotFound}, "provider": {ptypes.ErrProviderNotFound},
		"audit_owner": {audtypes.ErrProviderNotFound}, "audit_pair": {audtypes.ErrProviderNotFound},
		"eacct": {etypes.ErrAccountNotFound}, "epay": {etypes.ErrPaymentNotFound},
	}
	for _, e := range nf[kind] {
		if errors.Is(err, e) {
			return "NotFound"
		}
	}
	ia := map[string]*sdkerrors.Error{"provider": ptypes.ErrInvalidAddress, "audit_owner": audtypes.ErrInvalidAddress, "audit_pair": audtypes.ErrInvalidAddress}
	if e, ok := ia[kind]; ok && errors.Is(err, e) {
		return "InvalidAddress"
	}
	return "Other: " + err.Error()
}

func itemDg(cdc codec.BinaryMarshaler, o codec.ProtoMarshaler) string {
	b, err := cdc.MarshalBinaryBare(o)
	if err != nil {
		return "marshal-error: " + err.Error()
	}
	return dg(b)
}

// ---- projections of returned objects (field for field what chainh.Project records for the stored ones) ----

func (q *Q) recDeployment(d dtypes.Deployment) (Coord, M, error) {
	_, t, di, err := q.W.DeploymentIDStr(d.DeploymentID)
	if err != nil {
		return Coord{}, nil, err
	}
	return Coord{t, di, 0, 0, ""}, M{"state": d.State.String(), "version": chainh.VersionIndex(d.Version), "owner": t}, nil
}

func (q *Q) recGroup(g dtypes.Group) (Coord, M, error) {
	_, ds, err := q.W.GroupIDStr(g.GroupID)
	if err != nil {
		return Coord{}, nil, err
	}
	_, t, di, _ := q.W.DeploymentIDStr(g.GroupID.DeploymentID())
	price, err := chainh.Amt(g.GroupSpec.Price())
	if err != nil {
		return Coord{}, nil, err
	}
	allOf, e1 := q.W.Names(g.GroupSpec.Requirements.SignedBy.AllOf)
	anyOf, e2 := q.W.Names(g.GroupSpec.Requirements.SignedBy.AnyOf)
	if e1 != nil || e2 != nil {
		return Coord{}, nil, fmt.Errorf("group auditors: %v %v", e1, e2)
	}
	return Coord{t, di, int(g.GroupID.GSeq), 0, ""}, M{"state": g.State.String(), "d": ds, "price": price,
		"req": chainh.AttrMapOf(g.GroupSpec.Requirements.Attributes), "allOf": allOf, "anyOf": anyOf}, nil
}

func (q *Q) recOrder(o mtypes.Order) (Coord, M, error) {
	_, gs, ds, err := q.W.OrderIDStr(o.OrderID)
	if err != nil {
		return Coord{}, nil, err
	}
	c, _, _ := q.orderCoord(o.OrderID)
	return c, M{"state": o.State.String(), "d": ds, "gid": gs}, nil
}

func (q *Q) recBid(b mtypes.Bid) (Coord, M, error) {
	_, os, gs, ds, p, err := q.W.BidIDStr(b.BidID)
	if err != nil {
		return Coord{}, nil, err
	}
	price, err := chainh.Amt(b.Price)
	if err != nil {
		return Coord{}, nil, err
	}
	c, _, _ := q.bidCoord(b.BidID)
	return c, M{"state": b.State.String(), "price": price, "d": ds, "oid": os, "gid": gs, "p": p}, nil
}

func (q *Q) recLease(l mtypes.Lease) (Coord, M, error) {
	_, os, gs, ds, p, err := q.W.BidIDStr(mtypes.BidID(l.LeaseID))
	if err != nil {
		return Coord{}, nil, err
	}
	price, err := chainh.Amt(l.Price)
	if err != nil {
		return Coord{}, nil, err
	}
	c, _, _ := q.bidCoord(mtypes.BidID(l.LeaseID))
	return c, M{"state": l.State.String(), "price": price, "d": ds, "oid": os, "gid": gs, "p": p, "createdAt": l.CreatedAt}, nil
}

func (q *Q) recAccount(a etypes.Account) (Coord, string, M, error) {
	c, key, err := q.acctCoord(a.ID)
	if err != nil {
		return Coord{}, "", nil, err
	}
	_, rec, _ := q.W.EscrowAccountKey(a.ID)
	owner, err := q.W.Name(a.Owner)
	if err != nil {
		return Coord{}, "", nil, err
	}
	bal, e1 := chainh.Amt(a.Balance)
	tr, e2 := chainh.Amt(a.Transferred)
	if e1 != nil || e2 != nil {
		return Coord{}, "", nil, fmt.Errorf("escrow account %s: %v %v", key, e1, e2)
	}
	rec["owner"], rec["state"], rec["balance"], rec["transferred"], rec["settledAt"] = owner, a.State.String(), bal, tr, a.SettledAt
	return c, key, rec, nil
}

func (q *Q) recPayment(p etypes.Payment) (Coord, string, M, error) {
	c, key, err := q.payCoord(p.AccountID, p.PaymentID)
	if err != nil {
		return Coord{}, "", nil, err
	}
	ak, arec, _ := q.W.EscrowAccountKey(p.AccountID)
	owner, e1 := q.W.Name(p.Owner)
	rate, e2 := chainh.Amt(p.Rate)
	bal, e3 := chainh.Amt(p.Balance)
	wd, e4 := chainh.Amt(p.Withdrawn)
	for _, e := range []error{e1, e2, e3, e4} {
		if e != nil {
			return Coord{}, "", nil, fmt.Errorf("payment %s: %v", key, e)
		}
	}
	return c, key, M{"acct": ak, "d": arec["d"], "g": c.G, "o": c.O, "p": c.B, "owner": owner, "state": p.State.String(),
		"rate": rate, "balance": bal, "withdrawn": wd}, nil
}

// A returned object that cannot be projected (an empty record, an unknown address) is recorded as such: it then
// fails the judgement (it equals no stored record) instead of stopping the harness.
func badJoin(err error) M { return M{"id": "?unprojectable: " + err.Error(), "rec": M{}, "dg": ""} }
func badItem(err error) M {
	return M{"c": Coord{A: "?unprojectable: " + err.Error()}, "rec": M{}, "dg": ""}
}

func (q *Q) joinAccount(a etypes.Account) (M, error) {
	_, key, rec, err := q.recAccount(a)
	if err != nil {
		return badJoin(err), nil
	}
	return M{"id": key, "rec": rec, "dg": itemDg(q.W.App.AppCodec(), &a)}, nil
}

func (q *Q) joinPayment(p etypes.Payment) (M, error) {
	_, key, rec, err := q.recPayment(p)
	if err != nil {
		return badJoin(err), nil
	}
	return M{"id": key, "rec": rec, "dg": itemDg(q.W.App.AppCodec(), &p)}, nil
}

func (q *Q) itemDeployment(r dtypes.QueryDeploymentResponse) (M, error) {
	cdc := q.W.App.AppCodec()
	c, rec, err := q.recDeployment(r.Deployment)
	if err != nil {
		return badItem(err), nil
	}
	groups := []M{}
	for i := range r.Groups {
		gc, grec, err := q.recGroup(r.Groups[i])
		if err != nil {
			groups = append(groups, badItem(err))
			continue
		}
		groups = append(groups, M{"c": gc, "rec": grec, "dg": itemDg(cdc, &r.Groups[i])})
	}
	acct, err := q.joinAccount(r.EscrowAccount)
	if err != nil {
		return nil, err
	}
	return M{"c": c, "rec": rec, "dg": itemDg(cdc, &r.Deployment), "acct": acct, "groups": groups}, nil
}

func (q *Q) itemBid(r mtypes.QueryBidResponse) (M, error) {
	c, rec, err := q.recBid(r.Bid)
	if err != nil {
		return badItem(err), nil
	}
	acct, err := q.joinAccount(r.EscrowAccount)
	if err != nil {
		return nil, err
	}
	return M{"c": c, "rec": rec, "dg": itemDg(q.W.App.AppCodec(), &r.Bid), "acct": acct}, nil
}

func (q *Q) itemLease(r mtypes.QueryLeaseResponse) (M, error) {
	c, rec, err := q.recLease(r.Lease)
	if err != nil {
		return badItem(err), nil
	}
	pay, err := q.joinPayment(r.EscrowPayment)
	if err != nil {
		return nil, err
	}
	return M{"c": c, "rec": rec, "dg": itemDg(q.W.App.AppCodec(), &r.Lease), "pay": pay}, nil
}

func (q *Q) itemProvider(p ptypes.Provider) (M, error) {
	n, err := q.W.Name(p.Owner)
	if err != nil {
		return badItem(err), nil
	}
	return M{"c": Coord{n, 0, 0, 0, ""}, "rec": M{"attrs": chainh.AttrMapOf(p.Attributes)}, "dg": itemDg(q.W.App.AppCodec(), &p)}, nil
}

func (q *Q) itemAttest(p audtypes.Provider) (M, error) {
	pn, e1 := q.W.Name(p.Owner)
	an, e2 := q.W.Name(p.Auditor)
	if e1 != nil || e2 != nil {
		return badItem(fmt.Errorf("attestation %s/%s", p.Auditor, p.Owner)), nil
	}
	return M{"c": Coord{pn, 0, 0, 0, an}, "rec": chainh.AttrMapOf(p.Attributes), "dg": itemDg(q.W.App.AppCodec(), &p)}, nil
}

// ---- requests ----

func (q *Q) pageRequest(s *scan, store string, pg Pg) (*sdkquery.PageRequest, error) {
	switch pg.Mode {
	case "none":
		return nil, nil
	case "offset":
		return &sdkquery.PageRequest{Offset: uint64(pg.Offset), Limit: uint64(pg.Limit), CountTotal: pg.Ct}, nil
	case "key", "both":
		rel, ok := s.relOf[store][pg.Key]
		if !ok {
			return nil, fmt.Errorf("HARNESS: page key %v is not a record of store %s", pg.Key, store)
		}
		return &sdkquery.PageRequest{Key: rel, Offset: uint64(pg.Offset), Limit: uint64(pg.Limit), CountTotal: pg.Ct}, nil
	}
	return nil, fmt.Errorf("HARNESS: unknown page mode %q", pg.Mode)
}

func (q *Q) finishPage(s *scan, store string, r *Resp, pr *sdkquery.PageResponse) {
	if pr == nil {
		return
	}
	r.Total = int(pr.Total)
	if len(pr.NextKey) > 0 {
		r.nextRaw = pr.NextKey
		if c, ok := s.byRel[store][string(pr.NextKey)]; ok {
			r.Next = c
		} else {
			r.Next = Coord{A: "?" + hex.EncodeToString(pr.NextKey)}
		}
	}
}

var kindStore = map[string]string{"deployments": "dep", "orders": "ord", "bids": "bid", "leases": "lease", "providers": "prov",
	"audits": "attest", "auditor": "attest", "eaccts": "eacct", "epays": "epay",
	"k_deployments": "dep", "k_orders": "ord", "k_bids": "bid", "k_leases": "lease", "k_providers": "prov", "k_attests": "attest"}

func isIterKind(kind string) bool {
	return kind == "eaccts" || kind == "epays" || strings.HasPrefix(kind, "k_")
}

// plain projects a returned object that carries no joined record.
func (q *Q) plainItem(o interface{}) M {
	cdc := q.W.App.AppCodec()
	switch v := o.(type) {
	case dtypes.Deployment:
		c, rec, err := q.recDeployment(v)
		if err != nil {
			return badItem(err)
		}
		return M{"c": c, "rec": rec, "dg": itemDg(cdc, &v)}
	case dtypes.Group:
		c, rec, err := q.recGroup(v)
		if err != nil {
			return badItem(err)
		}
		return M{"c": c, "rec": rec, "dg": itemDg(cdc, &v)}
	case mtypes.Order:
		c, rec, err := q.recOrder(v)
		if err != nil {
			return badItem(err)
		}
		return M{"c": c, "rec": rec, "dg": itemDg(cdc, &v)}
	case mtypes.Bid:
		c, rec, err := q.recBid(v)
		if err != nil {
			return badItem(err)
		}
		return M{"c": c, "rec": rec, "dg": itemDg(cdc, &v)}
	case mtypes.Lease:
		c, rec, err := q.recLease(v)
		if err != nil {
			return badItem(err)
		}
		return M{"c": c, "rec": rec, "dg": itemDg(cdc, &v)}
	case ptypes.Provider:
		it, _ := q.itemProvider(v)
		return it
	case audtypes.Provider:
		it, _ := q.itemAttest(v)
		return it
	}
	return badItem(fmt.Errorf("unknown object %T", o))
}

// List executes one listing request. rawKey, when set, replaces the page key (walks feed next_key back verbatim).
func (q *Q) List(ctx sdk.Context, s *scan, kind string, f Filter, pg Pg, rawKey []byte) (Resp, error) {
	r := Resp{Items: []M{}}
	store := kindStore[kind]
	var page *sdkquery.PageRequest
	var err error
	if !isIterKind(kind) {
		if rawKey != nil {
			page = &sdkquery.PageRequest{Key: rawKey, Offset: uint64(pg.Offset), Limit: uint64(pg.Limit), CountTotal: pg.Ct}
		} else if page, err = q.pageRequest(s, store, pg); err != nil {
			return r, err
		}
	}
	fail := func(e error) (Resp, error) {
		if strings.HasPrefix(e.Error(), "HARNESS:") {
			return r, e
		}
		r.Err, r.msg = errClass(kind, e), e.Error()
		return r, nil
	}
	switch kind {
	case "deployments":
		var res dtypes.QueryDeploymentsResponse
		req := &dtypes.QueryDeploymentsRequest{Filters: dtypes.DeploymentFilters{Owner: q.addr(f.Owner), DSeq: q.dseq(f.DSeq), State: f.State}, Pagination: page}
		if err := q.call(ctx, rDeployments, req, &res); err != nil {
			return fail(err)
		}
		for _, d := range res.Deployments {
			it, err := q.itemDeployment(d)
			if err != nil {
				return r, err
			}
			r.Items = append(r.Items, it)
		}
		q.finishPage(s, store, &r, res.Pagination)
	case "orders":
		var res mtypes.QueryOrdersResponse
		req := &mtypes.QueryOrdersRequest{Filters: mtypes.OrderFilters{Owner: q.addr(f.Owner), DSeq: q.dseq(f.DSeq), GSeq: uint32(f.GSeq),
			OSeq: uint32(f.OSeq), State: f.State}, Pagination: page}
		if err := q.call(ctx, rOrders, req, &res); err != nil {
			return fail(err)
		}
		for i := range res.Orders {
			c, rec, err := q.recOrder(res.Orders[i])
			if err != nil {
				r.Items = append(r.Items, badItem(err))
				continue
			}
			r.Items = append(r.Items, M{"c": c, "rec": rec, "dg": itemDg(q.W.App.AppCodec(), &res.Orders[i])})
		}
		q.finishPage(s, store, &r, res.Pagination)
	case "bids":
		var res mtypes.QueryBidsResponse
		req := &mtypes.QueryBidsRequest{Filters: mtypes.BidFilters{Owner: q.addr(f.Owner), DSeq: q.dseq(f.DSeq), GSeq: uint32(f.GSeq),
			OSeq: uint32(f.OSeq), Provider: q.addr(f.Provider), State: f.State}, Pagination: page}
		if err := q.call(ctx, rBids, req, &res); err != nil {
			return fail(err)
		}
		for _, b := range res.Bids {
			it, err := q.itemBid(b)
			if err != nil {
				return r, err
			}
			r.Items = append(r.Items, it)
		}
		q.finishPage(s, store, &r, res.Pagination)
	case "leases":
		var res mtypes.QueryLeasesResponse
		req := &mtypes.QueryLeasesRequest{Filters: mtypes.LeaseFilters{Owner: q.addr(f.Owner), DSeq: q.dseq(f.DSeq), GSeq: uint32(f.GSeq),
			OSeq: uint32(f.OSeq), Provider: q.addr(f.Provider), State: f.State}, Pagination: page}
		if err := q.call(ctx, rLeases, req, &res); err != nil {
			return fail(err)
		}
		for _, l := range res.Leases {
			it, err := q.itemLease(l)
			if err != nil {
				return r, err
			}
			r.Items = append(r.Items, it)
		}
		q.finishPage(s, store, &r, res.Pagination)
	case "providers":
		var res ptypes.QueryProvidersResponse
		if err := q.call(ctx, rProviders, &ptypes.QueryProvidersRequest{Pagination: page}, &res); err != nil {
			return fail(err)
		}
		for _, p := range res.Providers {
			it, err := q.itemProvider(p)
			if err != nil {
				return r, err
			}
			r.Items = append(r.Items, it)
		}
		q.finishPage(s, store, &r, res.Pagination)
	case "audits", "auditor":
		var res audtypes.QueryProvidersResponse
		var err error
		if kind == "audits" {
			err = q.call(ctx, rAuditAll, &audtypes.QueryAllProvidersAttributesRequest{Pagination: page}, &res)
		} else {
			err = q.call(ctx, rAuditor, &audtypes.QueryAuditorAttributesRequest{Auditor: q.addr(f.Auditor), Pagination: page}, &res)
		}
		if err != nil {
			return fail(err)
		}
		for _, p := range res.Providers {
			it, err := q.itemAttest(p)
			if err != nil {
				return r, err
			}
			r.Items = append(r.Items, it)
		}
		q.finishPage(s, store, &r, res.Pagination)
	case "eaccts":
		var perr error
		q.W.App.VerifKeepers().Escrow.WithAccounts(ctx, func(a etypes.Account) bool {
			c, _, rec, err := q.recAccount(a)
			if err != nil {
				r.Items = append(r.Items, badItem(err))
				return false
			}
			r.Items = append(r.Items, M{"c": c, "rec": rec, "dg": itemDg(q.W.App.AppCodec(), &a)})
			return false
		})
		if perr != nil {
			return r, perr
		}
		r.Total = len(r.Items)
	case "epays":
		var perr error
		q.W.App.VerifKeepers().Escrow.WithPayments(ctx, func(p etypes.Payment) bool {
			c, _, rec, err := q.recPayment(p)
			if err != nil {
				r.Items = append(r.Items, badItem(err))
				return false
			}
			r.Items = append(r.Items, M{"c": c, "rec": rec, "dg": itemDg(q.W.App.AppCodec(), &p)})
			return false
		})
		if perr != nil {
			return r, perr
		}
		r.Total = len(r.Items)
	case "k_deployments":
		q.W.App.VerifKeepers().Deployment.WithDeployments(ctx, func(d dtypes.Deployment) bool {
			r.Items = append(r.Items, q.plainItem(d))
			return false
		})
		r.Total = len(r.Items)
	case "k_orders":
		q.W.App.VerifKeepers().Market.WithOrders(ctx, func(o mtypes.Order) bool {
			r.Items = append(r.Items, q.plainItem(o))
			return false
		})
		r.Total = len(r.Items)
	case "k_bids":
		q.W.App.VerifKeepers().Market.WithBids(ctx, func(b mtypes.Bid) bool {
			r.Items = append(r.Items, q.plainItem(b))
			return false
		})
		r.Total = len(r.Items)
	case "k_leases":
		q.W.App.VerifKeepers().Market.WithLeases(ctx, func(l mtypes.Lease) bool {
			r.Items = append(r.Items, q.plainItem(l))
			return false
		})
		r.Total = len(r.Items)
	case "k_providers":
		q.W.App.VerifKeepers().Provider.WithProviders(ctx, func(p ptypes.Provider) bool {
			r.Items = append(r.Items, q.plainItem(p))
			return false
		})
		r.Total = len(r.Items)
	case "k_attests":
		q.W.App.VerifKeepers().Audit.WithProviders(ctx, func(p audtypes.Provider) bool {
			r.Items = append(r.Items, q.plainItem(p))
			return false
		})
		r.Total = len(r.Items)
	default:
		return r, fmt.Errorf("HARNESS: unknown listing kind %q", kind)
	}
	return r, nil
}

const maxWalkPages = 64

// Walk pages through a listing: first page by limit, then next_key (verbatim) until it is empty.
func (q *Q) Walk(ctx sdk.Context, s *scan, w WalkReq) (WalkResp, error) {
	out := WalkResp{Pages: []WalkPage{}}
	pg := Pg{Mode: "offset", Limit: w.Limit, Ct: w.Ct}
	var raw []byte
	for {
		r, err := q.List(ctx, s, w.Kind, w.F, pg, raw)
		if err != nil {
			return out, err
		}
		out.Pages = append(out.Pages, WalkPage{pg, r})
		if r.Err != "" || len(r.nextRaw) == 0 {
			return out, nil
		}
		if len(out.Pages) >= maxWalkPages {
			out.Truncated = true
			return out, nil
		}
		pg = Pg{Mode: "key", Key: r.Next, Limit: w.Limit, Ct: w.Ct}
		raw = r.nextRaw
	}
}

func (q *Q) depID(c Coord) dtypes.DeploymentID {
	return dtypes.DeploymentID{Owner: q.addr(c.A), DSeq: q.dseq(c.D)}
}

func (q *Q) bidID(c Coord) mtypes.BidID {
	return mtypes.BidID{Owner: q.addr(c.A), DSeq: q.dseq(c.D), GSeq: uint32(c.G), OSeq: uint32(c.O), Provider: q.addr(c.B)}
}

// Get executes one Get request.
func (q *Q) Get(ctx sdk.Context, kind string, c Coord) (Resp, error) {
	r := Resp{Items: []M{}}
	fail := func(e error) (Resp, error) {
		if strings.HasPrefix(e.Error(), "HARNESS:") {
			return r, e
		}
		r.Err, r.msg = errClass(kind, e), e.Error()
		return r, nil
	}
	one := func(it M, err error) (Resp, error) {
		if err != nil {
			it = badItem(err)
		}
		r.Items = append(r.Items, it)
		return r, nil
	}
	cdc := q.W.App.AppCodec()
	switch kind {
	case "deployment":
		var res dtypes.QueryDeploymentResponse
		if err := q.call(ctx, rDeployment, &dtypes.QueryDeploymentRequest{ID: q.depID(c)}, &res); err != nil {
			return fail(err)
		}
		return one(q.itemDeployment(res))
	case "group":
		var res dtypes.QueryGroupResponse
		if err := q.call(ctx, rGroup, &dtypes.QueryGroupRequest{ID: dtypes.MakeGroupID(q.depID(c), uint32(c.G))}, &res); err != nil {
			return fail(err)
		}
		gc, rec, err := q.recGroup(res.Group)
		return one(M{"c": gc, "rec": rec, "dg": itemDg(cdc, &res.Group)}, err)
	case "order":
		var res mtypes.QueryOrderResponse
		if err := q.call(ctx, rOrder, &mtypes.QueryOrderRequest{ID: q.bidID(c).OrderID()}, &res); err != nil {
			return fail(err)
		}
		oc, rec, err := q.recOrder(res.Order)
		return one(M{"c": oc, "rec": rec, "dg": itemDg(cdc, &res.Order)}, err)
	case "bid":
		var res mtypes.QueryBidResponse
		if err := q.call(ctx, rBid, &mtypes.QueryBidRequest{ID: q.bidID(c)}, &res); err != nil {
			return fail(err)
		}
		return one(q.itemBid(res))
	case "lease":
		var res mtypes.QueryLeaseResponse
		if err := q.call(ctx, rLease, &mtypes.QueryLeaseRequest{ID: mtypes.LeaseID(q.bidID(c))}, &res); err != nil {
			return fail(err)
		}
		return one(q.itemLease(res))
	case "provider":
		var res ptypes.QueryProviderResponse
		if err := q.call(ctx, rProvider, &ptypes.QueryProviderRequest{Owner: q.addr(c.A)}, &res); err != nil {
			return fail(err)
		}
		return one(q.itemProvider(res.Provider))
	case "audit_owner", "audit_pair":
		var res audtypes.QueryProvidersResponse
		var err error
		if kind == "audit_owner" {
			err = q.call(ctx, rAuditOwner, &audtypes.QueryProviderAttributesRequest{Owner: q.addr(c.A)}, &res)
		} else {
			err = q.call(ctx, rAuditPair, &audtypes.QueryProviderAuditorRequest{Owner: q.addr(c.A), Auditor: q.addr(c.B)}, &res)
		}
		if err != nil {
			return fail(err)
		}
		for _, p := range res.Providers {
			it, err := q.itemAttest(p)
			if err != nil {
				return r, err
			}
			r.Items = append(r.Items, it)
		}
		return r, nil
	case "eacct":
		id := etypes.AccountID{Scope: "deployment", XID: fmt.Sprintf("%s/%d", q.addr(c.A), q.dseq(c.D))}
		if c.B != "" {
			id = etypes.AccountID{Scope: "bid", XID: fmt.Sprintf("%s/%d/%d/%d/%s", q.addr(c.A), q.dseq(c.D), c.G, c.O, q.addr(c.B))}
		}
		var a etypes.Account
		var err error
		func() {
			defer func() {
				if rec := recover(); rec != nil {
					err = fmt.Errorf("panic: %v", rec)
				}
			}()
			a, err = q.W.App.VerifKeepers().Escrow.GetAccount(ctx, id)
		}()
		if err != nil {
			return fail(err)
		}
		ac, _, rec, err := q.recAccount(a)
		return one(M{"c": ac, "rec": rec, "dg": itemDg(cdc, &a)}, err)
	case "epay":
		id := etypes.AccountID{Scope: "deployment", XID: fmt.Sprintf("%s/%d", q.addr(c.A), q.dseq(c.D))}
		pid := fmt.Sprintf("%d/%d/%s", c.G, c.O, q.addr(c.B))
		var p etypes.Payment
		var err error
		func() {
			defer func() {
				if rec := recover(); rec != nil {
					err = fmt.Errorf("panic: %v", rec)
				}
			}()
			p, err = q.W.App.VerifKeepers().Escrow.GetPayment(ctx, id, pid)
		}()
		if err != nil {
			return fail(err)
		}
		pc, _, rec, err := q.recPayment(p)
		return one(M{"c": pc, "rec": rec, "dg": itemDg(cdc, &p)}, err)
	}
	// keeper reads by parent id
	var perr error
	func() {
		defer func() {
			if rec := recover(); rec != nil {
				perr = fmt.Errorf("panic: %v", rec)
			}
		}()
		k := q.W.App.VerifKeepers()
		switch kind {
		case "k_groups":
			for _, g := range k.Deployment.GetGroups(ctx, q.depID(c)) {
				r.Items = append(r.Items, q.plainItem(g))
			}
		case "k_ordersforgroup":
			k.Market.WithOrdersForGroup(ctx, dtypes.MakeGroupID(q.depID(c), uint32(c.G)), func(o mtypes.Order) bool {
				r.Items = append(r.Items, q.plainItem(o))
				return false
			})
		case "k_bidsfororder":
			k.Market.WithBidsForOrder(ctx, q.bidID(c).OrderID(), func(b mtypes.Bid) bool {
				r.Items = append(r.Items, q.plainItem(b))
				return false
			})
		case "k_bidcount":
			r.Total = int(k.Market.BidCountForOrder(ctx, q.bidID(c).OrderID()))
		case "k_leasefororder":
			l, found := k.Market.LeaseForOrder(ctx, q.bidID(c).OrderID())
			if !found {
				r.Err = "NotFound"
			} else {
				r.Items = append(r.Items, q.plainItem(l))
			}
		case "k_attests_owner":
			a, err := sdk.AccAddressFromBech32(q.addr(c.A))
			if err != nil {
				perr = fmt.Errorf("HARNESS: k_attests_owner needs an address: %v", err)
				return
			}
			k.Audit.WithProvider(ctx, a, func(p audtypes.Provider) bool {
				r.Items = append(r.Items, q.plainItem(p))
				return false
			})
		default:
			perr = fmt.Errorf("HARNESS: unknown get kind %q", kind)
		}
	}()
	if perr != nil {
		if strings.HasPrefix(perr.Error(), "HARNESS:") {
			return r, perr
		}
		return fail(perr)
	}
	return r, nil
}
