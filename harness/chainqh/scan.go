package chainqh

import (
	"bytes"
	"crypto/sha256"
	"encoding/hex"
	"fmt"
	"sort"
	"strconv"
	"strings"

	sdk "github.com/cosmos/cosmos-sdk/types"

	audtypes "github.com/ovrclk/akash/x/audit/types"
	dtypes "github.com/ovrclk/akash/x/deployment/types"
	etypes "github.com/ovrclk/akash/x/escrow/types"
	mtypes "github.com/ovrclk/akash/x/market/types"
	ptypes "github.com/ovrclk/akash/x/provider/types"

	"verif/harness/chainh"
)

// entry is one stored record as the raw store scan sees it.
type entry struct {
	c   Coord
	id  string // abstract id (the key of the record in the projected state)
	rel []byte // the key relative to the prefix store the listing paginates over
	dg  string // digest of the stored bytes
}

// scan is the raw-iterator view of one state: entries per abstract store in store order, and a digest of each
// abstract store's raw content (used to skip request kinds whose input is unchanged).
type scan struct {
	ents  map[string][]entry
	byRel map[string]map[string]Coord // store -> relative key -> coordinates
	relOf map[string]map[Coord][]byte
	stamp map[string]string
}

func dg(b []byte) string {
	h := sha256.Sum256(b)
	return hex.EncodeToString(h[:8])
}

type Q struct {
	W *chainh.World
}

func (q *Q) dIndex(dseq uint64) (int, error) { return q.W.DIndex(dseq) }

// Scan reads the deployment, market, provider, audit and escrow stores of ctx through raw iterators.
func (q *Q) Scan(ctx sdk.Context) (*scan, error) {
	w := q.W
	cdc := w.App.AppCodec()
	s := &scan{ents: map[string][]entry{}, byRel: map[string]map[string]Coord{}, relOf: map[string]map[Coord][]byte{}, stamp: map[string]string{}}
	hs := map[string]*bytes.Buffer{}
	add := func(store string, e entry, k, v []byte) {
		s.ents[store] = append(s.ents[store], e)
		if hs[store] == nil {
			hs[store] = &bytes.Buffer{}
		}
		fmt.Fprintf(hs[store], "%d|%d|", len(k), len(v))
		hs[store].Write(k)
		hs[store].Write(v)
	}
	cp := func(b []byte) []byte { return append([]byte(nil), b...) }

	it := ctx.KVStore(w.App.GetKey(dtypes.StoreKey)).Iterator(nil, nil)
	for ; it.Valid(); it.Next() {
		k, v := cp(it.Key()), cp(it.Value())
		switch k[0] {
		case 0x01:
			var d dtypes.Deployment
			if err := cdc.UnmarshalBinaryBare(v, &d); err != nil {
				it.Close()
				return nil, err
			}
			id, t, di, err := w.DeploymentIDStr(d.DeploymentID)
			if err != nil {
				it.Close()
				return nil, err
			}
			add("dep", entry{Coord{t, di, 0, 0, ""}, id, k[1:], dg(v)}, k, v)
		case 0x02:
			var g dtypes.Group
			if err := cdc.UnmarshalBinaryBare(v, &g); err != nil {
				it.Close()
				return nil, err
			}
			id, _, err := w.GroupIDStr(g.GroupID)
			if err != nil {
				it.Close()
				return nil, err
			}
			_, t, di, _ := w.DeploymentIDStr(g.GroupID.DeploymentID())
			add("grp", entry{Coord{t, di, int(g.GroupID.GSeq), 0, ""}, id, k[1:], dg(v)}, k, v)
		default:
			it.Close()
			return nil, fmt.Errorf("unprojectable deployment key %x", k)
		}
	}
	it.Close()

	it = ctx.KVStore(w.App.GetKey(mtypes.StoreKey)).Iterator(nil, nil)
	for ; it.Valid(); it.Next() {
		k, v := cp(it.Key()), cp(it.Value())
		if len(k) < 2 || k[1] != 0 {
			it.Close()
			return nil, fmt.Errorf("unprojectable market key %x", k)
		}
		switch k[0] {
		case 0x01:
			var o mtypes.Order
			if err := cdc.UnmarshalBinaryBare(v, &o); err != nil {
				it.Close()
				return nil, err
			}
			c, id, err := q.orderCoord(o.OrderID)
			if err != nil {
				it.Close()
				return nil, err
			}
			add("ord", entry{c, id, k[2:], dg(v)}, k, v)
		case 0x02:
			var b mtypes.Bid
			if err := cdc.UnmarshalBinaryBare(v, &b); err != nil {
				it.Close()
				return nil, err
			}
			c, id, err := q.bidCoord(b.BidID)
			if err != nil {
				it.Close()
				return nil, err
			}
			add("bid", entry{c, id, k[2:], dg(v)}, k, v)
		case 0x03:
			var l mtypes.Lease
			if err := cdc.UnmarshalBinaryBare(v, &l); err != nil {
				it.Close()
				return nil, err
			}
			c, id, err := q.bidCoord(mtypes.BidID(l.LeaseID))
			if err != nil {
				it.Close()
				return nil, err
			}
			add("lease", entry{c, id, k[2:], dg(v)}, k, v)
		default:
			it.Close()
			return nil, fmt.Errorf("unprojectable market key %x", k)
		}
	}
	it.Close()

	it = ctx.KVStore(w.App.GetKey(ptypes.StoreKey)).Iterator(nil, nil)
	for ; it.Valid(); it.Next() {
		k, v := cp(it.Key()), cp(it.Value())
		var p ptypes.Provider
		if err := cdc.UnmarshalBinaryBare(v, &p); err != nil {
			it.Close()
			return nil, err
		}
		n, err := w.Name(p.Owner)
		if err != nil {
			it.Close()
			return nil, err
		}
		add("prov", entry{Coord{n, 0, 0, 0, ""}, n, k, dg(v)}, k, v)
	}
	it.Close()

	it = ctx.KVStore(w.App.GetKey(audtypes.StoreKey)).Iterator(nil, nil)
	for ; it.Valid(); it.Next() {
		k, v := cp(it.Key()), cp(it.Value())
		var p audtypes.Provider
		if err := cdc.UnmarshalBinaryBare(v, &p); err != nil {
			it.Close()
			return nil, err
		}
		pn, e1 := w.Name(p.Owner)
		an, e2 := w.Name(p.Auditor)
		if e1 != nil || e2 != nil {
			it.Close()
			return nil, fmt.Errorf("unprojectable attestation %x", k)
		}
		add("attest", entry{Coord{pn, 0, 0, 0, an}, an + "/" + pn, k, dg(v)}, k, v)
	}
	it.Close()

	it = ctx.KVStore(w.App.GetKey(etypes.StoreKey)).Iterator(nil, nil)
	for ; it.Valid(); it.Next() {
		k, v := cp(it.Key()), cp(it.Value())
		switch k[0] {
		case 0x01:
			var a etypes.Account
			if err := cdc.UnmarshalBinaryBare(v, &a); err != nil {
				it.Close()
				return nil, err
			}
			c, id, err := q.acctCoord(a.ID)
			if err != nil {
				it.Close()
				return nil, err
			}
			add("eacct", entry{c, id, k, dg(v)}, k, v)
		case 0x02:
			var p etypes.Payment
			if err := cdc.UnmarshalBinaryBare(v, &p); err != nil {
				it.Close()
				return nil, err
			}
			c, id, err := q.payCoord(p.AccountID, p.PaymentID)
			if err != nil {
				it.Close()
				return nil, err
			}
			add("epay", entry{c, id, k, dg(v)}, k, v)
		default:
			it.Close()
			return nil, fmt.Errorf("unprojectable escrow key %x", k)
		}
	}
	it.Close()

	for _, st := range stores {
		s.byRel[st] = map[string]Coord{}
		s.relOf[st] = map[Coord][]byte{}
		for _, e := range s.ents[st] {
			s.byRel[st][string(e.rel)] = e.c
			s.relOf[st][e.c] = e.rel
		}
		if hs[st] != nil {
			s.stamp[st] = dg(hs[st].Bytes())
		} else {
			s.stamp[st] = "-"
		}
	}
	return s, nil
}

var stores = []string{"dep", "grp", "ord", "bid", "lease", "prov", "attest", "eacct", "epay"}

// D is the digest table of the state: store -> abstract id -> digest of the stored bytes.
func (s *scan) D() M {
	out := M{}
	for _, st := range stores {
		m := M{}
		for _, e := range s.ents[st] {
			m[e.id] = e.dg
		}
		out[st] = m
	}
	return out
}

func (q *Q) orderCoord(id mtypes.OrderID) (Coord, string, error) {
	s, _, _, err := q.W.OrderIDStr(id)
	if err != nil {
		return Coord{}, "", err
	}
	_, t, di, _ := q.W.DeploymentIDStr(id.GroupID().DeploymentID())
	return Coord{t, di, int(id.GSeq), int(id.OSeq), ""}, s, nil
}

func (q *Q) bidCoord(id mtypes.BidID) (Coord, string, error) {
	s, _, _, _, p, err := q.W.BidIDStr(id)
	if err != nil {
		return Coord{}, "", err
	}
	_, t, di, _ := q.W.DeploymentIDStr(id.DeploymentID())
	return Coord{t, di, int(id.GSeq), int(id.OSeq), p}, s, nil
}

func (q *Q) acctCoord(id etypes.AccountID) (Coord, string, error) {
	key, rec, err := q.W.EscrowAccountKey(id)
	if err != nil {
		return Coord{}, "", err
	}
	c := Coord{A: rec["t"].(string), D: rec["dseq"].(int)}
	if id.Scope == "bid" {
		parts := strings.Split(id.XID, "/")
		g, e1 := strconv.Atoi(parts[2])
		o, e2 := strconv.Atoi(parts[3])
		p, e3 := q.W.Name(parts[4])
		if e1 != nil || e2 != nil || e3 != nil {
			return Coord{}, "", fmt.Errorf("unprojectable bid account %q", id.XID)
		}
		c.G, c.O, c.B = g, o, p
	}
	return c, key, nil
}

func (q *Q) payCoord(aid etypes.AccountID, pid string) (Coord, string, error) {
	_, rec, err := q.W.EscrowAccountKey(aid)
	if err != nil {
		return Coord{}, "", err
	}
	pp := strings.Split(pid, "/")
	if len(pp) != 3 || aid.Scope != "deployment" {
		return Coord{}, "", fmt.Errorf("unprojectable payment %s/%s %q", aid.Scope, aid.XID, pid)
	}
	g, e1 := strconv.Atoi(pp[0])
	o, e2 := strconv.Atoi(pp[1])
	p, e3 := q.W.Name(pp[2])
	if e1 != nil || e2 != nil || e3 != nil {
		return Coord{}, "", fmt.Errorf("unprojectable payment id %q", pid)
	}
	c := Coord{rec["t"].(string), rec["dseq"].(int), g, o, p}
	return c, fmt.Sprintf("%s/%d/%d/%s", rec["d"], g, o, p), nil
}

// Ranks returns the order of the party names by bech32 string and by raw address bytes (1-based).
func (q *Q) Ranks() (str M, byt M, err error) {
	names := q.W.PartyNames()
	type na struct {
		n string
		a sdk.AccAddress
	}
	var xs []na
	for _, n := range names {
		a, err := q.W.Addr(n)
		if err != nil {
			return nil, nil, err
		}
		xs = append(xs, na{n, a})
	}
	str, byt = M{}, M{}
	sort.Slice(xs, func(i, j int) bool { return xs[i].a.String() < xs[j].a.String() })
	for i, x := range xs {
		str[x.n] = i + 1
	}
	sort.Slice(xs, func(i, j int) bool { return bytes.Compare(xs[i].a.Bytes(), xs[j].a.Bytes()) < 0 })
	for i, x := range xs {
		byt[x.n] = i + 1
	}
	return str, byt, nil
}
