package chainqh

import (
	"encoding/json"
	"flag"
	"fmt"
	"io/ioutil"
	"math/rand"
	"os"
	"sort"
	"strings"
	"sync"
	"time"

	sdk "github.com/cosmos/cosmos-sdk/types"

	"verif/harness/chainh"
	"verif/harness/vcommon"
)

// what a request kind reads: when none of these abstract stores changed since the kind was last asked (same raw
// bytes), the kind is skipped at this state (its requests and the expected answers would be the same).
var kindReads = map[string][]string{
	"deployments": {"dep", "grp", "eacct"}, "orders": {"ord"}, "bids": {"bid", "eacct"}, "leases": {"lease", "epay"},
	"providers": {"prov"}, "audits": {"attest"}, "auditor": {"attest"}, "eaccts": {"eacct"}, "epays": {"epay"},
	"deployment": {"dep", "grp", "eacct"}, "group": {"grp"}, "order": {"ord"}, "bid": {"bid", "eacct"}, "lease": {"lease", "epay"},
	"provider": {"prov"}, "audit_owner": {"attest"}, "audit_pair": {"attest"}, "eacct": {"eacct"}, "epay": {"epay"},
	"k_deployments": {"dep"}, "k_orders": {"ord"}, "k_bids": {"bid"}, "k_leases": {"lease"}, "k_providers": {"prov"}, "k_attests": {"attest"},
	"k_groups": {"dep", "grp"}, "k_ordersforgroup": {"grp", "ord"}, "k_bidsfororder": {"ord", "bid"}, "k_bidcount": {"ord", "bid"},
	"k_leasefororder": {"ord", "bid", "lease"}, "k_attests_owner": {"attest", "prov"},
}

type tnode struct {
	act      chainh.Action
	children map[string]*tnode
	order    []string
	node     *Node // set when an exported state ends here
}

type runner struct {
	q          *Q
	out        *vcommon.Writer
	seen       map[string]bool
	dedup      bool
	chunk      int
	nextID     int
	states     int
	reqs       int
	skipped    int
	perKind    map[string]int
	errs       map[string]int
	sample     *rand.Rand
	maxPer     int // cap of requests per (state, kind); 0 = all
	conc       int // free-running pass: number of goroutines re-issuing a seeded sample of the state's requests concurrently
	concN      int // ... and the size of that sample
	concReq    int
	wwalks     int
	wwRejected int
	snap       *chainh.Snapshot
}

// concurrent re-issues a seeded sample of the requests of a state from several goroutines at once, each on its own
// query context over the same state (as baseapp gives every query its own branch of the committed store). The responses
// are appended to the trace and judged by TLC like the sequential ones.
func (r *runner) concurrent(s *scan, qs []QR) ([]QR, error) {
	if r.conc <= 0 || r.concN <= 0 || len(qs) == 0 {
		return nil, nil
	}
	idx := r.sample.Perm(len(qs))
	if len(idx) > r.concN {
		idx = idx[:r.concN]
	}
	out := make([]QR, len(idx))
	errs := make([]error, r.conc)
	var wg sync.WaitGroup
	for g := 0; g < r.conc; g++ {
		wg.Add(1)
		go func(g int) {
			defer wg.Done()
			ctx := r.q.W.Ctx(r.snap)
			for j := g; j < len(idx); j += r.conc {
				var resp interface{}
				var err error
				switch q := qs[idx[j]].Q.(type) {
				case ListReq:
					resp, err = r.q.List(ctx, s, q.Kind, q.F, q.Pg, nil)
				case WalkReq:
					resp, err = r.q.Walk(ctx, s, q)
				case GetReq:
					resp, err = r.q.Get(ctx, q.Kind, q.C)
				}
				if err != nil {
					errs[g] = err
					return
				}
				out[j] = QR{qs[idx[j]].Q, resp}
			}
		}(g)
	}
	wg.Wait()
	for _, e := range errs {
		if e != nil {
			return nil, fmt.Errorf("concurrent pass: %v", e)
		}
	}
	r.concReq += len(out)
	return out, nil
}

func (r *runner) stamp(s *scan, kind string) string {
	var b strings.Builder
	b.WriteString(kind)
	for _, st := range kindReads[kind] {
		b.WriteString("|" + s.stamp[st])
	}
	return b.String()
}

// ask executes every request of the node's plan at ctx and writes the state line(s).
func (r *runner) ask(ctx sdk.Context, path []chainh.Action, n *Node) error {
	s, err := r.q.Scan(ctx)
	if err != nil {
		return fmt.Errorf("scan: %v", err)
	}
	st, err := r.q.W.Project(ctx)
	if err != nil {
		return fmt.Errorf("projection: %v", err)
	}
	var qs []QR
	count := func(kind string, e string) {
		r.perKind[kind]++
		if e != "" {
			r.errs[kind+":"+strings.SplitN(e, ":", 2)[0]]++
		}
	}
	for _, kind := range listKinds {
		p, ok := n.Plans[kind]
		if !ok {
			continue
		}
		if r.dedup {
			k := r.stamp(s, kind)
			if r.seen[k] {
				r.skipped++
				continue
			}
			r.seen[k] = true
		}
		lists, walks, err := p.Expand()
		if err != nil {
			return err
		}
		if r.maxPer > 0 && len(lists) > r.maxPer {
			r.sample.Shuffle(len(lists), func(i, j int) { lists[i], lists[j] = lists[j], lists[i] })
			lists = lists[:r.maxPer]
		}
		for _, l := range lists {
			resp, err := r.q.List(ctx, s, l.Kind, l.F, l.Pg, nil)
			if err != nil {
				return fmt.Errorf("list %+v: %v", l, err)
			}
			count(kind, resp.Err)
			qs = append(qs, QR{l, resp})
		}
		for _, w := range walks {
			resp, err := r.q.Walk(ctx, s, w)
			if err != nil {
				return fmt.Errorf("walk %+v: %v", w, err)
			}
			count(kind+"/walk", "")
			qs = append(qs, QR{w, resp})
		}
	}
	for _, kind := range getKinds {
		cs, ok := n.Gets[kind]
		if !ok {
			continue
		}
		if r.dedup {
			k := r.stamp(s, kind)
			if r.seen[k] {
				r.skipped++
				continue
			}
			r.seen[k] = true
		}
		for _, c := range cs {
			resp, err := r.q.Get(ctx, kind, c)
			if err != nil {
				return fmt.Errorf("get %s %v: %v", kind, c, err)
			}
			count(kind, resp.Err)
			qs = append(qs, QR{GetReq{"get", kind, c}, resp})
		}
	}
	cq, err := r.concurrent(s, qs)
	if err != nil {
		return err
	}
	qs = append(qs, cq...)
	// the servers are read-only: the stores must be byte-identical after all requests
	s2, err := r.q.Scan(ctx)
	if err != nil {
		return err
	}
	for _, stn := range stores {
		if s.stamp[stn] != s2.stamp[stn] {
			return fmt.Errorf("store %s changed while answering queries", stn)
		}
	}
	if len(qs) == 0 {
		return nil
	}
	r.states++
	r.reqs += len(qs)
	D := s.D()
	if path == nil {
		path = []chainh.Action{} // the root may be the genesis state
	}
	for i := 0; i < len(qs); i += r.chunk {
		j := i + r.chunk
		if j > len(qs) {
			j = len(qs)
		}
		r.nextID++
		if err := r.out.Write(M{"id": r.nextID, "path": path, "S": st, "D": D, "qs": qs[i:j]}); err != nil {
			return err
		}
	}
	return nil
}

// wwalk executes one walk while the chain moves: pages by next_key (verbatim), the scheduled transactions committed
// between them. Every page is recorded with the index of the state it was answered in.
func (r *runner) wwalk(snap *chainh.Snapshot, path []chainh.Action, ww WWalk) error {
	type stateRec struct {
		S interface{} `json:"S"`
		D M           `json:"D"`
	}
	type seg struct {
		Si int  `json:"si"`
		Pg Pg   `json:"pg"`
		R  Resp `json:"r"`
	}
	var states []stateRec
	var segs []seg
	acts := []M{}
	cur := snap
	var ctx sdk.Context
	var sc *scan
	load := func() error {
		ctx = r.q.W.Ctx(cur)
		var err error
		if sc, err = r.q.Scan(ctx); err != nil {
			return err
		}
		st, err := r.q.W.Project(ctx)
		if err != nil {
			return err
		}
		states = append(states, stateRec{st, sc.D()})
		return nil
	}
	if err := load(); err != nil {
		return err
	}
	pg := Pg{Mode: "offset", Limit: ww.Q.Limit, Ct: ww.Q.Ct}
	var raw []byte
	truncated := false
	for {
		resp, err := r.q.List(ctx, sc, ww.Q.Kind, ww.Q.F, pg, raw)
		if err != nil {
			return err
		}
		segs = append(segs, seg{len(states), pg, resp})
		if resp.Err != "" || len(resp.nextRaw) == 0 {
			break
		}
		if len(segs) >= maxWalkPages {
			truncated = true
			break
		}
		wrote := false
		for _, a := range ww.Acts {
			if a.After != len(segs) {
				continue
			}
			var act chainh.Action
			if err := json.Unmarshal(a.A, &act); err != nil {
				return fmt.Errorf("bad wwalk action: %v", err)
			}
			chainh.NormalizeAction(&act)
			if act.Act == "NextBlock" {
				cur = cur.Advance(act.Gap)
			} else {
				c2 := r.q.W.Ctx(cur)
				res, err := r.q.W.RunTx(c2, act)
				if err != nil {
					return err
				}
				if !res.OK {
					// the write side deviates from the model (its conformance is C01-C08's subject): the walk goes on without
					// this write and is judged on what really happened; the check reports the rejection as drift
					r.wwRejected++
					continue
				}
				cur = r.q.W.Dump(c2)
			}
			acts = append(acts, M{"after": a.After, "a": act})
			wrote = true
		}
		if wrote {
			if err := load(); err != nil {
				return err
			}
		}
		pg = Pg{Mode: "key", Key: resp.Next, Limit: ww.Q.Limit, Ct: ww.Q.Ct}
		raw = resp.nextRaw
	}
	if path == nil {
		path = []chainh.Action{}
	}
	q := M{"op": "wwalk", "kind": ww.Q.Kind, "f": ww.Q.F, "limit": ww.Q.Limit, "ct": ww.Q.Ct}
	r.nextID++
	r.wwalks++
	r.reqs += len(segs)
	return r.out.Write(M{"id": r.nextID, "path": path, "ww": true, "q": q, "states": states, "segs": segs, "acts": acts, "truncated": truncated, "qs": []QR{}})
}

func (r *runner) dfs(n *tnode, snap *chainh.Snapshot, path []chainh.Action) error {
	if n.node != nil {
		r.snap = snap
		if err := r.ask(r.q.W.Ctx(snap), path, n.node); err != nil {
			return fmt.Errorf("at path %s: %v", pathStr(path), err)
		}
		for _, ww := range n.node.WWalks {
			if err := r.wwalk(snap, path, ww); err != nil {
				return fmt.Errorf("wwalk at path %s: %v", pathStr(path), err)
			}
		}
	}
	for _, k := range n.order {
		c := n.children[k]
		var post *chainh.Snapshot
		if c.act.Act == "NextBlock" {
			post = snap.Advance(c.act.Gap)
		} else {
			ctx := r.q.W.Ctx(snap)
			res, err := r.q.W.RunTx(ctx, c.act)
			if err != nil {
				return err
			}
			if !res.OK {
				return fmt.Errorf("HARNESS: exported path is not executable on the implementation: %s rejected after %s: %s", c.act.Key(), pathStr(path), res.Err)
			}
			post = r.q.W.Dump(ctx)
		}
		if err := r.dfs(c, post, append(append([]chainh.Action(nil), path...), c.act)); err != nil {
			return err
		}
	}
	return nil
}

func pathStr(p []chainh.Action) string {
	b, _ := json.Marshal(p)
	return string(b)
}

// Main is the entry point of `vh chainq ...`.
func Main(args []string) int {
	if len(args) < 1 || args[0] != "run" {
		fmt.Fprintln(os.Stderr, "usage: vh chainq run --config world.json --nodes nodes.ndjson --out trace.ndjson [--seed n] [--no-dedup] [--chunk n] [--max-per-kind n]")
		return 2
	}
	fs := flag.NewFlagSet("run", flag.ContinueOnError)
	cfgPath := fs.String("config", "", "world config JSON")
	nodesPath := fs.String("nodes", "", "ndjson: one exported state per line {p, plans, gets}")
	outPath := fs.String("out", "trace.ndjson", "output trace")
	seed := fs.Int64("seed", 1, "sampling seed")
	noDedup := fs.Bool("no-dedup", false, "ask every kind at every state")
	chunk := fs.Int("chunk", 200, "requests per trace line")
	maxPer := fs.Int("max-per-kind", 0, "cap of listing requests per (state, kind), seeded sample (0 = all)")
	conc := fs.Int("concurrent", 0, "free-running pass: goroutines re-issuing a sample of each state's requests concurrently")
	concN := fs.Int("concurrent-sample", 200, "requests per state in the free-running pass")
	if err := fs.Parse(args[1:]); err != nil {
		return 2
	}
	var cfg chainh.Config
	b, err := ioutil.ReadFile(*cfgPath)
	if err == nil {
		err = json.Unmarshal(b, &cfg)
	}
	if err != nil {
		fmt.Fprintln(os.Stderr, "config:", err)
		return 2
	}
	t0 := time.Now()
	w, err := chainh.NewWorld(cfg)
	if err != nil {
		fmt.Fprintln(os.Stderr, "world:", err)
		return 2
	}
	root := &tnode{children: map[string]*tnode{}}
	nnodes := 0
	err = vcommon.ReadLines(*nodesPath, func(raw json.RawMessage) error {
		var n Node
		if err := json.Unmarshal(raw, &n); err != nil {
			return fmt.Errorf("bad node line: %v", err)
		}
		var p []chainh.Action
		if err := json.Unmarshal(n.P, &p); err != nil {
			return fmt.Errorf("bad path: %v", err)
		}
		cur := root
		for i := range p {
			chainh.NormalizeAction(&p[i])
			k := p[i].Key()
			c, ok := cur.children[k]
			if !ok {
				c = &tnode{act: p[i], children: map[string]*tnode{}}
				cur.children[k] = c
				cur.order = append(cur.order, k)
			}
			cur = c
		}
		n.P = nil
		cur.node = &n
		nnodes++
		return nil
	})
	if err != nil {
		fmt.Fprintln(os.Stderr, "nodes:", err)
		return 2
	}
	wr, err := vcommon.NewWriter(*outPath)
	if err != nil {
		fmt.Fprintln(os.Stderr, err)
		return 2
	}
	q := &Q{W: w}
	str, byt, err := q.Ranks()
	if err != nil {
		fmt.Fprintln(os.Stderr, err)
		return 2
	}
	if err := wr.Write(M{"hdr": true, "strRank": str, "byteRank": byt}); err != nil {
		fmt.Fprintln(os.Stderr, err)
		return 2
	}
	r := &runner{q: q, out: wr, seen: map[string]bool{}, dedup: !*noDedup, chunk: *chunk, nextID: 1, perKind: map[string]int{}, errs: map[string]int{},
		sample: rand.New(rand.NewSource(*seed)), maxPer: *maxPer, conc: *conc, concN: *concN}
	err = r.dfs(root, w.Genesis(), nil)
	if cerr := wr.Close(); err == nil {
		err = cerr
	}
	if err != nil {
		fmt.Fprintln(os.Stderr, "chainq run:", err)
		return 2
	}
	kinds := []string{}
	for k := range r.perKind {
		kinds = append(kinds, k)
	}
	sort.Strings(kinds)
	sum, _ := json.Marshal(M{"nodes": nnodes, "states_asked": r.states, "requests": r.reqs, "concurrent_requests": r.concReq, "walks_under_writes": r.wwalks, "scheduled_writes_rejected": r.wwRejected, "kinds_skipped_unchanged": r.skipped,
		"per_kind": r.perKind, "errors": r.errs, "lines": r.nextID, "wall_s": time.Since(t0).Seconds()})
	fmt.Println(string(sum))
	return 0
}
