// Package chainqh is the conformance harness of spec/chainq (X01, the read side of the chain modules): it reaches
// chain states by replaying TLC-exported action paths on the real AkashApp (through harness/chainh), issues the
// requests TLC generated for each state against the REAL gRPC query servers (through the application's own
// GRPCQueryRouter, i.e. the services the modules registered) and the escrow keeper's getters, and records request
// and projected response for TLC to judge (ChainQueryTrace.tla).
package chainqh

import (
	"encoding/json"
	"fmt"
)

type M = map[string]interface{}

// Coord addresses a record: <<owner, dseq index, gseq, oseq, provider-or-auditor>> (unused: 0 / "").
type Coord struct {
	A string
	D int
	G int
	O int
	B string
}

func (c Coord) MarshalJSON() ([]byte, error) {
	return json.Marshal([]interface{}{c.A, c.D, c.G, c.O, c.B})
}

func (c *Coord) UnmarshalJSON(b []byte) error {
	var raw []json.RawMessage
	if err := json.Unmarshal(b, &raw); err != nil {
		return err
	}
	if len(raw) != 5 {
		return fmt.Errorf("coordinate with %d fields", len(raw))
	}
	if err := json.Unmarshal(raw[0], &c.A); err != nil {
		return err
	}
	if err := json.Unmarshal(raw[1], &c.D); err != nil {
		return err
	}
	if err := json.Unmarshal(raw[2], &c.G); err != nil {
		return err
	}
	if err := json.Unmarshal(raw[3], &c.O); err != nil {
		return err
	}
	return json.Unmarshal(raw[4], &c.B)
}

var NoKey = Coord{}

type Filter struct {
	Owner    string `json:"owner"`
	DSeq     int    `json:"dseq"`
	GSeq     int    `json:"gseq"`
	OSeq     int    `json:"oseq"`
	Provider string `json:"provider"`
	State    string `json:"state"`
	Auditor  string `json:"auditor"`
}

type Pg struct {
	Mode   string `json:"mode"` // none | offset | key | both
	Key    Coord  `json:"key"`
	Offset int    `json:"offset"`
	Limit  int    `json:"limit"`
	Ct     bool   `json:"ct"`
}

// ListReq / WalkReq / GetReq have exactly the shapes of the request records of ChainQuery.tla.
type ListReq struct {
	Op   string `json:"op"`
	Kind string `json:"kind"`
	F    Filter `json:"f"`
	Pg   Pg     `json:"pg"`
}

type WalkReq struct {
	Op    string `json:"op"`
	Kind  string `json:"kind"`
	F     Filter `json:"f"`
	Limit int    `json:"limit"`
	Ct    bool   `json:"ct"`
}

type GetReq struct {
	Op   string `json:"op"`
	Kind string `json:"kind"`
	C    Coord  `json:"c"`
}

// Resp is a projected response: err class, the returned records, next_key as coordinates, total.
type Resp struct {
	Err   string `json:"err"`
	Items []M    `json:"items"`
	Next  Coord  `json:"next"`
	Total int    `json:"total"`
	// not part of the judged value
	msg     string
	nextRaw []byte
}

type WalkPage struct {
	Pg Pg   `json:"pg"`
	R  Resp `json:"r"`
}

type WalkResp struct {
	Pages     []WalkPage `json:"pages"`
	Truncated bool       `json:"truncated"`
}

type QR struct {
	Q interface{} `json:"q"`
	R interface{} `json:"r"`
}

// Plan is the factored request plan of one listing kind, as exported by TLC (ChainQuery!Plan).
type Plan struct {
	Kind    string           `json:"kind"`
	Rich    []Filter         `json:"rich"`
	RichPg  []Pg             `json:"richpg"`
	KeyF    []Filter         `json:"keyf"`
	KeyPg   []Pg             `json:"keypg"`
	All     []Filter         `json:"all"`
	BasicPg []Pg             `json:"basicpg"`
	Walks   [][2]interface{} `json:"walks"`
}

// WWAct is a transaction committed during a walk, after `After` pages have been answered.
type WWAct struct {
	After int             `json:"after"`
	A     json.RawMessage `json:"a"`
}

// WWalk is one schedule of a walk while the chain moves (ChainQuery part 5), as exported by TLC.
type WWalk struct {
	Q    WalkReq `json:"q"`
	Acts []WWAct `json:"acts"`
}

// Node is one exported chain state: its action path, the listing plans, the Get coordinates, the walks under writes.
type Node struct {
	P      json.RawMessage    `json:"p"`
	Plans  map[string]Plan    `json:"plans"`
	Gets   map[string][]Coord `json:"gets"`
	WWalks []WWalk            `json:"wwalks"`
}

var listKinds = []string{"deployments", "orders", "bids", "leases", "providers", "audits", "auditor", "eaccts", "epays",
	"k_deployments", "k_orders", "k_bids", "k_leases", "k_providers", "k_attests"}
var getKinds = []string{"deployment", "group", "order", "bid", "lease", "provider", "audit_owner", "audit_pair", "eacct", "epay",
	"k_groups", "k_ordersforgroup", "k_bidsfororder", "k_bidcount", "k_leasefororder", "k_attests_owner"}

// Expand turns a plan into the requests ChainQuery!Lists and ChainQuery!Walks define.
func (p Plan) Expand() (lists []ListReq, walks []WalkReq, err error) {
	for _, f := range p.Rich {
		for _, pg := range p.RichPg {
			lists = append(lists, ListReq{"list", p.Kind, f, pg})
		}
	}
	for _, f := range p.KeyF {
		for _, pg := range p.KeyPg {
			lists = append(lists, ListReq{"list", p.Kind, f, pg})
		}
	}
	for _, f := range p.All {
		for _, pg := range p.BasicPg {
			lists = append(lists, ListReq{"list", p.Kind, f, pg})
		}
	}
	for _, f := range p.Rich {
		for _, w := range p.Walks {
			n, ok1 := w[0].(float64)
			b, ok2 := w[1].(bool)
			if !ok1 || !ok2 {
				return nil, nil, fmt.Errorf("bad walk shape %v", w)
			}
			walks = append(walks, WalkReq{"walk", p.Kind, f, int(n), b})
		}
	}
	return lists, walks, nil
}
