//go:build verif
// +build verif

package bidh

import (
	"math/rand"
	"runtime"
	"sync"
	"time"
)

// freeCfg makes the scripted neighbours answer on their own: random result, random small delay.
type freeCfg struct {
	mu  sync.Mutex
	rng *rand.Rand
}

func (f *freeCfg) intn(n int) int {
	f.mu.Lock()
	defer f.mu.Unlock()
	return f.rng.Intn(n)
}

func (f *freeCfg) pause() {
	switch f.intn(4) {
	case 0:
	case 1:
		runtime.Gosched()
	default:
		time.Sleep(time.Duration(f.intn(400)) * time.Microsecond)
	}
}

func (f *freeCfg) decide(s *scenario, op string) answer {
	f.pause()
	x := f.intn(100)
	switch op {
	case "qbid":
		switch {
		case x < 25:
			return answer{r: "open"}
		case x < 37:
			return answer{r: "closed"}
		case x < 42:
			return answer{r: "lost"}
		case x < 47:
			return answer{r: "active"}
		case x < 88:
			return answer{r: "notfound", p: int64(1 + f.intn(3))}
		case x < 94:
			return answer{r: "errbid", p: int64(1 + f.intn(4))} // lookup fails, a bid of ours exists on chain
		}
		return answer{r: "err", p: int64(1 + f.intn(4))}
	case "should":
		if x < 85 {
			return answer{r: "yes"}
		} else if x < 93 {
			return answer{r: "no"}
		}
		return answer{r: "err"}
	case "price":
		if x < 90 {
			return answer{r: "ok", p: int64(MaxPrice - 3 + f.intn(6))}
		}
		return answer{r: "err"}
	}
	if x < 90 {
		return answer{r: "ok"}
	}
	return answer{r: "err"}
}

func (f *freeCfg) decideFail(s *scenario) bool { return f.intn(100) < 15 }

// runFree runs one scenario without gates: neighbours answer on their own while a driver publishes chain
// events, fires the timeout and requests shutdown at random moments.
func runFree(sid int, seed int64, wt time.Duration) ([]line, outcome) {
	out := outcome{Sid: sid}
	rng := rand.New(rand.NewSource(seed))
	mode := "fresh"
	if rng.Intn(100) < 40 {
		mode = "catchup"
	}
	s := newScenario(sid, mode, rng.Intn(100) < 70)
	s.free = &freeCfg{rng: rng}
	defer s.stop()
	if err := s.start(); err != nil {
		out.Status, out.Detail = "error", err.Error()
		return nil, out
	}
	f := s.free
	leased, shut, fired := false, false, false
	isDone := func() bool {
		_, ok := s.wait(0, is("done"), 0)
		return ok
	}
	stim := func(k string) {
		switch k {
		case "shutdown":
			if shut {
				return
			}
			// a shutdown that precedes the creation of the monitor leaves nothing to observe
			if _, ok := s.wait(0, is("select"), wt); !ok {
				return
			}
			shut = true
			s.rec(line{"e": "shutdown"})
			s.cancel()
		case "fire":
			if fired {
				return
			}
			select {
			case <-s.timerArmed:
			default:
				return
			}
			fired = true
			s.rec(line{"e": "fire"})
			s.timerCh <- time.Now()
		case "won", "lost":
			s.mu.Lock()
			cb, cl := s.chainBid, s.chainLeased
			s.mu.Unlock()
			if leased || cl {
				return
			}
			if k == "won" && !cb {
				return
			}
			leased = true
			fallthrough
		default:
			s.rec(line{"e": "pub", "k": k})
			_ = s.bus.Publish(s.event(k))
		}
		out.Steps++
	}
	kinds := []string{"other", "xclosed", "created", "xowner", "xowner", "xownerp", "xdseq", "closed", "lost", "won", "won", "shutdown", "fire", "fire"}
	n := f.intn(4)
	for i := 0; i < n && !isDone(); i++ {
		time.Sleep(time.Duration(f.intn(1500)) * time.Microsecond)
		stim(kinds[f.intn(len(kinds))])
	}
	// give the pipeline a moment, then make sure handling of the order ends
	if _, ok := s.wait(0, is("done"), time.Duration(5+f.intn(20))*time.Millisecond); !ok {
		enders := []string{"closed", "shutdown", "fire", "lost", "won"}
		stim(enders[f.intn(len(enders))])
		if _, ok := s.wait(0, is("done"), 20*time.Millisecond); !ok {
			stim("shutdown")
		}
	}
	out.Status = "ok"
	if _, ok := s.wait(0, is("done"), wt); !ok {
		out.Status, out.Detail = "stuck", "the order monitor did not terminate after shutdown"
	}
	return s.cut(&out), out
}
