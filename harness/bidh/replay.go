//go:build verif
// +build verif

package bidh

import (
	"fmt"
	"time"
)

// step is one stimulus of a TLC behaviour (the `hist` variable of BidEngine.tla).
type step struct {
	A    string `json:"a"`
	O    string `json:"o,omitempty"`
	R    string `json:"r,omitempty"`
	P    int64  `json:"p,omitempty"`
	K    string `json:"k,omitempty"`
	Mode string `json:"mode,omitempty"`
	Tcfg bool   `json:"tcfg,omitempty"`
}

type script struct {
	Sid   int    `json:"sid"`
	Steps []step `json:"steps"`
}

type outcome struct {
	Sid     int      `json:"sid"`
	Status  string   `json:"status"` // ok | drift | stuck | error
	Detail  string   `json:"detail,omitempty"`
	Timeout bool     `json:"timeout,omitempty"` // a wait timed out (stall or hang), as opposed to an immediate deviation
	Notes   []string `json:"notes,omitempty"`
	Lines   int      `json:"lines"`
	Steps   int      `json:"steps"`
}

var caseOf = map[string]string{"qbid": "querybid", "group": "group", "should": "shouldbid", "reserve": "reserve",
	"price": "price", "bcast": "bid"}

// forced drives one scenario through a script, making at most one select case ready at a time: the next
// stimulus is applied only after the hooks reported the iteration that consumed the previous one and the
// calls that iteration launched have reached their gates.
type forced struct {
	s        *scenario
	wt       time.Duration
	pc       string // loop | exit
	parked   bool
	gReady   bool // the parked group query has been answered
	pending  int  // stimuli applied that the loop has not consumed yet
	cursor   int  // lines before cursor have been looked at for loop lines
	timedOut bool
	released map[string]bool
}

// fail reports an immediate deviation from the script (no waiting involved).
func (f *forced) fail(format string, a ...interface{}) error {
	return fmt.Errorf(format, a...)
}

// timeout reports a wait that did not complete.
func (f *forced) timeout(format string, a ...interface{}) error {
	f.timedOut = true
	return fmt.Errorf("timeout: "+format, a...)
}

// ensureStarted waits until every operation the loop reports in flight has reached its neighbour.
func (f *forced) ensureStarted(l line) error {
	need := map[string]string{"g": "group", "sg": "group", "sb": "should", "cl": "reserve", "pr": "price", "bd": "bcast"}
	for k, op := range need {
		if !bflag(l, k) {
			continue
		}
		select {
		case <-f.s.gates[op].started:
		case <-time.After(f.wt):
			return f.timeout("operation %s reported in flight but its call never reached the neighbour", op)
		}
	}
	return nil
}

// iteration waits for the next loop iteration (a "case" line and the "select"/"exit" line that follows it).
func (f *forced) iteration() error {
	i, ok := f.s.wait(f.cursor, is("case"), f.wt)
	if !ok {
		return f.timeout("the loop did not consume a ready stimulus (pending=%d)", f.pending)
	}
	c, _ := f.s.lineAt(i)["c"].(string)
	j, ok := f.s.wait(i+1, func(l line) bool { return l["e"] == "select" || l["e"] == "exit" }, f.wt)
	if !ok {
		return f.timeout("no select/exit line after case %s", c)
	}
	f.cursor = j + 1
	f.pending--
	l := f.s.lineAt(j)
	if l["e"] == "exit" {
		f.pc = "exit"
		return nil
	}
	if c == "querybid" && f.parked {
		f.parked = false
		if f.gReady {
			f.pending++
		}
	}
	return f.ensureStarted(l)
}

func (f *forced) settle() error {
	for f.pc == "loop" && f.pending > 0 {
		if err := f.iteration(); err != nil {
			return err
		}
	}
	return nil
}

func (f *forced) run(steps []step) error {
	s := f.s
	// initial iteration report
	j, ok := s.wait(0, is("select"), f.wt)
	if !ok {
		return f.timeout("the order monitor did not start")
	}
	f.cursor = j + 1
	if err := f.ensureStarted(s.lineAt(j)); err != nil {
		return err
	}
	if s.mode == "catchup" {
		select {
		case <-s.gates["qbid"].started:
		case <-time.After(f.wt):
			return f.timeout("existing-bid query never issued")
		}
	}
	for i, st := range steps {
		// in the model every reservation / pricing / broadcast that was started is answered before the monitor
		// terminates: one the rest of the script never answers was not started in the model
		for _, op := range []string{"reserve", "price", "bcast"} {
			select {
			case <-s.gates[op].started:
			default:
				continue
			}
			if f.released[op] {
				continue
			}
			later := false
			for _, x := range steps[i:] {
				if x.A == "complete" && x.O == op {
					later = true
				}
			}
			if !later {
				return f.fail("%s was started but the script never answers it", op)
			}
		}
		switch st.A {
		case "begin", "unres", "close":
		case "complete":
			g := s.gates[st.O]
			select {
			case <-g.started:
			default:
				// the loop is blocked and everything it launched has reached its gate: it will never be called
				return f.fail("script completes %s but it was not called", st.O)
			}
			mark := s.nlines()
			f.released[st.O] = true
			g.release <- answer{r: st.R, p: st.P}
			if _, ok := s.wait(mark, func(l line) bool { return l["e"] == "call" && l["c"] == callName[st.O] && l["ph"] == "end" }, f.wt); !ok {
				return f.timeout("call %s did not return", st.O)
			}
			if f.pc == "loop" {
				if st.O == "group" && f.parked {
					f.gReady = true
				} else {
					f.pending++
				}
			}
		case "pub":
			s.rec(line{"e": "pub", "k": st.K})
			if err := s.bus.Publish(s.event(st.K)); err != nil {
				return f.fail("publish: %v", err)
			}
			if f.pc == "loop" {
				f.pending++
			}
		case "shutdown":
			s.rec(line{"e": "shutdown"})
			s.cancel()
			if f.pc == "loop" {
				f.pending++
			}
		case "fire":
			select {
			case <-s.timerArmed:
			default:
				return f.fail("script fires the bid timeout but it was not armed")
			}
			s.rec(line{"e": "fire"})
			s.timerCh <- time.Now()
			if f.pc == "loop" {
				f.pending++
			}
		default:
			return f.fail("unknown step %q", st.A)
		}
		if err := f.settle(); err != nil {
			return err
		}
	}
	if f.pc == "loop" {
		return f.fail("the script ended but the loop has not exited")
	}
	// the exit path waits for these; a script of the model completes them all
	for _, op := range []string{"group", "reserve", "price", "bcast"} {
		if op == "group" && f.parked {
			continue
		}
		select {
		case <-s.gates[op].started:
			if !f.released[op] {
				return f.fail("the script ended with %s in flight", op)
			}
		default:
		}
	}
	if _, ok := s.wait(0, is("done"), f.wt); !ok {
		return f.timeout("the order monitor did not terminate after the script (pc=%s)", f.pc)
	}
	return nil
}

// onItsOwn continues an execution that left its script, still one stimulus at a time: every call the monitor has
// outstanding succeeds, until the monitor is blocked with nothing in flight or has left the loop. (Then the caller
// shuts it down.) What the code does after deviating is thereby observed instead of cut short by failures.
func (f *forced) onItsOwn() {
	if f.timedOut {
		return
	}
	good := map[string]answer{"qbid": {r: "notfound"}, "group": {r: "ok"}, "should": {r: "yes"}, "reserve": {r: "ok"},
		"price": {r: "ok", p: MaxPrice}, "bcast": {r: "ok"}}
	for round := 0; round < 16; round++ {
		progressed := false
		for _, op := range opNames {
			g := f.s.gates[op]
			select {
			case <-g.started:
			default:
				continue
			}
			if f.released[op] {
				continue
			}
			f.released[op] = true
			mark := f.s.nlines()
			g.release <- good[op]
			if _, ok := f.s.wait(mark, func(l line) bool { return l["e"] == "call" && l["c"] == callName[op] && l["ph"] == "end" }, f.wt); !ok {
				return
			}
			progressed = true
			if f.pc == "loop" {
				if op == "group" && f.parked {
					f.gReady = true
				} else {
					f.pending++
				}
			}
			if f.settle() != nil {
				return
			}
		}
		if !progressed {
			return
		}
	}
}

// runScript executes one script on a fresh service and returns the recorded lines up to "done".
func runScript(sc script, wt time.Duration) ([]line, outcome) {
	out := outcome{Sid: sc.Sid, Steps: len(sc.Steps)}
	mode, tcfg := "fresh", true
	if len(sc.Steps) > 0 && sc.Steps[0].A == "begin" {
		mode, tcfg = sc.Steps[0].Mode, sc.Steps[0].Tcfg
	}
	s := newScenario(sc.Sid, mode, tcfg)
	for _, st := range sc.Steps {
		if st.A == "unres" && st.R == "err" {
			s.unresErr = true
		}
		if st.A == "close" && st.R == "err" {
			s.closeErr = true
		}
	}
	defer s.stop()
	if err := s.start(); err != nil {
		out.Status, out.Detail = "error", err.Error()
		return nil, out
	}
	f := &forced{s: s, wt: wt, pc: "loop", parked: mode == "catchup", released: map[string]bool{}}
	err := f.run(sc.Steps)
	out.Status = "ok"
	if err != nil {
		// bail out: let everything go and see whether the monitor still terminates; the execution is a real one
		// and is judged like any other, but it is not the scripted one
		out.Status, out.Detail, out.Timeout = "drift", err.Error(), f.timedOut
		f.onItsOwn()
		s.cancel()
		s.closeGates()
		if _, ok := s.wait(0, is("done"), wt); !ok {
			out.Status, out.Timeout = "stuck", true
		}
	}
	return s.cut(&out), out
}

// cut returns the lines up to and including "done" (all of them when the monitor never terminated).
func (s *scenario) cut(out *outcome) []line {
	s.mu.Lock()
	defer s.mu.Unlock()
	out.Notes = append(out.Notes, s.notes...)
	res := s.lines
	for i, l := range s.lines {
		if l["e"] == "done" {
			res = s.lines[:i+1]
			break
		}
	}
	cp := make([]line, len(res))
	copy(cp, res)
	out.Lines = len(cp)
	return cp
}
