//go:build verif
// +build verif

package bidh

import (
	"encoding/json"
	"flag"
	"fmt"
	"os"
	"sort"
	"sync"
	"time"

	"verif/harness/vcommon"
)

// Main is the entry point of `vh bid ...`.
//
//	vh bid replay -scripts scripts.ndjson -out trace.ndjson   forced replay of TLC behaviours
//	vh bid random -seed S -n N -out trace.ndjson              free-running randomised driver
//
// Both write the concatenated traces to -out and a JSON summary to stdout. Exit 0 unless the harness itself failed.
func Main(args []string) int {
	if len(args) < 1 {
		fmt.Fprintln(os.Stderr, "usage: vh bid replay|random ...")
		return 2
	}
	fs := flag.NewFlagSet("bid "+args[0], flag.ContinueOnError)
	scripts := fs.String("scripts", "", "ndjson file of scripts")
	outp := fs.String("out", "trace.ndjson", "trace output")
	workers := fs.Int("workers", 8, "concurrent scenarios")
	waitMs := fs.Int("wait-ms", 20000, "timeout of every event-driven wait")
	seed := fs.Int64("seed", 1, "seed (random)")
	n := fs.Int("n", 100, "number of free-running scenarios (random)")
	if err := fs.Parse(args[1:]); err != nil {
		return 2
	}
	wt := time.Duration(*waitMs) * time.Millisecond

	type job func() ([]line, outcome)
	var jobs []job
	switch args[0] {
	case "replay":
		var list []script
		err := vcommon.ReadLines(*scripts, func(raw json.RawMessage) error {
			var sc script
			if e := json.Unmarshal(raw, &sc); e != nil {
				return e
			}
			list = append(list, sc)
			return nil
		})
		if err != nil {
			fmt.Fprintln(os.Stderr, "reading scripts:", err)
			return 2
		}
		for _, sc := range list {
			sc := sc
			jobs = append(jobs, func() ([]line, outcome) { return runScript(sc, wt) })
		}
	case "random":
		for i := 0; i < *n; i++ {
			sid := i + 1
			jobs = append(jobs, func() ([]line, outcome) { return runFree(sid, *seed*1000003+int64(sid), wt) })
		}
	default:
		fmt.Fprintln(os.Stderr, "unknown sub-command", args[0])
		return 2
	}

	type res struct {
		lines []line
		out   outcome
	}
	results := make([]res, len(jobs))
	var wg sync.WaitGroup
	ch := make(chan int)
	for w := 0; w < *workers; w++ {
		wg.Add(1)
		go func() {
			defer wg.Done()
			for i := range ch {
				l, o := jobs[i]()
				results[i] = res{l, o}
			}
		}()
	}
	t0 := time.Now()
	for i := range jobs {
		ch <- i
	}
	close(ch)
	wg.Wait()

	w, err := vcommon.NewWriter(*outp)
	if err != nil {
		fmt.Fprintln(os.Stderr, err)
		return 2
	}
	sort.SliceStable(results, func(i, j int) bool { return results[i].out.Sid < results[j].out.Sid })
	sum := struct {
		Scenarios int       `json:"scenarios"`
		Lines     int       `json:"lines"`
		Steps     int       `json:"steps"`
		WallMs    int64     `json:"wall_ms"`
		Outcomes  []outcome `json:"outcomes"`
	}{Scenarios: len(results)}
	for _, r := range results {
		// only terminated executions are judged; the others are reported through their outcome
		if r.out.Status == "ok" || r.out.Status == "drift" {
			for _, l := range r.lines {
				if err := w.Write(l); err != nil {
					fmt.Fprintln(os.Stderr, err)
					return 2
				}
			}
			sum.Lines += len(r.lines)
		}
		sum.Steps += r.out.Steps
		sum.Outcomes = append(sum.Outcomes, r.out)
	}
	if err := w.Close(); err != nil {
		fmt.Fprintln(os.Stderr, err)
		return 2
	}
	sum.WallMs = time.Since(t0).Milliseconds()
	b, _ := json.Marshal(sum)
	fmt.Println(string(b))
	return 0
}
