//go:build verif
// +build verif

// Package bidh binds spec/bid/BidEngine.tla to the real provider bid engine: it runs the real
// bidengine.NewService on a real pubsub bus with scripted query / tx clients, cluster and pricing strategy
// that double as scheduling gates, and records one ndjson line per step (neighbour call start/end, stimulus,
// loop iteration as reported by the veriftrace hooks in provider/bidengine/order.go).
package bidh

import (
	"context"
	"errors"
	"fmt"
	"sync"
	"time"

	sdk "github.com/cosmos/cosmos-sdk/types"
	"github.com/tendermint/tendermint/libs/log"
	"google.golang.org/grpc"
	"google.golang.org/grpc/codes"
	"google.golang.org/grpc/status"

	"github.com/ovrclk/akash/client"
	"github.com/ovrclk/akash/client/broadcaster"
	"github.com/ovrclk/akash/provider/bidengine"
	ctypes "github.com/ovrclk/akash/provider/cluster/types"
	"github.com/ovrclk/akash/provider/session"
	"github.com/ovrclk/akash/pubsub"
	atypes "github.com/ovrclk/akash/types"
	"github.com/ovrclk/akash/util/veriftrace"
	audittypes "github.com/ovrclk/akash/x/audit/types"
	dtypes "github.com/ovrclk/akash/x/deployment/types"
	mquery "github.com/ovrclk/akash/x/market/query"
	mtypes "github.com/ovrclk/akash/x/market/types"
	ptypes "github.com/ovrclk/akash/x/provider/types"
)

const (
	denom     = "uakt"
	unitPrice = 23
	unitCount = 2
	// MaxPrice is the order's maximum price (= MaxPrice of the TLA+ configs)
	MaxPrice = unitPrice * unitCount
)

type line = map[string]interface{}

type answer struct {
	r string
	p int64
}

// gate blocks one asynchronous operation of the order monitor inside the scripted neighbour until the
// harness decides its result.
type gate struct {
	once    sync.Once
	started chan struct{}
	release chan answer
	closed  bool
}

func newGate() *gate { return &gate{started: make(chan struct{}), release: make(chan answer, 4)} }

var opNames = []string{"qbid", "group", "should", "reserve", "price", "bcast"}

var callName = map[string]string{"qbid": "Bid", "group": "Group", "should": "Auditor", "reserve": "Reserve",
	"price": "Price", "bcast": "CreateBid"}

type scenario struct {
	sid  int
	mode string
	tcfg bool

	oid      mtypes.OrderID
	path     string
	provider sdk.AccAddress
	other    sdk.AccAddress
	tenant2  sdk.AccAddress
	auditor  string
	group    dtypes.Group

	mu    sync.Mutex
	lines []line
	sig   chan struct{}

	gates    map[string]*gate
	unresErr bool
	closeErr bool

	timerCh    chan time.Time
	timerArmed chan struct{}
	armOnce    sync.Once

	chainBid    bool
	chainLeased bool
	reservedAs  mtypes.OrderID // the id the monitor passed to Reserve
	free        *freeCfg

	bus    pubsub.Bus
	svc    bidengine.Service
	cancel context.CancelFunc

	notes []string
}

// ---------------------------------------------------------------------------------------------------
// process-wide routing of hook output to scenarios (scenarios run concurrently, one order id each)

var (
	routes   sync.Map // order path -> *scenario
	initOnce sync.Once
)

func installHooks() {
	initOnce.Do(func() {
		veriftrace.SetSink(func(ev veriftrace.Event) {
			if ev.Component != "bidengine.order" {
				return
			}
			v, ok := routes.Load(ev.ID)
			if !ok {
				return
			}
			s := v.(*scenario)
			l := line{"e": ev.Event}
			for k, val := range ev.KV {
				l[k] = val
			}
			if ev.Event == "done" {
				l["max"] = MaxPrice
			}
			s.rec(l)
		})
		bidengine.VerifTimer = func(order string, d time.Duration) <-chan time.Time {
			v, ok := routes.Load(order)
			if !ok {
				return nil
			}
			s := v.(*scenario)
			s.armOnce.Do(func() { close(s.timerArmed) })
			return s.timerCh
		}
	})
}

func addr(tag string, n int) sdk.AccAddress {
	b := make([]byte, 20)
	copy(b, []byte(fmt.Sprintf("%s%012d", tag, n)))
	return sdk.AccAddress(b)
}

func newScenario(sid int, mode string, tcfg bool) *scenario {
	installHooks()
	s := &scenario{sid: sid, mode: mode, tcfg: tcfg, sig: make(chan struct{}), gates: map[string]*gate{},
		timerCh: make(chan time.Time, 1), timerArmed: make(chan struct{})}
	for _, o := range opNames {
		s.gates[o] = newGate()
	}
	owner := addr("tenant", 0)
	s.provider = addr("provider", 0)
	s.other = addr("rival", 0)
	s.tenant2 = addr("tenant", 2)
	s.auditor = addr("auditor", 0).String()
	gid := dtypes.GroupID{Owner: owner.String(), DSeq: uint64(1000 + sid), GSeq: 1}
	s.oid = mtypes.MakeOrderID(gid, 1)
	s.path = mquery.OrderPath(s.oid)

	vc := dtypes.GetValidationConfig()
	units := atypes.ResourceUnits{
		CPU:     &atypes.CPU{Units: atypes.NewResourceValue(uint64(vc.MinUnitCPU))},
		Memory:  &atypes.Memory{Quantity: atypes.NewResourceValue(vc.MinUnitMemory)},
		Storage: &atypes.Storage{Quantity: atypes.NewResourceValue(vc.MinUnitStorage)},
	}
	s.group = dtypes.Group{
		GroupID: gid,
		State:   dtypes.GroupOpen,
		GroupSpec: dtypes.GroupSpec{
			Name:         "g",
			Requirements: atypes.PlacementRequirements{SignedBy: atypes.SignedBy{AllOf: []string{s.auditor}}},
			Resources: []dtypes.Resource{{Resources: units, Count: unitCount,
				Price: sdk.NewInt64Coin(denom, unitPrice)}},
		},
	}
	routes.Store(s.path, s)
	return s
}

func (s *scenario) rec(l line) int {
	l["sid"] = s.sid
	s.mu.Lock()
	s.lines = append(s.lines, l)
	n := len(s.lines)
	old := s.sig
	s.sig = make(chan struct{})
	s.mu.Unlock()
	close(old)
	return n
}

func (s *scenario) nlines() int {
	s.mu.Lock()
	defer s.mu.Unlock()
	return len(s.lines)
}

// wait returns the index of the first line at or after from that satisfies pred.
func (s *scenario) wait(from int, pred func(line) bool, d time.Duration) (int, bool) {
	t := time.NewTimer(d)
	defer t.Stop()
	for {
		s.mu.Lock()
		for i := from; i < len(s.lines); i++ {
			if pred(s.lines[i]) {
				s.mu.Unlock()
				return i, true
			}
		}
		from = len(s.lines)
		sig := s.sig
		s.mu.Unlock()
		select {
		case <-sig:
		case <-t.C:
			return -1, false
		}
	}
}

func (s *scenario) lineAt(i int) line {
	s.mu.Lock()
	defer s.mu.Unlock()
	return s.lines[i]
}

func is(e string) func(line) bool { return func(l line) bool { return l["e"] == e } }

func bflag(l line, k string) bool { b, _ := l[k].(bool); return b }

// ---------------------------------------------------------------------------------------------------
// start / stop of the real service

func (s *scenario) start() error {
	s.rec(line{"e": "begin", "mode": s.mode, "tcfg": s.tcfg, "max": MaxPrice})
	cl := &scriptedClient{q: &queryClient{s: s}, tx: &txClient{s: s}}
	sess := session.New(log.NewNopLogger(), cl, &ptypes.Provider{Owner: s.provider.String()})
	s.bus = pubsub.NewBus()
	cfg := bidengine.Config{PricingStrategy: &pricing{s: s}, Deposit: mtypes.DefaultBidMinDeposit}
	if s.tcfg {
		cfg.BidTimeout = time.Hour // the channel is replaced through bidengine.VerifTimer
	}
	ctx, cancel := context.WithCancel(context.Background())
	s.cancel = cancel
	svc, err := bidengine.NewService(ctx, sess, &cluster{s: s}, s.bus, cfg)
	if err != nil {
		cancel()
		return err
	}
	s.svc = svc
	if s.mode == "fresh" {
		return s.bus.Publish(mtypes.EventOrderCreated{ID: s.oid})
	}
	return nil
}

func (s *scenario) closeGates() {
	s.mu.Lock()
	defer s.mu.Unlock()
	for _, g := range s.gates {
		if !g.closed {
			g.closed = true
			close(g.release)
		}
	}
}

func (s *scenario) stop() {
	s.closeGates()
	if s.cancel != nil {
		s.cancel()
	}
	routes.Delete(s.path)
	svc, bus := s.svc, s.bus
	go func() {
		if svc != nil {
			select {
			case <-svc.Done():
			case <-time.After(2 * time.Second):
			}
		}
		if bus != nil {
			bus.Close()
		}
	}()
}

func (s *scenario) event(k string) pubsub.Event {
	switch k {
	case "closed":
		return mtypes.EventOrderClosed{ID: s.oid}
	case "xclosed":
		o := s.oid
		o.OSeq++
		return mtypes.EventOrderClosed{ID: o}
	case "lost":
		return mtypes.EventLeaseCreated{ID: mtypes.MakeLeaseID(mtypes.MakeBidID(s.oid, s.other)), Price: sdk.NewInt64Coin(denom, 1)}
	case "won":
		return mtypes.EventLeaseCreated{ID: mtypes.MakeLeaseID(mtypes.MakeBidID(s.oid, s.provider)), Price: sdk.NewInt64Coin(denom, 1)}
	case "created":
		return mtypes.EventOrderCreated{ID: s.oid}
	case "xowner": // another tenant's order at the same dseq/gseq/oseq, leased to this provider
		o := s.oid
		o.Owner = s.tenant2.String()
		return mtypes.EventLeaseCreated{ID: mtypes.MakeLeaseID(mtypes.MakeBidID(o, s.provider)), Price: sdk.NewInt64Coin(denom, 1)}
	case "xownerp": // ... leased to another provider
		o := s.oid
		o.Owner = s.tenant2.String()
		return mtypes.EventLeaseCreated{ID: mtypes.MakeLeaseID(mtypes.MakeBidID(o, s.other)), Price: sdk.NewInt64Coin(denom, 1)}
	case "xdseq": // another deployment of the same tenant, same gseq/oseq, leased to this provider
		o := s.oid
		o.DSeq += 500000
		return mtypes.EventLeaseCreated{ID: mtypes.MakeLeaseID(mtypes.MakeBidID(o, s.provider)), Price: sdk.NewInt64Coin(denom, 1)}
	case "other":
		o := s.oid
		o.GSeq++
		return mtypes.EventLeaseCreated{ID: mtypes.MakeLeaseID(mtypes.MakeBidID(o, s.provider)), Price: sdk.NewInt64Coin(denom, 1)}
	}
	panic("unknown event kind " + k)
}

// ---------------------------------------------------------------------------------------------------
// scripted neighbours

// opCall is the body of every gated neighbour call.
func (s *scenario) opCall(op string, price int64) answer {
	s.rec(line{"e": "call", "c": callName[op], "ph": "start", "r": "", "price": price})
	g := s.gates[op]
	first := false
	g.once.Do(func() { first = true; close(g.started) })
	var a answer
	if s.free != nil {
		a = s.free.decide(s, op)
	} else if !first {
		// the model issues every operation at most once: a repeated call is not scripted; it fails at once
		s.note("operation " + op + " called again")
		a = answer{r: "err"}
	} else {
		var ok bool
		a, ok = <-g.release
		if !ok {
			a = answer{r: "err"}
		}
	}
	s.rec(line{"e": "call", "c": callName[op], "ph": "end", "r": a.r, "price": a.p})
	if (op == "qbid" && (a.r == "open" || a.r == "errbid")) || (op == "bcast" && a.r == "ok") {
		s.mu.Lock()
		s.chainBid = true
		s.mu.Unlock()
	}
	if op == "qbid" && (a.r == "active" || a.r == "lost") {
		s.mu.Lock()
		s.chainLeased = true // the order's lease exists already
		s.mu.Unlock()
	}
	return a
}

func (s *scenario) plainCall(name string, fail bool) error {
	s.rec(line{"e": "call", "c": name, "ph": "start", "r": "", "price": 0})
	if s.free != nil {
		fail = s.free.decideFail(s)
	}
	r := "ok"
	if fail {
		r = "err"
	}
	s.rec(line{"e": "call", "c": name, "ph": "end", "r": r, "price": 0})
	if fail {
		return errors.New("scripted failure of " + name)
	}
	return nil
}

type scriptedClient struct {
	q  *queryClient
	tx *txClient
}

func (c *scriptedClient) Query() client.QueryClient { return c.q }
func (c *scriptedClient) Tx() broadcaster.Client    { return c.tx }

// queryClient implements the four queries the bid engine issues; any other query panics (nil embedded interface).
type queryClient struct {
	client.QueryClient
	s *scenario
}

func (q *queryClient) Orders(ctx context.Context, in *mtypes.QueryOrdersRequest, _ ...grpc.CallOption) (*mtypes.QueryOrdersResponse, error) {
	res := &mtypes.QueryOrdersResponse{}
	if q.s.mode == "catchup" {
		res.Orders = mtypes.Orders{{OrderID: q.s.oid, State: mtypes.OrderOpen, Spec: q.s.group.GroupSpec}}
	}
	return res, nil
}

func (q *queryClient) Group(ctx context.Context, in *dtypes.QueryGroupRequest, _ ...grpc.CallOption) (*dtypes.QueryGroupResponse, error) {
	a := q.s.opCall("group", 0)
	if a.r != "ok" {
		return nil, errors.New("scripted failure of the group query")
	}
	return &dtypes.QueryGroupResponse{Group: q.s.group}, nil
}

func (q *queryClient) Bid(ctx context.Context, in *mtypes.QueryBidRequest, _ ...grpc.CallOption) (*mtypes.QueryBidResponse, error) {
	a := q.s.opCall("qbid", 0)
	// this provider's bid from an earlier session, in one of its chain states
	states := map[string]mtypes.Bid_State{"open": mtypes.BidOpen, "active": mtypes.BidActive, "lost": mtypes.BidLost, "closed": mtypes.BidClosed}
	if st, ok := states[a.r]; ok {
		return &mtypes.QueryBidResponse{Bid: mtypes.Bid{BidID: in.ID, State: st,
			Price: sdk.NewInt64Coin(denom, MaxPrice)}}, nil
	}
	switch a.r {
	case "notfound": // the chain answers "no such bid"; a.p picks the shape the answer reaches the monitor in
		switch a.p {
		case 2:
			return nil, status.Error(codes.NotFound, "bid not found: invalid request")
		case 3: // an application error carries no code of its own
			return nil, status.Error(codes.Unknown, "bid not found: invalid request")
		}
		return nil, errors.New("rpc error: code = NotFound desc = bid not found: invalid request")
	}
	// "err" / "errbid": the lookup FAILED (errbid: while a bid of this provider exists on chain); a.p picks the failure
	switch a.p {
	case 2:
		return nil, context.DeadlineExceeded
	case 3:
		return nil, status.Error(codes.Unavailable, "transport is closing")
	case 4:
		return nil, status.Error(codes.Unknown, "internal error")
	}
	return nil, errors.New("post failed: dial tcp 127.0.0.1:26657: connect: connection refused")
}

func (q *queryClient) ProviderAuditorAttributes(ctx context.Context, in *audittypes.QueryProviderAuditorRequest, _ ...grpc.CallOption) (*audittypes.QueryProvidersResponse, error) {
	a := q.s.opCall("should", 0)
	switch a.r {
	case "yes":
		return &audittypes.QueryProvidersResponse{Providers: audittypes.Providers{{Owner: in.Owner, Auditor: in.Auditor}}}, nil
	case "no":
		return &audittypes.QueryProvidersResponse{}, nil
	}
	return nil, errors.New("scripted failure of the auditor attributes query")
}

type txClient struct{ s *scenario }

func (t *txClient) Broadcast(ctx context.Context, msgs ...sdk.Msg) error {
	for _, m := range msgs {
		switch m := m.(type) {
		case *mtypes.MsgCreateBid:
			price := int64(1000000000) // a price that is not a plain uakt amount counts as unbounded
			if m.Price.Denom == denom && m.Price.Amount.IsInt64() {
				price = m.Price.Amount.Int64()
			}
			if !m.Order.Equals(t.s.oid) {
				t.s.note("CreateBid for a foreign order " + m.Order.String())
			}
			if a := t.s.opCall("bcast", price); a.r != "ok" {
				return errors.New("scripted failure of the bid broadcast")
			}
		case *mtypes.MsgCloseBid:
			if !m.BidID.OrderID().Equals(t.s.oid) || m.BidID.Provider != t.s.provider.String() {
				t.s.note("CloseBid for a foreign bid " + m.BidID.String())
				return nil
			}
			if err := t.s.plainCall("CloseBid", t.s.closeErr); err != nil {
				return err
			}
		default:
			t.s.note(fmt.Sprintf("unexpected broadcast %T", m))
		}
	}
	return nil
}

type reservation struct {
	oid mtypes.OrderID
	g   atypes.ResourceGroup
}

func (r *reservation) OrderID() mtypes.OrderID         { return r.oid }
func (r *reservation) Resources() atypes.ResourceGroup { return r.g }

type cluster struct{ s *scenario }

func (c *cluster) Reserve(oid mtypes.OrderID, g atypes.ResourceGroup) (ctypes.Reservation, error) {
	if !oid.Equals(c.s.oid) {
		c.s.note("Reserve for a foreign order " + oid.String())
	}
	c.s.mu.Lock()
	c.s.reservedAs = oid
	c.s.mu.Unlock()
	if a := c.s.opCall("reserve", 0); a.r != "ok" {
		return nil, errors.New("scripted failure of the reservation")
	}
	return &reservation{oid: oid, g: g}, nil
}

func (c *cluster) Unreserve(oid mtypes.OrderID) error {
	c.s.mu.Lock()
	as := c.s.reservedAs
	c.s.mu.Unlock()
	if !oid.Equals(c.s.oid) && !oid.Equals(as) { // releases neither this order's reservation nor the one it made
		c.s.note("Unreserve for a foreign order " + oid.String())
		return nil
	}
	return c.s.plainCall("Unreserve", c.s.unresErr)
}

type pricing struct{ s *scenario }

func (p *pricing) CalculatePrice(ctx context.Context, owner string, gspec *dtypes.GroupSpec) (sdk.Coin, error) {
	a := p.s.opCall("price", 0)
	if a.r != "ok" {
		return sdk.Coin{}, errors.New("scripted failure of the pricing strategy")
	}
	return sdk.NewInt64Coin(denom, a.p), nil
}

func (s *scenario) note(n string) {
	s.mu.Lock()
	s.notes = append(s.notes, n)
	s.mu.Unlock()
}
