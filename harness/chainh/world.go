// Package chainh replays TLC-generated behaviours of spec/chain/Chain.tla on the real AkashApp (real bank
// keeper, real escrow hooks wiring) and records the projected abstract state after every step.
package chainh

import (
	"crypto/sha256"
	"encoding/json"
	"fmt"
	"sort"
	"strings"

	"github.com/cosmos/cosmos-sdk/simapp"
	sdk "github.com/cosmos/cosmos-sdk/types"
	authtypes "github.com/cosmos/cosmos-sdk/x/auth/types"
	banktypes "github.com/cosmos/cosmos-sdk/x/bank/types"
	abci "github.com/tendermint/tendermint/abci/types"
	"github.com/tendermint/tendermint/libs/log"
	tmproto "github.com/tendermint/tendermint/proto/tendermint/types"
	dbm "github.com/tendermint/tm-db"

	"github.com/ovrclk/akash/app"
	dtypes "github.com/ovrclk/akash/x/deployment/types"
	mtypes "github.com/ovrclk/akash/x/market/types"
)

const Denom = "uakt"

// Config is the concrete universe a run uses; it mirrors the constants of the TLC configuration.
type Config struct {
	Tenants       []string `json:"tenants"`
	Providers     []string `json:"providers"` // in ProvRank order
	Auditors      []string `json:"auditors"`
	InitCoins     int64    `json:"initCoins"`
	MinDeposit    int64    `json:"minDeposit"`
	BidMinDeposit int64    `json:"bidMinDeposit"`
	OrderMaxBids  uint32   `json:"orderMaxBids"` // 0 = keep the default
	// DSeqTable maps the model's dseq d (1-based) to the concrete deployment sequence number.
	DSeqTable []uint64 `json:"dseqTable"`
	// ForeignCoins > 0: every party also holds that many coins of a second denomination (ForeignDenom), which no
	// marketplace transaction may move (denomination confusion, C01).
	ForeignCoins int64 `json:"foreignCoins"`
	// UpperParties: parties whose address is written in upper-case bech32 wherever a message names them (the same
	// account; store keys of deployment and market records are built from the address STRING).
	UpperParties []string `json:"upperParties"`
}

// ForeignDenom is the second denomination of worlds with ForeignCoins > 0.
const ForeignDenom = "uatom"

// DefaultDSeqs collide as binary and decimal prefixes (C06).
// Entries 6.. agree with entries 1, 2, 3 modulo 2^32 (a sequence number squeezed through 32 bits somewhere).
var DefaultDSeqs = []uint64{1, 12, 256, 257, 65536, 1<<32 + 1, 1<<32 + 12, 1<<40 + 256}

// World is one application instance plus the name <-> address mapping.
type World struct {
	Cfg   Config
	App   *app.AkashApp
	Root  sdk.Context
	addr  map[string]sdk.AccAddress // name -> address
	name  map[string]string         // bech32 -> name
	dseqI map[uint64]int            // concrete dseq -> model index

	genesis    *Snapshot
	genesisIdx map[string]map[string][]byte
}

func seedAddr(seed string) sdk.AccAddress {
	h := sha256.Sum256([]byte("verif/chainh/" + seed))
	return sdk.AccAddress(h[:20])
}

// pickOrdered returns n addresses whose bech32 strings are strictly increasing (the store-key order of
// bids and escrow payments is the order of the bech32 strings).
func pickOrdered(prefix string, n int) []sdk.AccAddress {
	cands := make([]sdk.AccAddress, 0, 4*n+4)
	for i := 0; i < 4*n+4; i++ {
		cands = append(cands, seedAddr(fmt.Sprintf("%s-%d", prefix, i)))
	}
	sort.Slice(cands, func(i, j int) bool { return cands[i].String() < cands[j].String() })
	return cands[:n]
}

// NewRestartedWorld is a world whose application instance never ran InitGenesis in its own process: the genesis state
// is written and committed by one instance, and a SECOND instance is then opened over the same database, as a node does
// after a restart. Whatever a keeper keeps in memory (caches filled at genesis or lazily) is in a different condition
// there than in an instance that has been running since genesis; the store is the same (C07).
func NewRestartedWorld(cfg Config) (*World, error) {
	return newWorld(cfg, true)
}

func NewWorld(cfg Config) (*World, error) {
	return newWorld(cfg, false)
}

func newWorld(cfg Config, restarted bool) (*World, error) {
	if len(cfg.DSeqTable) == 0 {
		cfg.DSeqTable = DefaultDSeqs
	}
	w := &World{Cfg: cfg, addr: map[string]sdk.AccAddress{}, name: map[string]string{}, dseqI: map[uint64]int{}}
	for i, d := range cfg.DSeqTable {
		w.dseqI[d] = i + 1
	}
	// a name listed both as tenant and as provider is ONE account (a tenant that registers as a provider and bids on
	// its own order); only the other providers take part in the ProvRank order
	isTenant := map[string]bool{}
	for _, n := range cfg.Tenants {
		isTenant[n] = true
		w.addr[n] = seedAddr("tenant-" + n)
	}
	var pure []string
	for _, n := range cfg.Providers {
		if !isTenant[n] {
			pure = append(pure, n)
		}
	}
	provs := pickOrdered("provider", len(pure))
	for i, n := range pure {
		w.addr[n] = provs[i]
	}
	for _, n := range cfg.Auditors {
		w.addr[n] = seedAddr("auditor-" + n)
	}
	for n, a := range w.addr {
		if _, dup := w.name[a.String()]; dup {
			return nil, fmt.Errorf("address collision for %s", n)
		}
		w.name[a.String()] = n
	}

	db := dbm.NewMemDB()
	a := app.NewApp(log.NewNopLogger(), db, nil, true, 5, map[int64]bool{}, app.DefaultHome, simapp.EmptyAppOptions{})
	gs := app.NewDefaultGenesisState()
	cdc := a.AppCodec()

	names := w.PartyNames()
	var accts []authtypes.GenesisAccount
	var bals []banktypes.Balance
	total := sdk.NewCoins()
	for i, n := range names {
		accts = append(accts, authtypes.NewBaseAccount(w.addr[n], nil, uint64(i), 0))
		c := sdk.NewCoins(sdk.NewInt64Coin(Denom, cfg.InitCoins))
		if cfg.ForeignCoins > 0 {
			c = c.Add(sdk.NewInt64Coin(ForeignDenom, cfg.ForeignCoins))
		}
		bals = append(bals, banktypes.Balance{Address: w.addr[n].String(), Coins: c})
		total = total.Add(c...)
	}
	gs[authtypes.ModuleName] = cdc.MustMarshalJSON(authtypes.NewGenesisState(authtypes.DefaultParams(), accts))
	bankGen := banktypes.DefaultGenesisState()
	bankGen.Balances = bals
	bankGen.Supply = total
	gs[banktypes.ModuleName] = cdc.MustMarshalJSON(bankGen)

	var dgen dtypes.GenesisState
	cdc.MustUnmarshalJSON(gs[dtypes.ModuleName], &dgen)
	dgen.Params.DeploymentMinDeposit = sdk.NewInt64Coin(Denom, cfg.MinDeposit)
	gs[dtypes.ModuleName] = cdc.MustMarshalJSON(&dgen)

	var mgen mtypes.GenesisState
	cdc.MustUnmarshalJSON(gs[mtypes.ModuleName], &mgen)
	mgen.Params.BidMinDeposit = sdk.NewInt64Coin(Denom, cfg.BidMinDeposit)
	if cfg.OrderMaxBids > 0 {
		mgen.Params.OrderMaxBids = cfg.OrderMaxBids
	}
	gs[mtypes.ModuleName] = cdc.MustMarshalJSON(&mgen)

	stateBytes, err := json.Marshal(gs)
	if err != nil {
		return nil, err
	}
	a.InitChain(abci.RequestInitChain{Validators: []abci.ValidatorUpdate{}, AppStateBytes: stateBytes})
	if restarted {
		a.Commit()
		a = app.NewApp(log.NewNopLogger(), db, nil, true, 5, map[int64]bool{}, app.DefaultHome, simapp.EmptyAppOptions{})
		w.App = a
		w.Root = a.BaseApp.NewUncachedContext(false, tmproto.Header{Height: 1})
	} else {
		w.App = a
		w.Root = a.BaseApp.NewContext(false, tmproto.Header{Height: 1})
	}
	w.genesis = w.Dump(w.Root)
	w.genesisIdx = map[string]map[string][]byte{}
	for n, items := range w.genesis.Stores {
		m := map[string][]byte{}
		for _, e := range items {
			m[string(e.k)] = e.v
		}
		w.genesisIdx[n] = m
	}
	return w, nil
}

// PartyNames returns all party names in a fixed order.
func (w *World) PartyNames() []string {
	var out []string
	seen := map[string]bool{}
	for _, l := range [][]string{w.Cfg.Tenants, w.Cfg.Providers, w.Cfg.Auditors} {
		for _, n := range l {
			if !seen[n] {
				seen[n] = true
				out = append(out, n)
			}
		}
	}
	return out
}

func (w *World) Addr(name string) (sdk.AccAddress, error) {
	a, ok := w.addr[name]
	if !ok {
		return nil, fmt.Errorf("unknown party %q", name)
	}
	return a, nil
}

// Bech is the spelling of a party's address used in messages: upper case for the parties listed in UpperParties.
func (w *World) Bech(name string) (string, error) {
	a, err := w.Addr(name)
	if err != nil {
		return "", err
	}
	for _, u := range w.Cfg.UpperParties {
		if u == name {
			return strings.ToUpper(a.String()), nil
		}
	}
	return a.String(), nil
}

// Name maps a bech32 address back to the party name.
func (w *World) Name(bech string) (string, error) {
	n, ok := w.name[bech]
	if !ok {
		// the same account spelled in upper case (bech32 allows it) is the same party
		if n, ok = w.name[strings.ToLower(bech)]; ok && bech == strings.ToUpper(bech) {
			return n, nil
		}
		return "", fmt.Errorf("unprojectable address %q", bech)
	}
	return n, nil
}

func (w *World) DSeq(d int) (uint64, error) {
	if d < 1 || d > len(w.Cfg.DSeqTable) {
		return 0, fmt.Errorf("model dseq %d outside table", d)
	}
	return w.Cfg.DSeqTable[d-1], nil
}

func (w *World) DIndex(dseq uint64) (int, error) {
	i, ok := w.dseqI[dseq]
	if !ok {
		return 0, fmt.Errorf("unprojectable dseq %d", dseq)
	}
	return i, nil
}

// Reimport exports the genesis state of every module from ctx, initialises a FRESH application instance from it and
// returns a world over that instance (same party names) positioned at the same height: the export/import round trip.
func (w *World) Reimport(ctx sdk.Context) (w2 *World, ctx2 sdk.Context, err error) {
	defer func() {
		if r := recover(); r != nil {
			err = fmt.Errorf("panic: %v", r)
		}
	}()
	gs := w.App.VerifExportGenesis(ctx)
	stateBytes, err := json.Marshal(gs)
	if err != nil {
		return nil, ctx, err
	}
	db := dbm.NewMemDB()
	a := app.NewApp(log.NewNopLogger(), db, nil, true, 5, map[int64]bool{}, app.DefaultHome, simapp.EmptyAppOptions{})
	a.InitChain(abci.RequestInitChain{Validators: []abci.ValidatorUpdate{}, AppStateBytes: stateBytes})
	w2 = &World{Cfg: w.Cfg, App: a, addr: w.addr, name: w.name, dseqI: w.dseqI}
	w2.Root = a.BaseApp.NewContext(false, tmproto.Header{Height: ctx.BlockHeight()})
	return w2, w2.Root, nil
}
