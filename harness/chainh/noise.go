package chainh

import (
	"math/rand"
	"sync"
)

// noise models what a node does besides executing a block: CheckTx, gRPC Simulate and queries run on other branches
// of the state through the SAME keeper instances, concurrently with DeliverTx. A transition whose result depends on
// that traffic (state shared between executions outside the transactional store) is not deterministic (C07).
type noise struct {
	w     *World
	alpha []Action
	mu    sync.Mutex
	ring  []*Snapshot
	quit  chan struct{}
	done  chan struct{}
	Runs  int
}

func startNoise(w *World, alpha []Action, seed int64) *noise {
	n := &noise{w: w, alpha: alpha, quit: make(chan struct{}), done: make(chan struct{})}
	go n.run(rand.New(rand.NewSource(seed + 4711)))
	return n
}

// offer makes a state available to the concurrent traffic.
func (n *noise) offer(s *Snapshot) {
	n.mu.Lock()
	if len(n.ring) < 16 {
		n.ring = append(n.ring, s)
	} else {
		n.ring[rand.Intn(len(n.ring))] = s
	}
	n.mu.Unlock()
}

func (n *noise) run(r *rand.Rand) {
	defer close(n.done)
	for {
		select {
		case <-n.quit:
			return
		default:
		}
		n.mu.Lock()
		var s *Snapshot
		if len(n.ring) > 0 {
			s = n.ring[r.Intn(len(n.ring))]
		}
		n.mu.Unlock()
		if s == nil {
			continue
		}
		ctx := n.w.Ctx(s) // its own branch: nothing it writes is visible to the explored executions
		for i := 0; i < 4; i++ {
			a := n.alpha[r.Intn(len(n.alpha))]
			if a.Act == "NextBlock" || a.Act == "GenesisRoundTrip" {
				ctx = ctx.WithBlockHeight(ctx.BlockHeight() + 1)
				continue
			}
			_, _ = n.w.RunTx(ctx, a)
			n.Runs++
		}
	}
}

func (n *noise) stop() {
	close(n.quit)
	<-n.done
}
