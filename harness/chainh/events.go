package chainh

import (
	"bytes"

	sdk "github.com/cosmos/cosmos-sdk/types"
	abci "github.com/tendermint/tendermint/abci/types"

	"github.com/ovrclk/akash/events"
	"github.com/ovrclk/akash/sdkutil"
	audtypes "github.com/ovrclk/akash/x/audit/types"
	dtypes "github.com/ovrclk/akash/x/deployment/types"
	mtypes "github.com/ovrclk/akash/x/market/types"
	ptypes "github.com/ovrclk/akash/x/provider/types"
)

func sameEvent(a sdk.Event, b abci.Event) bool {
	if a.Type != b.Type || len(a.Attributes) != len(b.Attributes) {
		return false
	}
	for i := range a.Attributes {
		if !bytes.Equal(a.Attributes[i].Key, b.Attributes[i].Key) || !bytes.Equal(a.Attributes[i].Value, b.Attributes[i].Value) {
			return false
		}
	}
	return true
}

// ProjectEvents decodes every marketplace event of a transaction through the provider's own decoder
// (events.processEvent) and projects the typed event; roundtrip says whether re-emitting the typed event
// gives back exactly the event that was emitted.
func (w *World) ProjectEvents(evs []abci.Event) ([]M, error) {
	out := []M{}
	for _, ev := range evs {
		if ev.Type != sdkutil.EventTypeMessage {
			continue // bank / sdk events are not marketplace events
		}
		typed, ok := events.VerifProcessEvent(ev)
		if !ok {
			out = append(out, M{"type": "unparsed", "id": "", "roundtrip": false})
			continue
		}
		rec := M{}
		if me, isME := typed.(sdkutil.ModuleEvent); isME {
			rec["roundtrip"] = sameEvent(me.ToSDKEvent(), ev)
		} else {
			rec["roundtrip"] = false
		}
		var err error
		switch e := typed.(type) {
		case dtypes.EventDeploymentCreated:
			rec["type"] = "deployment-created"
			rec["id"], _, _, err = w.didStr(e.ID)
			rec["version"] = versionIndex(e.Version)
		case dtypes.EventDeploymentUpdated:
			rec["type"] = "deployment-updated"
			rec["id"], _, _, err = w.didStr(e.ID)
			rec["version"] = versionIndex(e.Version)
		case dtypes.EventDeploymentClosed:
			rec["type"] = "deployment-closed"
			rec["id"], _, _, err = w.didStr(e.ID)
		case dtypes.EventGroupClosed:
			rec["type"] = "group-closed"
			rec["id"], _, err = w.gidStr(e.ID)
		case dtypes.EventGroupPaused:
			rec["type"] = "group-paused"
			rec["id"], _, err = w.gidStr(e.ID)
		case dtypes.EventGroupStarted:
			rec["type"] = "group-started"
			rec["id"], _, err = w.gidStr(e.ID)
		case mtypes.EventOrderCreated:
			rec["type"] = "order-created"
			rec["id"], _, _, err = w.oidStr(e.ID)
		case mtypes.EventOrderClosed:
			rec["type"] = "order-closed"
			rec["id"], _, _, err = w.oidStr(e.ID)
		case mtypes.EventBidCreated:
			rec["type"] = "bid-created"
			rec["id"], _, _, _, _, err = w.bidStr(e.ID)
			rec["price"], _ = amt(e.Price)
		case mtypes.EventBidClosed:
			rec["type"] = "bid-closed"
			rec["id"], _, _, _, _, err = w.bidStr(e.ID)
			rec["price"], _ = amt(e.Price)
		case mtypes.EventLeaseCreated:
			rec["type"] = "lease-created"
			rec["id"], _, _, _, _, err = w.bidStr(mtypes.BidID(e.ID))
			rec["price"], _ = amt(e.Price)
		case mtypes.EventLeaseClosed:
			rec["type"] = "lease-closed"
			rec["id"], _, _, _, _, err = w.bidStr(mtypes.BidID(e.ID))
			rec["price"], _ = amt(e.Price)
		case ptypes.EventProviderCreated:
			rec["type"] = "provider-created"
			rec["id"], err = w.Name(e.Owner.String())
		case ptypes.EventProviderUpdated:
			rec["type"] = "provider-updated"
			rec["id"], err = w.Name(e.Owner.String())
		case ptypes.EventProviderDeleted:
			rec["type"] = "provider-deleted"
			rec["id"], err = w.Name(e.Owner.String())
		case audtypes.EventTrustedAuditorCreated:
			rec["type"] = "attestation-set"
			rec["id"], err = w.attID(e.Auditor.String(), e.Owner.String())
		case audtypes.EventTrustedAuditorDeleted:
			rec["type"] = "attestation-deleted"
			rec["id"], err = w.attID(e.Auditor.String(), e.Owner.String())
		default:
			rec["type"], rec["id"] = "unparsed", ""
		}
		if err != nil {
			// the event names an object outside the universe: keep it visible to the oracle rather than failing
			rec["id"] = "?" + err.Error()
		}
		out = append(out, rec)
	}
	return out, nil
}

func (w *World) attID(auditor, owner string) (string, error) {
	a, err := w.Name(auditor)
	if err != nil {
		return "", err
	}
	p, err := w.Name(owner)
	if err != nil {
		return "", err
	}
	return a + "/" + p, nil
}

func versionIndex(v []byte) int64 {
	if len(v) == dtypes.ManifestVersionLength && bytes.Equal(v, version(int64(v[0]))) {
		return int64(v[0])
	}
	return -1
}
