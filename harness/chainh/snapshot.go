package chainh

import (
	"crypto/sha256"
	"encoding/hex"
	"fmt"
	"sort"

	sdk "github.com/cosmos/cosmos-sdk/types"
	authtypes "github.com/cosmos/cosmos-sdk/x/auth/types"
	banktypes "github.com/cosmos/cosmos-sdk/x/bank/types"

	audtypes "github.com/ovrclk/akash/x/audit/types"
	certtypes "github.com/ovrclk/akash/x/cert/types"
	dtypes "github.com/ovrclk/akash/x/deployment/types"
	etypes "github.com/ovrclk/akash/x/escrow/types"
	mtypes "github.com/ovrclk/akash/x/market/types"
	ptypes "github.com/ovrclk/akash/x/provider/types"
)

// The stores a marketplace transaction can write. A Snapshot holds their complete contents, so a state of the
// explored tree is a flat value and every step runs on a depth-1 cache over the genesis multistore (nested
// cachekv iterators are exponential in the nesting depth).
var snapStores = []string{etypes.StoreKey, dtypes.StoreKey, mtypes.StoreKey, ptypes.StoreKey, audtypes.StoreKey,
	certtypes.StoreKey, banktypes.StoreKey, authtypes.StoreKey}

type kv struct{ k, v []byte }

type Snapshot struct {
	Height int64
	Stores map[string][]kv // sorted by key
	// Created is an observation carried along each explored branch: the height at which an escrow payment
	// (by projected key) was first seen in the store.
	Created map[string]int64
}

// Dump captures the full contents of the snapshot stores of ctx.
func (w *World) Dump(ctx sdk.Context) *Snapshot {
	s := &Snapshot{Height: ctx.BlockHeight(), Stores: map[string][]kv{}}
	for _, name := range snapStores {
		it := ctx.KVStore(w.App.GetKey(name)).Iterator(nil, nil)
		var items []kv
		for ; it.Valid(); it.Next() {
			items = append(items, kv{append([]byte(nil), it.Key()...), append([]byte(nil), it.Value()...)})
		}
		it.Close()
		s.Stores[name] = items
	}
	return s
}

// Ctx materialises a snapshot as a fresh depth-1 branch of the genesis multistore.
func (w *World) Ctx(s *Snapshot) sdk.Context {
	ctx, _ := w.Root.CacheContext()
	ctx = ctx.WithBlockHeight(s.Height)
	for _, name := range snapStores {
		st := ctx.KVStore(w.App.GetKey(name))
		want := map[string][]byte{}
		for _, e := range s.Stores[name] {
			want[string(e.k)] = e.v
		}
		for _, e := range w.genesis.Stores[name] {
			if _, ok := want[string(e.k)]; !ok {
				st.Delete(e.k)
			}
		}
		gen := w.genesisIdx[name]
		for _, e := range s.Stores[name] {
			if g, ok := gen[string(e.k)]; !ok || string(g) != string(e.v) {
				st.Set(e.k, e.v)
			}
		}
	}
	return ctx
}

// Digest hashes every byte of the snapshot plus the transaction's result, data and events (C07).
func (s *Snapshot) Digest(res TxResult) string {
	h := sha256.New()
	names := make([]string, 0, len(s.Stores))
	for n := range s.Stores {
		names = append(names, n)
	}
	sort.Strings(names)
	for _, n := range names {
		for _, e := range s.Stores[n] {
			fmt.Fprintf(h, "%s|%d|%d|", n, len(e.k), len(e.v))
			h.Write(e.k)
			h.Write(e.v)
		}
	}
	fmt.Fprintf(h, "ok=%v|log=%s|err=%s|code=%s/%d|gas=%d|", res.OK, res.Log, res.Err, res.Codespace, res.Code, res.Gas)
	h.Write(res.Data)
	for _, e := range res.Events {
		fmt.Fprintf(h, "ev=%s|", e.Type)
		for _, a := range e.Attributes {
			fmt.Fprintf(h, "%s=%s|", a.Key, a.Value)
		}
	}
	return hex.EncodeToString(h.Sum(nil))[:16]
}
