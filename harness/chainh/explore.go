package chainh

import (
	"encoding/json"
	"fmt"
	"math/rand"
	"sort"
	"strings"

	sdk "github.com/cosmos/cosmos-sdk/types"

	"verif/harness/vcommon"
)

// Step is one recorded implementation step (one line of the trace TLC validates).
type Step struct {
	ID        int              `json:"id"`
	Parent    int              `json:"parent"` // line id whose state is this step's pre-state (0 for the initial line)
	Act       Action           `json:"act"`
	OK        bool             `json:"ok"`
	Err       string           `json:"err"`
	State     *State           `json:"state"`
	Events    []M              `json:"events"`
	Signers   []string         `json:"signers"`
	GenesisOK bool             `json:"genesisOK"`
	GenesisEr string           `json:"genesisErr"`
	Digests   []string         `json:"digests"`
	Foreign   map[string]int64 `json:"foreign"` // balances in the foreign denomination after the step, by party
}

type node struct {
	act       Action
	children  map[string]*node
	order     []string // insertion order of children keys (deterministic DFS)
	isNode    bool     // a path of the input ends here (a model state to expand)
	extra     []Action // actions to execute at this node in addition to its children (the model's successful transitions)
	expand    bool
	roundtrip bool
	needed    bool
	idx       int
}

func normalize(a *Action) {
	for i := range a.Groups {
		if a.Groups[i].AllOf == nil {
			a.Groups[i].AllOf = []string{}
		}
		if a.Groups[i].AnyOf == nil {
			a.Groups[i].AnyOf = []string{}
		}
		if a.Groups[i].Req == nil {
			a.Groups[i].Req = AttrMap{}
		}
	}
}

// Explorer walks a trie of action paths depth-first, branching the multistore with CacheContext so that
// every trie edge is executed exactly once on the real application.
type Explorer struct {
	W         *World
	Out       *vcommon.Writer
	Alphabet  []Action
	Reps      int
	RepsAudit int
	MaxHeight int64
	nextID    int
	Steps     int
	NPaths    int
	noise     *noise            // optional concurrent traffic through the same application instance (C07)
	W2        *World            // optional second application instance (another "process"): C07 compares its results too
	gasSeen   map[string]uint64 // gas of the last successful execution, by action type (for the abort fault)
	abortN    int
	W3        *World              // optional third instance, opened over a committed database like a restarted node (C07)
	Pairs     map[string]struct{} // distinct (pre-state line, action) pairs are trivially all; kept for distinct (act kind, ok) classes
}

func (e *Explorer) emit(parent int, a Action, res TxResult, ctx sdk.Context, digests []string, pre, post *Snapshot) (int, error) {
	st, err := e.W.Project(ctx)
	if err != nil {
		return 0, fmt.Errorf("projection failed after %s: %v", a.Key(), err)
	}
	post.Created = map[string]int64{}
	for k, rec := range st.EPay {
		h, seen := int64(0), false
		if pre != nil {
			h, seen = pre.Created[k]
		}
		if !seen {
			h = ctx.BlockHeight()
		}
		post.Created[k] = h
		rec["createdAt"] = h
	}
	evs, err := e.W.ProjectEvents(res.Events)
	if err != nil {
		return 0, err
	}
	gok, gerr := e.W.GenesisOK(ctx)
	e.nextID++
	sg := res.Signers
	if sg == nil {
		sg = []string{}
	}
	if digests == nil {
		digests = []string{}
	}
	s := Step{ID: e.nextID, Parent: parent, Act: a, OK: res.OK, Err: res.Err, State: st, Events: evs, Signers: sg,
		GenesisOK: gok, GenesisEr: gerr, Digests: digests, Foreign: st.Foreign}
	e.Steps++
	e.Pairs[fmt.Sprintf("%s/%v", a.Act, res.OK)] = struct{}{}
	return e.nextID, e.Out.Write(s)
}

// apply executes one action on a fresh materialisation of the pre-state; returns the post-state and its line id.
func (e *Explorer) apply(pre *Snapshot, parent int, a Action) (*Snapshot, int, error) {
	if a.Act == "NextBlock" {
		post := &Snapshot{Height: pre.Height + a.Gap, Stores: pre.Stores}
		id, err := e.emit(parent, a, TxResult{OK: true}, e.W.Ctx(post), nil, pre, post)
		return post, id, err
	}
	if e.noise != nil {
		e.noise.offer(pre)
	}
	reps := e.Reps
	if a.Act == "SignAttributes" || a.Act == "DeleteAttributes" {
		reps = e.RepsAudit
	}
	if reps < 1 {
		reps = 1
	}
	var first *Snapshot
	var firstCtx sdk.Context
	var firstRes TxResult
	digests := make([]string, 0, reps)
	if g := e.gasSeen[a.Act]; g > 0 && !strings.HasPrefix(a.Act, "K") {
		// fault: the same transaction is first run on a throw-away branch with a gas limit below what it needs, so that
		// it aborts somewhere inside the handler or its hooks. An aborted transaction leaves nothing behind: the
		// executions that follow must behave as if it had never been attempted.
		e.abortN++
		frac := []uint64{30, 55, 75, 90, 97}[e.abortN%5]
		if _, err := e.W.RunTxLimited(e.W.Ctx(pre), a, g*frac/100+1); err != nil {
			return pre, 0, err
		}
	}
	for i := 0; i < reps; i++ {
		b := e.W.Ctx(pre)
		res, err := e.W.RunTx(b, a)
		if err != nil {
			return pre, 0, err
		}
		post := e.W.Dump(b)
		digests = append(digests, post.Digest(res))
		if res.OK && res.Gas > 0 {
			e.gasSeen[a.Act] = res.Gas
		}
		if i == 0 {
			first, firstCtx, firstRes = post, b, res
		}
	}
	if e.W2 != nil {
		// the same transaction on the same state in an application instance with a different execution history
		b := e.W2.Ctx(pre)
		res, err := e.W2.RunTx(b, a)
		if err != nil {
			return pre, 0, err
		}
		digests = append(digests, e.W2.Dump(b).Digest(res))
	}
	if e.W3 != nil {
		// ... and in an instance that did not run genesis itself (a node after a restart)
		b := e.W3.Ctx(pre)
		res, err := e.W3.RunTx(b, a)
		if err != nil {
			return pre, 0, err
		}
		digests = append(digests, e.W3.Dump(b).Digest(res))
	}
	id, err := e.emit(parent, a, firstRes, firstCtx, digests, pre, first)
	return first, id, err
}

// roundTrip records the genesis export/import round trip at a state as one step (action GenesisRoundTrip).
func (e *Explorer) roundTrip(st *Snapshot, line int) error {
	ctx := e.W.Ctx(st)
	a := Action{Act: "GenesisRoundTrip"}
	w2, ctx2, err := e.W.Reimport(ctx)
	if err != nil {
		_, werr := e.emit(line, a, TxResult{OK: false, Err: err.Error(), Signers: []string{}}, ctx, nil, st, &Snapshot{Height: st.Height, Stores: st.Stores})
		return werr
	}
	saved := e.W
	e.W = w2
	_, werr := e.emit(line, a, TxResult{OK: true, Signers: []string{}}, ctx2, nil, st, &Snapshot{Height: st.Height, Stores: st.Stores})
	e.W = saved
	return werr
}

func (e *Explorer) dfs(n *node, st *Snapshot, line int) error {
	done := map[string]bool{}
	if n.roundtrip {
		if err := e.roundTrip(st, line); err != nil {
			return err
		}
	}
	if n.expand {
		for _, a := range e.Alphabet {
			if a.Act == "NextBlock" && e.MaxHeight > 0 && st.Height+a.Gap > e.MaxHeight {
				continue
			}
			k := a.Key()
			if done[k] {
				continue
			}
			done[k] = true
			b, id, err := e.apply(st, line, a)
			if err != nil {
				return err
			}
			if c, ok := n.children[k]; ok && c.needed {
				if err := e.dfs(c, b, id); err != nil {
					return err
				}
			}
		}
	}
	for _, a := range n.extra {
		k := a.Key()
		if done[k] {
			continue
		}
		if c, ok := n.children[k]; ok && c.needed {
			continue // executed below as a tree edge
		}
		done[k] = true
		if _, _, err := e.apply(st, line, a); err != nil {
			return err
		}
	}
	for _, k := range n.order {
		c := n.children[k]
		if !c.needed || done[k] {
			continue
		}
		b, id, err := e.apply(st, line, c.act)
		if err != nil {
			return err
		}
		if err := e.dfs(c, b, id); err != nil {
			return err
		}
	}
	return nil
}

// Options of one exploration run.
type Options struct {
	Paths      [][]Action // action paths from the initial state (tree nodes of TLC's BFS, or simulated behaviours)
	Alphabet   []Action   // actions tried at every selected node (may be empty)
	Nodes      int        // number of path end-points to expand with the alphabet (0 = all)
	Seed       int64
	Shard      int
	Shards     int
	Reps       int
	RepsAudit  int
	MaxHeight  int64
	AllPaths   bool // execute every path completely, not only the ancestors of the expanded nodes
	PathFile   string
	NPaths     int
	SecondApp  bool
	Noise      bool // run unrelated transactions concurrently on other branches of the same application instance
	RoundTrips int  // number of states at which the genesis export/import round trip is recorded
}

func Explore(w *World, out *vcommon.Writer, o Options) (*Explorer, error) {
	root := &node{children: map[string]*node{}, isNode: true}
	var ends []*node
	ends = append(ends, root)
	npaths := 0
	insert := func(p []Action) *node {
		npaths++
		cur := root
		for i := range p {
			normalize(&p[i])
			k := p[i].Key()
			c, ok := cur.children[k]
			if !ok {
				c = &node{act: p[i], children: map[string]*node{}}
				cur.children[k] = c
				cur.order = append(cur.order, k)
			}
			cur = c
		}
		if !cur.isNode {
			cur.isNode = true
			ends = append(ends, cur)
		}
		return cur
	}
	for _, p := range o.Paths {
		insert(p)
	}
	if o.PathFile != "" {
		// streamed: a path is dropped as soon as it has been merged into the trie
		err := vcommon.ReadLines(o.PathFile, func(raw json.RawMessage) error {
			var p []Action
			if len(raw) > 0 && raw[0] == '{' {
				var o struct {
					P []Action `json:"p"`
					X []Action `json:"x"`
				}
				if err := json.Unmarshal(raw, &o); err != nil {
					return fmt.Errorf("bad path line: %v", err)
				}
				n := insert(o.P)
				for i := range o.X {
					normalize(&o.X[i])
				}
				n.extra = o.X
				return nil
			}
			if err := json.Unmarshal(raw, &p); err != nil {
				return fmt.Errorf("bad path line: %v", err)
			}
			insert(p)
			return nil
		})
		if err != nil {
			return nil, err
		}
	}
	o.NPaths = npaths
	for i := range o.Alphabet {
		normalize(&o.Alphabet[i])
	}
	// choose the nodes to expand: a seeded sample of the path end-points (all when Nodes = 0), then shard
	idx := make([]int, len(ends))
	for i := range idx {
		idx[i] = i
	}
	if o.Nodes > 0 && o.Nodes < len(ends) {
		r := rand.New(rand.NewSource(o.Seed))
		r.Shuffle(len(idx), func(i, j int) { idx[i], idx[j] = idx[j], idx[i] })
		idx = idx[:o.Nodes]
		sort.Ints(idx)
	}
	if o.Shards < 1 {
		o.Shards = 1
	}
	parentOf := map[*node]*node{}
	var fill func(n *node)
	fill = func(n *node) {
		for _, k := range n.order {
			parentOf[n.children[k]] = n
			fill(n.children[k])
		}
	}
	fill(root)
	mark := func(n *node) {
		for x := n; x != nil && !x.needed; x = parentOf[x] {
			x.needed = true
		}
	}
	for j, i := range idx {
		if j%o.Shards != o.Shard {
			continue
		}
		ends[i].expand = len(o.Alphabet) > 0
		mark(ends[i])
	}
	if o.RoundTrips > 0 && len(ends) > 0 {
		r := rand.New(rand.NewSource(o.Seed + 17))
		for k := 0; k < o.RoundTrips; k++ {
			n := ends[r.Intn(len(ends))]
			n.roundtrip = true
			mark(n)
		}
	}
	if o.AllPaths {
		for j, n := range ends {
			if j%o.Shards == o.Shard {
				mark(n)
			}
		}
	}
	root.needed = true
	e := &Explorer{NPaths: npaths, W: w, Out: out, Alphabet: o.Alphabet, Reps: o.Reps, RepsAudit: o.RepsAudit, MaxHeight: o.MaxHeight, Pairs: map[string]struct{}{}, gasSeen: map[string]uint64{}}
	if o.Noise && len(o.Alphabet) > 0 {
		e.noise = startNoise(w, o.Alphabet, o.Seed)
		defer e.noise.stop()
	}
	if o.SecondApp {
		w2, err := NewWorld(w.Cfg)
		if err != nil {
			return e, err
		}
		e.W2 = w2
		w3, err := NewRestartedWorld(w.Cfg)
		if err != nil {
			return e, err
		}
		e.W3 = w3
	}
	id, err := e.emit(0, Action{Act: "Init"}, TxResult{OK: true}, w.Root, nil, nil, w.genesis)
	if err != nil {
		return e, err
	}
	return e, e.dfs(root, w.genesis, id)
}

// ParsePaths reads lines each holding a JSON array of actions.
func ParsePaths(path string) ([][]Action, error) {
	var out [][]Action
	err := vcommon.ReadLines(path, func(raw json.RawMessage) error {
		var p []Action
		if err := json.Unmarshal(raw, &p); err != nil {
			return fmt.Errorf("bad path line: %v", err)
		}
		out = append(out, p)
		return nil
	})
	return out, err
}
