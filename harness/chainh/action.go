package chainh

import (
	"bytes"
	"encoding/json"
	"fmt"
	"sort"
	"strings"

	sdkerrors "github.com/cosmos/cosmos-sdk/types/errors"

	sdk "github.com/cosmos/cosmos-sdk/types"
	authtypes "github.com/cosmos/cosmos-sdk/x/auth/types"
	banktypes "github.com/cosmos/cosmos-sdk/x/bank/types"
	abci "github.com/tendermint/tendermint/abci/types"

	atypes "github.com/ovrclk/akash/types"
	"github.com/ovrclk/akash/types/unit"
	audtypes "github.com/ovrclk/akash/x/audit/types"
	dtypes "github.com/ovrclk/akash/x/deployment/types"
	etypes "github.com/ovrclk/akash/x/escrow/types"
	mtypes "github.com/ovrclk/akash/x/market/types"
	ptypes "github.com/ovrclk/akash/x/provider/types"
)

// AttrMap is an attribute function key -> value. TLC's ToJson prints the empty function as [].
type AttrMap map[string]string

func (m *AttrMap) UnmarshalJSON(b []byte) error {
	b = bytes.TrimSpace(b)
	*m = AttrMap{}
	if len(b) > 0 && b[0] == '[' {
		return nil // <<>> : the empty function
	}
	mm := map[string]string{}
	if err := json.Unmarshal(b, &mm); err != nil {
		return err
	}
	*m = mm
	return nil
}

func (m AttrMap) MarshalJSON() ([]byte, error) {
	if m == nil {
		return []byte("{}"), nil
	}
	return json.Marshal(map[string]string(m))
}

func (m AttrMap) Attributes() atypes.Attributes {
	keys := make([]string, 0, len(m))
	for k := range m {
		keys = append(keys, k)
	}
	sort.Strings(keys)
	out := atypes.Attributes{}
	for _, k := range keys {
		out = append(out, atypes.Attribute{Key: k, Value: m[k]})
	}
	return out
}

type GroupChoice struct {
	Price int64    `json:"price"`
	Req   AttrMap  `json:"req"`
	AllOf []string `json:"allOf"`
	AnyOf []string `json:"anyOf"`
}

// Action is one abstract action of Chain.tla (the JSON shape TLC's ToJson gives the action records).
type Action struct {
	Act     string        `json:"act"`
	T       string        `json:"t,omitempty"`
	D       int           `json:"d,omitempty"`
	G       int           `json:"g,omitempty"`
	O       int           `json:"o,omitempty"`
	P       string        `json:"p,omitempty"`
	A       string        `json:"a,omitempty"`
	Groups  []GroupChoice `json:"groups,omitempty"`
	Deposit *int64        `json:"deposit,omitempty"`
	Version *int64        `json:"version,omitempty"`
	Amount  *int64        `json:"amount,omitempty"`
	Price   *int64        `json:"price,omitempty"`
	Attrs   *AttrMap      `json:"attrs,omitempty"`
	Keys    *[]string     `json:"keys,omitempty"`
	Gap     int64         `json:"gap,omitempty"`
	Rate    *int64        `json:"rate,omitempty"`
	// unusual-but-valid spellings of an input: "f" = the coin is in the foreign denomination; Upper = the provider's
	// address is written in upper-case bech32
	Denom  string `json:"denom,omitempty"`
	PDenom string `json:"pdenom,omitempty"`
	Upper  bool   `json:"upper,omitempty"`
}

func (a Action) Key() string {
	b, _ := json.Marshal(a)
	return string(b)
}

func coin(v int64) sdk.Coin { return sdk.NewInt64Coin(Denom, v) }

// spell writes a bech32 address in upper case (the same account) when upper is set.
func spell(bech string, upper bool) string {
	if upper {
		return strings.ToUpper(bech)
	}
	return bech
}

func coinD(v int64, d string) sdk.Coin {
	if d == "f" {
		return sdk.NewInt64Coin(ForeignDenom, v)
	}
	return coin(v)
}

func i64(p *int64) int64 {
	if p == nil {
		return 0
	}
	return *p
}

func version(v int64) []byte { return bytes.Repeat([]byte{byte(v)}, dtypes.ManifestVersionLength) }

func (w *World) did(a Action) (dtypes.DeploymentID, error) {
	t, err := w.Bech(a.T)
	if err != nil {
		return dtypes.DeploymentID{}, err
	}
	ds, err := w.DSeq(a.D)
	if err != nil {
		return dtypes.DeploymentID{}, err
	}
	return dtypes.DeploymentID{Owner: t, DSeq: ds}, nil
}

func (w *World) bidID(a Action) (mtypes.BidID, error) {
	did, err := w.did(a)
	if err != nil {
		return mtypes.BidID{}, err
	}
	p, err := w.Bech(a.P)
	if err != nil {
		return mtypes.BidID{}, err
	}
	oid := mtypes.MakeOrderID(dtypes.MakeGroupID(did, uint32(a.G)), uint32(a.O))
	return mtypes.BidID{Owner: oid.Owner, DSeq: oid.DSeq, GSeq: oid.GSeq, OSeq: oid.OSeq, Provider: p}, nil
}

func (w *World) groupSpecs(gs []GroupChoice) ([]dtypes.GroupSpec, error) {
	var out []dtypes.GroupSpec
	for i, g := range gs {
		sb := atypes.SignedBy{}
		for _, n := range g.AllOf {
			ad, err := w.Addr(n)
			if err != nil {
				return nil, err
			}
			sb.AllOf = append(sb.AllOf, ad.String())
		}
		for _, n := range g.AnyOf {
			ad, err := w.Addr(n)
			if err != nil {
				return nil, err
			}
			sb.AnyOf = append(sb.AnyOf, ad.String())
		}
		sort.Strings(sb.AllOf)
		sort.Strings(sb.AnyOf)
		out = append(out, dtypes.GroupSpec{
			Name:         fmt.Sprintf("g%d", i+1),
			Requirements: atypes.PlacementRequirements{SignedBy: sb, Attributes: g.Req.Attributes()},
			Resources: []dtypes.Resource{{
				Resources: atypes.ResourceUnits{
					CPU:     &atypes.CPU{Units: atypes.NewResourceValue(100)},
					Memory:  &atypes.Memory{Quantity: atypes.NewResourceValue(16 * unit.Mi)},
					Storage: &atypes.Storage{Quantity: atypes.NewResourceValue(64 * unit.Mi)},
				},
				Count: 1,
				Price: coin(g.Price),
			}},
		})
	}
	return out, nil
}

// Msg builds the concrete sdk.Msg and the gRPC method name of the message service handling it.
func (w *World) Msg(a Action) (sdk.Msg, string, error) {
	switch a.Act {
	case "CreateDeployment":
		did, err := w.did(a)
		if err != nil {
			return nil, "", err
		}
		gs, err := w.groupSpecs(a.Groups)
		if err != nil {
			return nil, "", err
		}
		return &dtypes.MsgCreateDeployment{ID: did, Groups: gs, Version: version(i64(a.Version)), Deposit: coinD(i64(a.Deposit), a.Denom)},
			"/akash.deployment.v1beta1.Msg/CreateDeployment", nil
	case "SendToEscrow":
		from, err := w.Addr(a.T)
		if err != nil {
			return nil, "", err
		}
		return &banktypes.MsgSend{FromAddress: from.String(), ToAddress: authtypes.NewModuleAddress(etypes.ModuleName).String(),
			Amount: sdk.NewCoins(coin(i64(a.Amount)))}, "/cosmos.bank.v1beta1.Msg/Send", nil
	case "DepositDeployment":
		did, err := w.did(a)
		return &dtypes.MsgDepositDeployment{ID: did, Amount: coinD(i64(a.Amount), a.Denom)}, "/akash.deployment.v1beta1.Msg/DepositDeployment", err
	case "UpdateDeployment":
		did, err := w.did(a)
		return &dtypes.MsgUpdateDeployment{ID: did, Version: version(i64(a.Version))}, "/akash.deployment.v1beta1.Msg/UpdateDeployment", err
	case "CloseDeployment":
		did, err := w.did(a)
		return &dtypes.MsgCloseDeployment{ID: did}, "/akash.deployment.v1beta1.Msg/CloseDeployment", err
	case "CloseGroup":
		did, err := w.did(a)
		return &dtypes.MsgCloseGroup{ID: dtypes.MakeGroupID(did, uint32(a.G))}, "/akash.deployment.v1beta1.Msg/CloseGroup", err
	case "PauseGroup":
		did, err := w.did(a)
		return &dtypes.MsgPauseGroup{ID: dtypes.MakeGroupID(did, uint32(a.G))}, "/akash.deployment.v1beta1.Msg/PauseGroup", err
	case "StartGroup":
		did, err := w.did(a)
		return &dtypes.MsgStartGroup{ID: dtypes.MakeGroupID(did, uint32(a.G))}, "/akash.deployment.v1beta1.Msg/StartGroup", err
	case "CreateBid":
		b, err := w.bidID(a)
		prov := b.Provider
		if a.Upper {
			prov = strings.ToUpper(prov)
		}
		return &mtypes.MsgCreateBid{Order: b.OrderID(), Provider: prov, Price: coinD(i64(a.Price), a.PDenom), Deposit: coinD(i64(a.Deposit), a.Denom)},
			"/akash.market.v1beta1.Msg/CreateBid", err
	case "CloseBid":
		b, err := w.bidID(a)
		return &mtypes.MsgCloseBid{BidID: b}, "/akash.market.v1beta1.Msg/CloseBid", err
	case "WithdrawLease":
		b, err := w.bidID(a)
		return &mtypes.MsgWithdrawLease{LeaseID: mtypes.LeaseID(b)}, "/akash.market.v1beta1.Msg/WithdrawLease", err
	case "CreateLease":
		b, err := w.bidID(a)
		return &mtypes.MsgCreateLease{BidID: b}, "/akash.market.v1beta1.Msg/CreateLease", err
	case "CloseLease":
		b, err := w.bidID(a)
		return &mtypes.MsgCloseLease{LeaseID: mtypes.LeaseID(b)}, "/akash.market.v1beta1.Msg/CloseLease", err
	case "CreateProvider":
		p, err := w.Addr(a.P)
		if err != nil {
			return nil, "", err
		}
		return &ptypes.MsgCreateProvider{Owner: spell(p.String(), a.Upper), HostURI: "https://" + a.P + ".example.com", Attributes: a.Attrs.Attributes()},
			"/akash.provider.v1beta1.Msg/CreateProvider", nil
	case "UpdateProvider":
		p, err := w.Addr(a.P)
		if err != nil {
			return nil, "", err
		}
		return &ptypes.MsgUpdateProvider{Owner: spell(p.String(), a.Upper), HostURI: "https://" + a.P + ".example.com", Attributes: a.Attrs.Attributes()},
			"/akash.provider.v1beta1.Msg/UpdateProvider", nil
	case "SignAttributes":
		p, err := w.Addr(a.P)
		if err != nil {
			return nil, "", err
		}
		au, err := w.Addr(a.A)
		if err != nil {
			return nil, "", err
		}
		return &audtypes.MsgSignProviderAttributes{Owner: p.String(), Auditor: au.String(), Attributes: a.Attrs.Attributes()},
			"/akash.audit.v1beta1.Msg/SignProviderAttributes", nil
	case "DeleteAttributes":
		p, err := w.Addr(a.P)
		if err != nil {
			return nil, "", err
		}
		au, err := w.Addr(a.A)
		if err != nil {
			return nil, "", err
		}
		var keys []string
		if a.Keys != nil {
			keys = append(keys, (*a.Keys)...)
			sort.Strings(keys)
		}
		if len(keys) == 0 {
			keys = nil
		}
		return &audtypes.MsgDeleteProviderAttributes{Owner: p.String(), Auditor: au.String(), Keys: keys},
			"/akash.audit.v1beta1.Msg/DeleteProviderAttributes", nil
	}
	return nil, "", fmt.Errorf("unknown action %q", a.Act)
}

// TxResult is what one transaction produced.
type TxResult struct {
	OK      bool
	Err     string
	Events  []abci.Event
	Data    []byte
	Log     string
	Signers []string
	// what a node puts into the deterministic part of the transaction response besides Data: the error code and
	// the gas used (both enter LastResultsHash)
	Gas       uint64
	Code      uint32
	Codespace string
}

// RunTx does what baseapp.runTx does for one message, minus the ante handler: ValidateBasic, the handler
// registered on the app's own message service router, state committed to ctx only on success, panics
// recovered as rejection. The message goes through a protobuf round trip first, as it would on the wire.
func (w *World) RunTx(ctx sdk.Context, a Action) (res TxResult, herr error) {
	return w.runTx(ctx, a, 0)
}

// RunTxLimited executes the transaction with a finite gas limit: when the limit is hit inside the handler (or inside a
// hook the handler triggers) the transaction aborts by panic, as it does on a node; nothing of it may survive, in the
// store or in the process.
func (w *World) RunTxLimited(ctx sdk.Context, a Action, limit uint64) (res TxResult, herr error) {
	return w.runTx(ctx, a, limit)
}

func (w *World) runTx(ctx sdk.Context, a Action, limit uint64) (res TxResult, herr error) {
	if strings.HasPrefix(a.Act, "K") {
		return w.runKeeper(ctx, a)
	}
	msg, method, err := w.Msg(a)
	if err != nil {
		return res, err
	}
	for _, s := range msg.GetSigners() {
		n, err := w.Name(s.String())
		if err != nil {
			n = "?" + s.String()
		}
		res.Signers = append(res.Signers, n)
	}
	if err := msg.ValidateBasic(); err != nil {
		res.Err = "validate: " + err.Error()
		return res, nil
	}
	h := w.App.MsgServiceRouter().Handler(method)
	if h == nil {
		return res, fmt.Errorf("no handler for %s", method)
	}
	cctx, write := ctx.CacheContext()
	if limit > 0 {
		cctx = cctx.WithEventManager(sdk.NewEventManager()).WithGasMeter(sdk.NewGasMeter(limit))
	} else {
		cctx = cctx.WithEventManager(sdk.NewEventManager()).WithGasMeter(sdk.NewInfiniteGasMeter())
	}
	func() {
		defer func() {
			if r := recover(); r != nil {
				res.Err = fmt.Sprintf("panic: %v", r)
			}
			res.Gas = cctx.GasMeter().GasConsumed()
		}()
		r, err := h(cctx, msg)
		if err != nil {
			res.Err = err.Error()
			res.Codespace, res.Code, _ = sdkerrors.ABCIInfo(err, false)
			return
		}
		res.OK = true
		if r != nil {
			res.Data, res.Log = r.Data, r.Log
			res.Events = r.Events
		}
	}()
	if res.OK {
		write()
	}
	return res, nil
}

// runKeeper drives the application's own escrow keeper directly (family E). Same commit/discard discipline as a
// transaction. The account is ("deployment", owner/dseq) with no deployment record behind it.
func (w *World) runKeeper(ctx sdk.Context, a Action) (res TxResult, herr error) {
	did, err := w.did(a)
	if err != nil {
		return res, err
	}
	aid := dtypes.EscrowAccountForDeployment(did)
	k := w.App.VerifKeepers().Escrow
	owner, _ := w.Addr(a.T)
	var pid string
	var payee sdk.AccAddress
	if a.P != "" {
		b, err := w.bidID(a)
		if err != nil {
			return res, err
		}
		pid = mtypes.EscrowPaymentForLease(mtypes.LeaseID(b))
		payee, _ = w.Addr(a.P)
	}
	res.Signers = []string{}
	cctx, write := ctx.CacheContext()
	cctx = cctx.WithEventManager(sdk.NewEventManager())
	func() {
		defer func() {
			if r := recover(); r != nil {
				res.Err = fmt.Sprintf("panic: %v", r)
			}
		}()
		var err error
		switch a.Act {
		case "KAccountCreate":
			err = k.AccountCreate(cctx, aid, owner, coin(i64(a.Deposit)))
		case "KDeposit":
			err = k.AccountDeposit(cctx, aid, coin(i64(a.Amount)))
		case "KSettle":
			_, err = k.AccountSettle(cctx, aid)
		case "KAccountClose":
			err = k.AccountClose(cctx, aid)
		case "KPaymentCreate":
			err = k.PaymentCreate(cctx, aid, pid, payee, coin(i64(a.Rate)))
		case "KPaymentWithdraw":
			err = k.PaymentWithdraw(cctx, aid, pid)
		case "KPaymentClose":
			err = k.PaymentClose(cctx, aid, pid)
		default:
			err = fmt.Errorf("unknown keeper action %q", a.Act)
		}
		if err != nil {
			res.Err = err.Error()
			return
		}
		res.OK = true
		res.Events = cctx.EventManager().ABCIEvents()
	}()
	if res.OK {
		write()
	}
	return res, nil
}
