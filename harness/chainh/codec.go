package chainh

import (
	"bytes"
	"encoding/json"
	"flag"
	"fmt"
	"math"
	"os"
	"reflect"

	sdk "github.com/cosmos/cosmos-sdk/types"
	abci "github.com/tendermint/tendermint/abci/types"

	"github.com/ovrclk/akash/events"
	"github.com/ovrclk/akash/sdkutil"
	audtypes "github.com/ovrclk/akash/x/audit/types"
	dtypes "github.com/ovrclk/akash/x/deployment/types"
	mtypes "github.com/ovrclk/akash/x/market/types"
	ptypes "github.com/ovrclk/akash/x/provider/types"

	"verif/harness/vcommon"
)

// value classes of spec/chain/EventCodec.tla -> concrete boundary values
var (
	dseqC  = map[string]uint64{"1": 1, "12": 12, "256": 256, "65536": 65536, "max64": math.MaxUint64}
	seqC   = map[string]uint32{"1": 1, "255": 255, "256": 256, "max32": math.MaxUint32}
	priceC = map[string]string{"1": "1", "2p31": "2147483648", "2p63": "9223372036854775808", "1e30": "1000000000000000000000000000000"}
)

func verC(c string) []byte {
	switch c {
	case "zeros":
		return make([]byte, 32)
	case "ff":
		return bytes.Repeat([]byte{0xff}, 32)
	}
	b := make([]byte, 32)
	for i := range b {
		b[i] = byte(i * 7)
	}
	return b
}

func rev64(v uint64) string {
	for k, x := range dseqC {
		if x == v {
			return k
		}
	}
	return fmt.Sprintf("?%d", v)
}
func rev32(v uint32) string {
	for k, x := range seqC {
		if x == v {
			return k
		}
	}
	return fmt.Sprintf("?%d", v)
}
func revPrice(c sdk.Coin) string {
	if c.Denom != Denom {
		return "?denom " + c.Denom
	}
	for k, x := range priceC {
		if x == c.Amount.String() {
			return k
		}
	}
	return "?" + c.Amount.String()
}
func revVer(v []byte) string {
	for _, k := range []string{"zeros", "ff", "mixed"} {
		if bytes.Equal(v, verC(k)) {
			return k
		}
	}
	return fmt.Sprintf("?%x", v)
}

func codecMain(args []string) int {
	fs := flag.NewFlagSet("codec", flag.ContinueOnError)
	in := fs.String("cases", "", "ndjson of abstract cases")
	out := fs.String("out", "codec.ndjson", "output")
	if err := fs.Parse(args); err != nil {
		return 2
	}
	party := map[string]sdk.AccAddress{"x": seedAddr("codec-x"), "y": seedAddr("codec-y")}
	revParty := func(a string) string {
		for k, v := range party {
			if v.String() == a {
				return k
			}
		}
		return "?" + a
	}
	wr, err := vcommon.NewWriter(*out)
	if err != nil {
		fmt.Fprintln(os.Stderr, err)
		return 2
	}
	n := 0
	err = vcommon.ReadLines(*in, func(raw json.RawMessage) error {
		var c map[string]string
		if err := json.Unmarshal(raw, &c); err != nil {
			return err
		}
		did := dtypes.DeploymentID{Owner: party[c["owner"]].String(), DSeq: dseqC[c["dseq"]]}
		gid := dtypes.MakeGroupID(did, seqC[c["gseq"]])
		oid := mtypes.MakeOrderID(gid, seqC[c["oseq"]])
		var bid mtypes.BidID
		var price sdk.Coin
		if c["provider"] != "" {
			bid = mtypes.MakeBidID(oid, party[c["provider"]])
			amt, _ := sdk.NewIntFromString(priceC[c["price"]])
			price = sdk.NewCoin(Denom, amt)
		}
		var ev sdkutil.ModuleEvent
		switch c["type"] {
		case "deployment-created":
			ev = dtypes.NewEventDeploymentCreated(did, verC(c["version"]))
		case "deployment-updated":
			ev = dtypes.NewEventDeploymentUpdated(did, verC(c["version"]))
		case "deployment-closed":
			ev = dtypes.NewEventDeploymentClosed(did)
		case "group-closed":
			ev = dtypes.NewEventGroupClosed(gid)
		case "group-paused":
			ev = dtypes.NewEventGroupPaused(gid)
		case "group-started":
			ev = dtypes.NewEventGroupStarted(gid)
		case "order-created":
			ev = mtypes.NewEventOrderCreated(oid)
		case "order-closed":
			ev = mtypes.NewEventOrderClosed(oid)
		case "bid-created":
			ev = mtypes.NewEventBidCreated(bid, price)
		case "bid-closed":
			ev = mtypes.NewEventBidClosed(bid, price)
		case "lease-created":
			ev = mtypes.NewEventLeaseCreated(mtypes.LeaseID(bid), price)
		case "lease-closed":
			ev = mtypes.NewEventLeaseClosed(mtypes.LeaseID(bid), price)
		case "provider-created":
			ev = ptypes.NewEventProviderCreated(party[c["owner"]])
		case "provider-updated":
			ev = ptypes.NewEventProviderUpdated(party[c["owner"]])
		case "provider-deleted":
			ev = ptypes.NewEventProviderDeleted(party[c["owner"]])
		case "attestation-set":
			ev = audtypes.NewEventTrustedAuditorCreated(party[c["owner"]], party[c["auditor"]])
		case "attestation-deleted":
			ev = audtypes.NewEventTrustedAuditorDeleted(party[c["owner"]], party[c["auditor"]])
		default:
			return fmt.Errorf("unknown event type %q", c["type"])
		}
		emitted := abci.Event(ev.ToSDKEvent())
		line := M{"case": c, "parsed": false, "equal": false, "dec": M{}}
		func() {
			defer func() {
				if r := recover(); r != nil {
					line["panic"] = fmt.Sprint(r)
				}
			}()
			typed, ok := events.VerifProcessEvent(emitted)
			if !ok {
				return
			}
			line["parsed"] = true
			line["equal"] = reflect.DeepEqual(typed, ev)
			d := M{}
			dd := func(id dtypes.DeploymentID) { d["owner"], d["dseq"] = revParty(id.Owner), rev64(id.DSeq) }
			gg := func(id dtypes.GroupID) { dd(id.DeploymentID()); d["gseq"] = rev32(id.GSeq) }
			oo := func(id mtypes.OrderID) { gg(id.GroupID()); d["oseq"] = rev32(id.OSeq) }
			bb := func(id mtypes.BidID, p sdk.Coin) { oo(id.OrderID()); d["provider"], d["price"] = revParty(id.Provider), revPrice(p) }
			switch e := typed.(type) {
			case dtypes.EventDeploymentCreated:
				d["type"] = "deployment-created"
				dd(e.ID)
				d["version"] = revVer(e.Version)
			case dtypes.EventDeploymentUpdated:
				d["type"] = "deployment-updated"
				dd(e.ID)
				d["version"] = revVer(e.Version)
			case dtypes.EventDeploymentClosed:
				d["type"] = "deployment-closed"
				dd(e.ID)
			case dtypes.EventGroupClosed:
				d["type"] = "group-closed"
				gg(e.ID)
			case dtypes.EventGroupPaused:
				d["type"] = "group-paused"
				gg(e.ID)
			case dtypes.EventGroupStarted:
				d["type"] = "group-started"
				gg(e.ID)
			case mtypes.EventOrderCreated:
				d["type"] = "order-created"
				oo(e.ID)
			case mtypes.EventOrderClosed:
				d["type"] = "order-closed"
				oo(e.ID)
			case mtypes.EventBidCreated:
				d["type"] = "bid-created"
				bb(e.ID, e.Price)
			case mtypes.EventBidClosed:
				d["type"] = "bid-closed"
				bb(e.ID, e.Price)
			case mtypes.EventLeaseCreated:
				d["type"] = "lease-created"
				bb(mtypes.BidID(e.ID), e.Price)
			case mtypes.EventLeaseClosed:
				d["type"] = "lease-closed"
				bb(mtypes.BidID(e.ID), e.Price)
			case ptypes.EventProviderCreated:
				d["type"], d["owner"] = "provider-created", revParty(e.Owner.String())
			case ptypes.EventProviderUpdated:
				d["type"], d["owner"] = "provider-updated", revParty(e.Owner.String())
			case ptypes.EventProviderDeleted:
				d["type"], d["owner"] = "provider-deleted", revParty(e.Owner.String())
			case audtypes.EventTrustedAuditorCreated:
				d["type"], d["owner"], d["auditor"] = "attestation-set", revParty(e.Owner.String()), revParty(e.Auditor.String())
			case audtypes.EventTrustedAuditorDeleted:
				d["type"], d["owner"], d["auditor"] = "attestation-deleted", revParty(e.Owner.String()), revParty(e.Auditor.String())
			default:
				d["type"] = fmt.Sprintf("?%T", typed)
			}
			line["dec"] = d
		}()
		n++
		return wr.Write(line)
	})
	if cerr := wr.Close(); err == nil {
		err = cerr
	}
	if err != nil {
		fmt.Fprintln(os.Stderr, "codec:", err)
		return 2
	}
	fmt.Printf("{\"cases\": %d}\n", n)
	return 0
}
