package chainh

import (
	"bytes"
	"fmt"
	"sort"
	"strconv"
	"strings"

	sdk "github.com/cosmos/cosmos-sdk/types"
	authtypes "github.com/cosmos/cosmos-sdk/x/auth/types"

	atypes "github.com/ovrclk/akash/types"
	audtypes "github.com/ovrclk/akash/x/audit/types"
	dtypes "github.com/ovrclk/akash/x/deployment/types"
	"github.com/ovrclk/akash/x/escrow"
	etypes "github.com/ovrclk/akash/x/escrow/types"
	mtypes "github.com/ovrclk/akash/x/market/types"
	ptypes "github.com/ovrclk/akash/x/provider/types"
)

type M = map[string]interface{}

// State is the abstract state of Chain.tla, as JSON.
type State struct {
	Height int64            `json:"height"`
	Bank   map[string]int64 `json:"bank"`
	EAcct  map[string]M     `json:"eacct"`
	EPay   map[string]M     `json:"epay"`
	Dep    map[string]M     `json:"dep"`
	Grp    map[string]M     `json:"grp"`
	Ord    map[string]M     `json:"ord"`
	Bid    map[string]M     `json:"bid"`
	Lease  map[string]M     `json:"lease"`
	Prov   map[string]M     `json:"prov"`
	Attest map[string]M     `json:"attest"`
	// balances in the foreign denomination, by party: not part of the abstract state (recorded next to it in the step)
	Foreign map[string]int64 `json:"-"`
}

// ForeignAmountBase marks an amount recorded in the foreign denomination: it is projected as -(base + amount), a
// value no specification state contains, so that the step is still recorded and TLC judges it (instead of the harness
// giving up on a state only a defect can produce).
const ForeignAmountBase = 1000000

func amt(c sdk.Coin) (int64, error) {
	if c.Denom == ForeignDenom && c.Amount.IsInt64() {
		return -(ForeignAmountBase + c.Amount.Int64()), nil
	}
	if c.Denom != Denom {
		return 0, fmt.Errorf("unprojectable denom %q", c.Denom)
	}
	if !c.Amount.IsInt64() {
		return 0, fmt.Errorf("unprojectable amount %s", c.Amount)
	}
	return c.Amount.Int64(), nil
}

func (w *World) didStr(id dtypes.DeploymentID) (string, string, int, error) {
	t, err := w.Name(id.Owner)
	if err != nil {
		return "", "", 0, err
	}
	d, err := w.DIndex(id.DSeq)
	if err != nil {
		return "", "", 0, err
	}
	return fmt.Sprintf("%s/%d", t, d), t, d, nil
}

func (w *World) gidStr(id dtypes.GroupID) (string, string, error) {
	d, _, _, err := w.didStr(id.DeploymentID())
	return fmt.Sprintf("%s/%d", d, id.GSeq), d, err
}

func (w *World) oidStr(id mtypes.OrderID) (string, string, string, error) {
	g, d, err := w.gidStr(id.GroupID())
	return fmt.Sprintf("%s/%d", g, id.OSeq), g, d, err
}

func (w *World) bidStr(id mtypes.BidID) (string, string, string, string, string, error) {
	o, g, d, err := w.oidStr(id.OrderID())
	if err != nil {
		return "", "", "", "", "", err
	}
	p, err := w.Name(id.Provider)
	return o + "/" + p, o, g, d, p, err
}

func attrMap(as atypes.Attributes) M {
	m := M{}
	for _, a := range as {
		m[a.Key] = a.Value
	}
	return m
}

func (w *World) names(addrs []string) ([]string, error) {
	out := []string{}
	for _, a := range addrs {
		n, err := w.Name(a)
		if err != nil {
			return nil, err
		}
		out = append(out, n)
	}
	sort.Strings(out)
	return out, nil
}

// parseXID maps the chain's own escrow id strings back to abstract ids.
func (w *World) escrowAccountKey(id etypes.AccountID) (key string, rec M, err error) {
	parts := strings.Split(id.XID, "/")
	if len(parts) < 2 {
		return "", nil, fmt.Errorf("unprojectable escrow xid %q", id.XID)
	}
	dseq, err := strconv.ParseUint(parts[1], 10, 64)
	if err != nil {
		return "", nil, fmt.Errorf("unprojectable escrow xid %q", id.XID)
	}
	dstr, t, d, err := w.didStr(dtypes.DeploymentID{Owner: parts[0], DSeq: dseq})
	if err != nil {
		return "", nil, err
	}
	rec = M{"scope": id.Scope, "d": dstr, "t": t, "dseq": d}
	switch {
	case id.Scope == "deployment" && len(parts) == 2:
		return "deployment/" + dstr, rec, nil
	case id.Scope == "bid" && len(parts) == 5:
		p, err := w.Name(parts[4])
		if err != nil {
			return "", nil, err
		}
		return fmt.Sprintf("bid/%s/%s/%s/%s", dstr, parts[2], parts[3], p), rec, nil
	}
	return "", nil, fmt.Errorf("unprojectable escrow account %s/%s", id.Scope, id.XID)
}

// Project scans every akash store and all bank balances of ctx through raw store iterators.
func (w *World) Project(ctx sdk.Context) (*State, error) {
	cdc := w.App.AppCodec()
	s := &State{Height: ctx.BlockHeight(), Bank: map[string]int64{}, EAcct: map[string]M{}, EPay: map[string]M{}, Dep: map[string]M{},
		Grp: map[string]M{}, Ord: map[string]M{}, Bid: map[string]M{}, Lease: map[string]M{}, Prov: map[string]M{}, Attest: map[string]M{}}

	// bank: every balance in the store must belong to a known party or the escrow module account
	k := w.App.VerifKeepers()
	escrowAddr := authtypes.NewModuleAddress(etypes.ModuleName)
	for _, n := range w.PartyNames() {
		s.Bank[n] = 0
	}
	s.Bank["escrow"] = 0
	var perr error
	s.Foreign = map[string]int64{}
	k.Bank.IterateAllBalances(ctx, func(addr sdk.AccAddress, c sdk.Coin) bool {
		if c.IsZero() {
			return false
		}
		if c.Denom == ForeignDenom && w.Cfg.ForeignCoins > 0 && c.Amount.IsInt64() {
			n := "escrow"
			if !addr.Equals(escrowAddr) {
				var err error
				if n, err = w.Name(addr.String()); err != nil {
					perr = fmt.Errorf("coins at unexpected address: %v", err)
					return true
				}
			}
			s.Foreign[n] += c.Amount.Int64()
			return false
		}
		v, err := amt(c)
		if err != nil {
			perr = err
			return true
		}
		if addr.Equals(escrowAddr) {
			s.Bank["escrow"] += v
			return false
		}
		n, err := w.Name(addr.String())
		if err != nil {
			perr = fmt.Errorf("coins at unexpected address: %v", err)
			return true
		}
		s.Bank[n] += v
		return false
	})
	if perr != nil {
		return nil, perr
	}

	// escrow
	it := ctx.KVStore(w.App.GetKey(etypes.StoreKey)).Iterator(nil, nil)
	for ; it.Valid(); it.Next() {
		key := it.Key()
		switch key[0] {
		case 0x01:
			var a etypes.Account
			if err := cdc.UnmarshalBinaryBare(it.Value(), &a); err != nil {
				it.Close()
				return nil, err
			}
			ak, rec, err := w.escrowAccountKey(a.ID)
			if err != nil {
				it.Close()
				return nil, err
			}
			owner, err := w.Name(a.Owner)
			if err != nil {
				it.Close()
				return nil, err
			}
			bal, e1 := amt(a.Balance)
			tr, e2 := amt(a.Transferred)
			if e1 != nil || e2 != nil {
				it.Close()
				return nil, fmt.Errorf("escrow account %s: %v %v", ak, e1, e2)
			}
			rec["owner"], rec["state"], rec["balance"], rec["transferred"], rec["settledAt"] = owner, a.State.String(), bal, tr, a.SettledAt
			if _, dup := s.EAcct[ak]; dup {
				it.Close()
				return nil, fmt.Errorf("two escrow accounts project to %s", ak)
			}
			s.EAcct[ak] = rec
		case 0x02:
			var p etypes.Payment
			if err := cdc.UnmarshalBinaryBare(it.Value(), &p); err != nil {
				it.Close()
				return nil, err
			}
			ak, arec, err := w.escrowAccountKey(p.AccountID)
			if err != nil {
				it.Close()
				return nil, err
			}
			pp := strings.Split(p.PaymentID, "/")
			if len(pp) != 3 {
				it.Close()
				return nil, fmt.Errorf("unprojectable payment id %q", p.PaymentID)
			}
			g, e1 := strconv.Atoi(pp[0])
			o, e2 := strconv.Atoi(pp[1])
			prov, e3 := w.Name(pp[2])
			owner, e4 := w.Name(p.Owner)
			rate, e5 := amt(p.Rate)
			bal, e6 := amt(p.Balance)
			wd, e7 := amt(p.Withdrawn)
			for _, e := range []error{e1, e2, e3, e4, e5, e6, e7} {
				if e != nil {
					it.Close()
					return nil, fmt.Errorf("payment %s %s: %v", ak, p.PaymentID, e)
				}
			}
			pk := fmt.Sprintf("%s/%d/%d/%s", arec["d"], g, o, prov)
			if _, dup := s.EPay[pk]; dup {
				it.Close()
				return nil, fmt.Errorf("two escrow payments project to %s", pk)
			}
			s.EPay[pk] = M{"acct": ak, "d": arec["d"], "g": g, "o": o, "p": prov, "owner": owner, "state": p.State.String(),
				"rate": rate, "balance": bal, "withdrawn": wd}
		default:
			it.Close()
			return nil, fmt.Errorf("unprojectable escrow key %x", key)
		}
	}
	it.Close()

	// deployment
	it = ctx.KVStore(w.App.GetKey(dtypes.StoreKey)).Iterator(nil, nil)
	for ; it.Valid(); it.Next() {
		switch it.Key()[0] {
		case 0x01:
			var d dtypes.Deployment
			if err := cdc.UnmarshalBinaryBare(it.Value(), &d); err != nil {
				it.Close()
				return nil, err
			}
			ds, t, _, err := w.didStr(d.DeploymentID)
			if err != nil {
				it.Close()
				return nil, err
			}
			v := int64(-1)
			if len(d.Version) == dtypes.ManifestVersionLength && bytes.Equal(d.Version, version(int64(d.Version[0]))) {
				v = int64(d.Version[0])
			}
			s.Dep[ds] = M{"state": d.State.String(), "version": v, "owner": t}
		case 0x02:
			var g dtypes.Group
			if err := cdc.UnmarshalBinaryBare(it.Value(), &g); err != nil {
				it.Close()
				return nil, err
			}
			gs, ds, err := w.gidStr(g.GroupID)
			if err != nil {
				it.Close()
				return nil, err
			}
			price, err := amt(g.GroupSpec.Price())
			if err != nil {
				it.Close()
				return nil, err
			}
			allOf, e1 := w.names(g.GroupSpec.Requirements.SignedBy.AllOf)
			anyOf, e2 := w.names(g.GroupSpec.Requirements.SignedBy.AnyOf)
			if e1 != nil || e2 != nil {
				it.Close()
				return nil, fmt.Errorf("group %s auditors: %v %v", gs, e1, e2)
			}
			s.Grp[gs] = M{"state": g.State.String(), "d": ds, "price": price, "req": attrMap(g.GroupSpec.Requirements.Attributes),
				"allOf": allOf, "anyOf": anyOf}
		default:
			it.Close()
			return nil, fmt.Errorf("unprojectable deployment key %x", it.Key())
		}
	}
	it.Close()

	// market
	it = ctx.KVStore(w.App.GetKey(mtypes.StoreKey)).Iterator(nil, nil)
	for ; it.Valid(); it.Next() {
		key := it.Key()
		if len(key) < 2 || key[1] != 0x00 {
			it.Close()
			return nil, fmt.Errorf("unprojectable market key %x", key)
		}
		switch key[0] {
		case 0x01:
			var o mtypes.Order
			if err := cdc.UnmarshalBinaryBare(it.Value(), &o); err != nil {
				it.Close()
				return nil, err
			}
			os, gs, ds, err := w.oidStr(o.OrderID)
			if err != nil {
				it.Close()
				return nil, err
			}
			s.Ord[os] = M{"state": o.State.String(), "d": ds, "gid": gs}
		case 0x02:
			var b mtypes.Bid
			if err := cdc.UnmarshalBinaryBare(it.Value(), &b); err != nil {
				it.Close()
				return nil, err
			}
			bs, os, gs, ds, p, err := w.bidStr(b.BidID)
			if err != nil {
				it.Close()
				return nil, err
			}
			price, err := amt(b.Price)
			if err != nil {
				it.Close()
				return nil, err
			}
			s.Bid[bs] = M{"state": b.State.String(), "price": price, "d": ds, "oid": os, "gid": gs, "p": p}
		case 0x03:
			var l mtypes.Lease
			if err := cdc.UnmarshalBinaryBare(it.Value(), &l); err != nil {
				it.Close()
				return nil, err
			}
			ls, os, gs, ds, p, err := w.bidStr(mtypes.BidID(l.LeaseID))
			if err != nil {
				it.Close()
				return nil, err
			}
			price, err := amt(l.Price)
			if err != nil {
				it.Close()
				return nil, err
			}
			s.Lease[ls] = M{"state": l.State.String(), "price": price, "d": ds, "oid": os, "gid": gs, "p": p, "createdAt": l.CreatedAt}
		default:
			it.Close()
			return nil, fmt.Errorf("unprojectable market key %x", key)
		}
	}
	it.Close()

	// provider
	it = ctx.KVStore(w.App.GetKey(ptypes.StoreKey)).Iterator(nil, nil)
	for ; it.Valid(); it.Next() {
		var p ptypes.Provider
		if err := cdc.UnmarshalBinaryBare(it.Value(), &p); err != nil {
			it.Close()
			return nil, err
		}
		n, err := w.Name(p.Owner)
		if err != nil || !bytes.Equal(it.Key(), w.addr[n].Bytes()) {
			it.Close()
			return nil, fmt.Errorf("unprojectable provider record %x (%v)", it.Key(), err)
		}
		s.Prov[n] = M{"attrs": attrMap(p.Attributes), "up": p.Owner != strings.ToLower(p.Owner)}
	}
	it.Close()

	// audit
	it = ctx.KVStore(w.App.GetKey(audtypes.StoreKey)).Iterator(nil, nil)
	for ; it.Valid(); it.Next() {
		var p audtypes.Provider
		if err := cdc.UnmarshalBinaryBare(it.Value(), &p); err != nil {
			it.Close()
			return nil, err
		}
		pn, e1 := w.Name(p.Owner)
		an, e2 := w.Name(p.Auditor)
		if e1 != nil || e2 != nil {
			it.Close()
			return nil, fmt.Errorf("unprojectable attestation %x", it.Key())
		}
		s.Attest[an+"/"+pn] = attrMap(p.Attributes)
	}
	it.Close()
	return s, nil
}

// GenesisOK runs the chain's own escrow genesis validation on the exported escrow state.
func (w *World) GenesisOK(ctx sdk.Context) (ok bool, msg string) {
	defer func() {
		if r := recover(); r != nil {
			ok, msg = false, fmt.Sprintf("panic: %v", r)
		}
	}()
	gs := escrow.ExportGenesis(ctx, w.App.VerifKeepers().Escrow)
	if err := escrow.ValidateGenesis(gs); err != nil {
		return false, err.Error()
	}
	return true, ""
}
