package chainh

import (
	"encoding/json"
	"flag"
	"fmt"
	"io/ioutil"
	"os"
	"time"

	"verif/harness/vcommon"
)

// Main is the entry point of `vh chain ...`.
func Main(args []string) int {
	if len(args) < 1 {
		fmt.Fprintln(os.Stderr, "usage: vh chain explore [flags]")
		return 2
	}
	switch args[0] {
	case "explore":
		return explore(args[1:])
	case "codec":
		return codecMain(args[1:])
	}
	fmt.Fprintln(os.Stderr, "unknown chain sub-command", args[0])
	return 2
}

func explore(args []string) int {
	fs := flag.NewFlagSet("explore", flag.ContinueOnError)
	cfgPath := fs.String("config", "", "world config JSON")
	paths := fs.String("paths", "", "ndjson: one JSON array of actions per line")
	alpha := fs.String("alphabet", "", "JSON array of actions tried at every selected node")
	out := fs.String("out", "trace.ndjson", "output trace")
	nodes := fs.Int("nodes", 0, "number of path end-points to expand (0 = all)")
	seed := fs.Int64("seed", 1, "sampling seed")
	shard := fs.Int("shard", 0, "shard index")
	shards := fs.Int("shards", 1, "number of shards")
	reps := fs.Int("reps", 2, "executions of every transaction on sibling branches (C07)")
	repsAudit := fs.Int("reps-audit", 4, "executions of attestation transactions")
	second := fs.Bool("second-app", false, "also execute every transaction in a second application instance (C07)")
	roundTrips := fs.Int("roundtrips", 0, "states at which the genesis export/import round trip is recorded")
	noiseF := fs.Bool("noise", false, "run unrelated transactions concurrently through the same application instance (C07)")
	allPaths := fs.Bool("all-paths", false, "execute every input path completely")
	maxHeight := fs.Int64("maxheight", 0, "skip NextBlock beyond this height (0 = no bound)")
	if err := fs.Parse(args); err != nil {
		return 2
	}
	var cfg Config
	b, err := ioutil.ReadFile(*cfgPath)
	if err == nil {
		err = json.Unmarshal(b, &cfg)
	}
	if err != nil {
		fmt.Fprintln(os.Stderr, "config:", err)
		return 2
	}
	t0 := time.Now()
	w, err := NewWorld(cfg)
	if err != nil {
		fmt.Fprintln(os.Stderr, "world:", err)
		return 2
	}
	var al []Action
	if *alpha != "" {
		b, err := ioutil.ReadFile(*alpha)
		if err == nil {
			err = json.Unmarshal(b, &al)
		}
		if err != nil {
			fmt.Fprintln(os.Stderr, "alphabet:", err)
			return 2
		}
	}
	wr, err := vcommon.NewWriter(*out)
	if err != nil {
		fmt.Fprintln(os.Stderr, err)
		return 2
	}
	e, err := Explore(w, wr, Options{PathFile: *paths, Alphabet: al, Nodes: *nodes, Seed: *seed, Shard: *shard, Shards: *shards,
		Reps: *reps, RepsAudit: *repsAudit, MaxHeight: *maxHeight, AllPaths: *allPaths, SecondApp: *second, RoundTrips: *roundTrips, Noise: *noiseF})
	if cerr := wr.Close(); err == nil {
		err = cerr
	}
	if err != nil {
		fmt.Fprintln(os.Stderr, "explore:", err)
		return 2
	}
	classes := []string{}
	for k := range e.Pairs {
		classes = append(classes, k)
	}
	sum, _ := json.Marshal(map[string]interface{}{"steps": e.Steps, "paths": e.NPaths, "alphabet": len(al), "classes": classes,
		"wall_s": time.Since(t0).Seconds()})
	fmt.Println(string(sum))
	return 0
}
