package chainh

// Exported accessors for harness/chainqh (the read-side family X01), which reaches chain states by replaying
// action paths on the same World and projects query responses with the same id tables.

import (
	sdk "github.com/cosmos/cosmos-sdk/types"

	atypes "github.com/ovrclk/akash/types"
	dtypes "github.com/ovrclk/akash/x/deployment/types"
	etypes "github.com/ovrclk/akash/x/escrow/types"
	mtypes "github.com/ovrclk/akash/x/market/types"
)

// Genesis is the snapshot of the initial state (funded parties, no marketplace records).
func (w *World) Genesis() *Snapshot { return w.genesis }

// Advance returns the snapshot `gap` blocks later (what the NextBlock action does).
func (s *Snapshot) Advance(gap int64) *Snapshot {
	return &Snapshot{Height: s.Height + gap, Stores: s.Stores}
}

// NormalizeAction fills the nil slices/maps TLC's JSON leaves out.
func NormalizeAction(a *Action) { normalize(a) }

func (w *World) DeploymentIDStr(id dtypes.DeploymentID) (string, string, int, error) {
	return w.didStr(id)
}
func (w *World) GroupIDStr(id dtypes.GroupID) (string, string, error)         { return w.gidStr(id) }
func (w *World) OrderIDStr(id mtypes.OrderID) (string, string, string, error) { return w.oidStr(id) }
func (w *World) BidIDStr(id mtypes.BidID) (string, string, string, string, string, error) {
	return w.bidStr(id)
}
func (w *World) EscrowAccountKey(id etypes.AccountID) (string, M, error) {
	return w.escrowAccountKey(id)
}
func (w *World) Names(addrs []string) ([]string, error) { return w.names(addrs) }
func Amt(c sdk.Coin) (int64, error)                     { return amt(c) }
func AttrMapOf(as atypes.Attributes) M                  { return attrMap(as) }
func VersionIndex(v []byte) int64 {
	if len(v) == dtypes.ManifestVersionLength && string(v) == string(version(int64(v[0]))) {
		return int64(v[0])
	}
	return -1
}
