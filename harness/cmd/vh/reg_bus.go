package main

import "verif/harness/bush"

func init() { register("bus", bush.Main) }
