package main

import "verif/harness/chainh"

func init() { register("chain", chainh.Main) }
