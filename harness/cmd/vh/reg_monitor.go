package main

import "verif/harness/monitorh"

func init() { register("monitor", monitorh.Main) }
