package main

import "verif/harness/limitsh"

func init() { register("limits", limitsh.Main) }
