package main

import "verif/harness/mmanagerh"

func init() { register("mmanager", mmanagerh.Main) }
