package main

import "verif/harness/certh"

func init() { register("cert", certh.Main) }
