package main

import "verif/harness/deployh"

func init() { register("deploy", deployh.Main) }
