package main

import "verif/harness/hostnameh"

func init() { register("hostname", hostnameh.Main) }
