package main

import "verif/harness/mmatchh"

func init() { register("mmatch", mmatchh.Main) }
