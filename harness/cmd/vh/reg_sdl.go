package main

import "verif/harness/sdlh"

func init() { register("sdl", sdlh.Main) }
