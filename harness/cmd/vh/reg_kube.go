//go:build verif
// +build verif

package main

import "verif/harness/kubeh"

func init() { register("kube", kubeh.Main) }
