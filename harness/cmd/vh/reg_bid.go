//go:build verif
// +build verif

package main

import "verif/harness/bidh"

func init() { register("bid", bidh.Main) }
