// Command vh is the conformance harness binary: one sub-command per specification family.
// Each family registers itself from its own reg_<family>.go file so families never edit a shared file.
package main

import (
	"fmt"
	"os"
	"sort"
)

var registry = map[string]func(args []string) int{}

func register(name string, fn func(args []string) int) { registry[name] = fn }

func main() {
	if len(os.Args) < 2 {
		names := []string{}
		for n := range registry {
			names = append(names, n)
		}
		sort.Strings(names)
		fmt.Fprintln(os.Stderr, "usage: vh <family> [args]; families:", names)
		os.Exit(2)
	}
	fn, ok := registry[os.Args[1]]
	if !ok {
		fmt.Fprintln(os.Stderr, "unknown family", os.Args[1])
		os.Exit(2)
	}
	os.Exit(fn(os.Args[2:]))
}
