package main

import "verif/harness/chainqh"

func init() { register("chainq", chainqh.Main) }
