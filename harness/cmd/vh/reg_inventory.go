package main

import "verif/harness/inventoryh"

func init() { register("inventory", inventoryh.Main) }
