package main

import "verif/harness/gatewayh"

func init() { register("gateway", gatewayh.Main) }
