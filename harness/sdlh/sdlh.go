// Package sdlh binds spec/sdl/Sdl.tla (property C18) to the real SDL translation in /repo/sdl.
//
//	vh sdl run --docs docs.ndjson --out runs.ndjson [--perms 3] [--seed 1] [--proc 1] [--calls 2] [--yaml-dir d]
//
// docs.ndjson holds the abstract documents TLC enumerated (one JSON object per line, line number = id).
// Every document is rendered to YAML text (block style for odd ids; flow-style sequences, comments and blank lines
// for even ids -- one style per document) in `perms` mapping-key orders (0: canonical, 1: every mapping
// reversed, >=2: seeded shuffle of every mapping), the text is given to the real sdl.Read (every other
// permutation through sdl.ReadFile), the real DeploymentGroups / Manifest / Version are called `calls` times on
// the parsed object, and the real validation.ValidateManifestWithDeployment judges the manifest against the
// groups. One "run" line is written per (permutation, call) holding the projected outputs; the projection is
// field copies only. Nothing is judged here: TLC does that (spec/sdl/SdlTrace.tla).
package sdlh

import (
	"bytes"
	"encoding/hex"
	"encoding/json"
	"flag"
	"fmt"
	"io/ioutil"
	"math"
	"math/rand"
	"os"
	"path/filepath"
	"strconv"
	"strings"

	"github.com/ovrclk/akash/manifest"
	"github.com/ovrclk/akash/sdl"
	"github.com/ovrclk/akash/types"
	"github.com/ovrclk/akash/validation"
	dtypes "github.com/ovrclk/akash/x/deployment/types"

	"verif/harness/vcommon"
)

// ---------------------------------------------------------------------------------------------
// abstract document, as printed by TLC (MCSdl.tla: ExportDocs)

type aTo struct {
	Service string `json:"service"`
	Global  bool   `json:"global"`
}

type aExpose struct {
	Port   int      `json:"port"`
	As     int      `json:"as"`
	Proto  string   `json:"proto"`
	To     []aTo    `json:"to"`
	Accept []string `json:"accept"`
}

type aService struct {
	Name    string    `json:"name"`
	Image   string    `json:"image"`
	Command []string  `json:"command"`
	Args    []string  `json:"args"`
	Env     []string  `json:"env"`
	Expose  []aExpose `json:"expose"`
}

type aCPU struct {
	Form  string `json:"form"`
	Milli int    `json:"milli"`
}

type aBytes struct {
	N      int    `json:"n"`
	Tenths int    `json:"tenths"`
	Suffix string `json:"suffix"`
}

type aCompute struct {
	Name         string      `json:"name"`
	CPU          aCPU        `json:"cpu"`
	CPUArch      string      `json:"cpuArch"`
	Mem          aBytes      `json:"mem"`
	Storage      aBytes      `json:"storage"`
	StorageAttrs [][2]string `json:"storageAttrs"`
}

type aPricing struct {
	Profile string `json:"profile"`
	Denom   string `json:"denom"`
	Amount  int    `json:"amount"`
}

type aPlacement struct {
	Name    string      `json:"name"`
	Attrs   [][2]string `json:"attrs"`
	AllOf   []string    `json:"allOf"`
	AnyOf   []string    `json:"anyOf"`
	Pricing []aPricing  `json:"pricing"`
}

type aDep struct {
	Service   string `json:"service"`
	Placement string `json:"placement"`
	Profile   string `json:"profile"`
	Count     int    `json:"count"`
}

type aDoc struct {
	Services   []aService   `json:"services"`
	Compute    []aCompute   `json:"compute"`
	Placement  []aPlacement `json:"placement"`
	Deployment []aDep       `json:"deployment"`
}

// ---------------------------------------------------------------------------------------------
// YAML text: a tiny ordered tree so that mapping-key order is ours to choose

type node interface{}
type kv struct {
	k string
	v node
}
type ymap []kv
type yseq []node
type scalar string // already rendered

func q(s string) scalar {
	var b bytes.Buffer
	e := json.NewEncoder(&b)
	e.SetEscapeHTML(false)
	_ = e.Encode(s)
	return scalar(strings.TrimRight(b.String(), "\n"))
}

func num(i int) scalar { return scalar(strconv.Itoa(i)) }

func cpuText(c aCPU) scalar {
	switch c.Form {
	case "m":
		return q(fmt.Sprintf("%dm", c.Milli))
	case "dec3":
		return scalar(fmt.Sprintf("%d.%03d", c.Milli/1000, c.Milli%1000))
	default: // "dec": shortest decimal spelling of milli/1000
		s := fmt.Sprintf("%d.%03d", c.Milli/1000, c.Milli%1000)
		s = strings.TrimRight(s, "0")
		s = strings.TrimSuffix(s, ".")
		return scalar(s)
	}
}

func bytesText(b aBytes) scalar {
	s := strconv.Itoa(b.N)
	if b.Tenths != 0 {
		s += "." + strconv.Itoa(b.Tenths)
	}
	if b.Suffix == "" {
		return scalar(s)
	}
	return q(s + b.Suffix)
}

func strSeq(ss []string, quote bool) yseq {
	out := yseq{}
	for _, s := range ss {
		if quote {
			out = append(out, q(s))
		} else {
			out = append(out, scalar(s))
		}
	}
	return out
}

func attrMap(as [][2]string) ymap {
	m := ymap{}
	for _, a := range as {
		m = append(m, kv{a[0], q(a[1])})
	}
	return m
}

func tree(d *aDoc) ymap {
	services := ymap{}
	for _, s := range d.Services {
		sm := ymap{{"image", q(s.Image)}}
		if len(s.Command) > 0 {
			sm = append(sm, kv{"command", strSeq(s.Command, true)})
		}
		if len(s.Args) > 0 {
			sm = append(sm, kv{"args", strSeq(s.Args, true)})
		}
		if len(s.Env) > 0 {
			sm = append(sm, kv{"env", strSeq(s.Env, true)})
		}
		if len(s.Expose) > 0 {
			ex := yseq{}
			for _, e := range s.Expose {
				em := ymap{{"port", num(e.Port)}}
				if e.As != 0 {
					em = append(em, kv{"as", num(e.As)})
				}
				if e.Proto != "" {
					em = append(em, kv{"proto", scalar(e.Proto)})
				}
				if len(e.Accept) > 0 {
					em = append(em, kv{"accept", strSeq(e.Accept, false)})
				}
				if len(e.To) > 0 {
					to := yseq{}
					for _, t := range e.To {
						tm := ymap{}
						if t.Service != "" {
							tm = append(tm, kv{"service", scalar(t.Service)})
						}
						if t.Global {
							tm = append(tm, kv{"global", scalar("true")})
						}
						to = append(to, tm)
					}
					em = append(em, kv{"to", to})
				}
				ex = append(ex, em)
			}
			sm = append(sm, kv{"expose", ex})
		}
		services = append(services, kv{s.Name, sm})
	}

	compute := ymap{}
	for _, c := range d.Compute {
		cpu := ymap{{"units", cpuText(c.CPU)}}
		if c.CPUArch != "" {
			cpu = append(cpu, kv{"attributes", ymap{{"arch", q(c.CPUArch)}}})
		}
		storage := ymap{{"size", bytesText(c.Storage)}}
		if len(c.StorageAttrs) > 0 {
			storage = append(storage, kv{"attributes", attrMap(c.StorageAttrs)})
		}
		compute = append(compute, kv{c.Name, ymap{{"resources", ymap{
			{"cpu", cpu},
			{"memory", ymap{{"size", bytesText(c.Mem)}}},
			{"storage", storage},
		}}}})
	}

	placement := ymap{}
	for _, p := range d.Placement {
		pm := ymap{}
		if len(p.Attrs) > 0 {
			pm = append(pm, kv{"attributes", attrMap(p.Attrs)})
		}
		if len(p.AllOf)+len(p.AnyOf) > 0 {
			sb := ymap{}
			if len(p.AnyOf) > 0 {
				sb = append(sb, kv{"anyOf", strSeq(p.AnyOf, true)})
			}
			if len(p.AllOf) > 0 {
				sb = append(sb, kv{"allOf", strSeq(p.AllOf, true)})
			}
			pm = append(pm, kv{"signedBy", sb})
		}
		pr := ymap{}
		for _, x := range p.Pricing {
			pr = append(pr, kv{x.Profile, ymap{{"denom", scalar(x.Denom)}, {"amount", num(x.Amount)}}})
		}
		pm = append(pm, kv{"pricing", pr})
		placement = append(placement, kv{p.Name, pm})
	}

	deployment := ymap{}
	for _, x := range d.Deployment {
		entry := kv{x.Placement, ymap{{"profile", scalar(x.Profile)}, {"count", num(x.Count)}}}
		found := false
		for i := range deployment {
			if deployment[i].k == x.Service {
				deployment[i].v = append(deployment[i].v.(ymap), entry)
				found = true
			}
		}
		if !found {
			deployment = append(deployment, kv{x.Service, ymap{entry}})
		}
	}

	return ymap{
		{"version", q("2.0")},
		{"services", services},
		{"profiles", ymap{{"compute", compute}, {"placement", placement}}},
		{"deployment", deployment},
	}
}

// permute returns a copy of the tree with the entries of EVERY mapping reordered: mode 0 keeps the order,
// mode 1 reverses, otherwise a shuffle driven by rng. Sequences keep their order (it is the tenant's).
func permute(n node, mode int, rng *rand.Rand) node {
	switch t := n.(type) {
	case ymap:
		out := make(ymap, len(t))
		for i, e := range t {
			out[i] = kv{e.k, permute(e.v, mode, rng)}
		}
		switch mode {
		case 0:
		case 1:
			for i, j := 0, len(out)-1; i < j; i, j = i+1, j-1 {
				out[i], out[j] = out[j], out[i]
			}
		default:
			rng.Shuffle(len(out), func(i, j int) { out[i], out[j] = out[j], out[i] })
		}
		return out
	case yseq:
		out := make(yseq, len(t))
		for i, e := range t {
			out[i] = permute(e, mode, rng)
		}
		return out
	default:
		return n
	}
}

func emit(b *bytes.Buffer, n node, indent int) {
	pad := strings.Repeat("  ", indent)
	switch t := n.(type) {
	case ymap:
		for _, e := range t {
			emitEntry(b, pad, e, indent)
		}
	case yseq:
		for _, e := range t {
			switch et := e.(type) {
			case scalar:
				fmt.Fprintf(b, "%s- %s\n", pad, string(et))
			case ymap:
				// first entry on the dash line, the rest aligned under it
				var inner bytes.Buffer
				emit(&inner, et, indent+1)
				txt := inner.String()
				fmt.Fprintf(b, "%s- %s", pad, strings.TrimPrefix(txt, pad+"  "))
			default:
				panic("nested sequence not used")
			}
		}
	}
}

// flowStyle: documents with an even id are written in a second text style -- sequences of scalars and the small
// `to` mappings in flow style, comments and blank lines -- the same for every key order of the document.
var flowStyle bool

func flowable(n node) (string, bool) {
	switch t := n.(type) {
	case yseq:
		parts := []string{}
		for _, e := range t {
			switch et := e.(type) {
			case scalar:
				parts = append(parts, string(et))
			case ymap:
				inner, ok := flowable(et)
				if !ok {
					return "", false
				}
				parts = append(parts, inner)
			default:
				return "", false
			}
		}
		return "[" + strings.Join(parts, ", ") + "]", true
	case ymap:
		if len(t) > 2 {
			return "", false
		}
		parts := []string{}
		for _, e := range t {
			sc, ok := e.v.(scalar)
			if !ok {
				return "", false
			}
			parts = append(parts, e.k+": "+string(sc))
		}
		return "{" + strings.Join(parts, ", ") + "}", true
	}
	return "", false
}

func emitEntry(b *bytes.Buffer, pad string, e kv, indent int) {
	switch vt := e.v.(type) {
	case scalar:
		fmt.Fprintf(b, "%s%s: %s\n", pad, e.k, string(vt))
	case ymap:
		if flowStyle && indent == 0 {
			fmt.Fprintf(b, "\n%s# %s\n", pad, e.k)
		}
		fmt.Fprintf(b, "%s%s:\n", pad, e.k)
		emit(b, vt, indent+1)
	case yseq:
		if flowStyle && e.k != "expose" {
			if txt, ok := flowable(vt); ok {
				fmt.Fprintf(b, "%s%s: %s   # %d item(s)\n", pad, e.k, txt, len(vt))
				return
			}
		}
		fmt.Fprintf(b, "%s%s:\n", pad, e.k)
		emit(b, vt, indent+1)
	}
}

// Render gives the YAML text of d in key order `perm`; flow selects the second text style.
func Render(d *aDoc, perm int, seed int64, flow bool) []byte {
	rng := rand.New(rand.NewSource(seed))
	t := permute(tree(d), perm, rng).(ymap)
	var b bytes.Buffer
	flowStyle = flow
	b.WriteString("---\n")
	emit(&b, t, 0)
	return b.Bytes()
}

// ---------------------------------------------------------------------------------------------
// projection of the real outputs (field copies; integers above int32 are clamped because TLC integers are 32 bit)

func clamp(v uint64) int {
	if v > math.MaxInt32 {
		return math.MaxInt32
	}
	return int(v)
}

type big struct {
	Mi int `json:"mi"`
	B  int `json:"b"`
}

func bigOf(v uint64) big { return big{Mi: clamp(v >> 20), B: int(v & (1<<20 - 1))} }

func strs(s []string) []string {
	if s == nil {
		return []string{}
	}
	return s
}

func attrs(as []types.Attribute) [][2]string {
	out := [][2]string{}
	for _, a := range as {
		out = append(out, [2]string{a.Key, a.Value})
	}
	return out
}

type pUnits struct {
	CPU          int         `json:"cpu"`
	CPUAttrs     [][2]string `json:"cpuAttrs"`
	Mem          big         `json:"mem"`
	Storage      big         `json:"storage"`
	StorageAttrs [][2]string `json:"storageAttrs"`
}

func unitsOf(u types.ResourceUnits) pUnits {
	p := pUnits{CPU: -1, CPUAttrs: [][2]string{}, Mem: big{-1, 0}, Storage: big{-1, 0}, StorageAttrs: [][2]string{}}
	if u.CPU != nil {
		p.CPU = clamp(u.CPU.Units.Value())
		p.CPUAttrs = attrs(u.CPU.Attributes)
	}
	if u.Memory != nil {
		p.Mem = bigOf(u.Memory.Quantity.Value())
	}
	if u.Storage != nil {
		p.Storage = bigOf(u.Storage.Quantity.Value())
		p.StorageAttrs = attrs(u.Storage.Attributes)
	}
	return p
}

type pPrice struct {
	Denom  string `json:"denom"`
	Amount int    `json:"amount"`
}

type pResource struct {
	pUnits
	Count     int      `json:"count"`
	Price     pPrice   `json:"price"`
	Endpoints []string `json:"endpoints"`
}

type pGroup struct {
	Name      string      `json:"name"`
	Attrs     [][2]string `json:"attrs"`
	AllOf     []string    `json:"allOf"`
	AnyOf     []string    `json:"anyOf"`
	Resources []pResource `json:"resources"`
}

type pExpose struct {
	Port    int      `json:"port"`
	As      int      `json:"as"`
	Proto   string   `json:"proto"`
	Service string   `json:"service"`
	Global  bool     `json:"global"`
	Hosts   []string `json:"hosts"`
}

type pService struct {
	Name    string   `json:"name"`
	Image   string   `json:"image"`
	Command []string `json:"command"`
	Args    []string `json:"args"`
	Env     []string `json:"env"`
	pUnits
	Count  int       `json:"count"`
	Expose []pExpose `json:"expose"`
}

type pMGroup struct {
	Name     string     `json:"name"`
	Services []pService `json:"services"`
}

type pOut struct {
	State    string    `json:"state"`
	Groups   []pGroup  `json:"groups,omitempty"`
	Manifest []pMGroup `json:"manifest,omitempty"`
	Version  string    `json:"version,omitempty"`
}

func projectGroups(gs []*dtypes.GroupSpec) []pGroup {
	out := []pGroup{}
	for _, g := range gs {
		pg := pGroup{Name: g.Name, Attrs: attrs(g.Requirements.Attributes), AllOf: strs(g.Requirements.SignedBy.AllOf),
			AnyOf: strs(g.Requirements.SignedBy.AnyOf), Resources: []pResource{}}
		for _, r := range g.Resources {
			pr := pResource{pUnits: unitsOf(r.Resources), Count: clamp(uint64(r.Count)), Endpoints: []string{}}
			pr.Price.Denom = r.Price.Denom
			if r.Price.Amount.IsNil() || r.Price.Amount.IsNegative() || !r.Price.Amount.IsUint64() {
				pr.Price.Amount = math.MaxInt32
			} else {
				pr.Price.Amount = clamp(r.Price.Amount.Uint64())
			}
			for _, e := range r.Resources.Endpoints {
				pr.Endpoints = append(pr.Endpoints, e.Kind.String())
			}
			pg.Resources = append(pg.Resources, pr)
		}
		out = append(out, pg)
	}
	return out
}

func projectManifest(m manifest.Manifest) []pMGroup {
	out := []pMGroup{}
	for _, g := range m.GetGroups() {
		pg := pMGroup{Name: g.Name, Services: []pService{}}
		for _, s := range g.Services {
			ps := pService{Name: s.Name, Image: s.Image, Command: strs(s.Command), Args: strs(s.Args), Env: strs(s.Env),
				pUnits: unitsOf(s.Resources), Count: clamp(uint64(s.Count)), Expose: []pExpose{}}
			for _, e := range s.Expose {
				ps.Expose = append(ps.Expose, pExpose{Port: int(e.Port), As: int(e.ExternalPort), Proto: string(e.Proto),
					Service: e.Service, Global: e.Global, Hosts: strs(e.Hosts)})
			}
			pg.Services = append(pg.Services, ps)
		}
		out = append(out, pg)
	}
	return out
}

// ---------------------------------------------------------------------------------------------

type runLine struct {
	Ev    string `json:"ev"`
	ID    int    `json:"id"`
	Proc  int    `json:"proc"`
	Perm  int    `json:"perm"`
	Via   string `json:"via"`
	Call  int    `json:"call"`
	Err   string `json:"err"`
	Out   pOut   `json:"out"`
	Xval  string `json:"xval"`  // validation.ValidateManifestWithDeployment (what the provider runs)
	Xval2 string `json:"xval2"` // validation.ValidateManifestWithGroupSpecs
}

func errText(err error) string {
	if err == nil {
		return "ok"
	}
	s := err.Error()
	if len(s) > 200 {
		s = s[:200]
	}
	if s == "ok" || s == "" {
		s = "error: " + s
	}
	return s
}

func rejected(l runLine, err error) runLine {
	l.Err = errText(err)
	l.Out = pOut{State: "rejected"}
	l.Xval, l.Xval2 = "none", "none"
	return l
}

// oneRead parses the text once and performs `calls` rounds of DeploymentGroups / Manifest / Version on the object.
func oneRead(text []byte, via string, tmpdir string, base runLine, calls int, emitLine func(runLine)) {
	var obj sdl.SDL
	var err error
	if via == "ReadFile" {
		p := filepath.Join(tmpdir, fmt.Sprintf("d%d-p%d.yaml", base.ID, base.Perm))
		if err = ioutil.WriteFile(p, text, 0600); err != nil {
			panic(err)
		}
		obj, err = sdl.ReadFile(p)
		_ = os.Remove(p)
	} else {
		obj, err = sdl.Read(text)
	}
	base.Via = via
	if err != nil {
		base.Call = 1
		emitLine(rejected(base, err))
		return
	}
	for c := 1; c <= calls; c++ {
		l := base
		l.Call = c
		var groups []*dtypes.GroupSpec
		var mani manifest.Manifest
		var ver []byte
		// the order of the three calls alternates so that a call that disturbs the parsed object shows up
		if c%2 == 1 {
			groups, err = obj.DeploymentGroups()
			if err == nil {
				mani, err = obj.Manifest()
			}
			if err == nil {
				ver, err = sdl.Version(obj)
			}
		} else {
			ver, err = sdl.Version(obj)
			if err == nil {
				mani, err = obj.Manifest()
			}
			if err == nil {
				groups, err = obj.DeploymentGroups()
			}
		}
		if err != nil {
			emitLine(rejected(l, err))
			continue
		}
		l.Err = "ok"
		l.Out = pOut{State: "ok", Groups: projectGroups(groups), Manifest: projectManifest(mani), Version: hex.EncodeToString(ver)}
		dgroups := make([]dtypes.Group, 0, len(groups))
		for i, g := range groups {
			dgroups = append(dgroups, dtypes.Group{
				GroupID:   dtypes.GroupID{Owner: "akash1tenant", DSeq: 1, GSeq: uint32(i + 1)},
				State:     dtypes.GroupOpen,
				GroupSpec: *g,
			})
		}
		l.Xval = errText(validation.ValidateManifestWithDeployment(&mani, dgroups))
		l.Xval2 = errText(validation.ValidateManifestWithGroupSpecs(&mani, groups))
		emitLine(l)
	}
}

// Main is the entry point of `vh sdl`.
func Main(args []string) int {
	if len(args) > 0 && args[0] == "abstract" {
		return abstractMain(args[1:])
	}
	if len(args) == 0 || args[0] != "run" {
		fmt.Fprintln(os.Stderr, "usage: vh sdl run --docs F --out F [--perms N] [--seed S] [--proc P] [--calls C] [--yaml-dir D]\n"+
			"       vh sdl abstract --files a.yaml,b.yaml --out F")
		return 2
	}
	fs := flag.NewFlagSet("sdl run", flag.ContinueOnError)
	docs := fs.String("docs", "", "ndjson of abstract documents (TLC export)")
	outp := fs.String("out", "", "ndjson of run lines")
	perms := fs.Int("perms", 3, "number of key permutations per document")
	permBase := fs.Int("perm-base", 0, "index of the first permutation")
	seed := fs.Int64("seed", 1, "seed of the shuffles")
	proc := fs.Int("proc", 1, "process tag written into the lines")
	calls := fs.Int("calls", 2, "rounds of DeploymentGroups/Manifest/Version per parsed object")
	yamlDir := fs.String("yaml-dir", "", "also keep the rendered YAML texts here (replay material)")
	if err := fs.Parse(args[1:]); err != nil {
		return 2
	}
	w, err := vcommon.NewWriter(*outp)
	if err != nil {
		fmt.Fprintln(os.Stderr, "sdlh:", err)
		return 2
	}
	tmpdir, err := ioutil.TempDir("", "sdlh-")
	if err != nil {
		fmt.Fprintln(os.Stderr, "sdlh:", err)
		return 2
	}
	defer os.RemoveAll(tmpdir)
	id := 0
	nruns := 0
	err = vcommon.ReadLines(*docs, func(raw json.RawMessage) error {
		id++
		var d srcDoc
		dec := json.NewDecoder(bytes.NewReader(raw))
		dec.DisallowUnknownFields()
		if err := dec.Decode(&d); err != nil {
			return fmt.Errorf("doc %d: %v", id, err)
		}
		var orig []byte
		if d.Src != "" { // a document abstracted from a file: the real code gets the file's own text, permuted
			var err error
			if orig, err = ioutil.ReadFile(d.Src); err != nil {
				return err
			}
		}
		for k := 0; k < *perms; k++ {
			perm := *permBase + k
			pseed := *seed*1000003 + int64(id)*131 + int64(perm)
			var text []byte
			if orig != nil {
				var err error
				if text, err = PermuteText(orig, perm, pseed); err != nil {
					return fmt.Errorf("doc %d: %v", id, err)
				}
			} else {
				text = Render(&d.aDoc, perm, pseed, id%2 == 0)
			}
			if *yamlDir != "" {
				_ = ioutil.WriteFile(filepath.Join(*yamlDir, fmt.Sprintf("doc%d-perm%d.yaml", id, perm)), text, 0644)
			}
			via := "Read"
			if perm%2 == 1 {
				via = "ReadFile"
			}
			base := runLine{Ev: "run", ID: id, Proc: *proc, Perm: perm}
			oneRead(text, via, tmpdir, base, *calls, func(l runLine) {
				nruns++
				if e := w.Write(l); e != nil {
					panic(e)
				}
			})
		}
		return nil
	})
	if err != nil {
		fmt.Fprintln(os.Stderr, "sdlh:", err)
		return 2
	}
	if err := w.Close(); err != nil {
		fmt.Fprintln(os.Stderr, "sdlh:", err)
		return 2
	}
	fmt.Printf("{\"docs\":%d,\"runs\":%d}\n", id, nruns)
	return 0
}
