package sdlh

// Reverse direction of the binding: an SDL file written by a person (the repository's own fixtures and examples) is
// read with the generic YAML node API -- NOT with the sdl package -- into the abstract document of spec/sdl/Sdl.tla
// ("what the tenant declared"), so that TLC can judge what the real translation made of it. The original text and
// key-permuted re-encodings of its node tree are what the real code is given.
//
//	vh sdl abstract --files a.yaml,b.yaml --out docs.ndjson
//
// writes one abstract document per file that fits the abstraction (with "src": path), and reports the others.

import (
	"bytes"
	"encoding/json"
	"flag"
	"fmt"
	"io/ioutil"
	"math/rand"
	"os"
	"regexp"
	"sort"
	"strconv"
	"strings"

	"gopkg.in/yaml.v3"

	"verif/harness/vcommon"
)

type notAbstractable struct{ why string }

func (e notAbstractable) Error() string { return e.why }

func na(format string, a ...interface{}) error { return notAbstractable{fmt.Sprintf(format, a...)} }

func mapPairs(n *yaml.Node) ([][2]*yaml.Node, error) {
	if n == nil {
		return nil, nil
	}
	if n.Kind == yaml.AliasNode {
		return nil, na("alias")
	}
	if n.Kind == yaml.ScalarNode && (n.Tag == "!!null" || n.Value == "") {
		return nil, nil
	}
	if n.Kind != yaml.MappingNode {
		return nil, na("line %d: mapping expected", n.Line)
	}
	out := [][2]*yaml.Node{}
	for i := 0; i+1 < len(n.Content); i += 2 {
		if n.Content[i].Kind != yaml.ScalarNode {
			return nil, na("line %d: non-scalar key", n.Content[i].Line)
		}
		out = append(out, [2]*yaml.Node{n.Content[i], n.Content[i+1]})
	}
	return out, nil
}

func get(n *yaml.Node, key string) *yaml.Node {
	ps, err := mapPairs(n)
	if err != nil {
		return nil
	}
	for _, p := range ps {
		if p[0].Value == key {
			return p[1]
		}
	}
	return nil
}

func scalarOf(n *yaml.Node) (string, error) {
	if n == nil {
		return "", nil
	}
	if n.Kind != yaml.ScalarNode {
		return "", na("line %d: scalar expected", n.Line)
	}
	return n.Value, nil
}

func intOf(n *yaml.Node) (int, error) {
	s, err := scalarOf(n)
	if err != nil || n == nil {
		return 0, err
	}
	v, e := strconv.Atoi(s)
	if e != nil {
		return 0, na("line %d: integer expected, got %q", n.Line, s)
	}
	return v, nil
}

func seqStrings(n *yaml.Node) ([]string, error) {
	out := []string{}
	if n == nil {
		return out, nil
	}
	if n.Kind != yaml.SequenceNode {
		return nil, na("line %d: sequence expected", n.Line)
	}
	for _, c := range n.Content {
		s, err := scalarOf(c)
		if err != nil {
			return nil, err
		}
		out = append(out, s)
	}
	return out, nil
}

func attrPairs(n *yaml.Node) ([][2]string, error) {
	out := [][2]string{}
	ps, err := mapPairs(n)
	if err != nil {
		return nil, err
	}
	for _, p := range ps {
		v, err := scalarOf(p[1])
		if err != nil {
			return nil, err
		}
		out = append(out, [2]string{p[0].Value, v})
	}
	return out, nil
}

var reDec = regexp.MustCompile(`^(\d+)(?:\.(\d{1,3}))?$`)
var reBytes = regexp.MustCompile(`^(\d+)(?:\.(\d))?(k|Ki|M|Mi|G|Gi|T|Ti)?$`)

func cpuOf(text string) (aCPU, error) {
	if strings.HasSuffix(text, "m") {
		v, err := strconv.Atoi(strings.TrimSuffix(text, "m"))
		if err != nil || v < 0 {
			return aCPU{}, na("cpu units %q", text)
		}
		return aCPU{Form: "m", Milli: v}, nil
	}
	m := reDec.FindStringSubmatch(text)
	if m == nil {
		return aCPU{}, na("cpu units %q: not a decimal with at most three digits", text)
	}
	whole, _ := strconv.Atoi(m[1])
	frac := (m[2] + "000")[:3]
	f, _ := strconv.Atoi(frac)
	form := "dec"
	if len(m[2]) == 3 && strings.HasSuffix(m[2], "0") {
		form = "dec3" // spelled with trailing zeros: only the exact three digit spelling is reproducible
	} else if len(m[2]) > 0 && strings.HasSuffix(m[2], "0") {
		return aCPU{}, na("cpu units %q: trailing zero spelling", text)
	}
	if whole > 2000000 {
		return aCPU{}, na("cpu units %q too large", text)
	}
	return aCPU{Form: form, Milli: whole*1000 + f}, nil
}

func bytesOf(text string) (aBytes, error) {
	m := reBytes.FindStringSubmatch(text)
	if m == nil {
		return aBytes{}, na("size %q: not <n>[.<t>]<suffix>", text)
	}
	n, err := strconv.Atoi(m[1])
	if err != nil {
		return aBytes{}, na("size %q", text)
	}
	t := 0
	if m[2] != "" {
		t, _ = strconv.Atoi(m[2])
	}
	sfx := m[3]
	binary := sfx == "Ki" || sfx == "Mi" || sfx == "Gi" || sfx == "Ti"
	if t != 0 && (sfx == "" || (binary && t != 5)) {
		return aBytes{}, na("size %q: not a whole number of bytes", text)
	}
	// keep the spec's 32 bit arithmetic in range
	if (sfx != "" && n > 2047) || n > 2000000000 {
		return aBytes{}, na("size %q: out of the modelled range", text)
	}
	return aBytes{N: n, Tenths: t, Suffix: sfx}, nil
}

type srcDoc struct {
	aDoc
	Order []string `json:"order"`
	Src   string   `json:"src,omitempty"`
}

// Abstract reads one SDL text into the abstract document.
func Abstract(text []byte) (*srcDoc, error) {
	var root yaml.Node
	if err := yaml.Unmarshal(text, &root); err != nil {
		return nil, na("yaml: %v", err)
	}
	if root.Kind != yaml.DocumentNode || len(root.Content) != 1 {
		return nil, na("not a single document")
	}
	top := root.Content[0]
	if v := get(top, "version"); v == nil || !strings.HasPrefix(v.Value, "2") {
		return nil, na("not version 2")
	}
	d := &srcDoc{}
	d.Services, d.Compute, d.Placement, d.Deployment = []aService{}, []aCompute{}, []aPlacement{}, []aDep{}
	names := map[string]bool{}

	svcs, err := mapPairs(get(top, "services"))
	if err != nil {
		return nil, err
	}
	for _, sp := range svcs {
		s := aService{Name: sp[0].Value, Expose: []aExpose{}}
		names[s.Name] = true
		if s.Image, err = scalarOf(get(sp[1], "image")); err != nil {
			return nil, err
		}
		if s.Command, err = seqStrings(get(sp[1], "command")); err != nil {
			return nil, err
		}
		if s.Args, err = seqStrings(get(sp[1], "args")); err != nil {
			return nil, err
		}
		if s.Env, err = seqStrings(get(sp[1], "env")); err != nil {
			return nil, err
		}
		if ex := get(sp[1], "expose"); ex != nil {
			if ex.Kind != yaml.SequenceNode {
				return nil, na("line %d: expose is not a sequence", ex.Line)
			}
			for _, en := range ex.Content {
				e := aExpose{To: []aTo{}, Accept: []string{}}
				if e.Port, err = intOf(get(en, "port")); err != nil {
					return nil, err
				}
				if e.As, err = intOf(get(en, "as")); err != nil {
					return nil, err
				}
				if e.Proto, err = scalarOf(get(en, "proto")); err != nil {
					return nil, err
				}
				if e.Accept, err = seqStrings(get(en, "accept")); err != nil {
					return nil, err
				}
				if to := get(en, "to"); to != nil {
					if to.Kind != yaml.SequenceNode {
						return nil, na("line %d: to is not a sequence", to.Line)
					}
					for _, tn := range to.Content {
						t := aTo{}
						if t.Service, err = scalarOf(get(tn, "service")); err != nil {
							return nil, err
						}
						if t.Service != "" {
							names[t.Service] = true
						}
						g, err := scalarOf(get(tn, "global"))
						if err != nil {
							return nil, err
						}
						switch g {
						case "true":
							t.Global = true
						case "false", "":
						default:
							return nil, na("global: %q", g)
						}
						e.To = append(e.To, t)
					}
				}
				s.Expose = append(s.Expose, e)
			}
		}
		d.Services = append(d.Services, s)
	}

	profiles := get(top, "profiles")
	comps, err := mapPairs(get(profiles, "compute"))
	if err != nil {
		return nil, err
	}
	for _, cp := range comps {
		c := aCompute{Name: cp[0].Value, StorageAttrs: [][2]string{}}
		names[c.Name] = true
		res := get(cp[1], "resources")
		cpu, mem, sto := get(res, "cpu"), get(res, "memory"), get(res, "storage")
		if cpu == nil || mem == nil || sto == nil {
			return nil, na("profile %s: cpu, memory and storage are all needed", c.Name)
		}
		u, err := scalarOf(get(cpu, "units"))
		if err != nil {
			return nil, err
		}
		if c.CPU, err = cpuOf(u); err != nil {
			return nil, err
		}
		ca, err := attrPairs(get(cpu, "attributes"))
		if err != nil {
			return nil, err
		}
		for _, a := range ca {
			if a[0] != "arch" {
				return nil, na("cpu attribute %q", a[0])
			}
			c.CPUArch = a[1]
			names["arch"] = true
		}
		ms, err := scalarOf(get(mem, "size"))
		if err != nil {
			return nil, err
		}
		if c.Mem, err = bytesOf(ms); err != nil {
			return nil, err
		}
		if get(mem, "attributes") != nil {
			return nil, na("memory attributes")
		}
		ss, err := scalarOf(get(sto, "size"))
		if err != nil {
			return nil, err
		}
		if c.Storage, err = bytesOf(ss); err != nil {
			return nil, err
		}
		if c.StorageAttrs, err = attrPairs(get(sto, "attributes")); err != nil {
			return nil, err
		}
		for _, a := range c.StorageAttrs {
			names[a[0]] = true
		}
		d.Compute = append(d.Compute, c)
	}

	places, err := mapPairs(get(profiles, "placement"))
	if err != nil {
		return nil, err
	}
	for _, pp := range places {
		p := aPlacement{Name: pp[0].Value, Pricing: []aPricing{}}
		names[p.Name] = true
		if p.Attrs, err = attrPairs(get(pp[1], "attributes")); err != nil {
			return nil, err
		}
		for _, a := range p.Attrs {
			names[a[0]] = true
		}
		sb := get(pp[1], "signedBy")
		if p.AllOf, err = seqStrings(get(sb, "allOf")); err != nil {
			return nil, err
		}
		if p.AnyOf, err = seqStrings(get(sb, "anyOf")); err != nil {
			return nil, err
		}
		prs, err := mapPairs(get(pp[1], "pricing"))
		if err != nil {
			return nil, err
		}
		for _, pr := range prs {
			x := aPricing{Profile: pr[0].Value}
			names[x.Profile] = true
			if x.Denom, err = scalarOf(get(pr[1], "denom")); err != nil {
				return nil, err
			}
			if x.Amount, err = intOf(get(pr[1], "amount")); err != nil {
				return nil, err
			}
			if x.Amount < 0 || x.Amount > 1000000000 {
				return nil, na("amount out of the modelled range")
			}
			p.Pricing = append(p.Pricing, x)
		}
		d.Placement = append(d.Placement, p)
	}

	deps, err := mapPairs(get(top, "deployment"))
	if err != nil {
		return nil, err
	}
	for _, dp := range deps {
		inner, err := mapPairs(dp[1])
		if err != nil {
			return nil, err
		}
		for _, ip := range inner {
			x := aDep{Service: dp[0].Value, Placement: ip[0].Value}
			names[x.Service], names[x.Placement] = true, true
			if x.Profile, err = scalarOf(get(ip[1], "profile")); err != nil {
				return nil, err
			}
			names[x.Profile] = true
			if x.Count, err = intOf(get(ip[1], "count")); err != nil {
				return nil, err
			}
			d.Deployment = append(d.Deployment, x)
		}
	}

	// references must resolve and names must be unique per mapping: otherwise the spec's look-ups are undefined
	has := func(list []string, n string) bool {
		for _, x := range list {
			if x == n {
				return true
			}
		}
		return false
	}
	var sn, cn, pn []string
	for _, s := range d.Services {
		if has(sn, s.Name) {
			return nil, na("duplicate service %s", s.Name)
		}
		sn = append(sn, s.Name)
	}
	for _, c := range d.Compute {
		if has(cn, c.Name) {
			return nil, na("duplicate profile %s", c.Name)
		}
		cn = append(cn, c.Name)
	}
	for _, p := range d.Placement {
		if has(pn, p.Name) {
			return nil, na("duplicate placement %s", p.Name)
		}
		pn = append(pn, p.Name)
	}
	for _, x := range d.Deployment {
		if !has(sn, x.Service) || !has(cn, x.Profile) || !has(pn, x.Placement) {
			return nil, na("deployment %s.%s: dangling reference", x.Service, x.Placement)
		}
		ok := false
		for _, p := range d.Placement {
			if p.Name == x.Placement {
				for _, pr := range p.Pricing {
					if pr.Profile == x.Profile {
						ok = true
					}
				}
			}
		}
		if !ok {
			return nil, na("deployment %s.%s: no pricing for %s", x.Service, x.Placement, x.Profile)
		}
	}
	for n := range names {
		d.Order = append(d.Order, n)
	}
	sort.Strings(d.Order) // Go's string order: the order the code's sort.Strings / `<` use
	return d, nil
}

// PermuteText re-encodes the node tree of an SDL text with the entries of every mapping reordered.
func PermuteText(text []byte, mode int, seed int64) ([]byte, error) {
	if mode == 0 {
		return text, nil
	}
	var root yaml.Node
	if err := yaml.Unmarshal(text, &root); err != nil {
		return nil, err
	}
	rng := rand.New(rand.NewSource(seed))
	var walk func(n *yaml.Node)
	walk = func(n *yaml.Node) {
		if n.Kind == yaml.MappingNode {
			k := len(n.Content) / 2
			idx := make([]int, k)
			for i := range idx {
				idx[i] = i
			}
			if mode == 1 {
				for i, j := 0, k-1; i < j; i, j = i+1, j-1 {
					idx[i], idx[j] = idx[j], idx[i]
				}
			} else {
				rng.Shuffle(k, func(i, j int) { idx[i], idx[j] = idx[j], idx[i] })
			}
			nc := make([]*yaml.Node, 0, len(n.Content))
			for _, i := range idx {
				nc = append(nc, n.Content[2*i], n.Content[2*i+1])
			}
			n.Content = nc
		}
		for _, c := range n.Content {
			walk(c)
		}
	}
	walk(&root)
	var b bytes.Buffer
	enc := yaml.NewEncoder(&b)
	enc.SetIndent(2)
	if err := enc.Encode(&root); err != nil {
		return nil, err
	}
	_ = enc.Close()
	return b.Bytes(), nil
}

func abstractMain(args []string) int {
	fs := flag.NewFlagSet("sdl abstract", flag.ContinueOnError)
	files := fs.String("files", "", "comma separated SDL files")
	outp := fs.String("out", "", "ndjson of abstract documents")
	if err := fs.Parse(args); err != nil {
		return 2
	}
	w, err := vcommon.NewWriter(*outp)
	if err != nil {
		fmt.Fprintln(os.Stderr, "sdlh:", err)
		return 2
	}
	skipped := map[string]string{}
	n := 0
	for _, f := range strings.Split(*files, ",") {
		if f == "" {
			continue
		}
		text, err := ioutil.ReadFile(f)
		if err != nil {
			fmt.Fprintln(os.Stderr, "sdlh:", err)
			return 2
		}
		d, err := Abstract(text)
		if err != nil {
			if _, ok := err.(notAbstractable); ok {
				skipped[f] = err.Error()
				continue
			}
			fmt.Fprintln(os.Stderr, "sdlh:", err)
			return 2
		}
		d.Src = f
		if err := w.Write(d); err != nil {
			fmt.Fprintln(os.Stderr, "sdlh:", err)
			return 2
		}
		n++
	}
	if err := w.Close(); err != nil {
		fmt.Fprintln(os.Stderr, "sdlh:", err)
		return 2
	}
	rep, _ := json.Marshal(map[string]interface{}{"abstracted": n, "skipped": skipped})
	fmt.Println(string(rep))
	return 0
}
