package mmatchh

import (
	"encoding/json"
	"flag"
	"fmt"
	"math/rand"
	"os"
	"sort"

	"verif/harness/vcommon"
)

// Summary is written next to the observations (not judged; coverage bookkeeping for the evidence file).
type Summary struct {
	Pairs         int      `json:"pairs"`
	PairEvals     int      `json:"pair_evals"`
	Accepted      int      `json:"accepted_pairs"`
	ResRejected   int      `json:"resrej_pairs"`
	GatePairs     int      `json:"gate_pairs"`
	GateSubmits   int      `json:"gate_submits"`
	GateAccepted  int      `json:"gate_accepted"`
	Histories     int      `json:"gate_histories"`
	Batches       int      `json:"gate_batches"`  // scenarios with several submissions queued behind a held chain query
	Announcements int      `json:"announcements"` // event.ManifestReceived observed on the real bus
	HashBases     int      `json:"hash_bases"`
	HashLines     int      `json:"hash_lines"`
	HashMutants   int      `json:"hash_mutants"`
	Sites         []string `json:"sites"`  // distinct mutated field paths (indices stripped) with their operations
	Opaque        []string `json:"opaque"` // fields reflection could not set (none expected)
	SDLFiles      int      `json:"sdl_files"`
	SDLPairs      int      `json:"sdl_pairs"`
	SDLAccepted   int      `json:"sdl_accepted"`
	Lines         int      `json:"lines"`
}

// Main is the entry point of `vh mmatch ...`.
//
//	vh mmatch run -in pairs.ndjson -out obs.ndjson -summary s.json [-seed N] [-gate N] [-hash N] [-perms N] [-schemes N]
func Main(args []string) int {
	if len(args) < 1 || args[0] != "run" {
		fmt.Fprintln(os.Stderr, "usage: vh mmatch run -in pairs.ndjson -out obs.ndjson -summary s.json [-seed N] [-gate N] [-hash N] [-perms N]")
		return 2
	}
	fs := flag.NewFlagSet("mmatch run", flag.ContinueOnError)
	in := fs.String("in", "", "ndjson of {d, m} pairs printed by TLC")
	out := fs.String("out", "", "observations (ndjson)")
	sum := fs.String("summary", "", "summary json")
	seed := fs.Int64("seed", 1, "seed for sampling and key permutations")
	nGate := fs.Int("gate", 0, "number of pairs sent through the real Submit path (x scenarios)")
	nHash := fs.Int("hash", 0, "number of distinct abstract manifests used as hash bases")
	perms := fs.Int("perms", 2, "JSON key permutations per hash base")
	schemes := fs.Int("schemes", NSchemes, "concretisation schemes per pair")
	sdlRoot := fs.String("sdlroot", "", "directory searched for SDL files whose real (groups, manifest) pairs are abstracted and recorded too")
	if err := fs.Parse(args[1:]); err != nil {
		return 2
	}
	if err := run(*in, *out, *sum, *seed, *nGate, *nHash, *perms, *schemes, *sdlRoot); err != nil {
		fmt.Fprintln(os.Stderr, "mmatch:", err)
		return 2
	}
	return 0
}

type rawPair struct {
	D json.RawMessage `json:"d"`
	M json.RawMessage `json:"m"`
}

func run(in, out, sumPath string, seed int64, nGate, nHash, perms, schemes int, sdlRoot string) error {
	if in == "" || out == "" {
		return fmt.Errorf("-in and -out are required")
	}
	if schemes < 1 || schemes > NSchemes {
		schemes = NSchemes
	}
	var raws []rawPair
	var pairs []Pair
	err := vcommon.ReadLines(in, func(raw json.RawMessage) error {
		var rp rawPair
		if err := json.Unmarshal(raw, &rp); err != nil {
			return err
		}
		var p Pair
		if err := json.Unmarshal(raw, &p); err != nil {
			return err
		}
		raws = append(raws, rp)
		pairs = append(pairs, p)
		return nil
	})
	if err != nil {
		return err
	}
	w, err := vcommon.NewWriter(out)
	if err != nil {
		return err
	}
	defer w.Close()
	rng := rand.New(rand.NewSource(seed))
	var s Summary
	s.Pairs = len(pairs)

	// 1. every pair, every scheme, through the real validation functions
	var acceptedIdx, otherIdx []int
	accScheme := map[int][]int{} // pair -> schemes under which the real validation accepted it
	for i := range pairs {
		line := PairLine{Kind: "pair", ID: i, D: raws[i].D, M: raws[i].M}
		acc, rej := false, false
		for sc := 0; sc < schemes; sc++ {
			r, err := RunPair(&pairs[i], sc)
			if err != nil {
				return fmt.Errorf("pair %d scheme %d: %v", i, sc, err)
			}
			line.Res = append(line.Res, r)
			s.PairEvals++
			acc = acc || r.Accepted
			if r.Accepted {
				accScheme[i] = append(accScheme[i], sc)
			}
			rej = rej || r.ResRej
		}
		if acc {
			s.Accepted++
			acceptedIdx = append(acceptedIdx, i)
		} else {
			otherIdx = append(otherIdx, i)
		}
		if rej {
			s.ResRejected++
		}
		if err := w.Write(line); err != nil {
			return err
		}
	}

	// 1b. real pairs from the repository's own SDL files, abstracted
	if sdlRoot != "" {
		var err error
		s.SDLFiles, s.SDLPairs, s.SDLAccepted, err = RunSDL(sdlRoot, func(l PairLine) error {
			l.ID += 1000000
			s.PairEvals++
			return w.Write(l)
		})
		if err != nil {
			return err
		}
	}

	hashes := newInterner()

	// 2. the version gate through the real submission path
	if nGate > 0 && len(pairs) > 0 {
		env, err := newGateEnv()
		if err != nil {
			return err
		}
		rng.Shuffle(len(acceptedIdx), func(a, b int) { acceptedIdx[a], acceptedIdx[b] = acceptedIdx[b], acceptedIdx[a] })
		rng.Shuffle(len(otherIdx), func(a, b int) { otherIdx[a], otherIdx[b] = otherIdx[b], otherIdx[a] })
		var chosen []int
		half := nGate / 2
		if half > len(acceptedIdx) {
			half = len(acceptedIdx)
		}
		chosen = append(chosen, acceptedIdx[:half]...)
		rest := nGate - half
		if rest > len(otherIdx) {
			rest = len(otherIdx)
		}
		chosen = append(chosen, otherIdx[:rest]...)
		sort.Ints(chosen)
		for n, i := range chosen {
			sc := n % schemes
			if as := accScheme[i]; len(as) > 0 { // a scheme under which the direct call accepted: the gate is then decisive
				sc = as[n%len(as)]
			}
			err := env.RunGate(i, &pairs[i], raws[i].D, raws[i].M, sc, hashes, func(l GateLine) error {
				s.GateSubmits++
				s.Announcements += len(l.Announced)
				if l.Accepted {
					s.GateAccepted++
				}
				return w.Write(l)
			}, func(l BatchLine) error {
				s.Batches++
				s.Announcements += len(l.Announced)
				for _, b := range l.Subs {
					s.GateSubmits++
					if b.Accepted {
						s.GateAccepted++
					}
				}
				return w.Write(l)
			}, func(l HistLine) error {
				s.Histories++
				for _, st := range l.Steps {
					s.Announcements += len(st.Ann)
					if st.Op == "sub" {
						s.GateSubmits++
						if st.Accepted {
							s.GateAccepted++
						}
					}
				}
				return w.Write(l)
			})
			if err != nil {
				_ = env.close()
				return err
			}
			s.GatePairs++
		}
		if err := env.close(); err != nil {
			return err
		}
	}

	// 3. the version hash: bases = distinct abstract manifests of the enumeration
	if nHash > 0 {
		seen := map[string]int{}
		var bases []int
		for i := range raws {
			k := string(raws[i].M)
			if _, ok := seen[k]; !ok {
				seen[k] = i
				bases = append(bases, i)
			}
		}
		rng.Shuffle(len(bases), func(a, b int) { bases[a], bases[b] = bases[b], bases[a] })
		if nHash < len(bases) {
			bases = bases[:nHash]
		}
		sort.Ints(bases)
		h := &hasher{keys: newInterner(), hashes: hashes, rng: rng, perms: perms, opaque: map[string]bool{}}
		siteSet := map[string]bool{}
		for mid, i := range bases {
			err := h.lines(mid, pairs[i].M, func(l HashLine) error {
				s.HashLines++
				if l.Variant == "mut" {
					s.HashMutants++
					siteSet[stripIdx(l.Path)+" "+l.Op] = true
				}
				return w.Write(l)
			})
			if err != nil {
				return fmt.Errorf("hash base %d: %v", i, err)
			}
			s.HashBases++
		}
		for k := range siteSet {
			s.Sites = append(s.Sites, k)
		}
		sort.Strings(s.Sites)
		for k := range h.opaque {
			s.Opaque = append(s.Opaque, k)
		}
		sort.Strings(s.Opaque)
	}
	s.Lines = w.N
	if sumPath != "" {
		b, _ := json.MarshalIndent(s, "", " ")
		if err := os.WriteFile(sumPath, b, 0o644); err != nil {
			return err
		}
	}
	return nil
}
