package mmatchh

import (
	"encoding/json"
	"errors"
	"fmt"
	"strings"

	"github.com/ovrclk/akash/validation"
	dtypes "github.com/ovrclk/akash/x/deployment/types"
)

// SchemeResult is what the real code said about one concretisation of a pair.
type SchemeResult struct {
	Scheme   int    `json:"scheme"`
	Ballast  bool   `json:"ballast"`  // the scheme adds the oracle-neutral ballast element to every group of both sides
	Valid    bool   `json:"valid"`    // validation.ValidateManifest(m) == nil
	CrossOK  bool   `json:"crossok"`  // validation.ValidateManifestWithDeployment(&m, groups) == nil (the verdict field)
	Cross    string `json:"cross"`    // class of validation.ValidateManifestWithDeployment(&m, groups)
	CrossGS  string `json:"cross_gs"` // class of the client-side twin validation.ValidateManifestWithGroupSpecs (same loop)
	ResRej   bool   `json:"resrej"`   // errors.Is(cross error, validation.ErrManifestCrossValidation): "the resource comparison rejects"
	Accepted bool   `json:"accepted"` // Valid && cross == nil: what manager.validateRequest decides after the version gate
	Err      string `json:"err,omitempty"`
}

// PairLine is one recorded observation of kind "pair".
type PairLine struct {
	Kind string          `json:"kind"`
	ID   int             `json:"id"`
	D    json.RawMessage `json:"d"`
	M    json.RawMessage `json:"m"`
	Res  []SchemeResult  `json:"res"`
	Src  string          `json:"src,omitempty"` // for pairs abstracted from real SDL files: groups-file x manifest-file
}

// classify maps the error of the cross-validation to the result classes of ManifestMatch.tla (Cross). Only used
// for conformance (drift); the verdict fields are Accepted (err == nil) and ResRej (errors.Is).
func classify(err error) string {
	if err == nil {
		return "ok"
	}
	s := err.Error()
	switch {
	case strings.Contains(s, "group count mismatch"):
		return "groupcount"
	case strings.Contains(s, "unknown deployment group"):
		return "unknowngroup"
	case strings.Contains(s, "underutilized deployment group"):
		return "underutilized"
	case strings.Contains(s, "is not fully matched"):
		return "leftover"
	case strings.Contains(s, "mismatch on number of HTTP only endpoints"):
		return "http"
	case strings.Contains(s, "mismatch on number of endpoints"):
		return "endpoints"
	}
	return "other"
}

func groupSpecs(groups []dtypes.Group) []*dtypes.GroupSpec {
	out := make([]*dtypes.GroupSpec, 0, len(groups))
	for i := range groups {
		out = append(out, &groups[i].GroupSpec)
	}
	return out
}

// RunPair runs the real validation functions on one pair under one scheme.
func RunPair(p *Pair, s int) (r SchemeResult, err error) {
	r.Scheme = s
	r.Ballast = Ballast(s)
	groups, err := DGroups(p.D, s, "akash1owner", 1)
	if err != nil {
		return r, err
	}
	m, err := Manifest(p.M, s)
	if err != nil {
		return r, err
	}
	defer func() {
		if rec := recover(); rec != nil {
			err = fmt.Errorf("panic in validation: %v", rec)
		}
	}()
	verr := validation.ValidateManifest(m)
	cerr := validation.ValidateManifestWithDeployment(&m, groups)
	r.CrossGS = classify(validation.ValidateManifestWithGroupSpecs(&m, groupSpecs(groups)))
	r.Valid = verr == nil
	r.Cross = classify(cerr)
	r.CrossOK = cerr == nil
	r.ResRej = cerr != nil && errors.Is(cerr, validation.ErrManifestCrossValidation)
	r.Accepted = verr == nil && cerr == nil
	if cerr != nil {
		r.Err = cerr.Error()
	} else if verr != nil {
		r.Err = verr.Error()
	}
	return r, nil
}
