package mmatchh

import (
	"bytes"
	"crypto/sha256"
	"encoding/json"
	"fmt"
	"math/rand"
	"reflect"
	"sort"
	"strings"

	sdk "github.com/cosmos/cosmos-sdk/types"

	"github.com/ovrclk/akash/manifest"
	"github.com/ovrclk/akash/sdl"
)

// ---------------------------------------------------------------------------------------------------------
// Identity of a manifest independent of any serialisation: a dump of EVERY field reached by reflection (exported or
// not, whatever its json tag). Two manifests are "the same manifest" for the hash oracle iff their dumps are equal.
// nil and empty slices are the same value (the builder never makes an empty non-nil slice, the mutations neither).

var sdkIntType = reflect.TypeOf(sdk.Int{})

func dump(v reflect.Value, b *strings.Builder) {
	if v.Type() == sdkIntType {
		if v.CanInterface() {
			b.WriteString(v.Interface().(sdk.Int).String())
		} else {
			fmt.Fprintf(b, "%v", v)
		}
		return
	}
	switch v.Kind() {
	case reflect.Struct:
		b.WriteString(v.Type().Name())
		b.WriteByte('{')
		for i := 0; i < v.NumField(); i++ {
			b.WriteString(v.Type().Field(i).Name)
			b.WriteByte(':')
			dump(v.Field(i), b)
			b.WriteByte(',')
		}
		b.WriteByte('}')
	case reflect.Slice, reflect.Array:
		b.WriteByte('[')
		for i := 0; i < v.Len(); i++ {
			dump(v.Index(i), b)
			b.WriteByte(',')
		}
		b.WriteByte(']')
	case reflect.Ptr, reflect.Interface:
		if v.IsNil() {
			b.WriteString("nil")
		} else {
			b.WriteByte('&')
			dump(v.Elem(), b)
		}
	case reflect.String:
		fmt.Fprintf(b, "%q", v.String())
	case reflect.Bool:
		fmt.Fprintf(b, "%t", v.Bool())
	case reflect.Int, reflect.Int8, reflect.Int16, reflect.Int32, reflect.Int64:
		fmt.Fprintf(b, "%d", v.Int())
	case reflect.Uint, reflect.Uint8, reflect.Uint16, reflect.Uint32, reflect.Uint64:
		fmt.Fprintf(b, "%d", v.Uint())
	case reflect.Map:
		keys := v.MapKeys()
		ks := make([]string, len(keys))
		for i, k := range keys {
			var kb strings.Builder
			dump(k, &kb)
			var vb strings.Builder
			dump(v.MapIndex(k), &vb)
			ks[i] = kb.String() + "=>" + vb.String()
		}
		sort.Strings(ks)
		b.WriteString("map[" + strings.Join(ks, ",") + "]")
	default:
		fmt.Fprintf(b, "<%s %v>", v.Kind(), v)
	}
}

// Dump is the serialisation-independent identity of a manifest.
func Dump(m manifest.Manifest) string {
	var b strings.Builder
	dump(reflect.ValueOf(m), &b)
	return b.String()
}

// ---------------------------------------------------------------------------------------------------------
// Mutation sites: every way of changing ONE field of the manifest, found by walking all fields of manifest.Group,
// Service, ServiceExpose, ResourceUnits, CPU, Memory, Storage, Attribute, Endpoint, ResourceValue by reflection.
// A field added to any of these types tomorrow is walked (and mutated) without touching this file.

type site struct {
	path string // e.g. [0].Services[1].Expose[0].Port  or  [0].Services[0].Env+append
	op   string // set | append | droplast | swap | nil
}

// walk visits the mutation sites of v in a deterministic order. If apply >= 0 the apply-th site is mutated in place.
// It returns the number of sites seen; opaque collects fields that cannot be set through reflection.
func walk(v reflect.Value, path string, sites *[]site, apply int, opaque *[]string) {
	here := func(op string, mutate func()) {
		if apply == len(*sites) {
			mutate()
		}
		*sites = append(*sites, site{path: path, op: op})
	}
	if v.Type() == sdkIntType {
		if !v.CanSet() {
			*opaque = append(*opaque, path)
			return
		}
		here("set", func() { v.Set(reflect.ValueOf(v.Interface().(sdk.Int).AddRaw(1))) })
		return
	}
	switch v.Kind() {
	case reflect.Struct:
		for i := 0; i < v.NumField(); i++ {
			f := v.Field(i)
			p := path + "." + v.Type().Field(i).Name
			if !f.CanSet() {
				*opaque = append(*opaque, p)
				continue
			}
			walk(f, p, sites, apply, opaque)
		}
	case reflect.Slice:
		n := v.Len() // the sites are those of the unmutated value: decided before anything is applied
		differ := n >= 2 && !reflect.DeepEqual(v.Index(0).Interface(), v.Index(1).Interface())
		for i := 0; i < n; i++ {
			walk(v.Index(i), fmt.Sprintf("%s[%d]", path, i), sites, apply, opaque)
		}
		here("append", func() {
			e := reflect.New(v.Type().Elem()).Elem()
			if e.Kind() == reflect.String {
				e.SetString("added")
			}
			v.Set(reflect.Append(v, e))
		})
		if n >= 2 {
			here("droplast", func() { v.Set(v.Slice(0, n-1)) })
			if differ {
				here("swap", func() {
					a := reflect.New(v.Type().Elem()).Elem()
					a.Set(v.Index(0))
					v.Index(0).Set(v.Index(1))
					v.Index(1).Set(a)
				})
			}
		}
	case reflect.Ptr:
		if !v.IsNil() {
			walk(v.Elem(), path, sites, apply, opaque)
			here("nil", func() { v.Set(reflect.Zero(v.Type())) })
		}
	case reflect.String:
		here("set", func() { v.SetString(v.String() + "~") })
	case reflect.Bool:
		here("set", func() { v.SetBool(!v.Bool()) })
	case reflect.Int, reflect.Int8, reflect.Int16, reflect.Int32, reflect.Int64:
		here("set", func() { v.SetInt(v.Int() + 1) })
	case reflect.Uint, reflect.Uint8, reflect.Uint16, reflect.Uint32, reflect.Uint64:
		here("set", func() { v.SetUint(v.Uint() + 1) })
	default:
		*opaque = append(*opaque, path+"<"+v.Kind().String()+">")
	}
}

// Sites lists the mutation sites of a manifest.
func Sites(m *manifest.Manifest) ([]site, []string) {
	var s []site
	var o []string
	walk(reflect.ValueOf(m).Elem(), "", &s, -1, &o)
	return s, o
}

// Mutate applies the i-th site to m (freshly built by the caller).
func Mutate(m *manifest.Manifest, i int) {
	var s []site
	var o []string
	walk(reflect.ValueOf(m).Elem(), "", &s, i, &o)
}

// ---------------------------------------------------------------------------------------------------------
// JSON key orders.

type jnode struct {
	kind byte // o a s n b z
	keys []string
	kids []*jnode
	lit  string
}

func parseJSON(dec *json.Decoder) (*jnode, error) {
	t, err := dec.Token()
	if err != nil {
		return nil, err
	}
	switch x := t.(type) {
	case json.Delim:
		if x == '{' {
			n := &jnode{kind: 'o'}
			for dec.More() {
				kt, err := dec.Token()
				if err != nil {
					return nil, err
				}
				n.keys = append(n.keys, kt.(string))
				c, err := parseJSON(dec)
				if err != nil {
					return nil, err
				}
				n.kids = append(n.kids, c)
			}
			_, err = dec.Token()
			return n, err
		}
		n := &jnode{kind: 'a'}
		for dec.More() {
			c, err := parseJSON(dec)
			if err != nil {
				return nil, err
			}
			n.kids = append(n.kids, c)
		}
		_, err = dec.Token()
		return n, err
	case string:
		b, _ := json.Marshal(x)
		return &jnode{kind: 's', lit: string(b)}, nil
	case json.Number:
		return &jnode{kind: 'n', lit: x.String()}, nil
	case bool:
		return &jnode{kind: 'b', lit: fmt.Sprintf("%t", x)}, nil
	case nil:
		return &jnode{kind: 'z', lit: "null"}, nil
	}
	return nil, fmt.Errorf("unexpected token %v", t)
}

func (n *jnode) emit(b *bytes.Buffer, rng *rand.Rand) {
	switch n.kind {
	case 'o':
		idx := rng.Perm(len(n.keys))
		b.WriteByte('{')
		for j, i := range idx {
			if j > 0 {
				b.WriteString(", ")
			}
			kb, _ := json.Marshal(n.keys[i])
			b.Write(kb)
			b.WriteString(": ")
			n.kids[i].emit(b, rng)
		}
		b.WriteByte('}')
	case 'a':
		b.WriteByte('[')
		for i, c := range n.kids {
			if i > 0 {
				b.WriteString(",\n ")
			}
			c.emit(b, rng)
		}
		b.WriteByte(']')
	default:
		b.WriteString(n.lit)
	}
}

// PermuteKeys re-serialises a JSON document with every object's keys in a random order (and other whitespace).
func PermuteKeys(doc []byte, rng *rand.Rand) ([]byte, error) {
	dec := json.NewDecoder(bytes.NewReader(doc))
	dec.UseNumber()
	n, err := parseJSON(dec)
	if err != nil {
		return nil, err
	}
	var b bytes.Buffer
	n.emit(&b, rng)
	return b.Bytes(), nil
}

// canonHash is the documented version algorithm applied to a serialised manifest in ANY key order, written here
// without the repository's helpers: sha256 over the JSON re-encoded with sorted object keys.
func canonHash(doc []byte) ([]byte, error) {
	var c interface{}
	if err := json.Unmarshal(doc, &c); err != nil {
		return nil, err
	}
	js, err := json.Marshal(c) // maps are written with sorted keys
	if err != nil {
		return nil, err
	}
	sum := sha256.Sum256(js)
	return sum[:], nil
}

// ---------------------------------------------------------------------------------------------------------

// interner numbers values by first occurrence.
type interner struct {
	ids map[string]int
}

func newInterner() *interner { return &interner{ids: map[string]int{}} }
func (t *interner) id(s string) int {
	if i, ok := t.ids[s]; ok {
		return i
	}
	i := len(t.ids) + 1
	t.ids[s] = i
	return i
}

// HashLine is one observation of kind "hash": manifest identity kid (dump, interned) and version hid (interned).
type HashLine struct {
	Kind    string `json:"kind"`
	Mid     int    `json:"mid"`     // index of the abstract base manifest
	Path    string `json:"path"`    // mutation site ("" for the base)
	Op      string `json:"op"`      // mutation kind ("" for the base)
	Variant string `json:"variant"` // direct | repeat | roundtrip | perm<k> | canon<k> | mut
	Kid     int    `json:"kid"`
	Hid     int    `json:"hid"`
}

type hasher struct {
	keys   *interner
	hashes *interner
	rng    *rand.Rand
	perms  int
	opaque map[string]bool
}

func version(m manifest.Manifest) (string, error) {
	v, err := sdl.ManifestVersion(m)
	if err != nil {
		return "", err
	}
	return string(v), nil
}

// lines produces all hash observations for one abstract base manifest.
func (h *hasher) lines(mid int, abs []Grp, emit func(HashLine) error) error {
	build := func() (manifest.Manifest, error) { return Manifest(abs, 0) }
	base, err := build()
	if err != nil {
		return err
	}
	kid := h.keys.id(Dump(base))
	put := func(variant, path, op string, k int, v string) error {
		return emit(HashLine{Kind: "hash", Mid: mid, Path: path, Op: op, Variant: variant, Kid: k, Hid: h.hashes.id(v)})
	}
	v, err := version(base)
	if err != nil {
		return err
	}
	if err := put("direct", "", "", kid, v); err != nil {
		return err
	}
	again, _ := build()
	if v, err = version(again); err != nil {
		return err
	}
	if err := put("repeat", "", "", kid, v); err != nil {
		return err
	}
	doc, err := json.Marshal(base)
	if err != nil {
		return err
	}
	var rt manifest.Manifest
	if err := json.Unmarshal(doc, &rt); err != nil {
		return fmt.Errorf("manifest does not survive its own JSON: %v", err)
	}
	if v, err = version(rt); err != nil {
		return err
	}
	if err := put("roundtrip", "", "", kid, v); err != nil {
		return err
	}
	for k := 0; k < h.perms; k++ {
		pdoc, err := PermuteKeys(doc, h.rng)
		if err != nil {
			return err
		}
		var pm manifest.Manifest
		if err := json.Unmarshal(pdoc, &pm); err != nil {
			return fmt.Errorf("permuted manifest JSON does not decode: %v\n%s", err, pdoc)
		}
		if v, err = version(pm); err != nil {
			return err
		}
		if err := put(fmt.Sprintf("perm%d", k), "", "", kid, v); err != nil {
			return err
		}
		cv, err := canonHash(pdoc)
		if err != nil {
			return err
		}
		if err := put(fmt.Sprintf("canon%d", k), "", "", kid, string(cv)); err != nil {
			return err
		}
	}
	sites, opaque := Sites(&base)
	for _, o := range opaque {
		h.opaque[stripIdx(o)] = true
	}
	for i, s := range sites {
		mm, _ := build()
		Mutate(&mm, i)
		mk := h.keys.id(Dump(mm))
		if mk == kid {
			return fmt.Errorf("mutation %s %s did not change the manifest", s.path, s.op)
		}
		v, err := version(mm)
		if err != nil {
			return fmt.Errorf("ManifestVersion failed on mutant %s %s: %v", s.path, s.op, err)
		}
		if err := put("mut", s.path, s.op, mk, v); err != nil {
			return err
		}
	}
	return nil
}

// stripIdx removes slice indices from a site path: [0].Services[1].Expose[0].Port -> Services.Expose.Port
func stripIdx(p string) string {
	var b strings.Builder
	skip := false
	for _, c := range p {
		switch {
		case c == '[':
			skip = true
		case c == ']':
			skip = false
		case !skip:
			b.WriteRune(c)
		}
	}
	return strings.TrimPrefix(b.String(), ".")
}
