package mmatchh

import (
	"context"
	"encoding/json"
	"errors"
	"fmt"
	"runtime"
	"sync"
	"time"

	sdk "github.com/cosmos/cosmos-sdk/types"
	"github.com/tendermint/tendermint/libs/log"
	"google.golang.org/grpc"

	"github.com/ovrclk/akash/client"
	"github.com/ovrclk/akash/client/broadcaster"
	"github.com/ovrclk/akash/manifest"
	"github.com/ovrclk/akash/provider/event"
	pmanifest "github.com/ovrclk/akash/provider/manifest"
	"github.com/ovrclk/akash/provider/session"
	"github.com/ovrclk/akash/pubsub"
	dtypes "github.com/ovrclk/akash/x/deployment/types"
	mtypes "github.com/ovrclk/akash/x/market/types"
	ptypes "github.com/ovrclk/akash/x/provider/types"
)

// The version gate is observed through the provider's real submission path, public API only:
// pmanifest.NewService (real service + real per-deployment manager goroutines, real pubsub bus), a scripted chain
// (client.QueryClient answering Deployment from a table) and a hostname service that never objects.
// Nothing in provider/manifest is hooked or edited.

type fakeQuery struct {
	client.QueryClient // every other method: nil interface, never called on this path
	mu                 sync.Mutex
	deployments        map[uint64]*dtypes.QueryDeploymentResponse
	holds              map[uint64]*hold // deployments whose query is kept in flight until released
}

// hold keeps the manager's one chain query of a deployment in flight: submissions made meanwhile are queued by the
// manager and validated together (one batch) when the harness lets the answer through.
type hold struct {
	entered chan struct{} // closed when the manager's query has arrived (so m.data == nil and the fetch is in flight)
	release chan struct{} // closed by the harness
	once    sync.Once
}

func (q *fakeQuery) ActiveLeasesForProvider(sdk.AccAddress) ([]mtypes.QueryLeaseResponse, error) {
	return nil, nil
}

func (q *fakeQuery) Deployment(_ context.Context, in *dtypes.QueryDeploymentRequest, _ ...grpc.CallOption) (*dtypes.QueryDeploymentResponse, error) {
	q.mu.Lock()
	h := q.holds[in.ID.DSeq]
	q.mu.Unlock()
	if h != nil {
		h.once.Do(func() { close(h.entered) })
		<-h.release
	}
	q.mu.Lock()
	defer q.mu.Unlock()
	if r, ok := q.deployments[in.ID.DSeq]; ok {
		c := *r
		return &c, nil
	}
	return nil, errors.New("scripted chain: no such deployment")
}

type fakeClient struct{ q *fakeQuery }

func (c fakeClient) Query() client.QueryClient { return c.q }
func (c fakeClient) Tx() broadcaster.Client    { return nil }

type okHostnames struct{}

func okch() <-chan error {
	ch := make(chan error, 1)
	ch <- nil
	return ch
}
func (okHostnames) ReserveHostnames([]string, dtypes.DeploymentID) <-chan error    { return okch() }
func (okHostnames) ReleaseHostnames([]string)                                      {}
func (okHostnames) CanReserveHostnames([]string, dtypes.DeploymentID) <-chan error { return okch() }

type gateMarker struct{ n uint64 } // the harness' own bus event: everything published before it has been delivered

type gateEnv struct {
	svc    pmanifest.Service
	bus    pubsub.Bus
	sub    pubsub.Subscriber // the harness listens on the real bus like the cluster service does
	marks  uint64
	q      *fakeQuery
	cancel context.CancelFunc
	owner  string
	prov   string
	next   uint64
}

func newGateEnv() (*gateEnv, error) {
	owner := sdk.AccAddress([]byte("verif-mmatch-owner--")).String()
	provAddr := sdk.AccAddress([]byte("verif-mmatch-provdr-"))
	q := &fakeQuery{deployments: map[uint64]*dtypes.QueryDeploymentResponse{}, holds: map[uint64]*hold{}}
	ctx, cancel := context.WithCancel(context.Background())
	bus := pubsub.NewBus()
	p := &ptypes.Provider{Owner: provAddr.String()}
	sub, err := bus.Subscribe()
	if err != nil {
		cancel()
		return nil, err
	}
	svc, err := pmanifest.NewService(ctx, session.New(log.NewNopLogger(), fakeClient{q}, p), bus, okHostnames{}, pmanifest.ServiceConfig{})
	if err != nil {
		cancel()
		return nil, err
	}
	return &gateEnv{svc: svc, bus: bus, sub: sub, q: q, cancel: cancel, owner: owner, prov: provAddr.String(), next: 1}, nil
}

func (e *gateEnv) close() error {
	e.cancel()
	select {
	case <-e.svc.Done():
	case <-time.After(30 * time.Second):
		return errors.New("manifest service did not shut down")
	}
	e.sub.Close()
	e.bus.Close()
	return nil
}

// announced returns the version hashes of every manifest the provider announced (event.ManifestReceived, what the
// cluster service deploys) for deployment dseq so far. A marker event published now and awaited on the same
// subscription proves that every earlier publication has been seen (the bus delivers in order).
func (e *gateEnv) announced(dseq uint64) ([]string, error) {
	e.marks++
	mark := gateMarker{n: e.marks}
	if err := e.bus.Publish(mark); err != nil {
		return nil, err
	}
	var out []string
	deadline := time.After(30 * time.Second)
	for {
		select {
		case ev := <-e.sub.Events():
			switch x := ev.(type) {
			case gateMarker:
				if x.n == mark.n {
					return out, nil
				}
			case event.ManifestReceived:
				if x.LeaseID.DSeq != dseq || x.Manifest == nil {
					continue
				}
				v, err := version(*x.Manifest)
				if err != nil {
					return nil, err
				}
				out = append(out, v)
			}
		case <-deadline:
			return nil, errors.New("bus marker never came back")
		}
	}
}

// waitActive returns once the service has created the manager of deployment did, i.e. once its loop has handled
// every bus event published before that deployment's LeaseWon (events are handled in publication order and each is
// handed to its manager synchronously). IsActive is a request/response with the service loop: no sleeping on a
// guess, only re-asking until the event has been consumed.
func (e *gateEnv) waitActive(did dtypes.DeploymentID) error {
	deadline := time.Now().Add(20 * time.Second)
	for {
		ctx, cancel := context.WithTimeout(context.Background(), 10*time.Second)
		ok, err := e.svc.IsActive(ctx, did)
		cancel()
		if err != nil {
			return err
		}
		if ok {
			return nil
		}
		if time.Now().After(deadline) {
			return fmt.Errorf("manager of %v never became active", did)
		}
		time.Sleep(50 * time.Microsecond)
	}
}

func (e *gateEnv) lease(did dtypes.DeploymentID, g *dtypes.Group) error {
	return e.bus.Publish(event.LeaseWon{
		LeaseID: mtypes.LeaseID{Owner: did.Owner, DSeq: did.DSeq, GSeq: 1, OSeq: 1, Provider: e.prov},
		Group:   g,
		Price:   sdk.NewInt64Coin("uakt", 1),
	})
}

// play runs one scenario: the chain records version `chain` and groups `groups` for a fresh deployment, the provider
// wins a lease on it, then sees the update events `updates` (versions) in order, then the tenant submits the
// manifests `subs`. With batch=false there is one submission, made after the updates. With batch=true the manager's
// chain query is held in flight, the submissions are issued one after the other while it is (the manager queues
// them), then the query is released and the manager validates them together.
// Returns the reply of every Service.Submit (nil = accepted) and the version hash of every manifest the provider
// announced on the bus for this deployment.
func (e *gateEnv) play(groups []dtypes.Group, chain []byte, updates [][]byte, subs []manifest.Manifest, batch bool, held int) ([]error, []string, error) {
	dseq := e.next
	e.next += 4
	did := dtypes.DeploymentID{Owner: e.owner, DSeq: dseq}
	for i := range groups {
		groups[i].GroupID.Owner = e.owner
		groups[i].GroupID.DSeq = dseq
	}
	var h *hold
	e.q.mu.Lock()
	e.q.deployments[dseq] = &dtypes.QueryDeploymentResponse{
		Deployment: dtypes.Deployment{DeploymentID: did, State: dtypes.DeploymentActive, Version: chain},
		Groups:     groups,
	}
	if batch || held > 0 {
		h = &hold{entered: make(chan struct{}), release: make(chan struct{})}
		e.q.holds[dseq] = h
	}
	e.q.mu.Unlock()
	released := false
	release := func() {
		if h != nil && !released {
			released = true
			close(h.release)
		}
	}
	defer release()

	var g *dtypes.Group
	if len(groups) > 0 {
		g = &groups[0]
	} else {
		g = &dtypes.Group{GroupID: dtypes.GroupID{Owner: e.owner, DSeq: dseq, GSeq: 1}, GroupSpec: dtypes.GroupSpec{Name: "none"}}
	}
	if err := e.lease(did, g); err != nil {
		return nil, nil, err
	}
	sentinel := dtypes.DeploymentID{Owner: e.owner, DSeq: dseq + 1}
	sentinel2 := dtypes.DeploymentID{Owner: e.owner, DSeq: dseq + 2}
	// deliver publishes update events and returns once they have been handed to the manager of did: a lease on a
	// sentinel deployment is published after them; once ITS manager exists the service loop is past the updates
	deliver := func(ups [][]byte, sent dtypes.DeploymentID) error {
		for _, v := range ups {
			if err := e.bus.Publish(dtypes.NewEventDeploymentUpdated(did, v)); err != nil {
				return err
			}
		}
		if err := e.lease(sent, g); err != nil {
			return err
		}
		return e.waitActive(sent)
	}
	if err := e.waitActive(did); err != nil {
		return nil, nil, err
	}
	if held > 0 && !batch {
		// the first `held` updates reach the manager while its chain query is still in flight, the others after the
		// answer: a refused probe submission (empty manifest) is answered only once the fetched data is in place
		select {
		case <-h.entered:
		case <-time.After(20 * time.Second):
			return nil, nil, errors.New("the manager never queried the chain for the deployment")
		}
		if err := deliver(updates[:held], sentinel); err != nil {
			return nil, nil, err
		}
		release()
		ctx, cancel := context.WithTimeout(context.Background(), 20*time.Second)
		perr := e.svc.Submit(ctx, did, nil)
		cancel()
		if perr == nil || errors.Is(perr, context.DeadlineExceeded) || errors.Is(perr, pmanifest.ErrNotRunning) {
			return nil, nil, fmt.Errorf("probe submission: %v", perr)
		}
		if len(updates) > held {
			if err := deliver(updates[held:], sentinel2); err != nil {
				return nil, nil, err
			}
		}
	} else if len(updates) > 0 {
		if err := deliver(updates, sentinel); err != nil {
			return nil, nil, err
		}
	}

	replies := make([]error, len(subs))
	if !batch {
		for i, m := range subs {
			ctx, cancel := context.WithTimeout(context.Background(), 20*time.Second)
			replies[i] = e.svc.Submit(ctx, did, m)
			cancel()
		}
	} else {
		select {
		case <-h.entered: // the manager holds the lease and its query is in flight: submissions queue up
		case <-time.After(20 * time.Second):
			return nil, nil, errors.New("the manager never queried the chain for the deployment")
		}
		done := make(chan int, len(subs))
		for i := range subs {
			started := make(chan struct{})
			go func(i int) {
				ctx, cancel := context.WithTimeout(context.Background(), 30*time.Second)
				defer cancel()
				close(started)
				replies[i] = e.svc.Submit(ctx, did, subs[i])
				done <- i
			}(i)
			<-started
			// Submission order: the public API offers no acknowledgement that a submission has reached the manager
			// (Submit only returns with the verdict), so the order is encouraged, not enforced: a number of
			// request/response round trips through the same service loop that must pick the submission up. If the
			// order comes out differently the scenario is merely a different batch; the oracle does not depend on it.
			for k := 0; k < 40; k++ {
				runtime.Gosched()
				ctx, cancel := context.WithTimeout(context.Background(), 10*time.Second)
				_, err := e.svc.IsActive(ctx, did)
				cancel()
				if err != nil {
					return nil, nil, err
				}
			}
		}
		release()
		for range subs {
			select {
			case <-done:
			case <-time.After(40 * time.Second):
				return nil, nil, errors.New("a batched submission was never answered")
			}
		}
	}
	for _, res := range replies {
		if res != nil && (errors.Is(res, context.DeadlineExceeded) || errors.Is(res, pmanifest.ErrNotRunning)) {
			return nil, nil, fmt.Errorf("submission was not answered: %v", res)
		}
	}
	ann, err := e.announced(dseq)
	if err != nil {
		return nil, nil, err
	}
	// retire the managers of this scenario (keeps the goroutine count flat)
	_ = e.bus.Publish(dtypes.NewEventDeploymentClosed(did))
	if len(updates) > 0 {
		_ = e.bus.Publish(dtypes.NewEventDeploymentClosed(sentinel))
		_ = e.bus.Publish(dtypes.NewEventDeploymentClosed(sentinel2))
	}
	e.q.mu.Lock()
	delete(e.q.deployments, dseq)
	delete(e.q.holds, dseq)
	e.q.mu.Unlock()
	return replies, ann, nil
}

// GateLine is one observation of kind "gate".
type GateLine struct {
	Kind     string          `json:"kind"`
	ID       int             `json:"id"`
	Scenario string          `json:"scenario"`
	Scheme   int             `json:"scheme"`
	Ballast  bool            `json:"ballast"`
	D        json.RawMessage `json:"d"`
	M        json.RawMessage `json:"m"`
	Chain    int             `json:"chain"`   // hash id of Deployment.Version returned by the chain query
	Updates  []int           `json:"updates"` // hash ids of the EventDeploymentUpdated versions, in order
	Sub      int             `json:"sub"`     // hash id of sdl.ManifestVersion(submitted manifest)
	SubIsAlt bool            `json:"subalt"`  // the submitted manifest is the altered one (same resources, other image)
	Accepted bool            `json:"accepted"`
	// hash ids of the manifests the provider ANNOUNCED on the bus (event.ManifestReceived) for the deployment
	Announced []int  `json:"announced"`
	Err       string `json:"err,omitempty"`
}

// BatchSub is one submission of a batch.
type BatchSub struct {
	What     string          `json:"what"` // m | alt | bump
	M        json.RawMessage `json:"m"`    // its abstract manifest
	Hid      int             `json:"hid"`  // hash id of sdl.ManifestVersion of the concrete manifest
	Accepted bool            `json:"accepted"`
	Err      string          `json:"err,omitempty"`
}

// BatchLine is one observation of kind "batch": several submissions queued while the manager's chain query was in
// flight, validated together when it returned; and what the provider announced afterwards.
type BatchLine struct {
	Kind      string          `json:"kind"`
	ID        int             `json:"id"`
	Scenario  string          `json:"scenario"`
	Scheme    int             `json:"scheme"`
	Ballast   bool            `json:"ballast"`
	D         json.RawMessage `json:"d"`
	M         json.RawMessage `json:"m"` // the agreed manifest (same as the "m" submission)
	Chain     int             `json:"chain"`
	Updates   []int           `json:"updates"`
	Subs      []BatchSub      `json:"subs"` // in the order they were issued
	Announced []int           `json:"announced"`
}

// batches: the chain holds the hash of `chain`; the submissions are issued in this order while the query is held.
// "alt": other image (wrong hash, same resources); "bump": one more replica in the first service (wrong hash AND
// wrong resources).
var batches = []struct {
	name  string
	chain string
	subs  []string
}{
	{"batch chain=m: alt,m", "m", []string{"alt", "m"}},
	{"batch chain=m: m,alt", "m", []string{"m", "alt"}},
	{"batch chain=m: bump,m", "m", []string{"bump", "m"}},
	{"batch chain=m: alt,bump,m", "m", []string{"alt", "bump", "m"}},
	{"batch chain=bump: bump,m", "bump", []string{"bump", "m"}}, // right hash, wrong resources; then the matching manifest with the wrong hash
	{"batch chain=m: m,m", "m", []string{"m", "m"}},
}

// scenarios: which version the chain holds, which update events arrive, which manifest is submitted.
// "m" is the pair's manifest, "alt" the same manifest with another image (resources identical, hash different).
var scenarios = []struct {
	name    string
	chain   string
	updates []string
	sub     string
	held    int // how many of the updates reach the manager BEFORE its chain query returns (0: all after)
}{
	{"chain=m", "m", nil, "m", 0},
	{"chain=alt", "alt", nil, "m", 0},
	{"chain=alt,upd=m", "alt", []string{"m"}, "m", 0},
	{"chain=m,upd=alt", "m", []string{"alt"}, "m", 0},
	{"chain=m,upd=alt,m", "m", []string{"alt", "m"}, "m", 0},
	{"chain=m,upd=m,alt", "m", []string{"m", "alt"}, "alt", 0},
	{"chain=m,sub=alt", "m", nil, "alt", 0},
	{"chain=alt,upd=m,alt", "alt", []string{"m", "alt"}, "m", 0}, // the submitted hash was current once, is not any more
	{"chain=alt,upd=m|alt", "alt", []string{"m", "alt"}, "m", 1}, // same; the first update arrives before the fetched data, the second after
	{"chain=m,upd=alt|m", "m", []string{"alt", "m"}, "m", 1},
	{"chain=m,upd=m|alt", "m", []string{"m", "alt"}, "alt", 1},
}

func altManifest(m manifest.Manifest) manifest.Manifest {
	// rebuild-free deep copy through JSON is avoided on purpose (it would exercise the code under test);
	// the caller passes a freshly built manifest that nobody else holds.
	if len(m) > 0 && len(m[0].Services) > 0 {
		m[0].Services[0].Image = "registry.example/img:2"
	} else if len(m) > 0 {
		m[0].Name += "" // no service to alter: alt == m, scenarios degenerate harmlessly
	}
	return m
}

// HistStep is one step of a history on ONE deployment.
type HistStep struct {
	Op       string          `json:"op"`   // sub | upd
	What     string          `json:"what"` // m | alt
	Hid      int             `json:"hid"`  // hash id of the submitted manifest / of the version in the update event
	M        json.RawMessage `json:"m"`    // abstract manifest submitted ([] for upd)
	Accepted bool            `json:"accepted"`
	Ann      []int           `json:"ann"` // hash ids announced on the bus between this step and the next
	Err      string          `json:"err,omitempty"`
}

// HistLine is one observation of kind "history": submissions and deployment-version updates interleaved on one
// deployment, e.g. M1 accepted at v1, update to v2, M1 again (must be refused), update back to v1, M1 again (accepted).
type HistLine struct {
	Kind     string          `json:"kind"`
	ID       int             `json:"id"`
	Scenario string          `json:"scenario"`
	Scheme   int             `json:"scheme"`
	Ballast  bool            `json:"ballast"`
	D        json.RawMessage `json:"d"`
	M        json.RawMessage `json:"m"`
	Chain    int             `json:"chain"`
	Steps    []HistStep      `json:"steps"`
}

var histories = []struct {
	name  string
	chain string
	steps []string // "sub:m", "upd:alt", ...
}{
	{"hist chain=m: m,upd alt,m,alt,upd m,m", "m", []string{"sub:m", "upd:alt", "sub:m", "sub:alt", "upd:m", "sub:m"}},
	{"hist chain=alt: m,alt,upd m,alt,m,upd alt,m", "alt", []string{"sub:m", "sub:alt", "upd:m", "sub:alt", "sub:m", "upd:alt", "sub:m"}},
}

// history plays a script on one fresh deployment. Every update is followed by a fresh sentinel lease (see play).
func (e *gateEnv) history(groups []dtypes.Group, chain []byte, ops []string, vers [][]byte, mans []manifest.Manifest) ([]error, [][]string, error) {
	dseq := e.next
	e.next += uint64(2 + len(ops))
	did := dtypes.DeploymentID{Owner: e.owner, DSeq: dseq}
	for i := range groups {
		groups[i].GroupID.Owner = e.owner
		groups[i].GroupID.DSeq = dseq
	}
	e.q.mu.Lock()
	e.q.deployments[dseq] = &dtypes.QueryDeploymentResponse{
		Deployment: dtypes.Deployment{DeploymentID: did, State: dtypes.DeploymentActive, Version: chain},
		Groups:     groups,
	}
	e.q.mu.Unlock()
	var g *dtypes.Group
	if len(groups) > 0 {
		g = &groups[0]
	} else {
		g = &dtypes.Group{GroupID: dtypes.GroupID{Owner: e.owner, DSeq: dseq, GSeq: 1}, GroupSpec: dtypes.GroupSpec{Name: "none"}}
	}
	if err := e.lease(did, g); err != nil {
		return nil, nil, err
	}
	if err := e.waitActive(did); err != nil {
		return nil, nil, err
	}
	replies := make([]error, len(ops))
	anns := make([][]string, len(ops))
	var sentinels []dtypes.DeploymentID
	for i, op := range ops {
		if op == "upd" {
			if err := e.bus.Publish(dtypes.NewEventDeploymentUpdated(did, vers[i])); err != nil {
				return nil, nil, err
			}
			sentinel := dtypes.DeploymentID{Owner: e.owner, DSeq: dseq + 1 + uint64(i)}
			sentinels = append(sentinels, sentinel)
			if err := e.lease(sentinel, g); err != nil {
				return nil, nil, err
			}
			if err := e.waitActive(sentinel); err != nil {
				return nil, nil, err
			}
		} else {
			ctx, cancel := context.WithTimeout(context.Background(), 20*time.Second)
			res := e.svc.Submit(ctx, did, mans[i])
			cancel()
			if res != nil && (errors.Is(res, context.DeadlineExceeded) || errors.Is(res, pmanifest.ErrNotRunning)) {
				return nil, nil, fmt.Errorf("submission was not answered: %v", res)
			}
			replies[i] = res
		}
		a, err := e.announced(dseq)
		if err != nil {
			return nil, nil, err
		}
		anns[i] = a
	}
	_ = e.bus.Publish(dtypes.NewEventDeploymentClosed(did))
	for _, s := range sentinels {
		_ = e.bus.Publish(dtypes.NewEventDeploymentClosed(s))
	}
	e.q.mu.Lock()
	delete(e.q.deployments, dseq)
	e.q.mu.Unlock()
	return replies, anns, nil
}

// bumpAbs is the abstract manifest with one more replica in its first service (nil if there is none).
func bumpAbs(m []Grp) []Grp {
	for gi := range m {
		if len(m[gi].Recs) > 0 {
			out := make([]Grp, len(m))
			for i := range m {
				out[i] = Grp{Name: m[i].Name, Recs: append([]Rec{}, m[i].Recs...)}
			}
			out[gi].Recs[0].C++
			return out
		}
	}
	return nil
}

// RunGate runs every single-submission scenario and every batch scenario for one pair under one scheme.
func (e *gateEnv) RunGate(id int, p *Pair, rawD, rawM json.RawMessage, s int, hashes *interner,
	emit func(GateLine) error, emitBatch func(BatchLine) error, emitHist func(HistLine) error) error {
	build := func(what string) (manifest.Manifest, json.RawMessage, error) {
		switch what {
		case "alt":
			a, err := Manifest(p.M, s)
			return altManifest(a), rawM, err
		case "bump":
			b := bumpAbs(p.M)
			if b == nil {
				return nil, nil, nil
			}
			raw, _ := json.Marshal(b)
			bm, err := Manifest(b, s)
			return bm, raw, err
		}
		m, err := Manifest(p.M, s)
		return m, rawM, err
	}
	ids := func(vs []string) []int {
		out := []int{}
		for _, v := range vs {
			out = append(out, hashes.id(v))
		}
		return out
	}
	for _, sc := range scenarios {
		groups, err := DGroups(p.D, s, e.owner, 0)
		if err != nil {
			return err
		}
		m, _, err := build("m")
		if err != nil {
			return err
		}
		alt, _, _ := build("alt")
		vm, err := version(m)
		if err != nil {
			return err
		}
		va, err := version(alt)
		if err != nil {
			return err
		}
		pick := func(w string) string {
			if w == "alt" {
				return va
			}
			return vm
		}
		var ups [][]byte
		upIDs := []int{}
		for _, u := range sc.updates {
			ups = append(ups, []byte(pick(u)))
			upIDs = append(upIDs, hashes.id(pick(u)))
		}
		sub := m
		if sc.sub == "alt" {
			sub = alt
		}
		replies, ann, herr := e.play(groups, []byte(pick(sc.chain)), ups, []manifest.Manifest{sub}, false, sc.held)
		if herr != nil {
			return fmt.Errorf("gate scenario %q of pair %d: %v", sc.name, id, herr)
		}
		res := replies[0]
		l := GateLine{Kind: "gate", ID: id, Scenario: sc.name, Scheme: s, Ballast: Ballast(s), D: rawD, M: rawM,
			Chain: hashes.id(pick(sc.chain)), Updates: upIDs, Sub: hashes.id(pick(sc.sub)), SubIsAlt: sc.sub == "alt",
			Accepted: res == nil, Announced: ids(ann)}
		if res != nil {
			l.Err = res.Error()
		}
		if err := emit(l); err != nil {
			return err
		}
	}
	for _, bc := range batches {
		groups, err := DGroups(p.D, s, e.owner, 0)
		if err != nil {
			return err
		}
		cm, _, err := build(bc.chain)
		if err != nil {
			return err
		}
		if cm == nil && bc.chain == "bump" {
			continue
		}
		vc, err := version(cm)
		if err != nil {
			return err
		}
		var subs []manifest.Manifest
		var bsubs []BatchSub
		skip := false
		for _, w := range bc.subs {
			sm, raw, err := build(w)
			if err != nil {
				return err
			}
			if raw == nil { // no service to bump
				skip = true
				break
			}
			v, err := version(sm)
			if err != nil {
				return err
			}
			subs = append(subs, sm)
			bsubs = append(bsubs, BatchSub{What: w, M: raw, Hid: hashes.id(v)})
		}
		if skip {
			continue
		}
		replies, ann, herr := e.play(groups, []byte(vc), nil, subs, true, 0)
		if herr != nil {
			return fmt.Errorf("%q of pair %d: %v", bc.name, id, herr)
		}
		for i, r := range replies {
			bsubs[i].Accepted = r == nil
			if r != nil {
				bsubs[i].Err = r.Error()
			}
		}
		l := BatchLine{Kind: "batch", ID: id, Scenario: bc.name, Scheme: s, Ballast: Ballast(s), D: rawD, M: rawM,
			Chain: hashes.id(vc), Updates: []int{}, Subs: bsubs, Announced: ids(ann)}
		if err := emitBatch(l); err != nil {
			return err
		}
	}
	for _, hc := range histories {
		groups, err := DGroups(p.D, s, e.owner, 0)
		if err != nil {
			return err
		}
		cm, _, err := build(hc.chain)
		if err != nil {
			return err
		}
		vc, err := version(cm)
		if err != nil {
			return err
		}
		ops := make([]string, len(hc.steps))
		vers := make([][]byte, len(hc.steps))
		mans := make([]manifest.Manifest, len(hc.steps))
		steps := make([]HistStep, len(hc.steps))
		for i, st := range hc.steps {
			op, what := st[:3], st[4:]
			sm, raw, err := build(what)
			if err != nil {
				return err
			}
			v, err := version(sm)
			if err != nil {
				return err
			}
			ops[i], vers[i], mans[i] = op, []byte(v), sm
			steps[i] = HistStep{Op: op, What: what, Hid: hashes.id(v), M: raw, Ann: []int{}}
			if op == "upd" {
				steps[i].M = json.RawMessage("[]")
			}
		}
		replies, anns, herr := e.history(groups, []byte(vc), ops, vers, mans)
		if herr != nil {
			return fmt.Errorf("%q of pair %d: %v", hc.name, id, herr)
		}
		for i := range steps {
			steps[i].Accepted = ops[i] == "sub" && replies[i] == nil
			if replies[i] != nil {
				steps[i].Err = replies[i].Error()
			}
			steps[i].Ann = ids(anns[i])
		}
		if err := emitHist(HistLine{Kind: "history", ID: id, Scenario: hc.name, Scheme: s, Ballast: Ballast(s), D: rawD, M: rawM,
			Chain: hashes.id(vc), Steps: steps}); err != nil {
			return err
		}
	}
	return nil
}
