package mmatchh

import (
	"context"
	"encoding/json"
	"errors"
	"fmt"
	"sync"
	"time"

	sdk "github.com/cosmos/cosmos-sdk/types"
	"github.com/tendermint/tendermint/libs/log"
	"google.golang.org/grpc"

	"github.com/ovrclk/akash/client"
	"github.com/ovrclk/akash/client/broadcaster"
	"github.com/ovrclk/akash/manifest"
	"github.com/ovrclk/akash/provider/event"
	pmanifest "github.com/ovrclk/akash/provider/manifest"
	"github.com/ovrclk/akash/provider/session"
	"github.com/ovrclk/akash/pubsub"
	dtypes "github.com/ovrclk/akash/x/deployment/types"
	mtypes "github.com/ovrclk/akash/x/market/types"
	ptypes "github.com/ovrclk/akash/x/provider/types"
)

// The version gate is observed through the provider's real submission path, public API only:
// pmanifest.NewService (real service + real per-deployment manager goroutines, real pubsub bus), a scripted chain
// (client.QueryClient answering Deployment from a table) and a hostname service that never objects.
// Nothing in provider/manifest is hooked or edited.

type fakeQuery struct {
	client.QueryClient // every other method: nil interface, never called on this path
	mu                 sync.Mutex
	deployments        map[uint64]*dtypes.QueryDeploymentResponse
}

func (q *fakeQuery) ActiveLeasesForProvider(sdk.AccAddress) ([]mtypes.QueryLeaseResponse, error) {
	return nil, nil
}

func (q *fakeQuery) Deployment(_ context.Context, in *dtypes.QueryDeploymentRequest, _ ...grpc.CallOption) (*dtypes.QueryDeploymentResponse, error) {
	q.mu.Lock()
	defer q.mu.Unlock()
	if r, ok := q.deployments[in.ID.DSeq]; ok {
		c := *r
		return &c, nil
	}
	return nil, errors.New("scripted chain: no such deployment")
}

type fakeClient struct{ q *fakeQuery }

func (c fakeClient) Query() client.QueryClient { return c.q }
func (c fakeClient) Tx() broadcaster.Client    { return nil }

type okHostnames struct{}

func okch() <-chan error {
	ch := make(chan error, 1)
	ch <- nil
	return ch
}
func (okHostnames) ReserveHostnames([]string, dtypes.DeploymentID) <-chan error    { return okch() }
func (okHostnames) ReleaseHostnames([]string)                                      {}
func (okHostnames) CanReserveHostnames([]string, dtypes.DeploymentID) <-chan error { return okch() }

type gateEnv struct {
	svc    pmanifest.Service
	bus    pubsub.Bus
	q      *fakeQuery
	cancel context.CancelFunc
	owner  string
	prov   string
	next   uint64
}

func newGateEnv() (*gateEnv, error) {
	owner := sdk.AccAddress([]byte("verif-mmatch-owner--")).String()
	provAddr := sdk.AccAddress([]byte("verif-mmatch-provdr-"))
	q := &fakeQuery{deployments: map[uint64]*dtypes.QueryDeploymentResponse{}}
	ctx, cancel := context.WithCancel(context.Background())
	bus := pubsub.NewBus()
	p := &ptypes.Provider{Owner: provAddr.String()}
	svc, err := pmanifest.NewService(ctx, session.New(log.NewNopLogger(), fakeClient{q}, p), bus, okHostnames{}, pmanifest.ServiceConfig{})
	if err != nil {
		cancel()
		return nil, err
	}
	return &gateEnv{svc: svc, bus: bus, q: q, cancel: cancel, owner: owner, prov: provAddr.String(), next: 1}, nil
}

func (e *gateEnv) close() error {
	e.cancel()
	select {
	case <-e.svc.Done():
	case <-time.After(30 * time.Second):
		return errors.New("manifest service did not shut down")
	}
	e.bus.Close()
	return nil
}

// waitActive returns once the service has created the manager of deployment did, i.e. once its loop has handled
// every bus event published before that deployment's LeaseWon (events are handled in publication order and each is
// handed to its manager synchronously). IsActive is a request/response with the service loop: no sleeping on a
// guess, only re-asking until the event has been consumed.
func (e *gateEnv) waitActive(did dtypes.DeploymentID) error {
	deadline := time.Now().Add(20 * time.Second)
	for {
		ctx, cancel := context.WithTimeout(context.Background(), 10*time.Second)
		ok, err := e.svc.IsActive(ctx, did)
		cancel()
		if err != nil {
			return err
		}
		if ok {
			return nil
		}
		if time.Now().After(deadline) {
			return fmt.Errorf("manager of %v never became active", did)
		}
		time.Sleep(50 * time.Microsecond)
	}
}

func (e *gateEnv) lease(did dtypes.DeploymentID, g *dtypes.Group) error {
	return e.bus.Publish(event.LeaseWon{
		LeaseID: mtypes.LeaseID{Owner: did.Owner, DSeq: did.DSeq, GSeq: 1, OSeq: 1, Provider: e.prov},
		Group:   g,
		Price:   sdk.NewInt64Coin("uakt", 1),
	})
}

// submit runs one scenario: the chain records version `chain` and groups `groups` for a fresh deployment, the
// provider wins a lease on it, then sees the update events `updates` (versions) in order, then the tenant submits m.
// Returns the error of Service.Submit (nil = accepted).
func (e *gateEnv) submit(groups []dtypes.Group, chain []byte, updates [][]byte, m manifest.Manifest) (error, error) {
	dseq := e.next
	e.next += 2
	did := dtypes.DeploymentID{Owner: e.owner, DSeq: dseq}
	for i := range groups {
		groups[i].GroupID.Owner = e.owner
		groups[i].GroupID.DSeq = dseq
	}
	e.q.mu.Lock()
	e.q.deployments[dseq] = &dtypes.QueryDeploymentResponse{
		Deployment: dtypes.Deployment{DeploymentID: did, State: dtypes.DeploymentActive, Version: chain},
		Groups:     groups,
	}
	e.q.mu.Unlock()

	var g *dtypes.Group
	if len(groups) > 0 {
		g = &groups[0]
	} else {
		g = &dtypes.Group{GroupID: dtypes.GroupID{Owner: e.owner, DSeq: dseq, GSeq: 1}, GroupSpec: dtypes.GroupSpec{Name: "none"}}
	}
	if err := e.lease(did, g); err != nil {
		return nil, err
	}
	sentinel := dtypes.DeploymentID{Owner: e.owner, DSeq: dseq + 1}
	if len(updates) > 0 {
		for _, v := range updates {
			if err := e.bus.Publish(dtypes.NewEventDeploymentUpdated(did, v)); err != nil {
				return nil, err
			}
		}
		// a lease on a sentinel deployment, published after the updates: once its manager exists the updates
		// have been handed to the manager of did
		if err := e.lease(sentinel, g); err != nil {
			return nil, err
		}
		if err := e.waitActive(sentinel); err != nil {
			return nil, err
		}
	} else if err := e.waitActive(did); err != nil {
		return nil, err
	}

	ctx, cancel := context.WithTimeout(context.Background(), 20*time.Second)
	res := e.svc.Submit(ctx, did, m)
	cancel()
	if res != nil && (errors.Is(res, context.DeadlineExceeded) || errors.Is(res, pmanifest.ErrNotRunning)) {
		return nil, fmt.Errorf("submission was not answered: %v", res)
	}
	// retire the managers of this scenario (keeps the goroutine count flat)
	_ = e.bus.Publish(dtypes.NewEventDeploymentClosed(did))
	if len(updates) > 0 {
		_ = e.bus.Publish(dtypes.NewEventDeploymentClosed(sentinel))
	}
	e.q.mu.Lock()
	delete(e.q.deployments, dseq)
	e.q.mu.Unlock()
	return res, nil
}

// GateLine is one observation of kind "gate".
type GateLine struct {
	Kind     string          `json:"kind"`
	ID       int             `json:"id"`
	Scenario string          `json:"scenario"`
	Scheme   int             `json:"scheme"`
	Ballast  bool            `json:"ballast"`
	D        json.RawMessage `json:"d"`
	M        json.RawMessage `json:"m"`
	Chain    int             `json:"chain"`   // hash id of Deployment.Version returned by the chain query
	Updates  []int           `json:"updates"` // hash ids of the EventDeploymentUpdated versions, in order
	Sub      int             `json:"sub"`     // hash id of sdl.ManifestVersion(submitted manifest)
	SubIsAlt bool            `json:"subalt"`  // the submitted manifest is the altered one (same resources, other image)
	Accepted bool            `json:"accepted"`
	Err      string          `json:"err,omitempty"`
}

// scenarios: which version the chain holds, which update events arrive, which manifest is submitted.
// "m" is the pair's manifest, "alt" the same manifest with another image (resources identical, hash different).
var scenarios = []struct {
	name    string
	chain   string
	updates []string
	sub     string
}{
	{"chain=m", "m", nil, "m"},
	{"chain=alt", "alt", nil, "m"},
	{"chain=alt,upd=m", "alt", []string{"m"}, "m"},
	{"chain=m,upd=alt", "m", []string{"alt"}, "m"},
	{"chain=m,upd=alt,m", "m", []string{"alt", "m"}, "m"},
	{"chain=m,upd=m,alt", "m", []string{"m", "alt"}, "alt"},
	{"chain=m,sub=alt", "m", nil, "alt"},
	{"chain=alt,upd=m,alt", "alt", []string{"m", "alt"}, "m"}, // the submitted hash was current once, is not any more
}

func altManifest(m manifest.Manifest) manifest.Manifest {
	// rebuild-free deep copy through JSON is avoided on purpose (it would exercise the code under test);
	// the caller passes a freshly built manifest that nobody else holds.
	if len(m) > 0 && len(m[0].Services) > 0 {
		m[0].Services[0].Image = "registry.example/img:2"
	} else if len(m) > 0 {
		m[0].Name += "" // no service to alter: alt == m, scenarios degenerate harmlessly
	}
	return m
}

// RunGate runs every scenario for one pair under one scheme.
func (e *gateEnv) RunGate(id int, p *Pair, rawD, rawM json.RawMessage, s int, hashes *interner, only int, emit func(GateLine) error) error {
	for si, sc := range scenarios {
		if only >= 0 && si != only {
			continue
		}
		groups, err := DGroups(p.D, s, e.owner, 0)
		if err != nil {
			return err
		}
		m, err := Manifest(p.M, s)
		if err != nil {
			return err
		}
		alt, _ := Manifest(p.M, s)
		alt = altManifest(alt)
		vm, err := version(m)
		if err != nil {
			return err
		}
		va, err := version(alt)
		if err != nil {
			return err
		}
		pick := func(w string) string {
			if w == "alt" {
				return va
			}
			return vm
		}
		var ups [][]byte
		upIDs := []int{}
		for _, u := range sc.updates {
			ups = append(ups, []byte(pick(u)))
			upIDs = append(upIDs, hashes.id(pick(u)))
		}
		sub := m
		if sc.sub == "alt" {
			sub = alt
		}
		res, herr := e.submit(groups, []byte(pick(sc.chain)), ups, sub)
		if herr != nil {
			return fmt.Errorf("gate scenario %q of pair %d: %v", sc.name, id, herr)
		}
		l := GateLine{Kind: "gate", ID: id, Scenario: sc.name, Scheme: s, Ballast: Ballast(s), D: rawD, M: rawM,
			Chain: hashes.id(pick(sc.chain)), Updates: upIDs, Sub: hashes.id(pick(sc.sub)), SubIsAlt: sc.sub == "alt",
			Accepted: res == nil}
		if res != nil {
			l.Err = res.Error()
		}
		if err := emit(l); err != nil {
			return err
		}
	}
	return nil
}
