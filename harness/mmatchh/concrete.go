// Package mmatchh is the harness of family mmatch (property C10, manifest integrity).
//
// TLC enumerates abstract (deployment groups, manifest) pairs from spec/mmatch/ManifestMatch.tla and prints them as
// JSON. This package turns each pair into real dtypes.Group / manifest.Manifest values (several "schemes" that map
// the abstract unit classes and endpoint kinds onto different concrete fields), runs the real
// validation.ValidateManifest / validation.ValidateManifestWithDeployment, the real provider/manifest service
// (Submit -> manager.validateRequest, version gate included) and the real sdl.ManifestVersion, and records one
// ndjson line per observation for TLC to judge (spec/mmatch/ManifestMatchTrace.tla).
package mmatchh

import (
	"fmt"

	sdk "github.com/cosmos/cosmos-sdk/types"

	"github.com/ovrclk/akash/manifest"
	atypes "github.com/ovrclk/akash/types"
	dtypes "github.com/ovrclk/akash/x/deployment/types"
)

// Rec is the abstract record of ManifestMatch.tla: on chain one dtypes.Resource, in the manifest one service.
type Rec struct {
	U     string `json:"u"`
	C     uint32 `json:"c"`
	HTTP  int    `json:"http"`
	Other int    `json:"other"`
}

// Grp is an abstract group.
type Grp struct {
	Name string `json:"name"`
	Recs []Rec  `json:"recs"`
}

// Pair is one enumerated input.
type Pair struct {
	D []Grp `json:"d"`
	M []Grp `json:"m"`
}

// NSchemes is the number of concretisation schemes. Scheme s distinguishes the abstract unit classes in exactly
// ONE concrete dimension (so that a comparison that forgets a dimension confuses two classes under that scheme):
//
//	0 CPU units   1 memory size   2 storage size   3 CPU attributes   4 memory attributes   5 storage attributes
//
// and rotates the encodings of the two endpoint kinds; odd schemes add a non-global expose to every service (it must
// not count as an endpoint). Schemes 3..5 add a BALLAST to every group on BOTH sides: one more resource record /
// service of a unit class of its own, one replica, one http endpoint, at varying positions. Adding the same element
// to both multisets changes neither their equality nor any difference, so the oracle's answer for the abstract
// pair is the answer for the ballasted pair; what it buys is that ValidateManifest ("zero global services", "group
// contains no services") no longer masks the cross-validation result for pairs without endpoints.
// The oracle does not know about schemes: all of them must be judged alike.
const NSchemes = 6

// Ballast tells whether scheme s adds the ballast element.
func Ballast(s int) bool { return s >= 3 }

func ballastUnits() atypes.ResourceUnits {
	return atypes.ResourceUnits{
		CPU:     &atypes.CPU{Units: atypes.NewResourceValue(500)},
		Memory:  &atypes.Memory{Quantity: atypes.NewResourceValue(512 * mi)},
		Storage: &atypes.Storage{Quantity: atypes.NewResourceValue(256 * mi)},
	}
}

const (
	mi = uint64(1024 * 1024)
)

func classIndex(u string) (int, error) {
	var k int
	if _, err := fmt.Sscanf(u, "u%d", &k); err != nil || k < 1 {
		return 0, fmt.Errorf("unit class %q is not of the form u<k>", u)
	}
	return k - 1, nil
}

// units builds a fresh (unshared) ResourceUnits for unit class k under scheme s.
func units(s, k int) atypes.ResourceUnits {
	cpu, mem, sto := uint64(100), 128*mi, 64*mi
	ca, ma, sa := "x", "m", "s"
	switch s {
	case 0:
		cpu += uint64(10 * k)
	case 1:
		mem += uint64(k) * mi
	case 2:
		sto += uint64(k) * mi
	case 3:
		ca = fmt.Sprintf("x%d", k)
	case 4:
		ma = fmt.Sprintf("m%d", k)
	case 5:
		sa = fmt.Sprintf("s%d", k)
	}
	return atypes.ResourceUnits{
		CPU:     &atypes.CPU{Units: atypes.NewResourceValue(cpu), Attributes: []atypes.Attribute{{Key: "arch", Value: ca}}},
		Memory:  &atypes.Memory{Quantity: atypes.NewResourceValue(mem), Attributes: []atypes.Attribute{{Key: "class", Value: ma}}},
		Storage: &atypes.Storage{Quantity: atypes.NewResourceValue(sto), Attributes: []atypes.Attribute{{Key: "class", Value: sa}}},
	}
}

func endpoints(s, http, other int) []atypes.Endpoint {
	var eps []atypes.Endpoint
	if s%2 == 0 {
		for i := 0; i < http; i++ {
			eps = append(eps, atypes.Endpoint{Kind: atypes.Endpoint_SHARED_HTTP})
		}
		for i := 0; i < other; i++ {
			eps = append(eps, atypes.Endpoint{Kind: atypes.Endpoint_RANDOM_PORT})
		}
	} else {
		for i := 0; i < other; i++ {
			eps = append(eps, atypes.Endpoint{Kind: atypes.Endpoint_RANDOM_PORT})
		}
		for i := 0; i < http; i++ {
			eps = append(eps, atypes.Endpoint{Kind: atypes.Endpoint_SHARED_HTTP})
		}
	}
	return eps
}

// DGroups concretises the chain side: real on-chain groups of deployment dseq.
func DGroups(d []Grp, s int, owner string, dseq uint64) ([]dtypes.Group, error) {
	out := make([]dtypes.Group, 0, len(d))
	for gi, g := range d {
		var res []dtypes.Resource
		for _, r := range g.Recs {
			k, err := classIndex(r.U)
			if err != nil {
				return nil, err
			}
			ru := units(s, k)
			ru.Endpoints = endpoints(s, r.HTTP, r.Other)
			res = append(res, dtypes.Resource{Resources: ru, Count: r.C, Price: sdk.NewInt64Coin("uakt", 1)})
		}
		if Ballast(s) {
			bu := ballastUnits()
			bu.Endpoints = []atypes.Endpoint{{Kind: atypes.Endpoint_SHARED_HTTP}}
			b := dtypes.Resource{Resources: bu, Count: 1, Price: sdk.NewInt64Coin("uakt", 1)}
			if s == 4 {
				res = append(res, b)
			} else {
				res = append([]dtypes.Resource{b}, res...)
			}
		}
		out = append(out, dtypes.Group{
			GroupID:   dtypes.GroupID{Owner: owner, DSeq: dseq, GSeq: uint32(gi + 1)},
			State:     dtypes.GroupOpen,
			GroupSpec: dtypes.GroupSpec{Name: g.Name, Resources: res},
		})
	}
	return out, nil
}

// Manifest concretises the tenant side. Every optional field is populated (so that the hash mutation walk has an
// element of every slice to alter) and every empty slice is nil (never empty-non-nil).
func Manifest(m []Grp, s int) (manifest.Manifest, error) {
	var out manifest.Manifest
	for gi, g := range m {
		mg := manifest.Group{Name: g.Name}
		for si, r := range g.Recs {
			k, err := classIndex(r.U)
			if err != nil {
				return nil, err
			}
			ru := units(s, k)
			// the manifest's own copy of the endpoints is not what the provider exposes (Expose is); it is
			// filled like the SDL would not (nil there) only to give the hash walk something to mutate
			ru.Endpoints = endpoints(s, r.HTTP, r.Other)
			svc := manifest.Service{
				Name:      fmt.Sprintf("s%d", si),
				Image:     "registry.example/img:1",
				Command:   []string{"/bin/run"},
				Args:      []string{"--serve"},
				Env:       []string{"MODE=prod"},
				Resources: ru,
				Count:     r.C,
			}
			host := func(i int) []string {
				return []string{fmt.Sprintf("g%d-s%d-e%d.example.com", gi, si, i)}
			}
			n := 0
			for i := 0; i < r.HTTP; i++ {
				e := manifest.ServiceExpose{Port: 80, Proto: manifest.TCP, Global: true, Hosts: host(n)}
				if (i+s)%2 == 1 { // container port 8080 published as 80
					e.Port, e.ExternalPort = 8080, 80
				}
				svc.Expose = append(svc.Expose, e)
				n++
			}
			for i := 0; i < r.Other; i++ {
				var e manifest.ServiceExpose
				switch (i + s) % 3 {
				case 0: // TCP on another port
					e = manifest.ServiceExpose{Port: uint16(8080 + i), Proto: manifest.TCP, Global: true}
				case 1: // port 80 but UDP
					e = manifest.ServiceExpose{Port: 80, Proto: manifest.UDP, Global: true}
				case 2: // container port 80 published elsewhere
					e = manifest.ServiceExpose{Port: 80, ExternalPort: uint16(8081 + i), Proto: manifest.TCP, Global: true}
				}
				e.Hosts = host(n)
				svc.Expose = append(svc.Expose, e)
				n++
			}
			if s%2 == 1 { // a service-to-service expose: not an endpoint
				svc.Expose = append(svc.Expose, manifest.ServiceExpose{Port: 80, Proto: manifest.TCP, Service: "peer", Global: false})
			}
			mg.Services = append(mg.Services, svc)
		}
		if Ballast(s) {
			b := manifest.Service{Name: "ballast", Image: "registry.example/ballast:1", Resources: ballastUnits(), Count: 1,
				Expose: []manifest.ServiceExpose{{Port: 80, Proto: manifest.TCP, Global: true,
					Hosts: []string{fmt.Sprintf("ballast-g%d.example.com", gi)}}}}
			if s == 3 {
				mg.Services = append(mg.Services, b)
			} else {
				mg.Services = append([]manifest.Service{b}, mg.Services...)
			}
		}
		out = append(out, mg)
	}
	return out, nil
}
