package mmatchh

import (
	"encoding/json"
	"errors"
	"fmt"
	"os"
	"path/filepath"
	"reflect"
	"sort"
	"strings"

	"github.com/ovrclk/akash/manifest"
	"github.com/ovrclk/akash/sdl"
	atypes "github.com/ovrclk/akash/types"
	"github.com/ovrclk/akash/validation"
	dtypes "github.com/ovrclk/akash/x/deployment/types"
)

// The other direction of the binding: REAL (groups, manifest) pairs - those the repository's own SDL files produce
// through the real sdl package - are abstracted into the vocabulary of ManifestMatch.tla and judged by the same
// oracle. The abstraction is written here independently of the code under test: a unit class is the reflection dump
// of (CPU, Memory, Storage); an on-chain endpoint is counted by its kind; a manifest endpoint is a global expose,
// "http" iff TCP and published on port 80.

type unitClasses struct{ ids map[string]int }

func (c *unitClasses) of(ru atypes.ResourceUnits) string {
	var b strings.Builder
	dump(reflect.ValueOf(ru.CPU), &b)
	b.WriteByte('|')
	dump(reflect.ValueOf(ru.Memory), &b)
	b.WriteByte('|')
	dump(reflect.ValueOf(ru.Storage), &b)
	k := b.String()
	if _, ok := c.ids[k]; !ok {
		c.ids[k] = len(c.ids) + 1
	}
	return fmt.Sprintf("u%d", c.ids[k])
}

func abstractGroups(gs []dtypes.Group, c *unitClasses) []Grp {
	out := []Grp{}
	for _, g := range gs {
		ag := Grp{Name: g.GroupSpec.Name, Recs: []Rec{}}
		for _, r := range g.GroupSpec.Resources {
			rec := Rec{U: c.of(r.Resources), C: r.Count}
			for _, e := range r.Resources.Endpoints {
				switch e.Kind {
				case atypes.Endpoint_SHARED_HTTP:
					rec.HTTP++
				case atypes.Endpoint_RANDOM_PORT:
					rec.Other++
				}
			}
			ag.Recs = append(ag.Recs, rec)
		}
		out = append(out, ag)
	}
	return out
}

func abstractManifest(m manifest.Manifest, c *unitClasses) []Grp {
	out := []Grp{}
	for _, g := range m {
		ag := Grp{Name: g.Name, Recs: []Rec{}}
		for _, s := range g.Services {
			rec := Rec{U: c.of(s.Resources), C: s.Count}
			for _, e := range s.Expose {
				if !e.Global {
					continue
				}
				port := e.ExternalPort
				if port == 0 {
					port = e.Port
				}
				if e.Proto == manifest.TCP && port == 80 {
					rec.HTTP++
				} else {
					rec.Other++
				}
			}
			ag.Recs = append(ag.Recs, rec)
		}
		out = append(out, ag)
	}
	return out
}

type sdlDoc struct {
	file   string
	groups []dtypes.Group
	mani   manifest.Manifest
}

// RunSDL walks root for SDL files, builds the real pairs (every file's groups against every file's manifest: the
// diagonal must be accepted, the rest exercises realistic mismatches) and records them as "pair" observations.
func RunSDL(root string, emit func(PairLine) error) (files, pairs, accepted int, err error) {
	var docs []sdlDoc
	_ = filepath.Walk(root, func(p string, info os.FileInfo, werr error) error {
		if werr != nil || info.IsDir() {
			if info != nil && info.IsDir() && (info.Name() == ".git" || info.Name() == "node_modules" || info.Name() == "vendor") {
				return filepath.SkipDir
			}
			return nil
		}
		if !strings.HasSuffix(p, ".yaml") && !strings.HasSuffix(p, ".yml") {
			return nil
		}
		s, e := sdl.ReadFile(p)
		if e != nil {
			return nil // not an SDL document (or a deliberately broken fixture)
		}
		gspecs, e := s.DeploymentGroups()
		if e != nil {
			return nil
		}
		m, e := s.Manifest()
		if e != nil {
			return nil
		}
		var gs []dtypes.Group
		for i, g := range gspecs {
			gs = append(gs, dtypes.Group{GroupID: dtypes.GroupID{Owner: "akash1owner", DSeq: 1, GSeq: uint32(i + 1)}, GroupSpec: *g})
		}
		rel, _ := filepath.Rel(root, p)
		docs = append(docs, sdlDoc{file: rel, groups: gs, mani: m})
		return nil
	})
	sort.Slice(docs, func(i, j int) bool { return docs[i].file < docs[j].file })
	id := 0
	for _, dd := range docs {
		for _, dm := range docs {
			c := &unitClasses{ids: map[string]int{}}
			ad := abstractGroups(dd.groups, c)
			am := abstractManifest(dm.mani, c)
			if len(c.ids) > 8 {
				continue // more unit classes than the trace cfg's oracle quantifies over
			}
			m := dm.mani
			verr := validation.ValidateManifest(m)
			cerr := validation.ValidateManifestWithDeployment(&m, dd.groups)
			r := SchemeResult{Scheme: -1, Valid: verr == nil, Cross: classify(cerr), CrossOK: cerr == nil,
				CrossGS: classify(validation.ValidateManifestWithGroupSpecs(&m, groupSpecs(dd.groups))),
				ResRej:  cerr != nil && errors.Is(cerr, validation.ErrManifestCrossValidation), Accepted: verr == nil && cerr == nil}
			if cerr != nil {
				r.Err = cerr.Error()
			} else if verr != nil {
				r.Err = verr.Error()
			}
			rd, _ := json.Marshal(ad)
			rm, _ := json.Marshal(am)
			line := PairLine{Kind: "pair", ID: id, D: rd, M: rm, Res: []SchemeResult{r}, Src: dd.file + " x " + dm.file}
			id++
			if r.Accepted {
				accepted++
			}
			if err := emit(line); err != nil {
				return len(docs), id, accepted, err
			}
		}
	}
	return len(docs), id, accepted, nil
}
