module verif/harness

go 1.16

require (
	github.com/cosmos/cosmos-sdk v0.41.3
	github.com/gorilla/websocket v1.4.2
	github.com/ovrclk/akash v0.0.0
	github.com/tendermint/tendermint v0.34.9
	github.com/tendermint/tm-db v0.6.4
	google.golang.org/grpc v1.35.0
	gopkg.in/yaml.v3 v3.0.0-20210107192922-496545a6307b
	k8s.io/api v0.19.3
	k8s.io/apimachinery v0.20.2
	k8s.io/client-go v0.19.3
)

replace github.com/ovrclk/akash => /repo

replace github.com/keybase/go-keychain => github.com/99designs/go-keychain v0.0.0-20191008050251-8e49817e8af4

replace github.com/gogo/protobuf => github.com/regen-network/protobuf v1.3.3-alpha.regen.1

replace google.golang.org/grpc => google.golang.org/grpc v1.33.2

replace github.com/cosmos/cosmos-sdk => github.com/ovrclk/cosmos-sdk v0.41.4-akash-4

replace github.com/tendermint/tendermint => github.com/ovrclk/tendermint v0.34.9-akash-1

replace (
	github.com/cosmos/ledger-cosmos-go => github.com/ovrclk/ledger-cosmos-go v0.13.2
	github.com/zondax/hid => github.com/troian/hid v0.9.9
	github.com/zondax/ledger-go => github.com/ovrclk/ledger-go v0.13.4
)
