package hostnameh

import (
	"context"
	"errors"
	"fmt"
	"regexp"
	"sort"
	"strings"
	"sync"
	"sync/atomic"
	"time"

	"github.com/ovrclk/akash/provider/cluster"
	"github.com/ovrclk/akash/util/veriftrace"
	dtypes "github.com/ovrclk/akash/x/deployment/types"
)

// Line is one step of the trace. Every field is always present so that the TLA+ side needs no optional-field
// handling.
type Line struct {
	E     string     `json:"e"`     // reset call request recv relcall release relret cancel shutdown done stuck extra end
	Run   int        `json:"run"`   // run number inside the file
	ID    string     `json:"id"`    // script / program id (reset line)
	C     string     `json:"c"`     // caller ("" none, "?" a loop step no call in progress explains)
	Op    string     `json:"op"`    // reserve | can | release
	D     string     `json:"d"`     // deployment (abstract id; "none")
	Names []string   `json:"names"` // requested names (abstract ids, in order)
	Sp    []int      `json:"sp"`    // how the caller spelled each name (0 lower, 1 upper, 2 alternating)
	R     string     `json:"r"`     // ok | notallowed | notrunning | other | none; on a request line: what its caller received
	Why   string     `json:"why"`   // blocked | inuse | ""
	Host  string     `json:"host"`  // the name the refusal mentions
	Late  bool       `json:"late"`  // the harness had seen the service's Done() before it began this call
	Pre   [][]string `json:"pre"`   // request line: in-use map when doRequest begins, as [name, deployment] pairs
	Post  [][]string `json:"post"`  // request / release line: in-use map after the step
	Note  string     `json:"note"`  // free text (non-canonical keys, stuck phase, ...)
}

func newLine(e string) *Line {
	return &Line{E: e, D: "none", Names: []string{}, Sp: []int{}, R: "none", Pre: [][]string{}, Post: [][]string{}}
}

type callState struct {
	c       string
	sig     string
	phase   string // calling | waiting | done
	served  *Line  // the loop step that took this call
	dropped bool   // a release that returned after the loop had announced its shutdown
	ch      <-chan error
}

// run is one service instance with its recording.
type run struct {
	u      *Universe
	svc    cluster.HostnameServiceClient
	done   <-chan struct{}
	cancel context.CancelFunc

	mu       sync.Mutex
	cond     *sync.Cond
	lines    []*Line
	pending  map[string]*callState // signature -> call in progress
	calls    []*callState
	cur      *Line // request line waiting for its request-done
	canceled bool

	doneSeen int32
	progress int64 // lines recorded (watchdog)

	holdMu sync.Mutex
	hold   chan struct{} // non-nil: the loop waits here before it processes the next request
	atGate int32

	abort chan struct{} // closed when the supervisor gives up waiting
}

var (
	curMu  sync.Mutex
	curRun *run
)

func getRun() *run {
	curMu.Lock()
	defer curMu.Unlock()
	return curRun
}

func installHooks() {
	veriftrace.SetSink(func(ev veriftrace.Event) {
		if ev.Component != "cluster-hostnames" {
			return
		}
		if r := getRun(); r != nil {
			r.sink(ev)
		}
	})
	veriftrace.SetGate(func(name string) {
		if !strings.HasPrefix(name, "cluster-hostnames/") {
			return
		}
		if r := getRun(); r != nil {
			r.gate()
		}
	})
}

func startRun(u *Universe) *run {
	ctx, cancel := context.WithCancel(context.Background())
	r := &run{u: u, cancel: cancel, pending: map[string]*callState{}, abort: make(chan struct{})}
	r.cond = sync.NewCond(&r.mu)
	curMu.Lock()
	curRun = r
	curMu.Unlock()
	r.svc, r.done = cluster.VerifNewHostnameService(ctx, u.config())
	return r
}

func stopRecording() {
	curMu.Lock()
	curRun = nil
	curMu.Unlock()
}

func (r *run) add(l *Line) {
	r.lines = append(r.lines, l)
	atomic.AddInt64(&r.progress, 1)
}

func (r *run) record(l *Line) {
	r.mu.Lock()
	r.add(l)
	r.mu.Unlock()
}

func sigOf(op, d string, names []string) string {
	return op + "|" + d + "|" + strings.Join(names, ",")
}

// project turns the service's private map into sorted [name, deployment] pairs in abstract ids.
func (r *run) project(m map[string]dtypes.DeploymentID) ([][]string, string) {
	out := make([][]string, 0, len(m))
	note := ""
	for k, v := range m {
		id, canon := r.u.absHost(k)
		if !canon {
			note += "key " + k + " not canonical;"
		}
		out = append(out, []string{id, r.u.absDep(v)})
	}
	sort.Slice(out, func(i, j int) bool {
		if out[i][0] != out[j][0] {
			return out[i][0] < out[j][0]
		}
		return out[i][1] < out[j][1]
	})
	return out, note
}

func (r *run) absNames(names []string) []string {
	out := make([]string, len(names))
	for i, n := range names {
		out[i], _ = r.u.absHost(n)
	}
	return out
}

// sink runs inside the service's loop goroutine (veriftrace.Emit is synchronous), so reading the map is safe.
func (r *run) sink(ev veriftrace.Event) {
	r.mu.Lock()
	defer r.mu.Unlock()
	inuse, _ := ev.KV["inuse"].(map[string]dtypes.DeploymentID)
	switch ev.Event {
	case "request":
		l := newLine("request")
		if b, _ := ev.KV["reserve"].(bool); b {
			l.Op = "reserve"
		} else {
			l.Op = "can"
		}
		if d, ok := ev.KV["did"].(dtypes.DeploymentID); ok {
			l.D = r.u.absDep(d)
		}
		hn, _ := ev.KV["hostnames"].([]string)
		l.Names = r.absNames(hn)
		for _, n := range hn {
			if n != strings.ToLower(n) {
				l.Note += "name " + n + " reached the loop not lower-cased;"
			}
		}
		var note string
		l.Pre, note = r.project(inuse)
		l.Note += note
		l.C = "?"
		if cs := r.pending[sigOf(l.Op, l.D, l.Names)]; cs != nil && cs.served == nil {
			l.C = cs.c
			cs.served = l
		} else {
			// no call in progress asked exactly this: attribute the step to the call that differs in the
			// kind of request only (the TLA+ side then sees what was asked and what the loop did)
			other := "can"
			if l.Op == "can" {
				other = "reserve"
			}
			if cs := r.pending[sigOf(other, l.D, l.Names)]; cs != nil && cs.served == nil {
				l.C = cs.c
				cs.served = l
				l.Note += "asked as " + other + ";"
			}
		}
		r.cur = l
		r.add(l)
	case "request-done":
		if r.cur != nil {
			var note string
			r.cur.Post, note = r.project(inuse)
			r.cur.Note += note
			r.cur = nil
		}
	case "release":
		l := newLine("release")
		l.Op = "release"
		hn, _ := ev.KV["hostnames"].([]string)
		l.Names = r.absNames(hn)
		l.Post, l.Note = r.project(inuse)
		l.C = "?"
		// the caller of a release returns at the hand-over, possibly before this trace point: the releases
		// pass through the loop in the order of their hand-overs, so it is the oldest one not yet seen here
		sig := sigOf("release", "none", l.Names)
		for _, cs := range r.calls {
			if cs.sig == sig && cs.served == nil && !cs.dropped {
				l.C = cs.c
				cs.served = l
				break
			}
		}
		r.add(l)
	case "shutdown":
		r.add(newLine("shutdown"))
	}
}

func (r *run) gate() {
	r.holdMu.Lock()
	h := r.hold
	r.holdMu.Unlock()
	if h != nil {
		atomic.AddInt32(&r.atGate, 1)
		select {
		case <-h:
		case <-r.abort:
		}
	}
}

func (r *run) setHold() chan struct{} {
	h := make(chan struct{})
	r.holdMu.Lock()
	r.hold = h
	r.holdMu.Unlock()
	return h
}

func (r *run) releaseHold(h chan struct{}) {
	r.holdMu.Lock()
	r.hold = nil
	r.holdMu.Unlock()
	close(h)
}

var reQuoted = regexp.MustCompile(`"((?:[^"\\]|\\.)*)"`)

// classify maps the error a caller received to the result classes of the specification.
func (r *run) classify(err error) (res, why, host string) {
	switch {
	case err == nil:
		return "ok", "", ""
	case errors.Is(err, cluster.ErrNotRunning):
		return "notrunning", "", ""
	}
	msg := err.Error()
	if !strings.HasPrefix(msg, "hostname not allowed") {
		return "other", "", msg
	}
	if m := reQuoted.FindStringSubmatch(msg); m != nil {
		host, _ = r.u.absHost(m[1])
	}
	switch {
	case strings.Contains(msg, "blocked by this provider"):
		why = "blocked"
	case strings.Contains(msg, "already in use"):
		why = "inuse"
	}
	return "notallowed", why, host
}

// Op is one call of a script / program.
type Op struct {
	Op    string   `json:"op"` // reserve | can | release | shutdown
	D     string   `json:"d"`
	Names []string `json:"names"`
	Sp    []int    `json:"sp,omitempty"`
}

func (r *run) concrete(op Op, salt uint32) ([]string, []int) {
	names := make([]string, len(op.Names))
	sps := make([]int, len(op.Names))
	for i, n := range op.Names {
		sp := 0
		if i < len(op.Sp) {
			sp = op.Sp[i]
		} else {
			sp = int((salt*2654435761 + uint32(i)*40503 + uint32(len(n))) >> 7 % 3)
		}
		sps[i] = sp
		names[i] = spell(r.u.hostName[n], sp)
	}
	return names, sps
}

// begin registers a call: no two calls with the same (op, deployment, names) are in progress at once, so that
// every loop step is attributed to exactly one call.
func (r *run) begin(c string, op Op, sps []int) *callState {
	d := op.D
	if op.Op == "release" || d == "" {
		d = "none"
	}
	cs := &callState{c: c, sig: sigOf(op.Op, d, op.Names), phase: "calling"}
	r.mu.Lock()
	for r.pending[cs.sig] != nil {
		r.cond.Wait()
	}
	r.pending[cs.sig] = cs
	r.calls = append(r.calls, cs)
	l := newLine("call")
	if op.Op == "release" {
		l.E = "relcall"
	}
	l.C, l.Op, l.D, l.Names, l.Sp = c, op.Op, d, append([]string{}, op.Names...), sps
	l.Late = atomic.LoadInt32(&r.doneSeen) == 1
	r.add(l)
	r.mu.Unlock()
	return cs
}

func (r *run) finish(cs *callState, ok *bool) {
	r.mu.Lock()
	if *ok {
		cs.phase = "done"
	} else {
		cs.phase = "abandoned while " + cs.phase
	}
	delete(r.pending, cs.sig)
	r.cond.Broadcast()
	r.mu.Unlock()
}

// call performs one call of caller c on the real service and records it. It returns false when the run was
// abandoned while the call was still waiting.
func (r *run) call(c string, op Op, salt uint32) bool {
	names, sps := r.concrete(op, salt)
	cs := r.begin(c, op, sps)
	ok := false
	defer r.finish(cs, &ok)
	if op.Op == "release" {
		r.svc.ReleaseHostnames(names)
		ok = true
		r.record(&Line{E: "relret", C: c, D: "none", Names: []string{}, Sp: []int{}, R: "none", Pre: [][]string{}, Post: [][]string{}})
		return true
	}
	did := r.u.dep[op.D]
	var ch <-chan error
	if op.Op == "reserve" {
		ch = r.svc.ReserveHostnames(names, did)
	} else {
		ch = r.svc.CanReserveHostnames(names, did)
	}
	r.mu.Lock()
	cs.ch = ch
	cs.phase = "waiting"
	r.mu.Unlock()
	select {
	case err := <-ch:
		l := newLine("recv")
		l.C = c
		l.R, l.Why, l.Host = r.classify(err)
		r.mu.Lock()
		if cs.served != nil {
			cs.served.R, cs.served.Why, cs.served.Host = l.R, l.Why, l.Host
		}
		r.add(l)
		r.mu.Unlock()
		ok = true
		return true
	case <-r.abort:
		return false
	}
}

// shutdown cancels the service's context (once).
func (r *run) shutdown() {
	r.mu.Lock()
	if r.canceled {
		r.mu.Unlock()
		return
	}
	r.canceled = true
	r.add(newLine("cancel"))
	r.mu.Unlock()
	r.cancel()
}

// ticks measures waiting in time the process was actually running: a stalled machine drops ticks.
type ticks struct {
	t *time.Ticker
}

func newTicks() *ticks { return &ticks{t: time.NewTicker(5 * time.Millisecond)} }
func (t *ticks) stop() { t.t.Stop() }

// waitFor waits until ch is ready or until `limit` ticks passed without any new line being recorded.
func (r *run) waitFor(ch <-chan struct{}, tk *ticks, limit int) bool {
	idle := 0
	last := atomic.LoadInt64(&r.progress)
	for {
		select {
		case <-ch:
			return true
		case <-tk.t.C:
			if p := atomic.LoadInt64(&r.progress); p != last {
				last, idle = p, 0
			} else {
				idle++
				if idle >= limit {
					return false
				}
			}
		}
	}
}

// waitDone waits for the end of the service's loop and records it.
func (r *run) waitDone(tk *ticks, limit int) bool {
	if !r.waitFor(r.done, tk, limit) {
		l := newLine("stuck")
		l.C, l.Note = "loop", "Done() not closed after cancel"
		r.record(l)
		return false
	}
	r.mu.Lock()
	if atomic.CompareAndSwapInt32(&r.doneSeen, 0, 1) {
		r.add(newLine("done"))
	}
	r.mu.Unlock()
	return true
}

// end closes a run: shutdown, wait for the loop, report callers that never returned and answers that arrived
// twice, and hand the lines over.
func (r *run) end(tk *ticks, limit int, finished bool) []*Line {
	if !finished {
		close(r.abort)
	}
	r.shutdown()
	loopDone := r.waitDone(tk, limit)
	if finished && !loopDone {
		close(r.abort)
	}
	stopRecording()
	r.mu.Lock()
	defer r.mu.Unlock()
	for _, cs := range r.calls {
		if cs.phase != "done" {
			l := newLine("stuck")
			l.C, l.Note = cs.c, fmt.Sprintf("%s: %s", cs.sig, cs.phase)
			r.add(l)
		}
	}
	if loopDone {
		// the loop is gone: whatever is in a result channel now was put there in addition to the answer read
		for _, cs := range r.calls {
			if cs.ch == nil || cs.phase != "done" {
				continue
			}
			select {
			case err := <-cs.ch:
				l := newLine("extra")
				l.C = cs.c
				l.R, l.Why, l.Host = r.classify(err)
				l.Note = cs.sig
				r.add(l)
			default:
			}
		}
	}
	r.add(newLine("end"))
	return r.lines
}
