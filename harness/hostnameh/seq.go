package hostnameh

import (
	"encoding/json"
	"flag"
	"fmt"
	"hash/fnv"
	"os"

	"verif/harness/vcommon"
)

// Script is a sequence of calls made by one caller, one after the other.
type Script struct {
	ID  string `json:"id"`
	Ops []Op   `json:"ops"`
}

func salt(id string, i int, seed int64) uint32 {
	h := fnv.New32a()
	fmt.Fprintf(h, "%s/%d/%d", id, i, seed)
	return h.Sum32()
}

// runScript replays one script deterministically: every call is completed before the next one begins; a
// "shutdown" step cancels the context and waits for the end of the loop.
func runScript(u *Universe, sc Script, seed int64, tk *ticks, limit int) []*Line {
	r := startRun(u)
	finished := make(chan struct{})
	go func() {
		defer close(finished)
		for i, op := range sc.Ops {
			if op.Op == "shutdown" {
				r.shutdown()
				if !r.waitDone(tk, limit) {
					return
				}
				continue
			}
			if !r.call("c1", op, salt(sc.ID, i, seed)) {
				return
			}
		}
	}()
	ok := r.waitFor(finished, tk, limit)
	return r.end(tk, limit, ok)
}

func writeRun(w *vcommon.Writer, runNo int, id, mode string, lines []*Line) (stuck int, err error) {
	reset := newLine("reset")
	reset.Run, reset.ID, reset.Note = runNo, id, mode
	if err = w.Write(reset); err != nil {
		return
	}
	for _, l := range lines {
		l.Run = runNo
		if l.E == "stuck" {
			stuck++
		}
		if err = w.Write(l); err != nil {
			return
		}
	}
	return
}

func mainSeq(args []string) int {
	fs := flag.NewFlagSet("seq", flag.ContinueOnError)
	upath := fs.String("universe", "", "universe json")
	spath := fs.String("scripts", "", "ndjson file of scripts")
	out := fs.String("out", "", "trace output (ndjson)")
	seed := fs.Int64("seed", 1, "seed of the spelling choice")
	limit := fs.Int("stuck-ticks", 600, "5 ms ticks of running time without any recorded step after which a wait is given up")
	maxStuck := fs.Int("max-stuck", 3, "stop after this many runs in which a wait was given up (their goroutines are lost)")
	if err := fs.Parse(args); err != nil || *upath == "" || *spath == "" || *out == "" {
		return 2
	}
	u, err := loadUniverse(*upath)
	if err != nil {
		fmt.Fprintln(os.Stderr, err)
		return 2
	}
	w, err := vcommon.NewWriter(*out)
	if err != nil {
		fmt.Fprintln(os.Stderr, err)
		return 2
	}
	tk := newTicks()
	defer tk.stop()
	runNo, stuck, calls, stuckRuns := 0, 0, 0, 0
	err = vcommon.ReadLines(*spath, func(raw json.RawMessage) error {
		var sc Script
		if e := json.Unmarshal(raw, &sc); e != nil {
			return e
		}
		if stuckRuns >= *maxStuck {
			return nil
		}
		runNo++
		lines := runScript(u, sc, *seed, tk, *limit)
		for _, l := range lines {
			if l.E == "call" || l.E == "relcall" {
				calls++
			}
		}
		s, e := writeRun(w, runNo, sc.ID, "seq", lines)
		stuck += s
		if s > 0 {
			stuckRuns++
		}
		return e
	})
	if e := w.Close(); err == nil {
		err = e
	}
	if err != nil {
		fmt.Fprintln(os.Stderr, err)
		return 2
	}
	fmt.Printf("{\"runs\": %d, \"calls\": %d, \"stuck\": %d, \"lines\": %d}\n", runNo, calls, stuck, w.N)
	if stuck > 0 {
		return 3
	}
	return 0
}
