// Package hostnameh is the conformance harness for the provider's hostname reservation service
// (provider/cluster/hostname.go), extension component X02.
//
// It starts the real service (cluster.VerifNewHostnameService = newHostnameService), drives it through its
// public client interface (ReserveHostnames / CanReserveHostnames / ReleaseHostnames, context cancellation),
// records what the callers did and received together with the loop's trace points (util/veriftrace, build
// tag verif: request / request-done / release / shutdown, each with the service's private in-use map) and
// writes one ndjson line per step for TLC (spec/hostname/HostnameTrace.tla, HostnameLin.tla).
//
//	vh hostname seq   -universe u.json -scripts s.ndjson -out trace.ndjson     deterministic, one caller
//	vh hostname conc  -universe u.json -programs p.ndjson -out trace.ndjson    free-running callers
//	vh hostname probe -universe u.json                                          configuration-case probe
//	vh hostname use   -universe u.json -scripts s.ndjson -out trace.ndjson     the callers' protocol on the real cluster service
package hostnameh

import (
	"encoding/json"
	"fmt"
	"os"
	"strings"

	"github.com/ovrclk/akash/provider/cluster"
	"github.com/ovrclk/akash/util/veriftrace"
	dtypes "github.com/ovrclk/akash/x/deployment/types"
)

// Universe binds the abstract names of the specification to concrete values.
type Universe struct {
	Hosts []struct {
		ID   string `json:"id"`
		Name string `json:"name"` // canonical (lower-case) concrete hostname
	} `json:"hosts"`
	Deps []struct {
		ID    string `json:"id"`
		Owner string `json:"owner"`
		DSeq  uint64 `json:"dseq"`
	} `json:"deps"`
	BlockedConfig []string `json:"blocked_config"` // cluster.Config.BlockedHostnames

	hostName map[string]string // id -> concrete
	hostID   map[string]string // lower-case concrete -> id
	dep      map[string]dtypes.DeploymentID
}

func loadUniverse(path string) (*Universe, error) {
	b, err := os.ReadFile(path)
	if err != nil {
		return nil, err
	}
	u := &Universe{}
	if err := json.Unmarshal(b, u); err != nil {
		return nil, err
	}
	u.hostName, u.hostID, u.dep = map[string]string{}, map[string]string{}, map[string]dtypes.DeploymentID{}
	for _, h := range u.Hosts {
		if h.Name != strings.ToLower(h.Name) {
			return nil, fmt.Errorf("universe: host %s is not lower-case", h.Name)
		}
		u.hostName[h.ID] = h.Name
		u.hostID[h.Name] = h.ID
	}
	for _, d := range u.Deps {
		u.dep[d.ID] = dtypes.DeploymentID{Owner: d.Owner, DSeq: d.DSeq}
	}
	return u, nil
}

// spell writes a canonical name in one of three ways: 0 as is, 1 upper case, 2 alternating case.
func spell(name string, sp int) string {
	switch sp % 3 {
	case 1:
		return strings.ToUpper(name)
	case 2:
		b := []byte(name)
		for i := range b {
			if i%2 == 0 {
				b[i] = strings.ToUpper(string(b[i]))[0]
			}
		}
		return string(b)
	}
	return name
}

// absHost maps a concrete hostname to its abstract id, ignoring case. A name outside the universe keeps its
// text behind a "?" so that the TLA+ side sees it is unknown.
func (u *Universe) absHost(name string) (id string, canonical bool) {
	id, ok := u.hostID[strings.ToLower(name)]
	if !ok {
		return "?" + name, false
	}
	return id, name == strings.ToLower(name)
}

func (u *Universe) absDep(d dtypes.DeploymentID) string {
	for id, x := range u.dep {
		if x.Owner == d.Owner && x.DSeq == d.DSeq {
			return id
		}
	}
	return "?" + d.String()
}

func (u *Universe) config() cluster.Config {
	return cluster.Config{BlockedHostnames: append([]string{}, u.BlockedConfig...)}
}

// Main dispatches the sub-commands.
func Main(args []string) int {
	if len(args) < 1 {
		fmt.Fprintln(os.Stderr, "usage: vh hostname seq|conc|probe ...")
		return 2
	}
	if !veriftrace.Enabled {
		fmt.Fprintln(os.Stderr, "hostnameh: built without -tags verif")
		return 2
	}
	installHooks()
	switch args[0] {
	case "seq":
		return mainSeq(args[1:])
	case "conc":
		return mainConc(args[1:])
	case "probe":
		return mainProbe(args[1:])
	case "use":
		return mainUse(args[1:])
	}
	fmt.Fprintln(os.Stderr, "unknown mode", args[0])
	return 2
}
