package hostnameh

import (
	"encoding/json"
	"flag"
	"fmt"
	"math/rand"
	"os"
	"runtime"
	"sort"
	"sync"
	"sync/atomic"
	"time"

	"verif/harness/vcommon"
)

// Program is what concurrently running callers do: every caller makes its calls one after the other, the
// callers run freely against each other and against the service's loop.
type Program struct {
	ID            string          `json:"id"`
	Mode          string          `json:"mode"`           // free | burst
	Clients       map[string][]Op `json:"clients"`        // caller -> its calls
	ShutdownAfter int             `json:"shutdown_after"` // cancel the context when this many calls were begun (-1: at the end only)
}

func jitter(rng *rand.Rand) {
	switch rng.Intn(5) {
	case 1:
		runtime.Gosched()
	case 2:
		for i, n := 0, rng.Intn(2000); i < n; i++ {
			_ = i * i
		}
	case 3:
		time.Sleep(time.Duration(rng.Intn(60)) * time.Microsecond)
	}
}

// runProgram executes one program. free: all callers start together with seeded jitter. burst: the loop is
// held at its scheduling gate inside the first request, the other callers pile up on the service's channels,
// the context is cancelled (when the program asks for a shutdown) and only then is the loop let go -- callers
// blocked in their hand-over race with the shutdown request.
func runProgram(u *Universe, p Program, seed int64, tk *ticks, limit int) []*Line {
	r := startRun(u)
	ids := make([]string, 0, len(p.Clients))
	for c := range p.Clients {
		ids = append(ids, c)
	}
	sort.Strings(ids)
	var begun int32
	var wg sync.WaitGroup
	go func() { // notice the end of the loop as soon as it happens: later calls are "late"
		select {
		case <-r.done:
			r.mu.Lock()
			if atomic.CompareAndSwapInt32(&r.doneSeen, 0, 1) {
				r.add(newLine("done"))
			}
			r.mu.Unlock()
		case <-r.abort:
		}
	}()
	client := func(c string, start <-chan struct{}) {
		defer wg.Done()
		rng := rand.New(rand.NewSource(int64(salt(p.ID+"/"+c, 0, seed))))
		<-start
		for i, op := range p.Clients[c] {
			if p.Mode != "burst" || i > 0 {
				jitter(rng)
			}
			if int(atomic.AddInt32(&begun, 1))-1 == p.ShutdownAfter && p.Mode != "burst" {
				go r.shutdown()
				jitter(rng)
			}
			if !r.call(c, op, salt(p.ID+"/"+c, i, seed)) {
				return
			}
		}
	}
	finished := make(chan struct{})
	start := make(chan struct{})
	wg.Add(len(ids))
	if p.Mode == "burst" {
		leader := ""
		for _, c := range ids {
			if len(p.Clients[c]) > 0 && p.Clients[c][0].Op != "release" {
				leader = c
				break
			}
		}
		h := r.setHold()
		lstart := make(chan struct{})
		if leader != "" {
			go client(leader, lstart)
			close(lstart)
			// the loop is inside doRequest, at the gate
			for i := 0; atomic.LoadInt32(&r.atGate) == 0 && i < limit; i++ {
				<-tk.t.C
			}
		}
		for _, c := range ids {
			if c != leader {
				go client(c, start)
			}
		}
		close(start)
		rng := rand.New(rand.NewSource(int64(salt(p.ID, 1, seed))))
		time.Sleep(time.Duration(100+rng.Intn(300)) * time.Microsecond)
		if p.ShutdownAfter >= 0 {
			r.shutdown()
			time.Sleep(time.Duration(50+rng.Intn(200)) * time.Microsecond)
		}
		r.releaseHold(h)
	} else {
		for _, c := range ids {
			go client(c, start)
		}
		close(start)
	}
	go func() { wg.Wait(); close(finished) }()
	ok := r.waitFor(finished, tk, limit)
	return r.end(tk, limit, ok)
}

func mainConc(args []string) int {
	fs := flag.NewFlagSet("conc", flag.ContinueOnError)
	upath := fs.String("universe", "", "universe json")
	ppath := fs.String("programs", "", "ndjson file of programs")
	out := fs.String("out", "", "trace output (ndjson)")
	seed := fs.Int64("seed", 1, "seed of jitter and spelling")
	reps := fs.Int("reps", 1, "executions of every program (different jitter)")
	limit := fs.Int("stuck-ticks", 600, "5 ms ticks of running time without any recorded step after which a wait is given up")
	maxStuck := fs.Int("max-stuck", 3, "stop after this many runs in which a wait was given up (their goroutines are lost)")
	if err := fs.Parse(args); err != nil || *upath == "" || *ppath == "" || *out == "" {
		return 2
	}
	u, err := loadUniverse(*upath)
	if err != nil {
		fmt.Fprintln(os.Stderr, err)
		return 2
	}
	w, err := vcommon.NewWriter(*out)
	if err != nil {
		fmt.Fprintln(os.Stderr, err)
		return 2
	}
	tk := newTicks()
	defer tk.stop()
	runNo, stuck, calls, stuckRuns := 0, 0, 0, 0
	err = vcommon.ReadLines(*ppath, func(raw json.RawMessage) error {
		var p Program
		if e := json.Unmarshal(raw, &p); e != nil {
			return e
		}
		for rep := 0; rep < *reps && stuckRuns < *maxStuck; rep++ {
			runNo++
			lines := runProgram(u, p, *seed+int64(rep)*7919, tk, *limit)
			for _, l := range lines {
				if l.E == "call" || l.E == "relcall" {
					calls++
				}
			}
			s, e := writeRun(w, runNo, fmt.Sprintf("%s#%d", p.ID, rep), p.Mode, lines)
			stuck += s
			if s > 0 {
				stuckRuns++
			}
			if e != nil {
				return e
			}
		}
		return nil
	})
	if e := w.Close(); err == nil {
		err = e
	}
	if err != nil {
		fmt.Fprintln(os.Stderr, err)
		return 2
	}
	fmt.Printf("{\"runs\": %d, \"calls\": %d, \"stuck\": %d, \"lines\": %d}\n", runNo, calls, stuck, w.N)
	if stuck > 0 {
		return 3
	}
	return 0
}
