package hostnameh

// The callers' side (spec/hostname/HostnameUse.tla): the real cluster.NewService -- its own hostname service, its
// deployment managers, a real pubsub bus, the real inventory -- with a scripted cluster.Client that records what is
// deployed for which lease.  Stimuli: check (what provider/manifest/manager.go does before it accepts a manifest:
// CanReserveHostnames through Service.HostnameService()), deliver (the ManifestReceived announcement), close
// (EventLeaseClosed).  After every stimulus the system is left to settle (event driven, by the trace points of
// service.go / manager.go) and observed: the hostname service's map (read through a request that passes through
// its loop), the hostnames of the manifest group deployed per lease, and the life cycle of each lease's manager.

import (
	"context"
	"encoding/json"
	"errors"
	"flag"
	"fmt"
	"io"
	"os"
	"sort"
	"sync"
	"time"

	sdk "github.com/cosmos/cosmos-sdk/types"
	"github.com/tendermint/tendermint/libs/log"
	"k8s.io/client-go/tools/remotecommand"

	aclient "github.com/ovrclk/akash/client"
	"github.com/ovrclk/akash/client/broadcaster"
	"github.com/ovrclk/akash/manifest"
	"github.com/ovrclk/akash/provider/cluster"
	ctypes "github.com/ovrclk/akash/provider/cluster/types"
	cutil "github.com/ovrclk/akash/provider/cluster/util"
	"github.com/ovrclk/akash/provider/event"
	"github.com/ovrclk/akash/provider/session"
	"github.com/ovrclk/akash/pubsub"
	atypes "github.com/ovrclk/akash/types"
	"github.com/ovrclk/akash/util/veriftrace"
	dtypes "github.com/ovrclk/akash/x/deployment/types"
	mtypes "github.com/ovrclk/akash/x/market/types"
	ptypes "github.com/ovrclk/akash/x/provider/types"
	"verif/harness/vcommon"
)

const useGroup = "g"

var errUse = errors.New("scripted")

// UseLine is one stimulus with the observation made after the system settled.
type UseLine struct {
	E     string              `json:"e"` // reset | check | deliver | close
	Run   int                 `json:"run"`
	ID    string              `json:"id"`    // script id (reset)
	D     string              `json:"d"`     // deployment
	Names []string            `json:"names"` // check: the manifest's hostnames
	R     string              `json:"r"`     // check: the answer (ok | notallowed | ...)
	Kind  string              `json:"kind"`  // deliver: new | update | dropped | none ; close: managed | unmanaged
	Held  [][]string          `json:"held"`  // the hostname service's map
	Cur   map[string][]string `json:"cur"`   // deployment -> hostnames of the deployed manifest group ([] none)
	Mgr   map[string]string   `json:"mgr"`   // deployment -> none | active | gone
	Note  string              `json:"note"`
}

// uclient is the scripted cluster.Client: it records Deploy / TeardownLease.
type uclient struct {
	mu       sync.Mutex
	deployed map[string][]string // lease path -> hostnames
}

type udeployment struct {
	lid   mtypes.LeaseID
	group manifest.Group
}

func (d udeployment) LeaseID() mtypes.LeaseID       { return d.lid }
func (d udeployment) ManifestGroup() manifest.Group { return d.group }

func (c *uclient) Deploy(_ context.Context, lid mtypes.LeaseID, g *manifest.Group) error {
	c.mu.Lock()
	c.deployed[lid.String()] = append([]string{}, cutil.AllHostnamesOfManifestGroup(*g)...)
	c.mu.Unlock()
	return nil
}

func (c *uclient) TeardownLease(_ context.Context, lid mtypes.LeaseID) error {
	c.mu.Lock()
	delete(c.deployed, lid.String())
	c.mu.Unlock()
	return nil
}

func (c *uclient) Deployments(context.Context) ([]ctypes.Deployment, error) { return nil, nil }

func (c *uclient) Inventory(context.Context) ([]ctypes.Node, error) {
	big := atypes.ResourceUnits{
		CPU:     &atypes.CPU{Units: atypes.NewResourceValue(1000000)},
		Memory:  &atypes.Memory{Quantity: atypes.NewResourceValue(1 << 40)},
		Storage: &atypes.Storage{Quantity: atypes.NewResourceValue(1 << 40)},
	}
	return []ctypes.Node{cluster.NewNode("n1", big, big)}, nil
}

func (c *uclient) LeaseStatus(context.Context, mtypes.LeaseID) (*ctypes.LeaseStatus, error) {
	return &ctypes.LeaseStatus{Services: map[string]*ctypes.ServiceStatus{"web": {Name: "web", Available: 1, Total: 1}}}, nil
}

func (c *uclient) LeaseEvents(context.Context, mtypes.LeaseID, string, bool) (ctypes.EventsWatcher, error) {
	return nil, errUse
}

func (c *uclient) LeaseLogs(context.Context, mtypes.LeaseID, string, bool, *int64) ([]*ctypes.ServiceLog, error) {
	return nil, errUse
}

func (c *uclient) ServiceStatus(context.Context, mtypes.LeaseID, string) (*ctypes.ServiceStatus, error) {
	return nil, errUse
}

func (c *uclient) Exec(context.Context, mtypes.LeaseID, string, uint, []string, io.Reader, io.Writer, io.Writer, bool,
	remotecommand.TerminalSizeQueue) (ctypes.ExecResult, error) {
	return nil, errUse
}

type uquery struct{ aclient.QueryClient }

func (uquery) ActiveLeasesForProvider(sdk.AccAddress) ([]mtypes.QueryLeaseResponse, error) {
	return nil, nil
}

type utx struct{}

func (utx) Broadcast(context.Context, ...sdk.Msg) error { return nil }

type uchain struct{}

func (uchain) Query() aclient.QueryClient { return uquery{} }
func (uchain) Tx() broadcaster.Client     { return utx{} }

func uaddr(b byte) sdk.AccAddress {
	a := make([]byte, 20)
	for i := range a {
		a[i] = b
	}
	return sdk.AccAddress(a)
}

// lstate is what the trace points say about one lease's manager.
type lstate struct {
	created, done int
	hostnamesOK   bool
	idle          bool // last manager event: loop head, deploy complete, nothing in flight
	inbox         int  // requests the service routed that the manager has not logged yet
}

type uworld struct {
	u      *Universe
	svc    cluster.Service
	bus    pubsub.Bus
	cancel context.CancelFunc
	client *uclient
	lease  map[string]mtypes.LeaseID // deployment -> lease
	byStr  map[string]string         // lease string -> deployment

	mu       sync.Mutex
	notify   chan struct{}
	ls       map[string]*lstate // by deployment
	consumed int                // ManifestReceived / EventLeaseClosed of ours the service has consumed
	lastKind string
	lastHeld [][]string
	heldSeq  int
}

var (
	uMu  sync.Mutex
	uCur *uworld
)

func getUse() *uworld {
	uMu.Lock()
	defer uMu.Unlock()
	return uCur
}

func installUseHooks() {
	veriftrace.SetGate(nil)
	veriftrace.SetSink(func(ev veriftrace.Event) {
		if w := getUse(); w != nil {
			w.sink(ev)
		}
	})
}

func (w *uworld) sink(ev veriftrace.Event) {
	w.mu.Lock()
	defer func() {
		w.mu.Unlock()
		select {
		case w.notify <- struct{}{}:
		default:
		}
	}()
	switch ev.Component {
	case "cluster-hostnames":
		if ev.Event == "request" {
			if m, ok := ev.KV["inuse"].(map[string]dtypes.DeploymentID); ok {
				r := &run{u: w.u}
				w.lastHeld, _ = r.project(m)
				w.heldSeq++
			}
		}
	case "cluster-service":
		if ev.Event == "event-done" {
			switch e := ev.KV["ev"].(type) {
			case event.ManifestReceived:
				if _, ok := w.byStr[e.LeaseID.String()]; ok {
					w.consumed++
				}
			case mtypes.EventLeaseClosed:
				if _, ok := w.byStr[e.ID.String()]; ok {
					w.consumed++
				}
			}
			return
		}
		d, ok := w.byStr[ev.ID]
		if !ok {
			return
		}
		l := w.ls[d]
		switch ev.Event {
		case "manager-created":
			// (the new manager's own trace points may already have been logged: nothing is reset here)
			l.created++
			w.lastKind = "new"
		case "update-routed":
			if w.lastKind != "rejected" {
				l.inbox++
				w.lastKind = "update"
			}
		case "update-rejected":
			w.lastKind = "rejected"
		case "manifest-dropped":
			w.lastKind = "dropped"
		case "teardown-routed":
			if w.lastKind != "rejected" {
				l.inbox++
				w.lastKind = "managed"
			}
		case "teardown-rejected":
			w.lastKind = "rejected"
		case "teardown-unmanaged":
			w.lastKind = "unmanaged"
		case "manager-done", "manager-drained":
			l.done++
		}
	case "cluster-manager":
		d, ok := w.byStr[ev.ID]
		if !ok {
			return
		}
		l := w.ls[d]
		switch ev.Event {
		case "loop":
			st, _ := ev.KV["state"].(string)
			rc, _ := ev.KV["runch"].(bool)
			l.idle = st == "deploy-complete" && !rc
		case "recv-hostnames":
			if e, _ := ev.KV["err"].(bool); !e {
				l.hostnamesOK = true
			}
			l.idle = false
		case "recv-update", "recv-teardown":
			l.inbox--
			l.idle = false
		default:
			l.idle = false
		}
	}
}

func (w *uworld) settledLocked(want int) bool {
	if w.consumed < want {
		return false
	}
	for _, l := range w.ls {
		if l.created > l.done && !(l.idle && l.inbox == 0) {
			return false
		}
	}
	return true
}

func (w *uworld) wait(what string, cond func() bool) error {
	deadline := time.NewTimer(40 * time.Second)
	defer deadline.Stop()
	tick := time.NewTicker(100 * time.Millisecond)
	defer tick.Stop()
	for {
		w.mu.Lock()
		ok := cond()
		w.mu.Unlock()
		if ok {
			return nil
		}
		select {
		case <-w.notify:
		case <-tick.C:
		case <-deadline.C:
			return fmt.Errorf("timeout waiting for %s", what)
		}
	}
}

func useGroupOf(hosts []string) manifest.Group {
	return manifest.Group{
		Name: useGroup,
		Services: []manifest.Service{{
			Name:  "web",
			Image: "img",
			Resources: atypes.ResourceUnits{
				CPU:     &atypes.CPU{Units: atypes.NewResourceValue(100)},
				Memory:  &atypes.Memory{Quantity: atypes.NewResourceValue(1 << 20)},
				Storage: &atypes.Storage{Quantity: atypes.NewResourceValue(1 << 20)},
			},
			Count:  1,
			Expose: []manifest.ServiceExpose{{Port: 80, ExternalPort: 80, Proto: manifest.TCP, Global: true, Hosts: hosts}},
		}},
	}
}

func newUseWorld(u *Universe) (*uworld, error) {
	provider := uaddr(9)
	w := &uworld{u: u, notify: make(chan struct{}, 1), lease: map[string]mtypes.LeaseID{}, byStr: map[string]string{},
		ls: map[string]*lstate{}, client: &uclient{deployed: map[string][]string{}}}
	// deployments get well-formed owner addresses here: d_i of the universe keeps its (owner class, dseq) shape
	owners := map[string]sdk.AccAddress{}
	for _, d := range u.Deps {
		if _, ok := owners[d.Owner]; !ok {
			owners[d.Owner] = uaddr(byte(1 + len(owners)))
		}
		did := dtypes.DeploymentID{Owner: owners[d.Owner].String(), DSeq: d.DSeq}
		u.dep[d.ID] = did
		lid := mtypes.LeaseID{Owner: did.Owner, DSeq: did.DSeq, GSeq: 1, OSeq: 1, Provider: provider.String()}
		w.lease[d.ID] = lid
		w.byStr[lid.String()] = d.ID
		w.ls[d.ID] = &lstate{}
	}
	ctx, cancel := context.WithCancel(context.Background())
	w.cancel = cancel
	uMu.Lock()
	uCur = w
	uMu.Unlock()
	w.bus = pubsub.NewBus()
	sess := session.New(log.NewNopLogger(), uchain{}, &ptypes.Provider{Owner: provider.String()})
	cfg := cluster.NewDefaultConfig()
	cfg.InventoryResourcePollPeriod = time.Hour
	cfg.InventoryExternalPortQuantity = 1000
	cfg.BlockedHostnames = append([]string{}, u.BlockedConfig...)
	svc, err := cluster.NewService(ctx, sess, w.bus, w.client, cfg)
	if err != nil {
		return nil, err
	}
	w.svc = svc
	select {
	case <-svc.Ready():
	case <-time.After(30 * time.Second):
		return nil, errors.New("cluster service never became ready")
	}
	// what the bid engine does before a lease can exist: reserve the order's resources
	g := useGroupOf(nil)
	gs := dtypes.GroupSpec{Name: useGroup}
	for _, r := range g.GetResources() {
		gs.Resources = append(gs.Resources, dtypes.Resource{Resources: r.Resources, Count: r.Count})
	}
	for _, d := range u.Deps {
		if _, err := svc.Reserve(w.lease[d.ID].OrderID(), gs); err != nil {
			return nil, fmt.Errorf("reserve: %w", err)
		}
	}
	return w, nil
}

func (w *uworld) close() {
	w.cancel()
	select {
	case <-w.svc.Done():
	case <-time.After(30 * time.Second):
	}
	// the bus is left open: a manager starts a new lease-withdrawal loop at every completed deploy and waits only for
	// the last one at exit, so an earlier loop may subscribe late; on a closed bus its Subscribe fails and
	// lease_withdraw.go:69 dereferences the nil subscriber (outside this component, noted in docs/hostname.md)
	uMu.Lock()
	uCur = nil
	uMu.Unlock()
}

// observe reads the hostname service's map through a request that passes through its loop (so that a release
// handed over by an exiting manager has been carried out), what is deployed, and the managers' life cycles.
func (w *uworld) observe(l *UseLine) error {
	w.mu.Lock()
	seq := w.heldSeq
	w.mu.Unlock()
	probe := dtypes.DeploymentID{Owner: uaddr(200).String(), DSeq: 424242}
	select {
	case <-w.svc.HostnameService().CanReserveHostnames(nil, probe):
	case <-time.After(30 * time.Second):
		return errors.New("hostname service did not answer the observation probe")
	}
	if err := w.wait("probe trace point", func() bool { return w.heldSeq > seq }); err != nil {
		return err
	}
	w.mu.Lock()
	defer w.mu.Unlock()
	l.Held = w.lastHeld
	l.Cur, l.Mgr = map[string][]string{}, map[string]string{}
	w.client.mu.Lock()
	for d, lid := range w.lease {
		hosts := []string{}
		for _, h := range w.client.deployed[lid.String()] {
			id, _ := w.u.absHost(h)
			hosts = append(hosts, id)
		}
		l.Cur[d] = hosts
	}
	w.client.mu.Unlock()
	for d, s := range w.ls {
		switch {
		case s.created > s.done && s.hostnamesOK:
			l.Mgr[d] = "active"
		case s.created > s.done:
			l.Mgr[d] = "starting"
		case s.done > 0:
			l.Mgr[d] = "gone"
		default:
			l.Mgr[d] = "none"
		}
	}
	return nil
}

// UseStep is one stimulus of a use script.
type UseStep struct {
	K string   `json:"k"` // check | deliver | close
	D string   `json:"d"`
	M []string `json:"m"`
}

type UseScript struct {
	ID    string    `json:"id"`
	Steps []UseStep `json:"steps"`
}

func runUseScript(u *Universe, sc UseScript, seed int64) ([]*UseLine, error) {
	w, err := newUseWorld(u)
	if err != nil {
		return nil, err
	}
	defer w.close()
	checked := map[string][]string{}
	lines := []*UseLine{}
	published := 0
	for i, st := range sc.Steps {
		l := &UseLine{E: st.K, D: st.D, Names: []string{}, R: "none", Held: [][]string{}}
		lid := w.lease[st.D]
		switch st.K {
		case "check":
			l.Names = append(l.Names, st.M...)
			names, _ := (&run{u: u}).concrete(Op{Names: st.M}, salt(sc.ID, i, seed))
			select {
			case err := <-w.svc.HostnameService().CanReserveHostnames(names, u.dep[st.D]):
				l.R, _, _ = (&run{u: u}).classify(err)
			case <-time.After(30 * time.Second):
				return nil, errors.New("CanReserveHostnames did not answer")
			}
			if l.R == "ok" {
				// the manifest carries the names as the tenant wrote them; validation admits lower case only
				checked[st.D] = st.M
			} else {
				delete(checked, st.D)
			}
		case "deliver":
			m, ok := checked[st.D]
			if !ok {
				l.Kind = "none"
				break
			}
			delete(checked, st.D)
			hosts := make([]string, len(m))
			for j, h := range m {
				hosts[j] = u.hostName[h]
			}
			mf := manifest.Manifest{useGroupOf(hosts)}
			w.mu.Lock()
			w.lastKind = ""
			w.mu.Unlock()
			if err := w.bus.Publish(event.ManifestReceived{LeaseID: lid, Manifest: &mf,
				Group: &dtypes.Group{GroupID: lid.GroupID(), GroupSpec: dtypes.GroupSpec{Name: useGroup}}}); err != nil {
				return nil, err
			}
			published++
			if err := w.wait("deliver to settle", func() bool { return w.settledLocked(published) }); err != nil {
				return nil, fmt.Errorf("script %s step %d: %w", sc.ID, i, err)
			}
			w.mu.Lock()
			l.Kind = w.lastKind
			w.mu.Unlock()
		case "close":
			w.mu.Lock()
			w.lastKind = ""
			w.mu.Unlock()
			if err := w.bus.Publish(mtypes.EventLeaseClosed{ID: lid}); err != nil {
				return nil, err
			}
			published++
			if err := w.wait("close to settle", func() bool { return w.settledLocked(published) }); err != nil {
				return nil, fmt.Errorf("script %s step %d: %w", sc.ID, i, err)
			}
			w.mu.Lock()
			l.Kind = w.lastKind
			w.mu.Unlock()
		default:
			return nil, fmt.Errorf("unknown stimulus %q", st.K)
		}
		if err := w.observe(l); err != nil {
			return nil, fmt.Errorf("script %s step %d: %w", sc.ID, i, err)
		}
		lines = append(lines, l)
	}
	return lines, nil
}

func mainUse(args []string) int {
	fs := flag.NewFlagSet("use", flag.ContinueOnError)
	upath := fs.String("universe", "", "universe json")
	spath := fs.String("scripts", "", "ndjson file of use scripts")
	out := fs.String("out", "", "trace output (ndjson)")
	seed := fs.Int64("seed", 1, "seed of the spelling choice")
	if err := fs.Parse(args); err != nil || *upath == "" || *spath == "" || *out == "" {
		return 2
	}
	u, err := loadUniverse(*upath)
	if err != nil {
		fmt.Fprintln(os.Stderr, err)
		return 2
	}
	installUseHooks()
	w, err := vcommon.NewWriter(*out)
	if err != nil {
		fmt.Fprintln(os.Stderr, err)
		return 2
	}
	runNo, steps := 0, 0
	deps := []string{}
	for _, d := range u.Deps {
		deps = append(deps, d.ID)
	}
	sort.Strings(deps)
	err = vcommon.ReadLines(*spath, func(raw json.RawMessage) error {
		var sc UseScript
		if e := json.Unmarshal(raw, &sc); e != nil {
			return e
		}
		runNo++
		lines, e := runUseScript(u, sc, *seed)
		if e != nil {
			return e
		}
		empty := map[string][]string{}
		none := map[string]string{}
		for _, d := range deps {
			empty[d], none[d] = []string{}, "none"
		}
		if e := w.Write(&UseLine{E: "reset", Run: runNo, ID: sc.ID, Names: []string{}, R: "none", Held: [][]string{}, Cur: empty, Mgr: none}); e != nil {
			return e
		}
		for _, l := range lines {
			l.Run = runNo
			steps++
			if e := w.Write(l); e != nil {
				return e
			}
		}
		return nil
	})
	if e := w.Close(); err == nil {
		err = e
	}
	if err != nil {
		fmt.Fprintln(os.Stderr, err)
		return 2
	}
	fmt.Printf("{\"runs\": %d, \"steps\": %d, \"lines\": %d}\n", runNo, steps, w.N)
	return 0
}
