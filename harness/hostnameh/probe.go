package hostnameh

import (
	"context"
	"encoding/json"
	"flag"
	"fmt"
	"os"
	"strings"
	"time"

	"github.com/ovrclk/akash/provider/cluster"
)

// mainProbe answers one question outside the stated properties (docs/hostname.md, residual risk): does a
// configured blocked name that is not written in lower case block anything?  It prints what the real service
// answers for every spelling of the configuration entry.
func mainProbe(args []string) int {
	fs := flag.NewFlagSet("probe", flag.ContinueOnError)
	upath := fs.String("universe", "", "universe json")
	if err := fs.Parse(args); err != nil || *upath == "" {
		return 2
	}
	u, err := loadUniverse(*upath)
	if err != nil {
		fmt.Fprintln(os.Stderr, err)
		return 2
	}
	type row struct {
		Config  string `json:"config"`
		Asked   string `json:"asked"`
		Refused bool   `json:"refused"`
	}
	rows := []row{}
	for _, entry := range u.BlockedConfig {
		for sp := 0; sp < 3; sp++ {
			cfgEntry := spell(entry, sp)
			ctx, cancel := context.WithCancel(context.Background())
			svc, done := cluster.VerifNewHostnameService(ctx, cluster.Config{BlockedHostnames: []string{cfgEntry}})
			asked := strings.TrimPrefix(entry, ".")
			if strings.HasPrefix(entry, ".") {
				asked = "www." + asked
			}
			select {
			case err := <-svc.CanReserveHostnames([]string{asked}, u.dep[u.Deps[0].ID]):
				rows = append(rows, row{Config: cfgEntry, Asked: asked, Refused: err != nil})
			case <-time.After(20 * time.Second):
				fmt.Fprintln(os.Stderr, "probe: no answer")
				cancel()
				return 2
			}
			cancel()
			<-done
		}
	}
	b, _ := json.Marshal(rows)
	fmt.Println(string(b))
	return 0
}
