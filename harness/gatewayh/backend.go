package gatewayh

import (
	"context"
	"errors"
	"io"
	"sync"

	sdk "github.com/cosmos/cosmos-sdk/types"
	"k8s.io/client-go/tools/remotecommand"

	"github.com/ovrclk/akash/manifest"
	"github.com/ovrclk/akash/provider"
	"github.com/ovrclk/akash/provider/cluster"
	ctypes "github.com/ovrclk/akash/provider/cluster/types"
	pmanifest "github.com/ovrclk/akash/provider/manifest"
	dtypes "github.com/ovrclk/akash/x/deployment/types"
	mtypes "github.com/ovrclk/akash/x/market/types"
)

// rawCall is one lease/deployment scoped call the gateway made on the provider's back end.
type rawCall struct {
	M        string
	Owner    string
	DSeq     uint64
	GSeq     uint32
	OSeq     uint32
	Provider string
	Lease    bool
}

// collector gathers the calls made on behalf of the accounts of one world (one case / one session).
type collector struct {
	mu     sync.Mutex
	calls  []rawCall
	owners []string
	conns  []string
}

func (c *collector) take() []rawCall {
	c.mu.Lock()
	defer c.mu.Unlock()
	out := c.calls
	c.calls = nil
	return out
}

// backend is the scripted provider.Client behind the real router: it records the id every scoped call carries
// and answers with the cheapest reply that lets the handler finish. Calls are attributed by the owner address in
// the id they carry; a call whose owner nobody registered (or that is left over when its owner leaves) is an orphan.
type backend struct {
	mu      sync.Mutex
	byConn  map[string]*collector // client address of the connection the request arrived on (see gateway.ConnContext)
	byOwner map[string]*collector
	orphans []rawCall
}

// connKey is the context key under which the harness' http.Server.ConnContext stores the remote address of the
// connection. Every handler but the shell's IsActive call hands the request context to the back end, so a call is
// attributed to the very connection (= client identity) it was made for; the owner address is the fall-back.
type connKey struct{}

func newBackend() *backend {
	return &backend{byOwner: map[string]*collector{}, byConn: map[string]*collector{}}
}

func (b *backend) bindConn(addr string, c *collector) {
	b.mu.Lock()
	b.byConn[addr] = c
	c.conns = append(c.conns, addr)
	b.mu.Unlock()
}

func (b *backend) register(owners ...string) *collector {
	c := &collector{owners: owners}
	b.mu.Lock()
	for _, o := range owners {
		b.byOwner[o] = c
	}
	b.mu.Unlock()
	return c
}

func (b *backend) unregister(c *collector) {
	b.mu.Lock()
	for _, o := range c.owners {
		if b.byOwner[o] == c {
			delete(b.byOwner, o)
		}
	}
	for _, a := range c.conns {
		delete(b.byConn, a)
	}
	b.orphans = append(b.orphans, c.take()...)
	b.mu.Unlock()
}

func (b *backend) takeOrphans() []rawCall {
	b.mu.Lock()
	defer b.mu.Unlock()
	out := b.orphans
	b.orphans = nil
	return out
}

func (b *backend) record(ctx context.Context, c rawCall) {
	b.mu.Lock()
	defer b.mu.Unlock()
	var col *collector
	if addr, ok := ctx.Value(connKey{}).(string); ok {
		col = b.byConn[addr]
	}
	if col == nil {
		col = b.byOwner[c.Owner]
	}
	if col == nil {
		b.orphans = append(b.orphans, c)
		return
	}
	col.mu.Lock()
	col.calls = append(col.calls, c)
	col.mu.Unlock()
}

func (b *backend) lease(ctx context.Context, m string, id mtypes.LeaseID) {
	b.record(ctx, rawCall{M: m, Owner: id.Owner, DSeq: id.DSeq, GSeq: id.GSeq, OSeq: id.OSeq, Provider: id.Provider, Lease: true})
}

func (b *backend) deployment(ctx context.Context, m string, id dtypes.DeploymentID) {
	b.record(ctx, rawCall{M: m, Owner: id.Owner, DSeq: id.DSeq})
}

// provider.Client
func (b *backend) Status(context.Context) (*provider.Status, error) { return &provider.Status{}, nil }
func (b *backend) Validate(context.Context, dtypes.GroupSpec) (provider.ValidateGroupSpecResult, error) {
	return provider.ValidateGroupSpecResult{MinBidPrice: sdk.NewInt64Coin("uakt", 1)}, nil
}
func (b *backend) Manifest() pmanifest.Client { return (*backendManifest)(b) }
func (b *backend) Cluster() cluster.Client    { return (*backendCluster)(b) }

type backendManifest backend

func (m *backendManifest) Submit(ctx context.Context, id dtypes.DeploymentID, _ manifest.Manifest) error {
	(*backend)(m).deployment(ctx, "Submit", id)
	return nil
}
func (m *backendManifest) IsActive(ctx context.Context, id dtypes.DeploymentID) (bool, error) {
	(*backend)(m).deployment(ctx, "IsActive", id)
	return true, nil
}

type backendCluster backend

var errScripted = errors.New("scripted backend")

func (c *backendCluster) LeaseStatus(ctx context.Context, id mtypes.LeaseID) (*ctypes.LeaseStatus, error) {
	(*backend)(c).lease(ctx, "LeaseStatus", id)
	return &ctypes.LeaseStatus{}, nil
}
func (c *backendCluster) LeaseEvents(ctx context.Context, id mtypes.LeaseID, _ string, _ bool) (ctypes.EventsWatcher, error) {
	(*backend)(c).lease(ctx, "LeaseEvents", id)
	return nil, nil // the handler answers "lease not found" and closes the websocket
}
func (c *backendCluster) LeaseLogs(ctx context.Context, id mtypes.LeaseID, _ string, _ bool, _ *int64) ([]*ctypes.ServiceLog, error) {
	(*backend)(c).lease(ctx, "LeaseLogs", id)
	return nil, nil // "no running pods"
}
func (c *backendCluster) ServiceStatus(ctx context.Context, id mtypes.LeaseID, _ string) (*ctypes.ServiceStatus, error) {
	(*backend)(c).lease(ctx, "ServiceStatus", id)
	return &ctypes.ServiceStatus{}, nil
}
func (c *backendCluster) Deploy(ctx context.Context, id mtypes.LeaseID, _ *manifest.Group) error {
	(*backend)(c).lease(ctx, "Deploy", id)
	return errScripted
}
func (c *backendCluster) TeardownLease(ctx context.Context, id mtypes.LeaseID) error {
	(*backend)(c).lease(ctx, "TeardownLease", id)
	return errScripted
}
func (c *backendCluster) Deployments(context.Context) ([]ctypes.Deployment, error) { return nil, nil }
func (c *backendCluster) Inventory(context.Context) ([]ctypes.Node, error)         { return nil, nil }
func (c *backendCluster) Exec(ctx context.Context, id mtypes.LeaseID, _ string, _ uint, _ []string, _ io.Reader, _ io.Writer, _ io.Writer, _ bool, _ remotecommand.TerminalSizeQueue) (ctypes.ExecResult, error) {
	(*backend)(c).lease(ctx, "Exec", id)
	return nil, errScripted
}

var _ provider.Client = (*backend)(nil)
