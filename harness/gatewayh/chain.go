package gatewayh

import (
	"context"
	"sync"
	"time"

	"github.com/cosmos/cosmos-sdk/store"
	sdk "github.com/cosmos/cosmos-sdk/types"
	"github.com/tendermint/tendermint/libs/log"
	tmproto "github.com/tendermint/tendermint/proto/tendermint/types"
	dbm "github.com/tendermint/tm-db"
	"google.golang.org/grpc"

	"github.com/ovrclk/akash/x/cert/handler"
	"github.com/ovrclk/akash/x/cert/keeper"
	ctypes "github.com/ovrclk/akash/x/cert/types"
)

// chain is the real x/cert module over a real (in-memory IAVL) multistore: certificates are published and
// revoked through the real Msg server (after ValidateBasic) and looked up through the real gRPC querier
// (x/cert/keeper/grpc_query.go). The gateway only ever sees it through the ctypes.QueryClient interface,
// exactly like the provider daemon sees a node.
type chain struct {
	mu  sync.Mutex
	ctx sdk.Context
	k   keeper.Keeper
	ms  ctypes.MsgServer
	qs  ctypes.QueryServer

	queries int

	gmu   sync.Mutex
	gates map[string]*gate // owner/serial -> gate holding the Certificates query for that certificate id
}

// gate holds every Certificates query for one certificate id until released, and tells how many have arrived:
// the scheduling gate that lets the harness keep a handshake inside VerifyPeerCertificate while others are started.
type gate struct {
	mu       sync.Mutex
	arrived  int
	signal   chan struct{} // closed and replaced on every arrival
	released chan struct{}
}

func (c *chain) hold(owner, serial string) *gate {
	g := &gate{signal: make(chan struct{}), released: make(chan struct{})}
	c.gmu.Lock()
	if c.gates == nil {
		c.gates = map[string]*gate{}
	}
	c.gates[owner+"/"+serial] = g
	c.gmu.Unlock()
	return g
}

func (c *chain) unhold(owner, serial string, g *gate) {
	c.gmu.Lock()
	delete(c.gates, owner+"/"+serial)
	c.gmu.Unlock()
	close(g.released)
}

// waitArrived blocks until n queries wait at the gate; false if that has not happened within d.
func (g *gate) waitArrived(n int, d time.Duration) bool {
	t := time.NewTimer(d)
	defer t.Stop()
	for {
		g.mu.Lock()
		a, sig := g.arrived, g.signal
		g.mu.Unlock()
		if a >= n {
			return true
		}
		select {
		case <-sig:
		case <-t.C:
			return false
		}
	}
}

func newChain() (*chain, error) {
	key := sdk.NewKVStoreKey(ctypes.StoreKey)
	db := dbm.NewMemDB()
	cms := store.NewCommitMultiStore(db)
	cms.MountStoreWithDB(key, sdk.StoreTypeIAVL, db)
	if err := cms.LoadLatestVersion(); err != nil {
		return nil, err
	}
	ctx := sdk.NewContext(cms, tmproto.Header{Height: 1, Time: time.Now()}, false, log.NewNopLogger())
	k := keeper.NewKeeper(ctypes.ModuleCdc, key)
	return &chain{ctx: ctx, k: k, ms: handler.NewMsgServerImpl(k), qs: k.Querier()}, nil
}

// Publish = MsgCreateCertificate signed by owner (the signer is the owner field: the ante handler is not modelled).
func (c *chain) Publish(owner sdk.AccAddress, certPEM, pubPEM []byte) error {
	msg := &ctypes.MsgCreateCertificate{Owner: owner.String(), Cert: certPEM, Pubkey: pubPEM}
	if err := msg.ValidateBasic(); err != nil {
		return err
	}
	c.mu.Lock()
	defer c.mu.Unlock()
	_, err := c.ms.CreateCertificate(sdk.WrapSDKContext(c.ctx), msg)
	return err
}

func (c *chain) Revoke(owner sdk.AccAddress, serial string) error {
	msg := &ctypes.MsgRevokeCertificate{ID: ctypes.CertificateID{Owner: owner.String(), Serial: serial}}
	if err := msg.ValidateBasic(); err != nil {
		return err
	}
	c.mu.Lock()
	defer c.mu.Unlock()
	_, err := c.ms.RevokeCertificate(sdk.WrapSDKContext(c.ctx), msg)
	return err
}

// Certificates implements ctypes.QueryClient on top of the real querier.
func (c *chain) Certificates(_ context.Context, in *ctypes.QueryCertificatesRequest, _ ...grpc.CallOption) (*ctypes.QueryCertificatesResponse, error) {
	c.gmu.Lock()
	g := c.gates[in.Filter.Owner+"/"+in.Filter.Serial]
	c.gmu.Unlock()
	if g != nil {
		g.mu.Lock()
		g.arrived++
		close(g.signal)
		g.signal = make(chan struct{})
		g.mu.Unlock()
		<-g.released
	}
	c.mu.Lock()
	defer c.mu.Unlock()
	c.queries++
	return c.qs.Certificates(sdk.WrapSDKContext(c.ctx), in)
}

var _ ctypes.QueryClient = (*chain)(nil)
