package gatewayh

import (
	"crypto/ecdsa"
	"crypto/elliptic"
	"crypto/rand"
	"crypto/sha256"
	"crypto/x509"
	"crypto/x509/pkix"
	"encoding/asn1"
	"encoding/binary"
	"encoding/pem"
	"fmt"
	"math/big"
	mrand "math/rand"
	"net"
	"net/url"
	"strconv"
	"time"

	sdk "github.com/cosmos/cosmos-sdk/types"
	"github.com/cosmos/cosmos-sdk/types/bech32"

	ctypes "github.com/ovrclk/akash/x/cert/types"
)

// ---- the abstract case, exactly as TLC prints it (spec/gateway/GatewayAuth.tla, Cases) ----

type Cert struct {
	Cn       string `json:"cn"`
	First    string `json:"first"` // first CN attribute of subject/issuer: "same" (one CN only) | "X" | "Y"
	Issuer   string `json:"issuer"`
	Serial   string `json:"serial"`
	Key      string `json:"key"`
	Window   string `json:"window"`
	Usage    string `json:"usage"`
	ChainLen int    `json:"chainLen"`
	Der      string `json:"der"`
	Holds    bool   `json:"holds"`
}

type Entry struct {
	First  string `json:"first"`
	State  string `json:"state"`
	Key    string `json:"key"`
	Window string `json:"window"`
	Usage  string `json:"usage"`
}

type Path struct {
	Route string `json:"route"`
	Dseq  string `json:"dseq"`
	Gseq  string `json:"gseq"`
	Oseq  string `json:"oseq"`
	Extra string `json:"extra"`
}

type Case struct {
	Cert Cert             `json:"cert"`
	Reg  map[string]Entry `json:"reg"`
	Path Path             `json:"path"`
}

// ---- the concrete world of one case ----

type world struct {
	noEdges bool // sessions last long: keep their certificates away from the edges of the validity classes
	rng     *mrand.Rand
	now     time.Time
	X, Y    sdk.AccAddress
	keys    map[string]*ecdsa.PrivateKey
	serials map[string]*big.Int
	onchain map[string][]byte // registry id "X/s1" -> DER of the published certificate

	dOwn, dOther uint64
	gOwn, gOther uint32
	oOwn, oOther uint32
}

var authVersionOID = asn1.ObjectIdentifier{2, 23, 133, 2, 6}
var oidCommonName = asn1.ObjectIdentifier{2, 5, 4, 3}

// firstName resolves the abstract first-CN class to the concrete attribute value ("" = no additional attribute).
func (w *world) firstName(class string) (string, error) {
	switch class {
	case "same", "-", "":
		return "", nil
	case "X":
		return w.X.String(), nil
	case "Y":
		return w.Y.String(), nil
	}
	return "", fmt.Errorf("unknown first-CN class %q", class)
}

func derive(seed int64, idx int, what string) []byte {
	h := sha256.New()
	var b [16]byte
	binary.BigEndian.PutUint64(b[:8], uint64(seed))
	binary.BigEndian.PutUint64(b[8:], uint64(idx))
	h.Write(b[:])
	h.Write([]byte(what))
	return h.Sum(nil)
}

func newWorld(seed int64, idx int) (*world, error) {
	w := &world{
		now:     time.Now(),
		keys:    map[string]*ecdsa.PrivateKey{},
		serials: map[string]*big.Int{},
		onchain: map[string][]byte{},
	}
	w.rng = mrand.New(mrand.NewSource(int64(binary.BigEndian.Uint64(derive(seed, idx, "rng")[:8]))))
	// fresh accounts per case: all cases share one chain store without seeing each other's registry
	w.X = sdk.AccAddress(derive(seed, idx, "X")[:20])
	w.Y = sdk.AccAddress(derive(seed, idx, "Y")[:20])
	for _, s := range []string{"s1", "s2"} {
		n := new(big.Int).SetBytes(derive(seed, idx, "serial"+s)[:8])
		n.SetBit(n, 63, 0)
		n.SetBit(n, 62, 1) // positive, never zero, never short
		w.serials[s] = n
	}
	w.dOwn = 1 + uint64(w.rng.Int63n(1<<40))
	w.dOther = w.dOwn + 1 + uint64(w.rng.Int63n(1<<20))
	w.gOwn = 1 + uint32(w.rng.Intn(1000))
	w.gOther = w.gOwn + 1 + uint32(w.rng.Intn(1000))
	w.oOwn = 1 + uint32(w.rng.Intn(1000))
	w.oOther = w.oOwn + 1 + uint32(w.rng.Intn(1000))
	return w, nil
}

// reseed gives a world that shares its accounts and numbers with others a random stream of its own.
func (w *world) reseed(seed int64, idx int) {
	w.rng = mrand.New(mrand.NewSource(int64(binary.BigEndian.Uint64(derive(seed, idx, "rng2")[:8]))))
}

func (w *world) key(name string) (*ecdsa.PrivateKey, error) {
	if k, ok := w.keys[name]; ok {
		return k, nil
	}
	k, err := ecdsa.GenerateKey(elliptic.P256(), rand.Reader)
	if err != nil {
		return nil, err
	}
	w.keys[name] = k
	return k, nil
}

func (w *world) account(name string) (sdk.AccAddress, error) {
	switch name {
	case "X":
		return w.X, nil
	case "Y":
		return w.Y, nil
	}
	return nil, fmt.Errorf("unknown account %q", name)
}

// window -> (NotBefore, NotAfter). Half of the draws are deep inside the class (minutes .. months away from now), half
// sit at its edge: expired two seconds ago, valid since two seconds, about to expire / about to become valid in two
// minutes (x509 times have one-second granularity; the forward margins are minutes so that the verdict never
// depends on scheduling, the backward ones can be tight because time only moves on).
func (w *world) window(class string) (time.Time, time.Time, error) {
	min := func(lo, hi int) time.Duration { return time.Duration(lo+w.rng.Intn(hi-lo)) * time.Minute }
	sec := func(lo, hi int) time.Duration { return time.Duration(lo+w.rng.Intn(hi-lo)) * time.Second }
	edge := w.rng.Intn(2) == 0 && !w.noEdges
	switch class {
	case "ok":
		if edge {
			return w.now.Add(-sec(2, 10)), w.now.Add(sec(120, 300)), nil
		}
		return w.now.Add(-min(5, 60*24*30)), w.now.Add(min(30, 60*24*365)), nil
	case "expired":
		if edge {
			na := w.now.Add(-sec(2, 10))
			return na.Add(-min(60, 60*24*365)), na, nil
		}
		na := w.now.Add(-min(5, 60*24*30))
		return na.Add(-min(60, 60*24*365)), na, nil
	case "notYet":
		if edge {
			nb := w.now.Add(sec(120, 300))
			return nb, nb.Add(min(60, 60*24*365)), nil
		}
		nb := w.now.Add(min(10, 60*24*30))
		return nb, nb.Add(min(60, 60*24*365)), nil
	}
	return time.Time{}, time.Time{}, fmt.Errorf("unknown window class %q", class)
}

// purposes crypto/x509 has no name for: they end up in Certificate.UnknownExtKeyUsage
var unknownEKUs = []asn1.ObjectIdentifier{
	{1, 3, 6, 1, 4, 1, 311, 20, 2, 2}, // Microsoft smart card logon
	{1, 3, 6, 1, 4, 1, 99999, 1, 7},   // a private arc
	{1, 3, 6, 1, 5, 5, 7, 3, 17},      // id-kp-ipsecIKE
}

func (w *world) usages(class string) ([]x509.ExtKeyUsage, []asn1.ObjectIdentifier, error) {
	unk := []asn1.ObjectIdentifier{unknownEKUs[w.rng.Intn(len(unknownEKUs))]}
	switch class {
	case "client":
		return []x509.ExtKeyUsage{x509.ExtKeyUsageClientAuth}, nil, nil
	case "server":
		return []x509.ExtKeyUsage{x509.ExtKeyUsageServerAuth}, nil, nil
	case "both":
		return []x509.ExtKeyUsage{x509.ExtKeyUsageClientAuth, x509.ExtKeyUsageServerAuth}, nil, nil
	case "any":
		return []x509.ExtKeyUsage{x509.ExtKeyUsageAny}, nil, nil
	case "code":
		return []x509.ExtKeyUsage{x509.ExtKeyUsageCodeSigning}, nil, nil
	case "none":
		return nil, nil, nil
	case "unknown":
		return nil, unk, nil
	case "clientUnk":
		return []x509.ExtKeyUsage{x509.ExtKeyUsageClientAuth}, unk, nil
	case "serverUnk":
		return []x509.ExtKeyUsage{x509.ExtKeyUsageServerAuth}, unk, nil
	}
	return nil, nil, fmt.Errorf("unknown usage class %q", class)
}

// makeCert builds a real DER certificate the way akash clients do (testutil/cert.go, x/cert/utils): ECDSA P-256,
// subject CN = account address. issuerCN == "" means self-issued and self-signed; otherwise the certificate is
// signed by a throw-away CA named issuerCN.
//
// firstCN != "" puts an additional common-name attribute IN FRONT of cn: the subject (and, self-issued, the issuer)
// then reads CN=firstCN, CN=cn. crypto/x509 reports the last one as Subject.CommonName, and so do the chain and the gateway.
func (w *world) makeCert(cn, firstCN, issuerCN string, serial *big.Int, key *ecdsa.PrivateKey, window, usage string, ips []net.IP) ([]byte, error) {
	nb, na, err := w.window(window)
	if err != nil {
		return nil, err
	}
	eku, ueku, err := w.usages(usage)
	if err != nil {
		return nil, err
	}
	tmpl := x509.Certificate{
		SerialNumber: serial,
		Subject: pkix.Name{
			CommonName: cn,
			ExtraNames: []pkix.AttributeTypeAndValue{{Type: authVersionOID, Value: "v0.0.1"}},
		},
		NotBefore:             nb,
		NotAfter:              na,
		KeyUsage:              x509.KeyUsageDataEncipherment | x509.KeyUsageKeyEncipherment,
		ExtKeyUsage:           eku,
		UnknownExtKeyUsage:    ueku,
		BasicConstraintsValid: true,
		IPAddresses:           ips,
	}
	if firstCN != "" { // hand-built name: ExtraNames are emitted in order, after the (now absent) standard attributes
		tmpl.Subject = pkix.Name{ExtraNames: []pkix.AttributeTypeAndValue{
			{Type: oidCommonName, Value: firstCN},
			{Type: oidCommonName, Value: cn},
			{Type: authVersionOID, Value: "v0.0.1"},
		}}
	}
	if issuerCN == "" {
		return x509.CreateCertificate(rand.Reader, &tmpl, &tmpl, key.Public(), key)
	}
	caKey, err := ecdsa.GenerateKey(elliptic.P256(), rand.Reader)
	if err != nil {
		return nil, err
	}
	parent := x509.Certificate{Subject: pkix.Name{CommonName: issuerCN}}
	return x509.CreateCertificate(rand.Reader, &tmpl, &parent, key.Public(), caKey)
}

func pemCert(der []byte) []byte {
	return pem.EncodeToMemory(&pem.Block{Type: ctypes.PemBlkTypeCertificate, Bytes: der})
}

func pemPub(key *ecdsa.PrivateKey) ([]byte, error) {
	b, err := x509.MarshalPKIXPublicKey(key.Public())
	if err != nil {
		return nil, err
	}
	return pem.EncodeToMemory(&pem.Block{Type: ctypes.PemBlkTypeECPublicKey, Bytes: b}), nil
}

// publish puts the case's registry on the chain through the real Msg server.
func (w *world) publish(ch *chain, reg map[string]Entry) error {
	for _, id := range []string{"X/s1", "X/s2", "Y/s1"} {
		e, ok := reg[id]
		if !ok || e.State == "none" {
			continue
		}
		owner, err := w.account(id[:1])
		if err != nil {
			return err
		}
		serial := w.serials[id[2:]]
		if serial == nil {
			return fmt.Errorf("unknown serial in %q", id)
		}
		key, err := w.key(e.Key)
		if err != nil {
			return err
		}
		first, err := w.firstName(e.First)
		if err != nil {
			return err
		}
		der, err := w.makeCert(owner.String(), first, "", serial, key, e.Window, e.Usage, nil)
		if err != nil {
			return err
		}
		pub, err := pemPub(key)
		if err != nil {
			return err
		}
		if err := ch.Publish(owner, pemCert(der), pub); err != nil {
			return fmt.Errorf("publish %s: %w", id, err)
		}
		switch e.State {
		case "valid":
		case "revoked":
			if err := ch.Revoke(owner, serial.String()); err != nil {
				return fmt.Errorf("revoke %s: %w", id, err)
			}
		default:
			return fmt.Errorf("unknown registry state %q", e.State)
		}
		w.onchain[id] = der
	}
	return nil
}

var badCNs = []string{"example.com", "akash1qqqqqqqq", "root", "localhost", "akash1", "0x00"}

func (w *world) commonName(class string) (string, error) {
	switch class {
	case "X":
		return w.X.String(), nil
	case "Y":
		return w.Y.String(), nil
	case "bad":
		switch w.rng.Intn(3) {
		case 0:
			s := w.X.String()
			return s[:len(s)-1], nil // truncated: checksum fails
		case 1:
			return w.X.String() + "x", nil
		}
		return badCNs[w.rng.Intn(len(badCNs))], nil
	case "hrp":
		return bech32.ConvertAndEncode("cosmos", w.X.Bytes())
	case "empty":
		return "", nil
	}
	return "", fmt.Errorf("unknown cn class %q", class)
}

// present returns the certificate chain the client sends and the private key it signs the handshake with.
func (w *world) present(c Cert) ([][]byte, *ecdsa.PrivateKey, error) {
	if c.ChainLen == 0 {
		return nil, nil, nil
	}
	var leaf []byte
	var priv *ecdsa.PrivateKey
	var err error
	switch c.Der {
	case "onchain":
		leaf = w.onchain[c.Cn+"/"+c.Serial]
		if leaf == nil {
			return nil, nil, fmt.Errorf("case replays an on-chain certificate %s/%s that is not in the registry", c.Cn, c.Serial)
		}
		if c.Holds {
			priv, err = w.key(c.Key)
		} else {
			priv, err = ecdsa.GenerateKey(elliptic.P256(), rand.Reader) // knows the public certificate only
		}
		if err != nil {
			return nil, nil, err
		}
	case "fresh":
		if !c.Holds {
			return nil, nil, fmt.Errorf("a freshly made certificate is always held")
		}
		cn, err := w.commonName(c.Cn)
		if err != nil {
			return nil, nil, err
		}
		issuer := ""
		switch c.Issuer {
		case "self":
		case "other":
			issuer = []string{"akash-ca", "Let's Encrypt", w.Y.String()}[w.rng.Intn(3)]
		default:
			return nil, nil, fmt.Errorf("unknown issuer class %q", c.Issuer)
		}
		serial := w.serials[c.Serial]
		if serial == nil {
			return nil, nil, fmt.Errorf("unknown serial %q", c.Serial)
		}
		if priv, err = w.key(c.Key); err != nil {
			return nil, nil, err
		}
		first, err := w.firstName(c.First)
		if err != nil {
			return nil, nil, err
		}
		if leaf, err = w.makeCert(cn, first, issuer, serial, priv, c.Window, c.Usage, nil); err != nil {
			return nil, nil, err
		}
	default:
		return nil, nil, fmt.Errorf("unknown der class %q", c.Der)
	}
	chain := [][]byte{leaf}
	for len(chain) < c.ChainLen {
		// second element: X's genuine published certificate if there is one (and it is not the leaf), else junk
		extra := w.onchain["X/s1"]
		if extra == nil || string(extra) == string(leaf) || len(chain) > 1 {
			jk, err := ecdsa.GenerateKey(elliptic.P256(), rand.Reader)
			if err != nil {
				return nil, nil, err
			}
			if extra, err = w.makeCert(w.X.String(), "", "", big.NewInt(int64(1000+len(chain))), jk, "ok", "client", nil); err != nil {
				return nil, nil, err
			}
		}
		chain = append(chain, extra)
	}
	return chain, priv, nil
}

var alphaTokens = []string{"abc", "1a", "one", "NaN", "1e3", "1.0", "%E2%85%A7", "1_000", "null"}

func (w *world) token(class string, own, other uint64, bits int) (string, error) {
	switch class {
	case "own":
		return strconv.FormatUint(own, 10), nil
	case "other":
		return strconv.FormatUint(other, 10), nil
	case "padded":
		return "00" + strconv.FormatUint(own, 10), nil
	case "zero":
		return "0", nil
	case "alpha":
		return alphaTokens[w.rng.Intn(len(alphaTokens))], nil
	case "neg":
		return "-" + strconv.FormatUint(own, 10), nil
	case "plus":
		return "+" + strconv.FormatUint(own, 10), nil
	case "hex":
		return "0x" + strconv.FormatUint(own, 16), nil
	case "space":
		return "%20" + strconv.FormatUint(own, 10), nil
	case "overflow":
		n := new(big.Int).Lsh(big.NewInt(1), uint(bits))
		if w.rng.Intn(2) == 0 { // 2^bits, or own + 2^bits (wraps to own if truncated)
			n.Add(n, new(big.Int).SetUint64(own))
		}
		return n.String(), nil
	}
	return "", fmt.Errorf("unknown token class %q", class)
}

type request struct {
	method string
	ws     bool
	path   string // escaped path + query
	body   string
	header map[string]string
}

func (w *world) request(p Path, provider sdk.Address) (request, error) {
	d, err := w.token(p.Dseq, w.dOwn, w.dOther, 64)
	if err != nil {
		return request{}, err
	}
	g, err := w.token(p.Gseq, uint64(w.gOwn), uint64(w.gOther), 32)
	if err != nil {
		return request{}, err
	}
	o, err := w.token(p.Oseq, uint64(w.oOwn), uint64(w.oOther), 32)
	if err != nil {
		return request{}, err
	}
	q := url.Values{}
	r := request{method: "GET", header: map[string]string{}}
	lease := fmt.Sprintf("/lease/%s/%s/%s", d, g, o)
	switch p.Route {
	case "manifest":
		r.method, r.path, r.body = "PUT", fmt.Sprintf("/deployment/%s/manifest", d), "[]"
	case "lstatus":
		r.path = lease + "/status"
	case "sstatus":
		r.path = lease + "/service/web/status"
	case "events":
		r.ws, r.path = true, lease+"/kubeevents"
		q.Set("follow", "false")
	case "logs":
		r.ws, r.path = true, lease+"/logs"
		q.Set("follow", "false")
		q.Set("tail", "10")
	case "shell":
		r.ws, r.path = true, lease+"/shell"
		q.Set("cmd0", "ls")
		q.Set("tty", "0")
		q.Set("service", "web")
		q.Set("stdin", "0")
		q.Set("podIndex", "0")
	default:
		return request{}, fmt.Errorf("unknown route %q", p.Route)
	}
	switch p.Extra {
	case "none":
	case "badparams": // the request's own parameters are malformed; the ids in the URL are whatever the tokens say
		switch p.Route {
		case "manifest":
			r.body = []string{"{not json", "[{\"Name\":", "<xml/>"}[w.rng.Intn(3)]
		case "events":
			q.Set("follow", []string{"maybe", "2", "yes!"}[w.rng.Intn(3)])
		case "logs":
			if w.rng.Intn(2) == 0 {
				q.Set("tail", []string{"-5", "abc", "99999999999"}[w.rng.Intn(3)])
			} else {
				q.Set("service", "web,")
			}
		case "shell":
			drop := []string{"cmd0", "tty", "service", "stdin", "podIndex"}[w.rng.Intn(5)]
			q.Del(drop)
			if drop == "podIndex" && w.rng.Intn(2) == 0 {
				q.Set("podIndex", "-1")
			}
		default:
			return request{}, fmt.Errorf("route %q has no parameters of its own", p.Route)
		}
	case "spoof": // everything a URL/header can say about another tenant and another provider
		other := sdk.AccAddress(derive(0, 0, "some other provider")[:20])
		q.Set("owner", w.Y.String())
		q.Set("dseq", strconv.FormatUint(w.dOther, 10))
		q.Set("gseq", strconv.FormatUint(uint64(w.gOther), 10))
		q.Set("oseq", strconv.FormatUint(uint64(w.oOther), 10))
		q.Set("provider", other.String())
		r.header["X-Owner"] = w.Y.String()
		r.header["X-Forwarded-Client-Cert"] = "Subject=\"CN=" + w.Y.String() + "\""
		r.header["X-Provider"] = other.String()
		r.header["Authorization"] = "Bearer " + w.Y.String()
		_ = provider
	default:
		return request{}, fmt.Errorf("unknown extra class %q", p.Extra)
	}
	if len(q) > 0 {
		r.path += "?" + q.Encode()
	}
	return r, nil
}

// ---- projection of what the back end received onto the abstract vocabulary of the spec ----

type Call struct {
	M        string `json:"m"`
	Owner    string `json:"owner"`
	Dseq     string `json:"dseq"`
	Gseq     string `json:"gseq"`
	Oseq     string `json:"oseq"`
	Provider string `json:"provider"`
}

func label(v, own, other uint64) string {
	switch v {
	case own:
		return "own"
	case other:
		return "other"
	case 0:
		return "zero"
	}
	return "?" + strconv.FormatUint(v, 10)
}

func (w *world) project(c rawCall, provider sdk.Address) Call {
	out := Call{M: c.M, Gseq: "-", Oseq: "-", Provider: "-"}
	switch c.Owner {
	case w.X.String():
		out.Owner = "X"
	case w.Y.String():
		out.Owner = "Y"
	case provider.String():
		out.Owner = "P"
	default:
		out.Owner = "?" + c.Owner
	}
	out.Dseq = label(c.DSeq, w.dOwn, w.dOther)
	if c.Lease {
		out.Gseq = label(uint64(c.GSeq), uint64(w.gOwn), uint64(w.gOther))
		out.Oseq = label(uint64(c.OSeq), uint64(w.oOwn), uint64(w.oOther))
		if c.Provider == provider.String() {
			out.Provider = "P"
		} else {
			out.Provider = "?" + c.Provider
		}
	}
	return out
}
