// Package gatewayh binds spec/gateway/GatewayAuth.tla to the real provider gateway (C09).
//
// TLC enumerates abstract cases (client certificate class x chain registry x request URL class); for each one
// this harness builds the real thing -- ECDSA keys, real DER certificates, the registry published through the
// real x/cert Msg server into a real store and read back by the real gRPC querier -- and then
//
//	(a) calls the real gwutils.NewServerTLSConfig(..).VerifyPeerCertificate on the presented chain, and
//	(b) performs a real TLS 1.3 handshake and HTTP/websocket request against the real rest.NewServer(..)
//	    (real router and middleware) whose provider.Client is a recorder,
//
// and writes one ndjson line per case: the case as given, what was decided, and the ids the back end received,
// projected onto the spec's vocabulary. TLC judges those lines (GatewayAuthTrace.tla).
package gatewayh

import (
	"bytes"
	"context"
	"crypto/ecdsa"
	"crypto/elliptic"
	"crypto/rand"
	"crypto/tls"
	"encoding/json"
	"flag"
	"fmt"
	"io"
	stdlog "log"
	"math/big"
	"net"
	"net/http"
	"os"
	"runtime"
	"strings"
	"sync"
	"time"

	sdk "github.com/cosmos/cosmos-sdk/types"
	"github.com/gorilla/websocket"
	"github.com/tendermint/tendermint/libs/log"

	"github.com/ovrclk/akash/provider/gateway/rest"
	"github.com/ovrclk/akash/sdkutil"

	"verif/harness/vcommon"
)

// Out is one recorded line.
type Out struct {
	I    int             `json:"i"`
	Cert json.RawMessage `json:"cert"`
	Reg  json.RawMessage `json:"reg"`
	Path json.RawMessage `json:"path"`

	Vpc    bool   `json:"vpc"`    // VerifyPeerCertificate(chain) returned nil
	Tls    bool   `json:"tls"`    // the handshake was accepted: an HTTP response came back
	Status int    `json:"status"` // HTTP status (0 if none)
	Served []Call `json:"served"` // lease/deployment scoped calls that reached the back end, in order

	VpcErr string `json:"vpcErr"` // informational
	TlsErr string `json:"tlsErr"` // informational: the server's own handshake error line
	URL    string `json:"url"`    // informational
	Err    string `json:"err,omitempty"`
}

// lineSink receives the http.Server error log ("http: TLS handshake error from ...: <reason>").
type lineSink struct{ ch chan string }

func (s *lineSink) Write(p []byte) (int, error) {
	select {
	case s.ch <- string(p):
	default:
	}
	return len(p), nil
}

type gateway struct {
	srv      *http.Server
	ln       net.Listener
	addr     string
	back     *backend
	provider sdk.AccAddress
	errs     *lineSink
}

func newGateway(ch *chain, n int) (*gateway, error) {
	g := &gateway{back: &backend{}, errs: &lineSink{ch: make(chan string, 64)}}
	g.provider = sdk.AccAddress(derive(int64(n), 0, "provider")[:20])

	// the provider's own server certificate (clients here do not verify it; the property is about the other side)
	w, _ := newWorld(0, -1-n)
	key, err := ecdsa.GenerateKey(elliptic.P256(), rand.Reader)
	if err != nil {
		return nil, err
	}
	der, err := w.makeCert(g.provider.String(), "", big.NewInt(int64(77+n)), key, "ok", "both", []net.IP{net.ParseIP("127.0.0.1")})
	if err != nil {
		return nil, err
	}
	certs := []tls.Certificate{{Certificate: [][]byte{der}, PrivateKey: key}}

	// the real constructor: real router + real TLS config with the real VerifyPeerCertificate
	g.srv, err = rest.NewServer(context.Background(), log.NewNopLogger(), g.back, ch, "127.0.0.1:0", g.provider, certs)
	if err != nil {
		return nil, err
	}
	g.srv.ErrorLog = stdlog.New(g.errs, "", 0)
	if g.ln, err = net.Listen("tcp", "127.0.0.1:0"); err != nil {
		return nil, err
	}
	g.addr = g.ln.Addr().String()
	go func() { _ = g.srv.ServeTLS(g.ln, "", "") }()
	return g, nil
}

func (g *gateway) close() { _ = g.srv.Close() }

func (g *gateway) drain() {
	for {
		select {
		case <-g.errs.ch:
		default:
			return
		}
	}
}

// handshakeError waits for the server's own account of why it refused the connection.
func (g *gateway) handshakeError(d time.Duration) (string, bool) {
	t := time.NewTimer(d)
	defer t.Stop()
	for {
		select {
		case l := <-g.errs.ch:
			if strings.Contains(l, "TLS handshake error") {
				if i := strings.Index(l, "TLS handshake error from "); i >= 0 {
					l = l[i+len("TLS handshake error from "):]
					if j := strings.Index(l, ": "); j >= 0 {
						l = l[j+2:]
					}
				}
				return strings.TrimSpace(l), true
			}
		case <-t.C:
			return "", false
		}
	}
}

func (g *gateway) runCase(ch *chain, seed int64, idx int, raw json.RawMessage) (out Out) {
	out = Out{I: idx, Served: []Call{}}
	var probe struct {
		Cert json.RawMessage `json:"cert"`
		Reg  json.RawMessage `json:"reg"`
		Path json.RawMessage `json:"path"`
	}
	var cs Case
	if err := json.Unmarshal(raw, &probe); err != nil {
		out.Err = "bad case: " + err.Error()
		return
	}
	out.Cert, out.Reg, out.Path = probe.Cert, probe.Reg, probe.Path
	dec := json.NewDecoder(bytes.NewReader(raw))
	dec.DisallowUnknownFields()
	if err := dec.Decode(&cs); err != nil {
		out.Err = "bad case: " + err.Error()
		return
	}
	w, err := newWorld(seed, idx)
	if err != nil {
		out.Err = err.Error()
		return
	}
	if err = w.publish(ch, cs.Reg); err != nil {
		out.Err = err.Error()
		return
	}
	chain, priv, err := w.present(cs.Cert)
	if err != nil {
		out.Err = err.Error()
		return
	}
	req, err := w.request(cs.Path, g.provider)
	if err != nil {
		out.Err = err.Error()
		return
	}
	out.URL = req.method + " " + req.path

	// (a) the verification callback, directly
	if verr := g.srv.TLSConfig.VerifyPeerCertificate(chain, nil); verr != nil {
		out.VpcErr = verr.Error()
	} else {
		out.Vpc = true
	}

	// (b) a real connection
	ccfg := &tls.Config{InsecureSkipVerify: true, MinVersion: tls.VersionTLS13} // nolint: gosec
	if len(chain) > 0 {
		ccfg.Certificates = []tls.Certificate{{Certificate: chain, PrivateKey: priv}}
	}
	g.drain()
	g.back.take()
	var rerr error
	if req.ws {
		out.Status, rerr = g.doWS(ccfg, req)
	} else {
		out.Status, rerr = g.doHTTP(ccfg, req)
	}
	if rerr == nil {
		out.Tls = true
	} else {
		reason, ok := g.handshakeError(10 * time.Second)
		if !ok {
			out.Err = "request failed but the server reported no handshake error: " + rerr.Error()
			return
		}
		out.TlsErr = reason
	}
	for _, c := range g.back.take() {
		out.Served = append(out.Served, w.project(c, g.provider))
	}
	return
}

func (g *gateway) doHTTP(ccfg *tls.Config, r request) (int, error) {
	tr := &http.Transport{TLSClientConfig: ccfg, DisableKeepAlives: true}
	defer tr.CloseIdleConnections()
	cl := &http.Client{Transport: tr, Timeout: 20 * time.Second,
		CheckRedirect: func(*http.Request, []*http.Request) error { return http.ErrUseLastResponse }}
	var body io.Reader
	if r.body != "" {
		body = strings.NewReader(r.body)
	}
	req, err := http.NewRequest(r.method, "https://"+g.addr+r.path, body)
	if err != nil {
		return 0, err
	}
	req.Header.Set("Content-Type", "application/json; charset=UTF-8")
	for k, v := range r.header {
		req.Header.Set(k, v)
	}
	resp, err := cl.Do(req)
	if err != nil {
		return 0, err
	}
	_, _ = io.Copy(io.Discard, resp.Body)
	_ = resp.Body.Close()
	return resp.StatusCode, nil
}

func (g *gateway) doWS(ccfg *tls.Config, r request) (int, error) {
	d := websocket.Dialer{TLSClientConfig: ccfg, HandshakeTimeout: 20 * time.Second}
	h := http.Header{}
	for k, v := range r.header {
		h.Set(k, v)
	}
	conn, resp, err := d.Dial("wss://"+g.addr+r.path, h)
	if err != nil {
		if resp != nil { // the TLS layer let us in; the router answered with a plain HTTP status
			return resp.StatusCode, nil
		}
		return 0, err
	}
	defer conn.Close()
	_ = conn.SetReadDeadline(time.Now().Add(20 * time.Second))
	for {
		if _, _, err := conn.ReadMessage(); err != nil {
			break // the handler closes the stream once the (scripted) back end has answered
		}
	}
	return resp.StatusCode, nil
}

// Main: vh gateway run -cases <ndjson> -out <ndjson> [-seed N] [-workers W]
func Main(args []string) int {
	if len(args) < 1 || args[0] != "run" {
		fmt.Fprintln(os.Stderr, "usage: vh gateway run -cases FILE -out FILE [-seed N] [-workers W]")
		return 2
	}
	fs := flag.NewFlagSet("gateway", flag.ContinueOnError)
	casesPath := fs.String("cases", "", "ndjson of abstract cases printed by TLC")
	outPath := fs.String("out", "", "ndjson of recorded outcomes")
	seed := fs.Int64("seed", 1, "seed of the concretisation")
	workers := fs.Int("workers", runtime.NumCPU(), "parallel gateways")
	if err := fs.Parse(args[1:]); err != nil || *casesPath == "" || *outPath == "" {
		return 2
	}
	sdkutil.InitSDKConfig()

	var cases []json.RawMessage
	if err := vcommon.ReadLines(*casesPath, func(raw json.RawMessage) error {
		cases = append(cases, append(json.RawMessage(nil), raw...))
		return nil
	}); err != nil {
		fmt.Fprintln(os.Stderr, "gatewayh:", err)
		return 2
	}
	ch, err := newChain()
	if err != nil {
		fmt.Fprintln(os.Stderr, "gatewayh:", err)
		return 2
	}
	wr, err := vcommon.NewWriter(*outPath)
	if err != nil {
		fmt.Fprintln(os.Stderr, "gatewayh:", err)
		return 2
	}
	if *workers < 1 {
		*workers = 1
	}
	if *workers > len(cases) {
		*workers = len(cases)
	}
	t0 := time.Now()
	jobs := make(chan int)
	var wg sync.WaitGroup
	var mu sync.Mutex
	failed := 0
	for n := 0; n < *workers; n++ {
		g, err := newGateway(ch, n)
		if err != nil {
			fmt.Fprintln(os.Stderr, "gatewayh:", err)
			return 2
		}
		wg.Add(1)
		go func(g *gateway) {
			defer wg.Done()
			defer g.close()
			for idx := range jobs {
				out := g.runCase(ch, *seed, idx+1, cases[idx])
				if out.Err != "" {
					mu.Lock()
					failed++
					if failed <= 5 {
						fmt.Fprintf(os.Stderr, "gatewayh: case %d: %s\n", idx+1, out.Err)
					}
					mu.Unlock()
				}
				if err := wr.Write(out); err != nil {
					fmt.Fprintln(os.Stderr, "gatewayh:", err)
				}
			}
		}(g)
	}
	for i := range cases {
		jobs <- i
	}
	close(jobs)
	wg.Wait()
	if err := wr.Close(); err != nil {
		fmt.Fprintln(os.Stderr, "gatewayh:", err)
		return 2
	}
	fmt.Fprintf(os.Stderr, "gatewayh: %d cases, %d harness failures, %d chain queries, %.1fs\n", len(cases), failed, ch.queries, time.Since(t0).Seconds())
	if failed > 0 {
		return 2
	}
	return 0
}
