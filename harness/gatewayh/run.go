// Package gatewayh binds spec/gateway/GatewayAuth.tla to the real provider gateway (C09).
//
// TLC enumerates abstract cases (client certificate class x chain registry x request URL class); for each one
// this harness builds the real thing -- ECDSA keys, real DER certificates, the registry published through the
// real x/cert Msg server into a real store and read back by the real gRPC querier -- and then
//
//	(a) calls the real gwutils.NewServerTLSConfig(..).VerifyPeerCertificate on the presented chain, and
//	(b) performs a real TLS 1.3 handshake and HTTP/websocket request against the real rest.NewServer(..)
//	    (real router and middleware) whose provider.Client is a recorder,
//
// and writes one ndjson line per request: the case as given, what was decided, and the ids the back end
// received, projected onto the spec's vocabulary. TLC judges those lines (GatewayAuthTrace.tla).
//
// Input line kinds:
//
//	case    one certificate, one registry, one request, a gateway of its own (deterministic replay)
//	resume  a first connection that obtains a TLS session ticket, a registry change, a second connection
//	session free-running direction: one client (certificate, registry) sending a sequence of requests over
//	        keep-alive connections while all other sessions hammer the SAME gateway concurrently
package gatewayh

import (
	"bytes"
	"context"
	"crypto/ecdsa"
	"crypto/elliptic"
	"crypto/rand"
	"crypto/tls"
	"encoding/json"
	"flag"
	"fmt"
	"io"
	stdlog "log"
	"math/big"
	"net"
	"net/http"
	"os"
	"runtime"
	"strings"
	"sync"
	"time"

	sdk "github.com/cosmos/cosmos-sdk/types"
	"github.com/gorilla/websocket"
	"github.com/tendermint/tendermint/libs/log"

	"github.com/ovrclk/akash/provider/gateway/rest"
	"github.com/ovrclk/akash/sdkutil"

	"verif/harness/vcommon"
)

// Out is one recorded line (kind "case": also used for every request of a session).
type Out struct {
	Kind string          `json:"kind"`
	I    int             `json:"i"`
	Cert json.RawMessage `json:"cert"`
	Reg  json.RawMessage `json:"reg"`
	Path json.RawMessage `json:"path"`

	Vpc    bool   `json:"vpc"`    // VerifyPeerCertificate(chain) returned nil
	Tls    bool   `json:"tls"`    // the handshake was accepted: an HTTP response came back
	Status int    `json:"status"` // HTTP status (0 if none)
	Served []Call `json:"served"` // lease/deployment scoped calls that reached the back end, in order

	// kind "resume" only
	Change  string `json:"change,omitempty"`
	Present string `json:"present,omitempty"`
	Tls0    *bool  `json:"tls0,omitempty"`    // first connection accepted
	Resumed *bool  `json:"resumed,omitempty"` // second connection was a TLS session resumption

	Session int    `json:"session,omitempty"` // informational
	Seq     int    `json:"seq,omitempty"`     // informational: first line index of the sequence this step belongs to
	VpcErr  string `json:"vpcErr"`            // informational
	TlsErr  string `json:"tlsErr"`            // informational: the server's own handshake error line
	URL     string `json:"url"`               // informational
	Err     string `json:"err,omitempty"`
}

// In is one input line.
type In struct {
	Kind string `json:"kind"`
	I    int    `json:"i"`
	Cert Cert             `json:"cert"`
	Reg  map[string]Entry `json:"reg"`
	Path Path             `json:"path"`
	// resume
	Change  string `json:"change"`
	Present string `json:"present"`
	// session
	Paths []Path `json:"paths"`
	World int    `json:"world"` // sessions with the same world share accounts, registry and lease numbers
	Burst bool   `json:"burst"` // stream storm: request k of every burst session is fired at the same instant
	// seq
	Steps []Step `json:"steps"`
}

// Step is one request of a "seq" line: its own client identity, its own connection.
type Step struct {
	Cert Cert `json:"cert"`
	Path Path `json:"path"`
}

type rawStep struct {
	Cert json.RawMessage `json:"cert"`
	Path json.RawMessage `json:"path"`
}

type rawIn struct {
	Kind  string            `json:"kind"`
	I     int               `json:"i"`
	Cert  json.RawMessage   `json:"cert"`
	Reg   json.RawMessage   `json:"reg"`
	Path  json.RawMessage   `json:"path"`
	Paths []json.RawMessage `json:"paths"`
	Steps []rawStep         `json:"steps"`
}

var (
	noCertJSON      = json.RawMessage(`{"cn":"-","first":"-","issuer":"-","serial":"-","key":"-","window":"-","usage":"-","chainLen":0,"der":"none","holds":false}`)
	emptyRegJSON    = json.RawMessage(`{"X/s1":{"state":"none","key":"-","window":"-","usage":"-","first":"-"},"X/s2":{"state":"none","key":"-","window":"-","usage":"-","first":"-"},"Y/s1":{"state":"none","key":"-","window":"-","usage":"-","first":"-"}}`)
	defaultPathJSON = json.RawMessage(`{"route":"lstatus","dseq":"own","gseq":"own","oseq":"own","extra":"none"}`)
)

// hsErrors receives the http.Server error log ("http: TLS handshake error from ADDR: <reason>") and hands each
// reason to whoever dialled from ADDR.
type hsErrors struct {
	mu     sync.Mutex
	byAddr map[string]string
	signal chan struct{}
}

func newHsErrors() *hsErrors { return &hsErrors{byAddr: map[string]string{}, signal: make(chan struct{})} }

func (h *hsErrors) Write(p []byte) (int, error) {
	l := string(p)
	const marker = "TLS handshake error from "
	if i := strings.Index(l, marker); i >= 0 {
		l = l[i+len(marker):]
		if j := strings.Index(l, ": "); j >= 0 {
			addr, reason := l[:j], strings.TrimSpace(l[j+2:])
			h.mu.Lock()
			h.byAddr[addr] = reason
			close(h.signal)
			h.signal = make(chan struct{})
			h.mu.Unlock()
		}
	}
	return len(p), nil
}

// wait returns the server's own account of why it refused the connection dialled from addr.
func (h *hsErrors) wait(addr string, d time.Duration) (string, bool) {
	t := time.NewTimer(d)
	defer t.Stop()
	for {
		h.mu.Lock()
		r, ok := h.byAddr[addr]
		if ok {
			delete(h.byAddr, addr)
		}
		sig := h.signal
		h.mu.Unlock()
		if ok {
			return r, true
		}
		select {
		case <-sig:
		case <-t.C:
			return "", false
		}
	}
}

type gateway struct {
	srv      *http.Server
	ln       net.Listener
	addr     string
	back     *backend
	provider sdk.AccAddress
	errs     *hsErrors
}

func newGateway(ch *chain, n int) (*gateway, error) {
	g := &gateway{back: newBackend(), errs: newHsErrors()}
	g.provider = sdk.AccAddress(derive(int64(n), 0, "provider")[:20])

	// the provider's own server certificate (clients here do not verify it; the property is about the other side)
	w, _ := newWorld(0, -1-n)
	w.noEdges = true // the server certificate must outlive the run (a client does not resume a session whose server certificate expired)
	key, err := ecdsa.GenerateKey(elliptic.P256(), rand.Reader)
	if err != nil {
		return nil, err
	}
	der, err := w.makeCert(g.provider.String(), "", "", big.NewInt(int64(77+n)), key, "ok", "both", []net.IP{net.ParseIP("127.0.0.1")})
	if err != nil {
		return nil, err
	}
	certs := []tls.Certificate{{Certificate: [][]byte{der}, PrivateKey: key}}

	// the real constructor: real router + real TLS config with the real VerifyPeerCertificate
	g.srv, err = rest.NewServer(context.Background(), log.NewNopLogger(), g.back, ch, "127.0.0.1:0", g.provider, certs)
	if err != nil {
		return nil, err
	}
	g.srv.ErrorLog = stdlog.New(g.errs, "", 0)
	// harness instrumentation of the http.Server object (not of the code): tag every request context with the
	// address of the client connection, so that the recorder can tell on whose connection a call was made
	g.srv.ConnContext = func(ctx context.Context, c net.Conn) context.Context {
		return context.WithValue(ctx, connKey{}, c.RemoteAddr().String())
	}
	if g.ln, err = net.Listen("tcp", "127.0.0.1:0"); err != nil {
		return nil, err
	}
	g.addr = g.ln.Addr().String()
	go func() { _ = g.srv.ServeTLS(g.ln, "", "") }()
	return g, nil
}

func (g *gateway) close() { _ = g.srv.Close() }

// client is one TLS client identity talking to one gateway.
type client struct {
	g    *gateway
	cfg  *tls.Config // the transport's (http.Transport adds "h2" to it when HTTP/2 is forced)
	wcfg *tls.Config // the websocket dialer's: HTTP/1.1 only
	tr   *http.Transport
	col  *collector // back-end calls made on this client's connections are collected here
	mu   sync.Mutex
	last string // local address of the most recently dialled connection
}

// useH2 makes the plain HTTP routes of this client speak HTTP/2 (the server offers it: http.Server.ServeTLS);
// the akash client itself speaks HTTP/1.1. Websocket routes are always HTTP/1.1.
func (c *client) useH2() { c.tr.ForceAttemptHTTP2 = true }

func (g *gateway) newClient(col *collector, chain [][]byte, priv *ecdsa.PrivateKey, keepAlive bool, cache tls.ClientSessionCache) *client {
	c := &client{g: g, col: col}
	c.cfg = &tls.Config{InsecureSkipVerify: true, MinVersion: tls.VersionTLS13, ClientSessionCache: cache, ServerName: "gateway"} // nolint: gosec
	if len(chain) > 0 {
		c.cfg.Certificates = []tls.Certificate{{Certificate: chain, PrivateKey: priv}}
	}
	c.wcfg = c.cfg.Clone()
	c.wcfg.NextProtos = []string{"http/1.1"}
	c.tr = &http.Transport{TLSClientConfig: c.cfg, DisableKeepAlives: !keepAlive, MaxConnsPerHost: 1, DialContext: c.dial}
	return c
}

func (c *client) dial(ctx context.Context, network, addr string) (net.Conn, error) {
	var d net.Dialer
	conn, err := d.DialContext(ctx, network, addr)
	if err == nil {
		c.mu.Lock()
		c.last = conn.LocalAddr().String()
		c.mu.Unlock()
		if c.col != nil {
			c.g.back.bindConn(conn.LocalAddr().String(), c.col)
		}
	}
	return conn, err
}

func (c *client) close() { c.tr.CloseIdleConnections() }

type result struct {
	tls     bool
	tlsErr  string
	status  int
	resumed bool
	err     string // harness failure
}

// do performs one request; a transport failure is resolved by the server's own handshake error line.
func (c *client) do(r request) (res result) {
	var rerr error
	if r.ws {
		res.status, res.resumed, rerr = c.doWS(r)
	} else {
		res.status, res.resumed, rerr = c.doHTTP(r)
	}
	if rerr == nil {
		res.tls = true
		return
	}
	c.mu.Lock()
	from := c.last
	c.mu.Unlock()
	reason, ok := c.g.errs.wait(from, 90*time.Second)
	if !ok {
		res.err = "request failed but the server reported no handshake error: " + rerr.Error()
		return
	}
	res.tlsErr = reason
	return
}

func (c *client) doHTTP(r request) (int, bool, error) {
	cl := &http.Client{Transport: c.tr, Timeout: 240 * time.Second,
		CheckRedirect: func(*http.Request, []*http.Request) error { return http.ErrUseLastResponse }}
	var body io.Reader
	if r.body != "" {
		body = strings.NewReader(r.body)
	}
	req, err := http.NewRequest(r.method, "https://"+c.g.addr+r.path, body)
	if err != nil {
		return 0, false, err
	}
	req.Header.Set("Content-Type", "application/json; charset=UTF-8")
	for k, v := range r.header {
		req.Header.Set(k, v)
	}
	resp, err := cl.Do(req)
	if err != nil {
		return 0, false, err
	}
	_, _ = io.Copy(io.Discard, resp.Body)
	_ = resp.Body.Close()
	return resp.StatusCode, resp.TLS != nil && resp.TLS.DidResume, nil
}

func (c *client) doWS(r request) (int, bool, error) {
	d := websocket.Dialer{TLSClientConfig: c.wcfg, HandshakeTimeout: 240 * time.Second, NetDialContext: c.dial}
	h := http.Header{}
	for k, v := range r.header {
		h.Set(k, v)
	}
	conn, resp, err := d.Dial("wss://"+c.g.addr+r.path, h)
	if err != nil {
		if resp != nil { // the TLS layer let us in; the router answered with a plain HTTP status
			return resp.StatusCode, false, nil
		}
		return 0, false, err
	}
	defer conn.Close()
	_ = conn.SetReadDeadline(time.Now().Add(240 * time.Second))
	for {
		if _, _, err := conn.ReadMessage(); err != nil {
			break // the handler closes the stream once the (scripted) back end has answered
		}
	}
	return resp.StatusCode, false, nil
}

func decode(raw json.RawMessage) (In, rawIn, error) {
	var in In
	var ri rawIn
	if err := json.Unmarshal(raw, &ri); err != nil {
		return in, ri, err
	}
	dec := json.NewDecoder(bytes.NewReader(raw))
	dec.DisallowUnknownFields()
	if err := dec.Decode(&in); err != nil {
		return in, ri, err
	}
	return in, ri, nil
}

// setup builds the world of a line: registry on chain, presented chain, its owners registered with the back end.
// sharedWorld: what sessions of one world have in common (published once, read-only afterwards).
type sharedWorld struct {
	once    sync.Once
	keys    map[string]*ecdsa.PrivateKey
	onchain map[string][]byte
	err     error
}

var sharedWorlds sync.Map // world id -> *sharedWorld

func (g *gateway) setup(ch *chain, seed int64, in In) (*world, [][]byte, *ecdsa.PrivateKey, *collector, error) {
	id := in.I
	if in.World != 0 {
		id = in.World
	}
	w, err := newWorld(seed, id)
	if err != nil {
		return nil, nil, nil, nil, err
	}
	w.noEdges = in.Kind == "session"
	owners := []string{w.X.String(), w.Y.String()}
	if in.World == 0 {
		if err = w.publish(ch, in.Reg); err != nil {
			return nil, nil, nil, nil, err
		}
	} else {
		v, _ := sharedWorlds.LoadOrStore(in.World, &sharedWorld{})
		sw := v.(*sharedWorld)
		sw.once.Do(func() {
			if sw.err = w.publish(ch, in.Reg); sw.err == nil {
				sw.keys, sw.onchain = w.keys, w.onchain
			}
		})
		if sw.err != nil {
			return nil, nil, nil, nil, sw.err
		}
		// same accounts, registry and lease numbers; own copies of the maps and an own random stream
		w.keys, w.onchain = map[string]*ecdsa.PrivateKey{}, map[string][]byte{}
		for k, v := range sw.keys {
			w.keys[k] = v
		}
		for k, v := range sw.onchain {
			w.onchain[k] = v
		}
		w.reseed(seed, in.I)
		// calls that cannot be attributed to a connection (IsActive) go to the session of the account they name
		owners = nil
		if a, err := w.account(in.Cert.Cn); err == nil {
			owners = []string{a.String()}
		}
	}
	var chain [][]byte
	var priv *ecdsa.PrivateKey
	if in.Kind != "seq" && in.Kind != "race" {
		if chain, priv, err = w.present(in.Cert); err != nil {
			return nil, nil, nil, nil, err
		}
	}
	col := g.back.register(owners...)
	return w, chain, priv, col, nil
}

// runSeq: a sequence of requests by different client identities of ONE world (same registry, same lease numbers)
// on this worker's gateway, one after the other, each on a connection of its own. One recorded line per step.
func (g *gateway) runSeq(ch *chain, seed int64, in In, ri rawIn, emit func(Out)) {
	w, _, _, col, err := g.setup(ch, seed, in)
	if err != nil {
		emit(Out{Kind: "case", I: in.I, Reg: ri.Reg, Served: []Call{}, Err: err.Error()})
		return
	}
	defer g.back.unregister(col)
	for k, st := range in.Steps {
		out := Out{Kind: "case", I: in.I + k, Cert: ri.Steps[k].Cert, Reg: ri.Reg, Path: ri.Steps[k].Path, Served: []Call{}, Seq: in.I}
		chain, priv, err := w.present(st.Cert)
		if err != nil {
			out.Err = err.Error()
			emit(out)
			continue
		}
		req, err := w.request(st.Path, g.provider)
		if err != nil {
			out.Err = err.Error()
			emit(out)
			continue
		}
		out.URL = req.method + " " + req.path
		g.vpc(chain, &out)
		c := g.newClient(col, chain, priv, false, nil)
		res := c.do(req)
		c.close()
		out.Tls, out.TlsErr, out.Status, out.Err = res.tls, res.tlsErr, res.status, res.err
		for _, rc := range append(col.take(), g.back.takeOrphans()...) {
			out.Served = append(out.Served, w.project(rc, g.provider))
		}
		emit(out)
	}
}

func (g *gateway) vpc(chain [][]byte, out *Out) {
	if verr := g.srv.TLSConfig.VerifyPeerCertificate(chain, nil); verr != nil {
		out.VpcErr = verr.Error()
	} else {
		out.Vpc = true
	}
}

func (g *gateway) runCase(ch *chain, seed int64, in In, ri rawIn) (out Out) {
	out = Out{Kind: "case", I: in.I, Cert: ri.Cert, Reg: ri.Reg, Path: ri.Path, Served: []Call{}}
	w, chain, priv, col, err := g.setup(ch, seed, in)
	if err != nil {
		out.Err = err.Error()
		return
	}
	defer g.back.unregister(col)
	req, err := w.request(in.Path, g.provider)
	if err != nil {
		out.Err = err.Error()
		return
	}
	out.URL = req.method + " " + req.path
	g.vpc(chain, &out) // (a) the verification callback, directly
	c := g.newClient(col, chain, priv, false, nil)
	defer c.close()
	res := c.do(req) // (b) a real connection
	out.Tls, out.TlsErr, out.Status, out.Err = res.tls, res.tlsErr, res.status, res.err
	for _, rc := range append(col.take(), g.back.takeOrphans()...) { // a gateway of its own: every call is this case's
		out.Served = append(out.Served, w.project(rc, g.provider))
	}
	return
}

// runResume: connection 1 (full handshake, default request) with a client session cache; registry change;
// connection 2 with the cached session, the certificate configured or not.
func (g *gateway) runResume(ch *chain, seed int64, in In, ri rawIn) (out Out) {
	out = Out{Kind: "resume", I: in.I, Cert: ri.Cert, Reg: ri.Reg, Path: ri.Path, Served: []Call{}, Change: in.Change, Present: in.Present}
	w, chain, priv, col, err := g.setup(ch, seed, in)
	if err != nil {
		out.Err = err.Error()
		return
	}
	defer g.back.unregister(col)
	first, err := w.request(Path{Route: "lstatus", Dseq: "own", Gseq: "own", Oseq: "own", Extra: "none"}, g.provider)
	if err != nil {
		out.Err = err.Error()
		return
	}
	req, err := w.request(in.Path, g.provider)
	if err != nil {
		out.Err = err.Error()
		return
	}
	out.URL = req.method + " " + req.path
	g.vpc(chain, &out)
	cache := tls.NewLRUClientSessionCache(4)
	c1 := g.newClient(col, chain, priv, false, cache)
	r1 := c1.do(first)
	c1.close()
	if r1.err != "" {
		out.Err = r1.err
		return
	}
	out.Tls0 = &r1.tls
	col.take()
	g.back.takeOrphans()
	switch in.Change {
	case "none":
	case "revoke":
		if e, ok := in.Reg["X/s1"]; ok && e.State == "valid" {
			if err := ch.Revoke(w.X, w.serials["s1"].String()); err != nil {
				out.Err = err.Error()
				return
			}
		}
	default:
		out.Err = "unknown change " + in.Change
		return
	}
	var c2 *client
	switch in.Present {
	case "same":
		c2 = g.newClient(col, chain, priv, false, cache)
	case "nocert":
		c2 = g.newClient(col, nil, nil, false, cache)
	default:
		out.Err = "unknown present " + in.Present
		return
	}
	defer c2.close()
	res := c2.do(req)
	out.Tls, out.TlsErr, out.Status, out.Err, out.Resumed = res.tls, res.tlsErr, res.status, res.err, &res.resumed
	for _, rc := range append(col.take(), g.back.takeOrphans()...) {
		out.Served = append(out.Served, w.project(rc, g.provider))
	}
	return
}

// runSession: one client identity, a sequence of requests (HTTP requests share a keep-alive connection), on a
// gateway shared with every other session. Back-end calls are attributed by the owner address they carry.
func (g *gateway) runSession(ch *chain, seed int64, n int, in In, ri rawIn, emit func(Out)) {
	fail := func(err error) {
		emit(Out{Kind: "case", I: in.I, Cert: ri.Cert, Reg: ri.Reg, Served: []Call{}, Session: n, Err: err.Error()})
	}
	w, chain, priv, col, err := g.setup(ch, seed, in)
	if err != nil {
		fail(err)
		return
	}
	defer g.back.unregister(col)
	var probe Out
	g.vpc(chain, &probe)
	c := g.newClient(col, chain, priv, true, nil)
	defer c.close()
	if n%2 == 0 {
		c.useH2() // free-running: half of the sessions multiplex their plain requests over one HTTP/2 connection
	}
	for k, p := range in.Paths {
		out := Out{Kind: "case", I: in.I + k, Cert: ri.Cert, Reg: ri.Reg, Path: ri.Paths[k], Served: []Call{}, Session: n,
			Vpc: probe.Vpc, VpcErr: probe.VpcErr}
		req, err := w.request(p, g.provider)
		if err != nil {
			out.Err = err.Error()
			emit(out)
			continue
		}
		out.URL = req.method + " " + req.path
		res := c.do(req)
		out.Tls, out.TlsErr, out.Status, out.Err = res.tls, res.tlsErr, res.status, res.err
		for _, rc := range col.take() {
			out.Served = append(out.Served, w.project(rc, g.provider))
		}
		emit(out)
	}
}

// runRace: overlapping handshakes. The chain query for the holder's certificate id is held at a gate; the holder's
// handshake (step 1) is started and the harness waits -- event driven -- until its query has arrived at the gate, i.e.
// the handshake sits inside VerifyPeerCertificate; the joiners (steps 2..) are started on connections of their own;
// the harness waits until every joiner that must look the same id up has arrived at the gate too, and releases it.
// If the gateway does not send a joiner to the chain at all (it shares the holder's lookup), that second wait ends by
// its bound instead: the bound is reached only on such code, it can make the harness miss, never accuse.
func (g *gateway) runRace(ch *chain, seed int64, in In, ri rawIn, emit func(Out)) {
	w, _, _, col0, err := g.setup(ch, seed, in)
	if err != nil {
		emit(Out{Kind: "case", I: in.I, Reg: ri.Reg, Served: []Call{}, Err: err.Error()})
		return
	}
	g.back.unregister(col0) // attribution is per connection
	type stepRun struct {
		out   Out
		chain [][]byte
		priv  *ecdsa.PrivateKey
		req   request
		ok    bool
	}
	steps := make([]*stepRun, len(in.Steps))
	for k, st := range in.Steps {
		sr := &stepRun{out: Out{Kind: "case", I: in.I + k, Cert: ri.Steps[k].Cert, Reg: ri.Reg, Path: ri.Steps[k].Path, Served: []Call{}, Seq: in.I}}
		steps[k] = sr
		if sr.chain, sr.priv, err = w.present(st.Cert); err != nil {
			sr.out.Err = err.Error()
			continue
		}
		if sr.req, err = w.request(st.Path, g.provider); err != nil {
			sr.out.Err = err.Error()
			continue
		}
		sr.out.URL = sr.req.method + " " + sr.req.path
		sr.ok = true
	}
	run := func(sr *stepRun, done *sync.WaitGroup) {
		defer done.Done()
		col := g.back.register()
		defer g.back.unregister(col)
		c := g.newClient(col, sr.chain, sr.priv, false, nil)
		res := c.do(sr.req)
		c.close()
		sr.out.Tls, sr.out.TlsErr, sr.out.Status, sr.out.Err = res.tls, res.tlsErr, res.status, res.err
		for _, rc := range col.take() {
			sr.out.Served = append(sr.out.Served, w.project(rc, g.provider))
		}
	}
	holder := in.Steps[0].Cert
	owner, oerr := w.account(holder.Cn)
	serial := w.serials[holder.Serial]
	if !steps[0].ok || oerr != nil || serial == nil {
		for _, sr := range steps {
			if sr.out.Err == "" {
				sr.out.Err = "race: holder cannot be set up"
			}
			emit(sr.out)
		}
		return
	}
	gt := ch.hold(owner.String(), serial.String())
	var done sync.WaitGroup
	done.Add(1)
	go run(steps[0], &done)
	if !gt.waitArrived(1, 120*time.Second) {
		steps[0].out.Err = "race: the holder's chain query never arrived at the gate"
	}
	expect := 1
	for k := 1; k < len(steps); k++ {
		if !steps[k].ok {
			continue
		}
		c := in.Steps[k].Cert
		if c.ChainLen == 1 && c.Cn == holder.Cn && c.Serial == holder.Serial && c.Issuer == "self" {
			expect++ // verified on its own, this handshake looks the same certificate id up
		}
		done.Add(1)
		go run(steps[k], &done)
	}
	gt.waitArrived(expect, 3*time.Second)
	ch.unhold(owner.String(), serial.String(), gt)
	done.Wait()
	for _, sr := range steps {
		if sr.ok { // the verification callback on its own, after the fact
			g.vpc(sr.chain, &sr.out)
		}
		emit(sr.out)
	}
}

type job struct {
	in In
	ri rawIn
}

// runBursts: the stream storm. Round k: every burst session opens a TLS connection of its own (full handshake with its
// certificate), all of them wait at a barrier, and then all send request k -- a real websocket upgrade on a streaming
// route -- at the same instant over the connections they hold. Different authenticated accounts are thus inside the
// same handler at the same time. Every connection has a collector of its own, so each back-end call is attributed to
// the very stream (and account) it was made for. Event driven: WaitGroup + channel close, no sleeps.
func (g *gateway) runBursts(ch *chain, seed int64, bursts []job, emit func(Out)) {
	type bsess struct {
		j     job
		w     *world
		chain [][]byte
		priv  *ecdsa.PrivateKey
		probe Out
	}
	var ss []*bsess
	rounds := 0
	for n, j := range bursts {
		w, chain, priv, col, err := g.setup(ch, seed, j.in)
		if err != nil {
			emit(Out{Kind: "case", I: j.in.I, Cert: j.ri.Cert, Reg: j.ri.Reg, Served: []Call{}, Session: n + 1, Err: err.Error()})
			continue
		}
		g.back.unregister(col) // attribution is per connection here
		b := &bsess{j: j, w: w, chain: chain, priv: priv}
		g.vpc(chain, &b.probe)
		ss = append(ss, b)
		if len(j.in.Paths) > rounds {
			rounds = len(j.in.Paths)
		}
	}
	for k := 0; k < rounds; k++ {
		var ready, done sync.WaitGroup
		start := make(chan struct{})
		for n, b := range ss {
			if k >= len(b.j.in.Paths) {
				continue
			}
			ready.Add(1)
			done.Add(1)
			go func(n int, b *bsess) {
				defer done.Done()
				out := Out{Kind: "case", I: b.j.in.I + k, Cert: b.j.ri.Cert, Reg: b.j.ri.Reg, Path: b.j.ri.Paths[k], Served: []Call{},
					Session: 100000 + n, Vpc: b.probe.Vpc, VpcErr: b.probe.VpcErr}
				col := g.back.register()
				defer g.back.unregister(col)
				c := g.newClient(col, b.chain, b.priv, false, nil)
				req, rerr := b.w.request(b.j.in.Paths[k], g.provider)
				var conn net.Conn
				var derr error
				if rerr == nil {
					var raw net.Conn
					if raw, derr = c.dial(context.Background(), "tcp", g.addr); derr == nil {
						tc := tls.Client(raw, c.wcfg)
						if derr = tc.Handshake(); derr == nil {
							conn = tc
						} else {
							_ = raw.Close()
						}
					}
				}
				ready.Done()
				<-start
				switch {
				case rerr != nil:
					out.Err = rerr.Error()
				case !req.ws:
					out.Err = "burst sessions carry streaming routes only"
				case derr != nil:
					out.Err = "burst dial: " + derr.Error()
				default:
					out.URL = req.method + " " + req.path
					res := c.doOver(conn, req)
					out.Tls, out.TlsErr, out.Status, out.Err = res.tls, res.tlsErr, res.status, res.err
					for _, rc := range col.take() {
						out.Served = append(out.Served, b.w.project(rc, g.provider))
					}
				}
				if conn != nil {
					_ = conn.Close()
				}
				emit(out)
			}(n, b)
		}
		ready.Wait()
		close(start)
		done.Wait()
	}
}

// doOver sends a websocket upgrade over an already established TLS connection.
func (c *client) doOver(conn net.Conn, r request) (res result) {
	d := websocket.Dialer{HandshakeTimeout: 240 * time.Second,
		NetDialContext: func(context.Context, string, string) (net.Conn, error) { return conn, nil }}
	h := http.Header{}
	for k, v := range r.header {
		h.Set(k, v)
	}
	ws, resp, err := d.Dial("ws://"+c.g.addr+r.path, h) // "ws": gorilla does not wrap the connection we hand it
	if err != nil {
		if resp != nil {
			res.tls, res.status = true, resp.StatusCode
			return
		}
		reason, ok := c.g.errs.wait(conn.LocalAddr().String(), 90*time.Second)
		if !ok {
			res.err = "stream failed but the server reported no handshake error: " + err.Error()
			return
		}
		res.tlsErr = reason
		return
	}
	res.tls, res.status = true, resp.StatusCode
	_ = ws.SetReadDeadline(time.Now().Add(240 * time.Second))
	for {
		if _, _, err := ws.ReadMessage(); err != nil {
			break
		}
	}
	return
}

// Main: vh gateway run -cases <ndjson> -out <ndjson> [-seed N] [-workers W]
func Main(args []string) int {
	if len(args) < 1 || args[0] != "run" {
		fmt.Fprintln(os.Stderr, "usage: vh gateway run -cases FILE -out FILE [-seed N] [-workers W]")
		return 2
	}
	fs := flag.NewFlagSet("gateway", flag.ContinueOnError)
	casesPath := fs.String("cases", "", "ndjson of abstract cases printed by TLC (kind, i added by the check)")
	outPath := fs.String("out", "", "ndjson of recorded outcomes")
	seed := fs.Int64("seed", 1, "seed of the concretisation")
	workers := fs.Int("workers", runtime.NumCPU(), "parallel gateways / concurrent sessions")
	if err := fs.Parse(args[1:]); err != nil || *casesPath == "" || *outPath == "" {
		return 2
	}
	sdkutil.InitSDKConfig()

	var lines []json.RawMessage
	if err := vcommon.ReadLines(*casesPath, func(raw json.RawMessage) error {
		lines = append(lines, append(json.RawMessage(nil), raw...))
		return nil
	}); err != nil {
		fmt.Fprintln(os.Stderr, "gatewayh:", err)
		return 2
	}
	ch, err := newChain()
	if err != nil {
		fmt.Fprintln(os.Stderr, "gatewayh:", err)
		return 2
	}
	wr, err := vcommon.NewWriter(*outPath)
	if err != nil {
		fmt.Fprintln(os.Stderr, "gatewayh:", err)
		return 2
	}
	if *workers < 1 {
		*workers = 1
	}
	t0 := time.Now()
	var mu sync.Mutex
	failed, written := 0, 0
	emit := func(out Out) {
		mu.Lock()
		written++
		if out.Err != "" {
			failed++
			if failed <= 5 {
				fmt.Fprintf(os.Stderr, "gatewayh: line %d: %s\n", out.I, out.Err)
			}
		}
		mu.Unlock()
		if err := wr.Write(out); err != nil {
			fmt.Fprintln(os.Stderr, "gatewayh:", err)
		}
	}

	var single, sessions, bursts []job
	for n, raw := range lines {
		in, ri, err := decode(raw)
		if err != nil {
			fmt.Fprintf(os.Stderr, "gatewayh: input line %d: %v\n", n+1, err)
			return 2
		}
		switch in.Kind {
		case "case", "resume", "seq", "race":
			single = append(single, job{in, ri})
		case "session":
			if in.Burst {
				bursts = append(bursts, job{in, ri})
			} else {
				sessions = append(sessions, job{in, ri})
			}
		default:
			fmt.Fprintf(os.Stderr, "gatewayh: input line %d: unknown kind %q\n", n+1, in.Kind)
			return 2
		}
	}

	// phase 1: deterministic replay, one gateway per worker, one case at a time on each
	if len(single) > 0 {
		jobs := make(chan job)
		var wg sync.WaitGroup
		nw := *workers
		if nw > len(single) {
			nw = len(single)
		}
		for n := 0; n < nw; n++ {
			g, err := newGateway(ch, n)
			if err != nil {
				fmt.Fprintln(os.Stderr, "gatewayh:", err)
				return 2
			}
			wg.Add(1)
			go func(g *gateway) {
				defer wg.Done()
				defer g.close()
				for j := range jobs {
					if j.in.Kind == "resume" {
						emit(g.runResume(ch, *seed, j.in, j.ri))
					} else if j.in.Kind == "seq" {
						g.runSeq(ch, *seed, j.in, j.ri, emit)
					} else if j.in.Kind == "race" {
						g.runRace(ch, *seed, j.in, j.ri, emit)
					} else {
						emit(g.runCase(ch, *seed, j.in, j.ri))
					}
				}
			}(g)
		}
		for _, j := range single {
			jobs <- j
		}
		close(jobs)
		wg.Wait()
	}

	// phase 2: free running, all sessions against ONE gateway, `workers` of them at any time
	orphans := 0
	if len(sessions)+len(bursts) > 0 {
		g, err := newGateway(ch, 1000)
		if err != nil {
			fmt.Fprintln(os.Stderr, "gatewayh:", err)
			return 2
		}
		sem := make(chan struct{}, 4**workers) // many more clients than cores: the point is contention
		var wg sync.WaitGroup
		for n, j := range sessions {
			wg.Add(1)
			sem <- struct{}{}
			go func(n int, j job) {
				defer wg.Done()
				defer func() { <-sem }()
				g.runSession(ch, *seed, n+1, j.in, j.ri, emit)
			}(n, j)
		}
		wg.Wait()
		g.runBursts(ch, *seed, bursts, emit)
		// calls nobody can account for (unknown owner, or arrived when their owner had no request in flight)
		for _, rc := range g.back.takeOrphans() {
			orphans++
			w, _ := newWorld(*seed, 0)
			// judged like a request nobody was accepted for: no certificate, empty registry
			emit(Out{Kind: "case", I: -orphans, Cert: noCertJSON, Reg: emptyRegJSON, Path: defaultPathJSON,
				Served: []Call{w.project(rc, g.provider)}, URL: "ORPHAN: a back-end call no session accounts for"})
		}
		g.close()
	}
	if err := wr.Close(); err != nil {
		fmt.Fprintln(os.Stderr, "gatewayh:", err)
		return 2
	}
	fmt.Fprintf(os.Stderr, "gatewayh: %d lines in (%d sessions), %d lines out, %d harness failures, %d orphan calls, %d chain queries, %.1fs\n",
		len(lines), len(sessions), written, failed, orphans, ch.queries, time.Since(t0).Seconds())
	if failed > 0 {
		return 2
	}
	return 0
}
