package bush

import (
	"errors"
	"sync"
	"sync/atomic"
	"time"

	"github.com/ovrclk/akash/pubsub"
)

// session is one fresh real bus plus the driver-side bookkeeping of a run.
type session struct {
	bus     pubsub.Bus
	rootID  string
	timeout time.Duration

	mu      sync.Mutex
	subs    map[int]pubsub.Subscriber // driver handle -> subscriber (nil: creation failed)
	parent  map[int]int               // driver handle -> parent handle (0 = bus)
	closed  map[int]bool              // Close() has been called on the handle (0 = bus)
	nextH   int
	nextEv  int
	blocked bool

	accepted int64 // publishes the bus accepted
	fanouts0 int64 // value of rootFanouts when the session started
	hung    bool // a Close() did not return (its caller is stuck; publishers and other subscribers are probed by the rest of the run)
	closers sync.WaitGroup
}

func newSession(timeout time.Duration) *session {
	b := pubsub.NewBus()
	return &session{fanouts0: atomic.LoadInt64(&rootFanouts), bus: b, rootID: ptr(b), timeout: timeout, subs: map[int]pubsub.Subscriber{},
		parent: map[int]int{}, closed: map[int]bool{}, nextH: 1, nextEv: 1}
}

// within runs fn in its own goroutine and reports whether it returned within the timeout.
func (s *session) within(fn func()) bool { return s.wait(fn, true) }

// wait is within with a choice of what a timeout means: a blocked publisher/subscriber (mark) or only a
// stuck auxiliary call (Close(), waiting for Done()), which makes the process unusable for further runs.
func (s *session) wait(fn func(), mark bool) bool {
	done := make(chan struct{})
	go func() { fn(); close(done) }()
	t := time.NewTimer(s.timeout)
	defer t.Stop()
	select {
	case <-done:
		return true
	case <-t.C:
		s.mu.Lock()
		if mark {
			s.blocked = true
		} else {
			s.hung = true
		}
		s.mu.Unlock()
		return false
	}
}

func (s *session) isBlocked() bool { s.mu.Lock(); defer s.mu.Unlock(); return s.blocked }

// isDirty: goroutines of this run may be stuck; the process must not be reused for another run.
func (s *session) isDirty() bool { s.mu.Lock(); defer s.mu.Unlock(); return s.blocked || s.hung }

func (s *session) newEvent() int { s.mu.Lock(); defer s.mu.Unlock(); e := s.nextEv; s.nextEv++; return e }

// live: neither the handle nor any ancestor (nor the bus) has had Close() called on it.
func (s *session) live(h int) bool {
	s.mu.Lock()
	defer s.mu.Unlock()
	for {
		if s.closed[h] {
			return false
		}
		if h == 0 {
			return true
		}
		if s.subs[h] == nil {
			return false
		}
		h = s.parent[h]
	}
}

func flagOf(err error) string {
	if err == nil {
		return "ok"
	}
	if errors.Is(err, pubsub.ErrNotRunning) {
		return "notrunning"
	}
	return "error"
}

func (s *session) publish(ev int) string {
	drv("pubcall", s.rootID, "ev", ev)
	var err error
	if !s.within(func() { err = s.bus.Publish(ev) }) {
		drv("pubret", s.rootID, "ev", ev, "flag", "blocked")
		return "blocked"
	}
	if err == nil {
		atomic.AddInt64(&s.accepted, 1)
	}
	drv("pubret", s.rootID, "ev", ev, "flag", flagOf(err))
	return flagOf(err)
}

// fanoutsSettled waits until the bus's loop has finished the fan-out of every event it accepted so far, so that
// the next arrival at the "bus.fanout" gate belongs to the next publish.
func (s *session) fanoutsSettled() bool {
	deadline := time.Now().Add(s.timeout)
	for atomic.LoadInt64(&rootFanouts)-s.fanouts0 < atomic.LoadInt64(&s.accepted) {
		if time.Now().After(deadline) {
			return false
		}
		time.Sleep(50 * time.Microsecond)
	}
	return true
}

// subscribe creates a subscriber on the bus (ph = 0) or a clone of handle ph; returns the new handle.
func (s *session) subscribe(ph int) (int, string) {
	s.mu.Lock()
	h := s.nextH
	s.nextH++
	var p pubsub.Subscriber
	if ph != 0 {
		p = s.subs[ph]
	}
	s.parent[h] = ph
	s.mu.Unlock()
	if ph != 0 && p == nil {
		return h, "skipped"
	}
	id := s.rootID
	if ph != 0 {
		id = ptr(p)
	}
	drv("subcall", id)
	var sub pubsub.Subscriber
	var err error
	ok := s.within(func() {
		if ph == 0 {
			sub, err = s.bus.Subscribe()
		} else {
			sub, err = p.Clone()
		}
	})
	if !ok {
		drv("subret", id, "flag", "blocked")
		return h, "blocked"
	}
	if err != nil {
		drv("subret", id, "flag", flagOf(err))
		return h, flagOf(err)
	}
	s.mu.Lock()
	s.subs[h] = sub
	s.mu.Unlock()
	drv("subret", id, "child", ptr(sub), "flag", "ok")
	return h, "ok"
}

func (s *session) sub(h int) pubsub.Subscriber { s.mu.Lock(); defer s.mu.Unlock(); return s.subs[h] }

// read takes one event from the subscriber's channel, waiting at most d.
func (s *session) read(h int, d time.Duration) (int, string) {
	sub := s.sub(h)
	if sub == nil {
		return 0, "skipped"
	}
	t := time.NewTimer(d)
	defer t.Stop()
	select {
	case v := <-sub.Events():
		ev, _ := v.(int)
		drv("read", ptr(sub), "ev", ev, "flag", "ok")
		return ev, "ok"
	case <-t.C:
		drv("read", ptr(sub), "flag", "timeout")
		s.mu.Lock()
		s.blocked = true // an owed event did not arrive: the run ends here (see Main: exit code 3)
		s.mu.Unlock()
		return 0, "timeout"
	}
}

// closeCall marks the handle closed and logs the call (before Close() is entered, so the line precedes the
// loop's "stop" trace point); doClose performs the blocking Close().
func (s *session) closeCall(h int) (func(), string, bool) {
	var id string
	var fn func()
	if h == 0 {
		id, fn = s.rootID, s.bus.Close
	} else {
		sub := s.sub(h)
		if sub == nil {
			return nil, "", false
		}
		id, fn = ptr(sub), sub.Close
	}
	s.mu.Lock()
	s.closed[h] = true
	s.mu.Unlock()
	drv("closecall", id)
	return fn, id, true
}

func (s *session) doClose(fn func(), id string) string {
	if !s.wait(fn, false) { // not a blocked publisher/subscriber by itself: the run goes on and probes those
		drv("closeret", id, "flag", "blocked")
		// the closer is stuck: are publishers stuck with it?  (a publish on a closing bus must return, with
		// ErrNotRunning or nil)
		s.publish(s.newEvent())
		return "blocked"
	}
	drv("closeret", id, "flag", "ok")
	return "ok"
}
