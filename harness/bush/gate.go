package bush

import (
	"sync"
	"time"

	"github.com/ovrclk/akash/util/veriftrace"
)

// gateCtl holds the bus's loop at its "bus.fanout" scheduling point (pubsub/bus.go: after an event has been
// received, before it is handed to any subscriber) so that a script can clone, read and close subscribers
// while that event is in flight -- deterministically.
type gateCtl struct {
	mu      sync.Mutex
	armed   bool
	waiting chan struct{} // non-nil while the loop is held
	arrived chan struct{}
}

var gate = &gateCtl{}

func installGate() {
	veriftrace.SetGate(func(name string) {
		if name != "bus.fanout" {
			return
		}
		gate.mu.Lock()
		if !gate.armed {
			gate.mu.Unlock()
			return
		}
		gate.armed = false
		ch := make(chan struct{})
		gate.waiting = ch
		close(gate.arrived)
		gate.mu.Unlock()
		<-ch
	})
}

// arm makes the next fan-out stop at the gate.
func (g *gateCtl) arm() {
	g.mu.Lock()
	g.armed = true
	g.arrived = make(chan struct{})
	g.mu.Unlock()
}

// waitHeld waits until the loop has reached the gate.
func (g *gateCtl) waitHeld(d time.Duration) bool {
	g.mu.Lock()
	ch := g.arrived
	g.mu.Unlock()
	select {
	case <-ch:
		return true
	case <-time.After(d):
		return false
	}
}

// release lets a held loop go on and disarms the gate.
func (g *gateCtl) release() {
	g.mu.Lock()
	g.armed = false
	if g.waiting != nil {
		close(g.waiting)
		g.waiting = nil
	}
	g.mu.Unlock()
}

func (g *gateCtl) holding() bool { g.mu.Lock(); defer g.mu.Unlock(); return g.waiting != nil }
