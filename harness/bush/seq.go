package bush

import (
	"fmt"
	"sort"
	"time"
)

// Op is one API call of a TLC-generated script (spec/bus/BusGen.tla): pub, sub n (n = 0: Subscribe on the bus,
// else Clone of subscriber n), hpub (publish and hold the bus's loop before the fan-out), release, read n, aclose n (Close() in its own goroutine), join n (wait for that Close()),
// close n (Close() and wait).  Subscribers are numbered in creation order, as in the model.
type Op struct {
	Op string `json:"op"`
	N  int    `json:"n"`
}

type Script struct {
	ID  string `json:"id"`
	Ops []Op   `json:"ops"`
}

// finish ends a run: joins outstanding Close() calls, publishes a sentinel event and lets every live
// subscriber read up to it (so "nothing owed is missing" is decided by an event, not by a sleep), logs "end",
// then closes the bus.
func (s *session) finish(pending map[int]chan string) {
	hs := make([]int, 0, len(pending))
	for h := range pending {
		hs = append(hs, h)
	}
	sort.Ints(hs)
	for _, h := range hs {
		<-pending[h]
	}
	if !s.isBlocked() && s.live(0) {
		sentinel := s.newEvent()
		if s.publish(sentinel) == "ok" {
			s.mu.Lock()
			n := s.nextH
			s.mu.Unlock()
			for h := 1; h < n && !s.isBlocked(); h++ {
				if !s.live(h) {
					continue
				}
				for {
					ev, flag := s.read(h, s.timeout)
					if flag != "ok" || ev == sentinel {
						break
					}
				}
			}
		}
	}
	drv("end", s.rootID)
	if !s.isBlocked() && s.live(0) {
		if fn, id, ok := s.closeCall(0); ok {
			s.doClose(fn, id)
		}
	}
}

// waitAllDone waits until every subscriber's loop has completed (its last trace point is emitted before
// Done() is closed), so that no line of this run can leak into the next recording.
func (s *session) waitAllDone() {
	s.mu.Lock()
	subs := make([]interface{ Done() <-chan struct{} }, 0, len(s.subs))
	for _, sub := range s.subs {
		if sub != nil {
			subs = append(subs, sub)
		}
	}
	s.mu.Unlock()
	for _, sub := range subs {
		sub := sub
		s.wait(func() { <-sub.Done() }, false)
	}
}

// runScript replays one script on a fresh bus and returns the normalised trace of the run.
func runScript(sc Script, run int, timeout time.Duration) ([]Line, bool, error) {
	s := newSession(timeout)
	rec := startRecording()
	pending := map[int]chan string{}
	for _, op := range sc.Ops {
		if s.isBlocked() {
			break
		}
		// the bus's loop is needed by these: let a held fan-out go on first
		if op.Op == "pub" || op.Op == "hpub" || op.Op == "join" || op.Op == "close" || op.Op == "release" ||
			(op.Op == "sub" && op.N == 0) {
			gate.release()
		}
		switch op.Op {
		case "release":
		case "hpub":
			// publish and hold the bus's loop between receiving the event and handing it to any subscriber
			if !s.fanoutsSettled() {
				s.publish(s.newEvent())
				break
			}
			gate.arm()
			if s.publish(s.newEvent()) != "ok" || !gate.waitHeld(s.timeout) {
				gate.release()
			}
		case "pub":
			s.publish(s.newEvent())
		case "sub":
			s.subscribe(op.N)
		case "read":
			if s.live(op.N) {
				s.read(op.N, s.timeout)
			}
		case "aclose", "close":
			if _, dup := pending[op.N]; dup {
				continue
			}
			fn, id, ok := s.closeCall(op.N)
			if !ok {
				continue
			}
			ch := make(chan string, 1)
			pending[op.N] = ch
			go func() { ch <- s.doClose(fn, id) }()
			if op.Op == "close" {
				<-ch
				ch <- "ok"
			}
		case "join":
			if ch, ok := pending[op.N]; ok {
				r := <-ch
				ch <- r
			}
		default:
			return nil, false, fmt.Errorf("unknown op %q", op.Op)
		}
	}
	gate.release()
	s.finish(pending)
	blocked := s.isDirty()
	if !blocked {
		s.waitAllDone()
		blocked = s.isDirty()
	}
	evs := rec.stop()
	lines, err := normalise(s.rootID, evs, run)
	if err != nil {
		return nil, blocked, err
	}
	head := Line{K: "reset", Flag: "seq", Buf: []int{}, Run: run}
	return append([]Line{head}, lines...), blocked, nil
}
