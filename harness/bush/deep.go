package bush

import (
	"sync"
	"time"
)

// runDeep is the deterministic deep-lag execution: a stalled subscriber, a fast subscriber and a late clone of
// the stalled one.  n events are published while the stalled reader reads nothing (its backlog grows to n);
// the fast reader must get all of them; then the stalled reader hands out a few, is cloned, and the final
// drain reads everything that is owed from the stalled subscriber and from its clone.
func runDeep(n int, run int, timeout time.Duration) ([]Line, bool, error) {
	s := newSession(timeout)
	rec := startRecording()
	stalled, _ := s.subscribe(0)
	fast, _ := s.subscribe(0)
	var rwg sync.WaitGroup
	stop := make(chan struct{})
	if sub := s.sub(fast); sub != nil {
		rwg.Add(1)
		go func() {
			defer rwg.Done()
			for {
				select {
				case <-stop:
					return
				case v := <-sub.Events():
					ev, _ := v.(int)
					drv("read", ptr(sub), "ev", ev, "flag", "ok")
				}
			}
		}()
	}
	for i := 0; i < n && !s.isBlocked(); i++ {
		s.publish(s.newEvent())
	}
	for i := 0; i < 10 && !s.isBlocked(); i++ {
		s.read(stalled, s.timeout)
	}
	if !s.isBlocked() {
		s.subscribe(stalled) // late clone: owed exactly the n-10 events not yet handed out, plus later ones
	}
	close(stop)
	rwg.Wait()
	s.finish(map[int]chan string{})
	blocked := s.isDirty()
	if !blocked {
		s.waitAllDone()
		blocked = s.isDirty()
	}
	lines, err := normalise(s.rootID, rec.stop(), run)
	if err != nil {
		return nil, blocked, err
	}
	head := Line{K: "reset", Flag: "conc", Buf: []int{}, Run: run}
	return append([]Line{head}, lines...), blocked, nil
}
