package bush

import (
	"math/rand"
	"sync"
	"time"
)

// runLag is the "lagging reader" execution: subscribers fall behind (events pile up in their buffers) and then
// resume reading while publishers are still publishing, so that in a subscriber's select both the hand-over of
// the oldest buffered event and the arrival of a new one are ready again and again.  One subscriber never
// reads; one clone is taken from a lagging subscriber in the middle of the stream.
func runLag(seed int64, run int, timeout time.Duration) ([]Line, bool, error) {
	rng := rand.New(rand.NewSource(seed*7919 + int64(run)))
	total, backlog, nPub := 30+rng.Intn(30), 4+rng.Intn(10), 1+rng.Intn(2)
	s := newSession(timeout)
	rec := startRecording()
	pending := map[int]chan string{}

	h1, _ := s.subscribe(0)
	s.subscribe(0) // never read until the final drain
	h3, _ := s.subscribe(0)
	for i := 0; i < backlog; i++ {
		s.publish(s.newEvent())
	}
	var wg, rwg sync.WaitGroup
	stop := make(chan struct{})
	for p := 0; p < nPub; p++ {
		wg.Add(1)
		go func() {
			defer wg.Done()
			for i := 0; i < total/nPub && !s.isBlocked(); i++ {
				s.publish(s.newEvent())
			}
		}()
	}
	reader := func(h int, pause int) {
		sub := s.sub(h)
		if sub == nil {
			return
		}
		r := rand.New(rand.NewSource(rng.Int63()))
		rwg.Add(1)
		go func() {
			defer rwg.Done()
			n := 0
			for {
				select {
				case <-stop:
					return
				case v := <-sub.Events():
					ev, _ := v.(int)
					drv("read", ptr(sub), "ev", ev, "flag", "ok")
					n++
					if pause > 0 && n%pause == 0 { // fall behind again, then catch up
						time.Sleep(time.Duration(100+r.Intn(400)) * time.Microsecond)
					}
				}
			}
		}()
	}
	reader(h1, 0)
	reader(h3, 7+rng.Intn(10))
	// a clone of the lagging subscriber, taken while the stream is running
	time.Sleep(time.Duration(rng.Intn(300)) * time.Microsecond)
	if h4, flag := s.subscribe(h3); flag == "ok" {
		reader(h4, 0)
	}
	wg.Wait()
	close(stop)
	rwg.Wait()
	s.finish(pending)
	blocked := s.isDirty()
	if !blocked {
		s.waitAllDone()
		blocked = s.isDirty()
	}
	lines, err := normalise(s.rootID, rec.stop(), run)
	if err != nil {
		return nil, blocked, err
	}
	head := Line{K: "reset", Flag: "conc", Buf: []int{}, Run: run}
	return append([]Line{head}, lines...), blocked, nil
}
