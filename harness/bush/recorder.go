// Package bush is the conformance harness for the pubsub event bus (property C15).
//
// It drives the real pubsub.NewBus() through its public API, records the loop trace points of
// pubsub/bus.go (util/veriftrace, build tag verif) together with what the driver goroutines called and
// received, normalises the recording (model node ids, rendezvous order) and writes one ndjson line per step
// for TLC (spec/bus/BusTrace.tla).
package bush

import (
	"fmt"
	"sort"
	"sync"
	"sync/atomic"

	"github.com/ovrclk/akash/pubsub"
	"github.com/ovrclk/akash/util/veriftrace"
)

// Line is one step of the normalised trace. Every field is always present so that the TLA+ side needs no
// optional-field handling.
type Line struct {
	K    string `json:"k"`    // kind (hook: stop emit recv fwdone sub unsub done; driver: pubcall pubret subcall subret read closecall closeret end reset)
	N    int    `json:"n"`    // node the step belongs to (0 = the bus)
	C    int    `json:"c"`    // child / created node (0: none)
	Ev   int    `json:"ev"`   // event value (0: none)
	Buf  []int  `json:"buf"`  // undelivered buffer of node n after the step (hook lines)
	Flag string `json:"flag"` // ok | notrunning | blocked | timeout | mode of a reset line
	Run  int    `json:"run"`  // run number inside the file
}

// recorder collects veriftrace events of one run.
type recorder struct {
	mu  sync.Mutex
	evs []veriftrace.Event
}

var (
	curMu  sync.Mutex
	curRec *recorder

	// rootFanouts counts the fan-outs bus loops have completed ("fwdone" trace point of a root) in this process
	rootFanouts int64
)

func installSink() {
	veriftrace.SetSink(func(e veriftrace.Event) {
		if e.Component != "bus" && e.Component != "drv" {
			return
		}
		if e.Component == "bus" && e.Event == "fwdone" {
			if root, _ := e.KV["root"].(bool); root {
				atomic.AddInt64(&rootFanouts, 1)
			}
		}
		curMu.Lock()
		r := curRec
		curMu.Unlock()
		if r == nil {
			return
		}
		r.mu.Lock()
		r.evs = append(r.evs, e)
		r.mu.Unlock()
	})
}

func startRecording() *recorder {
	r := &recorder{}
	curMu.Lock()
	curRec = r
	curMu.Unlock()
	return r
}

func (r *recorder) stop() []veriftrace.Event {
	curMu.Lock()
	curRec = nil
	curMu.Unlock()
	r.mu.Lock()
	defer r.mu.Unlock()
	out := append([]veriftrace.Event(nil), r.evs...)
	sort.Slice(out, func(i, j int) bool { return out[i].Seq < out[j].Seq })
	return out
}

// drv logs a driver-side step through the same process-wide sequence counter as the loop hooks.
// id is the %p identity of the bus/subscriber the call is made on.
func drv(event string, id string, kv ...interface{}) {
	veriftrace.Emit("drv", id, event, kv...)
}

func ptr(v interface{}) string { return fmt.Sprintf("%p", v) }

func toInt(v interface{}) int {
	switch x := v.(type) {
	case int:
		return x
	case int64:
		return int(x)
	case float64:
		return int(x)
	}
	return 0
}

func toBuf(v interface{}) []int {
	out := []int{}
	switch x := v.(type) {
	case []pubsub.Event:
		for _, e := range x {
			out = append(out, toInt(e))
		}
	case []interface{}:
		for _, e := range x {
			out = append(out, toInt(e))
		}
	}
	return out
}
