package bush

import (
	"math/rand"
	"runtime"
	"sync"
	"time"
)

// runConc is one free-running execution: publishers, readers (fast, slow, stalled), cloners and closers run
// as concurrent goroutines on one fresh real bus with no gates; the interleaving is whatever the Go scheduler
// produces (perturbed by seeded Gosched/short sleeps).  The loop trace points give the linearization order.
func runConc(seed int64, run int, size string, timeout time.Duration) ([]Line, bool, error) {
	if size == "lag" {
		return runLag(seed, run, timeout)
	}
	if size == "deep" {
		return runDeep(300, run, timeout)
	}
	if size == "deep2" {
		return runDeep(600, run, timeout)
	}
	rng := rand.New(rand.NewSource(seed*100003 + int64(run)))
	nPub, perPub, maxSubs, nMgr := 2+rng.Intn(2), 2+rng.Intn(3), 5, 2
	if size == "big" {
		nPub, perPub, maxSubs, nMgr = 3+rng.Intn(3), 4+rng.Intn(5), 9, 3
	}
	closeBus := rng.Intn(8) == 0
	s := newSession(timeout)
	rec := startRecording()

	var wg, rwg sync.WaitGroup
	stopReaders := make(chan struct{})
	var pmu sync.Mutex
	pending := map[int]chan string{}
	subCount, reactions, maxReactions := 0, 0, 4

	jitter := func(r *rand.Rand) {
		switch r.Intn(4) {
		case 0:
			runtime.Gosched()
		case 1:
			time.Sleep(time.Duration(r.Intn(200)) * time.Microsecond)
		}
	}
	startReader := func(h int, r *rand.Rand) {
		mode := r.Intn(3) // 0 fast, 1 slow, 2 stalled (reads nothing until the final drain)
		if mode == 2 {
			return
		}
		sub := s.sub(h)
		if sub == nil {
			return
		}
		rwg.Add(1)
		go func() {
			defer rwg.Done()
			for {
				select {
				case <-stopReaders:
					return
				case <-sub.Done():
					return
				case v := <-sub.Events():
					ev, _ := v.(int)
					drv("read", ptr(sub), "ev", ev, "flag", "ok")
					if mode == 1 {
						time.Sleep(time.Duration(r.Intn(300)) * time.Microsecond)
					}
					if r.Intn(8) == 0 && !s.isBlocked() { // the reader publishes in reaction to what it read, as the provider services do
						pmu.Lock()
						room := reactions < maxReactions
						if room {
							reactions++
						}
						pmu.Unlock()
						if room {
							s.publish(s.newEvent())
						}
					}
					if r.Intn(6) == 0 { // the reader clones its own subscription, as bidengine's service does
						pmu.Lock()
						room := subCount < maxSubs
						if room {
							subCount++
						}
						pmu.Unlock()
						if room && s.live(h) {
							if nh, flag := s.subscribe(h); flag == "ok" {
								startReaderLater(s, nh, r.Int63(), &rwg, stopReaders)
							}
						}
					}
				}
			}
		}()
	}
	newSub := func(ph int, r *rand.Rand) {
		pmu.Lock()
		room := subCount < maxSubs
		if room {
			subCount++
		}
		pmu.Unlock()
		if !room {
			return
		}
		if h, flag := s.subscribe(ph); flag == "ok" {
			startReader(h, r)
		}
	}

	for i := 0; i < 1+rng.Intn(2); i++ {
		newSub(0, rng)
	}
	for p := 0; p < nPub; p++ {
		r := rand.New(rand.NewSource(rng.Int63()))
		wg.Add(1)
		go func() {
			defer wg.Done()
			for k := 0; k < perPub && !s.isBlocked(); k++ {
				jitter(r)
				s.publish(s.newEvent())
			}
		}()
	}
	for m := 0; m < nMgr; m++ {
		r := rand.New(rand.NewSource(rng.Int63()))
		wg.Add(1)
		go func() {
			defer wg.Done()
			for k := 0; k < 4 && !s.isBlocked(); k++ {
				jitter(r)
				s.mu.Lock()
				n := s.nextH
				s.mu.Unlock()
				switch c := r.Intn(10); {
				case c < 3:
					newSub(0, r)
				case c < 7 && n > 1:
					if ph := 1 + r.Intn(n-1); s.live(ph) {
						newSub(ph, r)
					}
				case n > 1:
					h := 1 + r.Intn(n-1)
					pmu.Lock()
					_, dup := pending[h]
					var ch chan string
					if !dup {
						ch = make(chan string, 1)
						pending[h] = ch
					}
					pmu.Unlock()
					if dup {
						continue
					}
					if fn, id, ok := s.closeCall(h); ok {
						go func() { ch <- s.doClose(fn, id) }()
					} else {
						ch <- "skipped"
					}
				}
			}
		}()
	}
	wg.Wait()
	if closeBus && !s.isBlocked() {
		if fn, id, ok := s.closeCall(0); ok {
			s.doClose(fn, id)
		}
	}
	close(stopReaders)
	rwg.Wait()
	s.finish(pending)
	blocked := s.isDirty()
	if !blocked {
		s.waitAllDone()
		blocked = s.isDirty()
	}
	lines, err := normalise(s.rootID, rec.stop(), run)
	if err != nil {
		return nil, blocked, err
	}
	head := Line{K: "reset", Flag: "conc", Buf: []int{}, Run: run}
	return append([]Line{head}, lines...), blocked, nil
}

// startReaderLater starts a fast reader for a subscription created by another reader.
func startReaderLater(s *session, h int, seed int64, rwg *sync.WaitGroup, stop chan struct{}) {
	sub := s.sub(h)
	if sub == nil || seed%3 == 0 { // a third of them stall until the final drain
		return
	}
	rwg.Add(1)
	go func() {
		defer rwg.Done()
		for {
			select {
			case <-stop:
				return
			case <-sub.Done():
				return
			case v := <-sub.Events():
				ev, _ := v.(int)
				drv("read", ptr(sub), "ev", ev, "flag", "ok")
			}
		}
	}()
}
