package bush

import (
	"fmt"

	"github.com/ovrclk/akash/util/veriftrace"
)

// normalise turns the raw recording of one run into trace lines:
//   - identities (%p) become model node ids: 0 for the bus, 1,2,.. for subscribers in the order their parent's
//     loop created them (the order of the "sub" trace points);
//   - likewise a child's "stop" line is moved in front of the "fwdone e" of a parent that skipped it (the child
//     answered ErrNotRunning, so its ShutdownInitiated preceded the end of the parent's fan-out);
//   - a child's "recv e" line is moved in front of its parent's "fwdone e" line when it was logged after it.
//     The hand-over of e from parent to child is a rendezvous; the child's trace point runs after it and the
//     parent's "fwdone" runs after it, so the two lines race.  Moving the child's line up is sound: everything
//     the child logged before it happened before the rendezvous and therefore before the parent's "fwdone".
func normalise(rootID string, evs []veriftrace.Event, run int) ([]Line, error) {
	ids := map[string]int{rootID: 0}
	par := map[int]int{}
	next := 1
	for _, e := range evs {
		if e.Component == "bus" && e.Event == "new" {
			c := e.ID
			if _, dup := ids[c]; dup {
				return nil, fmt.Errorf("subscriber %s created twice", c)
			}
			ids[c] = next
			pid, _ := e.KV["parent"].(string)
			p, ok := ids[pid]
			if !ok {
				return nil, fmt.Errorf("new subscriber of unknown node %s", pid)
			}
			par[next] = p
			next++
		}
	}
	lines := make([]Line, 0, len(evs))
	for _, e := range evs {
		if e.Component == "bus" && e.Event == "sub" {
			continue // redundant with "new", which also carries the child's initial buffer
		}
		l := Line{K: e.Event, Buf: []int{}, Run: run}
		if e.Component == "bus" && e.Event == "new" {
			// logged by the child object inside the parent's loop: n = parent, c = child, buf = child's buffer
			l.N, l.C, l.Buf = par[ids[e.ID]], ids[e.ID], toBuf(e.KV["buf"])
			lines = append(lines, l)
			continue
		}
		if e.ID != "" {
			n, ok := ids[e.ID]
			if !ok {
				return nil, fmt.Errorf("event %s of unknown node %s", e.Event, e.ID)
			}
			l.N = n
		}
		if c, ok := e.KV["child"].(string); ok && c != "" {
			l.C = ids[c]
		}
		if v, ok := e.KV["ev"]; ok {
			l.Ev = toInt(v)
		}
		if v, ok := e.KV["buf"]; ok {
			l.Buf = toBuf(v)
		}
		if v, ok := e.KV["flag"].(string); ok {
			l.Flag = v
		}
		lines = append(lines, l)
	}
	// rendezvous order: recv(c, e) before fwdone(par[c], e)
	type key struct{ n, ev int }
	recvAt := map[key]int{}
	stopAt := map[int]int{}
	newAt := map[int]int{}
	for i, l := range lines {
		switch {
		case l.K == "recv" && l.N != 0:
			recvAt[key{l.N, l.Ev}] = i
		case l.K == "stop":
			stopAt[l.N] = i
		case l.K == "new":
			newAt[l.C] = i
		}
	}
	out := make([]Line, 0, len(lines))
	moved := map[int]bool{}
	for i, l := range lines {
		if moved[i] {
			continue
		}
		if l.K == "fwdone" {
			for c := 1; c < next; c++ {
				if par[c] != l.N {
					continue
				}
				if j, ok := recvAt[key{c, l.Ev}]; ok {
					if j > i {
						out = append(out, lines[j])
						moved[j] = true
					}
				} else if j, ok := stopAt[c]; ok && j > i && newAt[c] < i && !moved[j] {
					out = append(out, lines[j])
					moved[j] = true
				}
			}
		}
		out = append(out, l)
	}
	return out, nil
}
