package bush

import (
	"encoding/json"
	"flag"
	"fmt"
	"os"
	"time"

	"verif/harness/vcommon"
)

// Main is the entry point of `vh bus <mode> ...`.
//
//	vh bus seq  -scripts f.ndjson -out trace.ndjson [-timeout-ms 3000]
//	vh bus conc -seed S -runs R [-from K] -out trace.ndjson [-timeout-ms 3000] [-size small|big|lag]
//
// Exit code 0: all runs completed; 3: a run had an operation that did not complete within the timeout (the
// trace up to and including that run is written; later runs are not executed); 2: harness error.
func Main(args []string) int {
	if len(args) < 1 {
		fmt.Fprintln(os.Stderr, "usage: vh bus seq|conc ...")
		return 2
	}
	fs := flag.NewFlagSet("bus", flag.ContinueOnError)
	scripts := fs.String("scripts", "", "ndjson file of scripts (seq)")
	out := fs.String("out", "trace.ndjson", "output trace")
	timeoutMs := fs.Int("timeout-ms", 3000, "per-operation timeout")
	seed := fs.Int64("seed", 1, "seed (conc)")
	runs := fs.Int("runs", 10, "number of runs (conc)")
	size := fs.String("size", "small", "small|big|lag (conc)")
	from := fs.Int("from", 1, "first run number (conc): run k of a seed is the same execution plan whatever -from/-runs")
	if err := fs.Parse(args[1:]); err != nil {
		return 2
	}
	timeout := time.Duration(*timeoutMs) * time.Millisecond
	installSink()
	installGate()
	w, err := vcommon.NewWriter(*out)
	if err != nil {
		fmt.Fprintln(os.Stderr, err)
		return 2
	}
	defer w.Close()
	emit := func(lines []Line) {
		for _, l := range lines {
			_ = w.Write(l)
		}
	}
	rc := 0
	switch args[0] {
	case "seq":
		run := 0
		err = vcommon.ReadLines(*scripts, func(raw json.RawMessage) error {
			if rc != 0 {
				return nil
			}
			var sc Script
			if e := json.Unmarshal(raw, &sc); e != nil {
				return e
			}
			run++
			lines, blocked, e := runScript(sc, run, timeout)
			if e != nil {
				return fmt.Errorf("script %s: %v", sc.ID, e)
			}
			emit(lines)
			if blocked {
				fmt.Fprintf(os.Stderr, "BLOCKED script=%s run=%d\n", sc.ID, run)
				rc = 3
			}
			return nil
		})
	case "conc":
		for run := *from; run < *from+*runs && rc == 0; run++ {
			lines, blocked, e := runConc(*seed, run, *size, timeout)
			if e != nil {
				err = e
				break
			}
			emit(lines)
			if blocked {
				fmt.Fprintf(os.Stderr, "BLOCKED seed=%d run=%d\n", *seed, run)
				rc = 3
			}
		}
	default:
		err = fmt.Errorf("unknown mode %q", args[0])
	}
	if err != nil {
		fmt.Fprintln(os.Stderr, "bus harness:", err)
		return 2
	}
	return rc
}
