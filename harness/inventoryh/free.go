package inventoryh

import (
	"context"
	"flag"
	"fmt"
	"math/rand"
	"os"
	"runtime"
	"sync"
	"time"

	"verif/harness/vcommon"

	"github.com/ovrclk/akash/manifest"
	"github.com/ovrclk/akash/provider/cluster"
	ctypes "github.com/ovrclk/akash/provider/cluster/types"
	"github.com/ovrclk/akash/provider/event"
)

// Free-running direction: the same real service, no gates. One goroutine per kind of stimulus (reserve, unreserve,
// status, lookup, ClusterDeployment publisher) runs concurrently with the others and with the poll timer; every
// inventory fetch is answered at once with a random inventory or an error. The loop's iterations are recorded by
// the hooks in the order they happen; the k-th iteration of a kind belongs to the k-th call of that kind (each
// driver is sequential), which is how arguments and replies are attached.

type callRec struct {
	step  Step
	reply line
}

func pause(r *rand.Rand) {
	switch r.Intn(4) {
	case 0:
		runtime.Gosched()
	case 1:
		time.Sleep(time.Duration(r.Intn(300)) * time.Microsecond)
	}
}

func freeRun(id string, seed int64, ops int, waitTimeout time.Duration) ([]line, error) {
	rnd := rand.New(rand.NewSource(seed))
	factors := [][2]int{{1, 1}, {2, 1}, {3, 1}, {3, 2}, {4, 1}, {1, 2}}
	cfg := Cfg{FCpu: factors[rnd.Intn(len(factors))], FMem: factors[rnd.Intn(len(factors))], FSto: factors[rnd.Intn(len(factors))], Ports: 1 + rnd.Intn(3)}
	orders := []string{"o1", "o2", "o3"}
	names := []string{"g1", "g2"}
	randUnit := func(r *rand.Rand) Unit {
		return Unit{CPU: uint64(1 + r.Intn(5)), Mem: uint64(1 + r.Intn(5)), Sto: uint64(r.Intn(5)), Eps: r.Intn(3) / 2 * (1 + r.Intn(2)), Count: uint32(1 + r.Intn(2))}
	}
	var invs [][]Cap
	for i := 0; i < 4; i++ {
		n := 1 + rnd.Intn(3)
		inv := make([]Cap, n)
		for j := range inv {
			inv[j] = Cap{CPU: uint64(1 + rnd.Intn(5)), Mem: uint64(1 + rnd.Intn(5)), Sto: uint64(1 + rnd.Intn(5))}
		}
		invs = append(invs, inv)
	}
	ansRnd := rand.New(rand.NewSource(seed ^ 0x5eed))
	answer := func(in *instance, call int) invAnswer { // called with in.mu held
		if ansRnd.Intn(5) == 0 {
			return invAnswer{err: errInventory}
		}
		inv := invs[ansRnd.Intn(len(invs))]
		in.answers[call] = inv
		nodes := make([]ctypes.Node, 0, len(inv))
		for i, c := range inv {
			nodes = append(nodes, &snode{id: fmt.Sprintf("c%d-n%d", call, i+1), cap: c, call: call})
		}
		return invAnswer{nodes: nodes}
	}
	in, err := newInstance(cfg, nil, time.Duration(1+rnd.Intn(3))*time.Millisecond, waitTimeout, answer)
	if err != nil {
		return nil, err
	}
	first := in.last

	var wg sync.WaitGroup
	recs := map[string]*[]callRec{"reserve": {}, "unreserve": {}, "status": {}, "lookup": {}, "cluster-deployment": {}}
	var recMu sync.Mutex
	add := func(kind string, c callRec) {
		recMu.Lock()
		*recs[kind] = append(*recs[kind], c)
		recMu.Unlock()
	}
	deadline := time.Now().Add(waitTimeout)
	driver := func(kind string, n int, s int64, fn func(r *rand.Rand)) {
		wg.Add(1)
		go func() {
			defer wg.Done()
			r := rand.New(rand.NewSource(s))
			for i := 0; i < n && time.Now().Before(deadline); i++ {
				pause(r)
				fn(r)
			}
		}()
	}
	driver("reserve", ops*3/10, seed+1, func(r *rand.Rand) {
		st := Step{A: "Reserve", Order: orders[r.Intn(len(orders))], Name: names[r.Intn(len(names))]}
		for k := 1 + r.Intn(2); k > 0; k-- {
			st.Units = append(st.Units, randUnit(r))
		}
		o, _ := orderOf(st.Order)
		res, rerr := in.svc.Reserve(o, groupSpecOf(st.Name, st.Units))
		reply := line{"ok": rerr == nil, "id": 0, "units": []Unit{}, "err": ""}
		if rerr == nil {
			reply["ptr"] = fmt.Sprintf("%p", res)
			reply["units"] = projectGroup(res.Resources())
		} else {
			reply["err"] = rerr.Error()
		}
		add("reserve", callRec{st, reply})
	})
	driver("unreserve", ops*2/10, seed+2, func(r *rand.Rand) {
		st := Step{A: "Unreserve", Order: orders[r.Intn(len(orders))]}
		o, _ := orderOf(st.Order)
		rerr := in.svc.Unreserve(o)
		reply := line{"ok": rerr == nil, "err": ""}
		if rerr != nil {
			reply["err"] = rerr.Error()
		}
		add("unreserve", callRec{st, reply})
	})
	driver("status", ops*2/10, seed+3, func(r *rand.Rand) {
		status, rerr := in.svc.Status(context.Background())
		if rerr != nil {
			add("status", callRec{Step{A: "Status"}, line{"failed": rerr.Error()}})
			return
		}
		add("status", callRec{Step{A: "Status"}, statusReply(status)})
	})
	driver("lookup", ops*1/10, seed+4, func(r *rand.Rand) {
		st := Step{A: "Lookup", Order: orders[r.Intn(len(orders))], Name: names[r.Intn(len(names))]}
		o, _ := orderOf(st.Order)
		res, rerr := cluster.VerifInventoryLookup(in.svc, o, groupSpecOf(st.Name, nil))
		reply := line{"ok": rerr == nil, "id": 0}
		if rerr == nil {
			reply["ptr"] = fmt.Sprintf("%p", res)
		}
		add("lookup", callRec{st, reply})
	})
	driver("cluster-deployment", ops*2/10, seed+5, func(r *rand.Rand) {
		st := Step{A: "CD", Order: orders[r.Intn(len(orders))], Name: names[r.Intn(len(names))], Status: []string{"deployed", "pending"}[r.Intn(2)]}
		o, _ := orderOf(st.Order)
		status := event.ClusterDeploymentPending
		if st.Status == "deployed" {
			status = event.ClusterDeploymentDeployed
		}
		if err := in.bus.Publish(event.ClusterDeployment{LeaseID: leaseOf(o), Group: &manifest.Group{Name: st.Name}, Status: status}); err == nil {
			add("cluster-deployment", callRec{st, nil})
		}
	})
	donech := make(chan struct{})
	go func() { wg.Wait(); close(donech) }()
	select {
	case <-donech:
	case <-time.After(waitTimeout + 5*time.Second):
		_ = in.close()
		return nil, fmt.Errorf("%w: free-running drivers did not finish", errHarness)
	}

	// collect iterations until every published event has been consumed by the loop
	var its []iteration
	count := map[string]int{}
	want := len(*recs["cluster-deployment"])
	for {
		drained := false
		for !drained {
			select {
			case it := <-in.iters:
				its = append(its, it)
				count[it.tag]++
			default:
				drained = true
			}
		}
		complete := true
		for kind, q := range recs { // a reply is sent before the iteration ends: wait for the iteration itself
			if count[kind] < len(*q) {
				complete = false
			}
		}
		if complete {
			break
		}
		it, err := in.next()
		if err != nil {
			_ = in.close()
			return nil, fmt.Errorf("%w (draining: %v consumed, %d events published)", err, count, want)
		}
		its = append(its, it)
		count[it.tag]++
	}
	in.mu.Lock()
	dead := in.dead
	ptrIDs := map[string]int{}
	for k, v := range in.ptrIDs {
		ptrIDs[k] = v
	}
	answers := in.answers
	in.mu.Unlock()
	if dead {
		_ = in.close()
		return nil, fmt.Errorf("%w: iteration buffer overflow", errHarness)
	}
	if err := in.close(); err != nil {
		return nil, err
	}

	lines := []line{{"ev": "reset", "script": id, "cfg": cfg, "adopt": []Adopted{}, "post": first}}
	next := map[string]int{}
	for _, it := range its {
		if len(it.tag) > 16 && it.tag[:16] == "projection-error" {
			return nil, fmt.Errorf("%w: %s", errHarness, it.tag)
		}
		switch it.tag {
		case "timer":
			lines = append(lines, line{"ev": "Timer", "spont": true, "post": it.snap})
			continue
		case "inventory-result":
			gotErr, _ := it.kv["err"].(bool)
			inv := []Cap{}
			if !gotErr {
				inv = answers[it.snap.invCall]
				if inv == nil {
					return nil, fmt.Errorf("%w: the loop holds an inventory no call reported (call %d)", errHarness, it.snap.invCall)
				}
			}
			lines = append(lines, line{"ev": "Refresh", "ok": !gotErr, "inv": inv, "reply": line{"err": gotErr}, "post": it.snap})
			continue
		}
		q, ok := recs[it.tag]
		if !ok {
			return nil, fmt.Errorf("%w: unexpected iteration %q", errHarness, it.tag)
		}
		k := next[it.tag]
		next[it.tag]++
		if k >= len(*q) {
			return nil, fmt.Errorf("%w: more %s iterations than calls", errHarness, it.tag)
		}
		c := (*q)[k]
		l := line{"post": it.snap}
		switch it.tag {
		case "reserve":
			if p, ok := c.reply["ptr"].(string); ok {
				c.reply["id"] = ptrIDs[p]
				delete(c.reply, "ptr")
			}
			l["ev"], l["order"], l["name"], l["units"], l["reply"] = "Reserve", c.step.Order, c.step.Name, c.step.Units, c.reply
		case "unreserve":
			l["ev"], l["order"], l["reply"] = "Unreserve", c.step.Order, c.reply
		case "status":
			if _, failed := c.reply["failed"]; failed {
				return nil, fmt.Errorf("%w: Status failed: %v", errHarness, c.reply["failed"])
			}
			l["ev"], l["reply"] = "Status", c.reply
		case "lookup":
			if p, ok := c.reply["ptr"].(string); ok {
				c.reply["id"] = ptrIDs[p]
				delete(c.reply, "ptr")
			}
			l["ev"], l["order"], l["name"], l["reply"] = "Lookup", c.step.Order, c.step.Name, c.reply
		case "cluster-deployment":
			l["ev"], l["order"], l["name"], l["status"] = "CD", c.step.Order, c.step.Name, c.step.Status
		}
		lines = append(lines, l)
	}
	for kind, q := range recs {
		if kind != "cluster-deployment" && next[kind] != len(*q) {
			return nil, fmt.Errorf("%w: %d %s calls but %d iterations", errHarness, len(*q), kind, next[kind])
		}
	}
	return lines, nil
}

func mainFree(args []string) int {
	fs := flag.NewFlagSet("free", flag.ContinueOnError)
	seed := fs.Int64("seed", 1, "seed")
	runs := fs.Int("runs", 10, "number of service instances")
	ops := fs.Int("ops", 200, "stimuli per instance")
	out := fs.String("out", "", "trace output (ndjson)")
	waitMS := fs.Int("wait-ms", 30000, "watchdog")
	if err := fs.Parse(args); err != nil || *out == "" {
		return 2
	}
	w, err := vcommon.NewWriter(*out)
	if err != nil {
		fmt.Fprintln(os.Stderr, err)
		return 2
	}
	steps := 0
	for i := 0; i < *runs; i++ {
		lines, err := freeRun(fmt.Sprintf("free-%d-%d", *seed, i), *seed*7919+int64(i), *ops, time.Duration(*waitMS)*time.Millisecond)
		if err != nil {
			fmt.Fprintln(os.Stderr, "inventoryh:", err)
			_ = w.Close()
			return 2
		}
		for _, l := range lines {
			if err := w.Write(l); err != nil {
				fmt.Fprintln(os.Stderr, err)
				return 2
			}
		}
		steps += len(lines) - 1
	}
	if err := w.Close(); err != nil {
		fmt.Fprintln(os.Stderr, err)
		return 2
	}
	fmt.Printf("{\"runs\":%d,\"steps\":%d}\n", *runs, steps)
	return 0
}
