package inventoryh

import (
	"context"
	"encoding/json"
	"errors"
	"fmt"
	"sync"
	"time"

	sdk "github.com/cosmos/cosmos-sdk/types"
	"github.com/tendermint/tendermint/libs/log"

	aclient "github.com/ovrclk/akash/client"
	"github.com/ovrclk/akash/manifest"
	"github.com/ovrclk/akash/provider/cluster"
	ctypes "github.com/ovrclk/akash/provider/cluster/types"
	"github.com/ovrclk/akash/provider/event"
	"github.com/ovrclk/akash/provider/session"
	"github.com/ovrclk/akash/pubsub"
	"github.com/ovrclk/akash/util/veriftrace"
	mtypes "github.com/ovrclk/akash/x/market/types"
	ptypes "github.com/ovrclk/akash/x/provider/types"
)

// errHarness marks a failure of the harness itself (dead driver, timeout): inconclusive, never a verdict.
var errHarness = errors.New("harness failure")

var errInventory = errors.New("scripted inventory failure")

// iteration is one pass of the inventory loop: the case that fired and the state before the next select.
type iteration struct {
	tag  string
	kv   map[string]interface{}
	snap Snapshot
}

type invAnswer struct {
	nodes []ctypes.Node
	err   error
}

// instance is one live inventory service under test together with its scripted neighbours.
type instance struct {
	mu       sync.Mutex
	curTag   string
	curKV    map[string]interface{}
	haveTag  bool
	iters    chan iteration
	ptrIDs   map[string]int
	gateOpen bool
	answer   invAnswer
	pending  []chan invAnswer
	calls    int
	dead     bool
	answerFn func(call int) invAnswer // free-running mode: every fetch is answered at once
	answers  map[int][]Cap            // free-running mode: what call k reported (ok answers only)

	adopt []Adopted

	svc    cluster.Service
	bus    pubsub.Bus
	cancel context.CancelFunc
	done   chan struct{}

	last  Snapshot
	armed bool

	waitTimeout time.Duration
}

// ---- scripted neighbours ------------------------------------------------------------------------------------

type snode struct {
	id   string
	cap  Cap
	call int // which Inventory call reported this node (free-running mode)
}

func (n *snode) ID() string { return n.id }
func (n *snode) Available() atypesUnits {
	return unitsOf(Unit{CPU: n.cap.CPU, Mem: n.cap.Mem, Sto: n.cap.Sto})
}
func (n *snode) Allocateable() atypesUnits { return n.Available() }
func (n *snode) Reserve(atypesUnits) error { return nil }
func (n *snode) MarshalJSON() ([]byte, error) {
	return json.Marshal(n.cap)
}

func nodesOf(inv []Cap) []ctypes.Node {
	out := make([]ctypes.Node, 0, len(inv))
	for i, c := range inv {
		out = append(out, &snode{id: fmt.Sprintf("n%d", i+1), cap: c})
	}
	return out
}

type sdeployment struct {
	lease mtypes.LeaseID
	group manifest.Group
}

func (d *sdeployment) LeaseID() mtypes.LeaseID       { return d.lease }
func (d *sdeployment) ManifestGroup() manifest.Group { return d.group }

// sclient is the scripted cluster.Client. Inventory blocks on a gate the script opens; Deploy never completes
// (adopted deployments stay "not yet deployed" until the script publishes a ClusterDeployment event itself).
type sclient struct {
	cluster.Client // nil: any other method is outside the inventory's reach and would panic loudly
	in             *instance
}

func (c *sclient) Deployments(ctx context.Context) ([]ctypes.Deployment, error) {
	out := []ctypes.Deployment{}
	for _, a := range c.in.adopt {
		o, err := orderOf(a.Order)
		if err != nil {
			return nil, err
		}
		out = append(out, &sdeployment{lease: leaseOf(o), group: manifestGroupOf(a.Name, a.Units)})
	}
	return out, nil
}

func (c *sclient) Deploy(ctx context.Context, _ mtypes.LeaseID, _ *manifest.Group) error {
	select {
	case <-ctx.Done():
	case <-c.in.done:
	}
	return errors.New("scripted deploy never completes")
}

func (c *sclient) TeardownLease(ctx context.Context, _ mtypes.LeaseID) error { return nil }

func (c *sclient) Inventory(ctx context.Context) ([]ctypes.Node, error) {
	in := c.in
	in.mu.Lock()
	in.calls++
	if in.answerFn != nil {
		a := in.answerFn(in.calls)
		in.mu.Unlock()
		return a.nodes, a.err
	}
	if in.gateOpen {
		a := in.answer
		in.mu.Unlock()
		return a.nodes, a.err
	}
	ch := make(chan invAnswer, 1)
	in.pending = append(in.pending, ch)
	in.mu.Unlock()
	select {
	case a := <-ch:
		return a.nodes, a.err
	case <-ctx.Done():
		return nil, ctx.Err()
	case <-in.done:
		return nil, errors.New("instance closed")
	}
}

type squery struct {
	aclient.QueryClient
	in *instance
}

func (q *squery) ActiveLeasesForProvider(id sdk.AccAddress) ([]mtypes.QueryLeaseResponse, error) {
	out := []mtypes.QueryLeaseResponse{}
	for _, a := range q.in.adopt {
		o, err := orderOf(a.Order)
		if err != nil {
			return nil, err
		}
		out = append(out, mtypes.QueryLeaseResponse{Lease: mtypes.Lease{LeaseID: leaseOf(o)}})
	}
	return out, nil
}

type schain struct {
	aclient.Client
	q *squery
}

func (c *schain) Query() aclient.QueryClient { return c.q }

// ---- hook sink ----------------------------------------------------------------------------------------------

// current is the instance the process-wide veriftrace sink feeds (one live instance per process at a time).
var (
	currentMu sync.RWMutex
	current   *instance
)

func sink(ev veriftrace.Event) {
	if ev.Component != "inventory" {
		return
	}
	currentMu.RLock()
	in := current
	currentMu.RUnlock()
	if in == nil {
		return
	}
	in.onEvent(ev)
}

// onEvent runs inside the inventory loop goroutine (Emit is synchronous): the reservations it projects are the
// loop's own, read at the linearization point.
func (in *instance) onEvent(ev veriftrace.Event) {
	in.mu.Lock()
	defer in.mu.Unlock()
	if in.dead {
		return
	}
	if ev.Event != "idle" {
		in.curTag, in.curKV, in.haveTag = ev.Event, ev.KV, true
		if ev.Event == "inventory-result" {
			in.gateOpen = false
		}
		return
	}
	it := iteration{tag: "init", kv: nil}
	if in.haveTag {
		it.tag, it.kv = in.curTag, in.curKV
	}
	in.haveTag = false
	snap, err := in.project(ev.KV)
	if err != nil {
		it.tag = "projection-error: " + err.Error()
	}
	it.snap = snap
	select {
	case in.iters <- it:
	default:
		in.dead = true
	}
}

func (in *instance) project(kv map[string]interface{}) (Snapshot, error) {
	s := Snapshot{Resv: []ResvSnap{}, Inv: []Cap{}}
	raw, err := json.Marshal(kv["reservations"])
	if err != nil {
		return s, err
	}
	var rs []struct {
		Ptr   string `json:"ptr"`
		Order string `json:"order"`
		Name  string `json:"name"`
		Alloc bool   `json:"alloc"`
		Units []Unit `json:"units"`
	}
	if err := json.Unmarshal(raw, &rs); err != nil {
		return s, err
	}
	for _, r := range rs {
		if r.Ptr == "" {
			return s, errors.New("reservation without identity (verif export missing?)")
		}
		id, ok := in.ptrIDs[r.Ptr]
		if !ok {
			id = len(in.ptrIDs) + 1
			in.ptrIDs[r.Ptr] = id
		}
		u := r.Units
		if u == nil {
			u = []Unit{}
		}
		s.Resv = append(s.Resv, ResvSnap{ID: id, Order: orderName(r.Order), Name: r.Name, Alloc: r.Alloc, Units: u})
	}
	switch p := kv["ports"].(type) {
	case uint:
		if p > 1<<30 {
			s.Ports = -1 // unsigned wrap-around
		} else {
			s.Ports = int(p)
		}
	default:
		return s, fmt.Errorf("ports has type %T", kv["ports"])
	}
	s.Accepting, _ = kv["accepting"].(bool)
	s.Fetching, _ = kv["fetching"].(bool)
	if nodes, ok := kv["inventory"].([]ctypes.Node); ok {
		for _, n := range nodes {
			s.Inv = append(s.Inv, projectUnits(n.Available()))
			if sn, ok := n.(*snode); ok {
				s.invCall = sn.call
			}
		}
	} else if kv["inventory"] != nil {
		return s, fmt.Errorf("inventory has type %T", kv["inventory"])
	}
	return s, nil
}

// ---- life cycle ---------------------------------------------------------------------------------------------

func newInstance(cfg Cfg, adopt []Adopted, period time.Duration, waitTimeout time.Duration, answerFn func(*instance, int) invAnswer) (*instance, error) {
	in := &instance{
		iters:       make(chan iteration, 1<<16),
		answers:     map[int][]Cap{},
		ptrIDs:      map[string]int{},
		adopt:       adopt,
		done:        make(chan struct{}),
		waitTimeout: waitTimeout,
	}
	if answerFn != nil {
		in.answerFn = func(call int) invAnswer { return answerFn(in, call) }
	}
	currentMu.Lock()
	current = in
	currentMu.Unlock()

	ctx, cancel := context.WithCancel(context.Background())
	in.cancel = cancel
	in.bus = pubsub.NewBus()
	chain := &schain{q: &squery{in: in}}
	sess := session.New(log.NewNopLogger(), chain, &ptypes.Provider{Owner: providerAddr})
	ccfg := cluster.Config{
		InventoryResourcePollPeriod:     period,
		InventoryResourceDebugFrequency: 1 << 30,
		InventoryExternalPortQuantity:   uint(cfg.Ports),
		CPUCommitLevel:                  factor(cfg.FCpu),
		MemoryCommitLevel:               factor(cfg.FMem),
		StorageCommitLevel:              factor(cfg.FSto),
	}
	svc, err := cluster.NewService(ctx, sess, in.bus, &sclient{in: in}, ccfg)
	if err != nil {
		cancel()
		return nil, err
	}
	in.svc = svc
	it, err := in.next()
	if err != nil {
		return nil, err
	}
	if it.tag != "init" {
		return nil, fmt.Errorf("%w: first iteration is %q", errHarness, it.tag)
	}
	in.last = it.snap
	return in, nil
}

func (in *instance) close() error {
	in.mu.Lock()
	in.dead = true
	in.mu.Unlock()
	close(in.done)
	var err error
	if in.svc != nil {
		closed := make(chan struct{})
		go func() { _ = in.svc.Close(); close(closed) }()
		select {
		case <-closed:
		case <-time.After(in.waitTimeout):
			err = fmt.Errorf("%w: service did not shut down", errHarness)
		}
	}
	in.cancel()
	in.bus.Close()
	currentMu.Lock()
	if current == in {
		current = nil
	}
	currentMu.Unlock()
	return err
}

func (in *instance) next() (iteration, error) {
	select {
	case it := <-in.iters:
		if len(it.tag) > 16 && it.tag[:16] == "projection-error" {
			return it, fmt.Errorf("%w: %s", errHarness, it.tag)
		}
		return it, nil
	case <-time.After(in.waitTimeout):
		return iteration{}, fmt.Errorf("%w: no loop iteration within %s", errHarness, in.waitTimeout)
	}
}

// await returns the next iteration with the wanted tag; timer iterations that fire on their own before it are
// handed to spont (they are genuine steps of the loop and are recorded in the order they happened).
func (in *instance) await(tag string, spont func(iteration)) (iteration, error) {
	for {
		it, err := in.next()
		if err != nil {
			return it, fmt.Errorf("%w (awaiting %s)", err, tag)
		}
		in.last = it.snap
		switch it.tag {
		case "timer":
			in.armed = false
		case "inventory-result":
			in.armed = true
		}
		if it.tag == tag {
			return it, nil
		}
		if it.tag == "timer" {
			spont(it)
			continue
		}
		return it, fmt.Errorf("%w: unexpected loop iteration %q while awaiting %q", errHarness, it.tag, tag)
	}
}

// call runs a synchronous request against the service with a watchdog.
func (in *instance) call(fn func()) error {
	donech := make(chan struct{})
	go func() { fn(); close(donech) }()
	select {
	case <-donech:
		return nil
	case <-time.After(in.waitTimeout):
		return fmt.Errorf("%w: request not answered within %s", errHarness, in.waitTimeout)
	}
}

func (in *instance) openGate(a invAnswer) {
	in.mu.Lock()
	in.gateOpen = true
	in.answer = a
	for _, ch := range in.pending {
		ch <- a
	}
	in.pending = nil
	in.mu.Unlock()
}

// ---- steps --------------------------------------------------------------------------------------------------

type line map[string]interface{}

func statusReply(st *ctypes.Status) line {
	conv := func(xs []atypesUnits) []Cap {
		out := []Cap{}
		for _, x := range xs {
			out = append(out, projectUnits(x))
		}
		return out
	}
	return line{
		"active":    conv(st.Inventory.Active),
		"pending":   conv(st.Inventory.Pending),
		"available": conv(st.Inventory.Available),
		"err":       st.Inventory.Error != nil,
	}
}

func (in *instance) idOf(r ctypes.Reservation) int {
	in.mu.Lock()
	defer in.mu.Unlock()
	if id, ok := in.ptrIDs[fmt.Sprintf("%p", r)]; ok {
		return id
	}
	return 0
}

// step executes one abstract action and returns the trace lines it produced (spontaneous timer iterations first).
func (in *instance) step(st Step) ([]line, error) {
	var out []line
	spont := func(it iteration) {
		out = append(out, line{"ev": "Timer", "spont": true, "post": it.snap})
	}
	skip := func(why string) ([]line, error) {
		return append(out, line{"ev": "Skip", "a": st.A, "why": why, "post": in.last}), nil
	}
	switch st.A {
	case "Reserve":
		if !in.last.Accepting {
			return skip("loop is not accepting reserve requests")
		}
		o, err := orderOf(st.Order)
		if err != nil {
			return nil, err
		}
		var res ctypes.Reservation
		var rerr error
		if err := in.call(func() { res, rerr = in.svc.Reserve(o, groupSpecOf(st.Name, st.Units)) }); err != nil {
			return nil, err
		}
		it, err := in.await("reserve", spont)
		if err != nil {
			return nil, err
		}
		reply := line{"ok": rerr == nil, "id": 0, "units": []Unit{}, "err": ""}
		if rerr == nil {
			reply["id"] = in.idOf(res)
			reply["units"] = projectGroup(res.Resources())
			reply["order"] = orderName(res.OrderID().String())
			reply["name"] = res.Resources().GetName()
		} else {
			reply["err"] = rerr.Error()
		}
		return append(out, line{"ev": "Reserve", "order": st.Order, "name": st.Name, "units": st.Units, "reply": reply, "post": it.snap}), nil

	case "Unreserve":
		o, err := orderOf(st.Order)
		if err != nil {
			return nil, err
		}
		var rerr error
		if err := in.call(func() { rerr = in.svc.Unreserve(o) }); err != nil {
			return nil, err
		}
		it, err := in.await("unreserve", spont)
		if err != nil {
			return nil, err
		}
		reply := line{"ok": rerr == nil, "err": ""}
		if rerr != nil {
			reply["err"] = rerr.Error()
		}
		return append(out, line{"ev": "Unreserve", "order": st.Order, "reply": reply, "post": it.snap}), nil

	case "Status":
		var status *ctypes.Status
		var rerr error
		var reply line
		if err := in.call(func() {
			status, rerr = in.svc.Status(context.Background())
			if rerr == nil {
				reply = statusReply(status) // deep copy at once: the reply may alias live state
			}
		}); err != nil {
			return nil, err
		}
		if rerr != nil {
			return nil, fmt.Errorf("%w: Status: %v", errHarness, rerr)
		}
		it, err := in.await("status", spont)
		if err != nil {
			return nil, err
		}
		return append(out, line{"ev": "Status", "reply": reply, "post": it.snap}), nil

	case "Lookup":
		o, err := orderOf(st.Order)
		if err != nil {
			return nil, err
		}
		var res ctypes.Reservation
		var rerr error
		if err := in.call(func() { res, rerr = cluster.VerifInventoryLookup(in.svc, o, groupSpecOf(st.Name, nil)) }); err != nil {
			return nil, err
		}
		it, err := in.await("lookup", spont)
		if err != nil {
			return nil, err
		}
		reply := line{"ok": rerr == nil, "id": 0}
		if rerr == nil {
			reply["id"] = in.idOf(res)
		}
		return append(out, line{"ev": "Lookup", "order": st.Order, "name": st.Name, "reply": reply, "post": it.snap}), nil

	case "CD":
		o, err := orderOf(st.Order)
		if err != nil {
			return nil, err
		}
		status := event.ClusterDeploymentPending
		if st.Status == "deployed" {
			status = event.ClusterDeploymentDeployed
		}
		if err := in.bus.Publish(event.ClusterDeployment{LeaseID: leaseOf(o), Group: &manifest.Group{Name: st.Name}, Status: status}); err != nil {
			return nil, fmt.Errorf("%w: publish: %v", errHarness, err)
		}
		it, err := in.await("cluster-deployment", spont)
		if err != nil {
			return nil, err
		}
		return append(out, line{"ev": "CD", "order": st.Order, "name": st.Name, "status": st.Status, "post": it.snap}), nil

	case "Refresh":
		if !in.last.Fetching {
			return skip("no inventory fetch in flight")
		}
		a := invAnswer{err: errInventory}
		if st.Ok {
			a = invAnswer{nodes: nodesOf(st.Inv)}
		}
		in.openGate(a)
		it, err := in.await("inventory-result", spont)
		if err != nil {
			return nil, err
		}
		inv := st.Inv
		if inv == nil {
			inv = []Cap{}
		}
		gotErr, _ := it.kv["err"].(bool)
		return append(out, line{"ev": "Refresh", "ok": st.Ok, "inv": inv, "reply": line{"err": gotErr}, "post": it.snap}), nil

	case "Timer":
		if !in.armed {
			return skip("poll timer is not armed (it already fired or no fetch has completed)")
		}
		it, err := in.await("timer", func(iteration) {})
		if err != nil {
			return nil, err
		}
		return append(out, line{"ev": "Timer", "spont": false, "post": it.snap}), nil
	}
	return nil, fmt.Errorf("unknown action %q", st.A)
}

// runScript replays one script on a fresh service and returns its trace lines (first line: reset).
func runScript(sc Script, timerPeriod, waitTimeout time.Duration) ([]line, error) {
	period := time.Hour
	for _, st := range sc.Steps {
		if st.A == "Timer" {
			period = timerPeriod
		}
	}
	in, err := newInstance(sc.Cfg, sc.Adopt, period, waitTimeout, nil)
	if err != nil {
		return nil, err
	}
	adopt := sc.Adopt
	if adopt == nil {
		adopt = []Adopted{}
	}
	lines := []line{{"ev": "reset", "script": sc.ID, "cfg": sc.Cfg, "adopt": adopt, "post": in.last}}
	for i, st := range sc.Steps {
		ls, err := in.step(st)
		if err != nil {
			_ = in.close()
			return nil, fmt.Errorf("script %s step %d (%s): %w", sc.ID, i+1, st.A, err)
		}
		lines = append(lines, ls...)
	}
	if err := in.close(); err != nil {
		return nil, err
	}
	return lines, nil
}
