package inventoryh

import (
	"encoding/json"
	"errors"
	"flag"
	"fmt"
	"os"
	"time"

	"verif/harness/vcommon"

	clusterUtil "github.com/ovrclk/akash/provider/cluster/util"
	atypes "github.com/ovrclk/akash/types"
	"github.com/ovrclk/akash/util/veriftrace"
)

// Main is the entry point of `vh inventory <mode> ...`.
//
//	run  -scripts <ndjson of Script> -out <trace ndjson> [-timer-ms 15] [-wait-ms 20000]
//	free -seed N -runs R -ops K -out <trace ndjson>        (randomised concurrent drivers, no gates)
//	commit -in <ndjson of {v,n,d}> -out <ndjson of {v,n,d,out}>   (the real ComputeCommittedResources)
//
// Exit code 0: everything executed; 2: harness failure (inconclusive). The harness never judges.
func Main(args []string) int {
	if len(args) < 1 {
		fmt.Fprintln(os.Stderr, "usage: vh inventory run|free ...")
		return 2
	}
	if !veriftrace.Enabled {
		fmt.Fprintln(os.Stderr, "inventoryh: built without -tags verif")
		return 2
	}
	veriftrace.SetSink(sink)
	switch args[0] {
	case "run":
		return mainRun(args[1:])
	case "free":
		return mainFree(args[1:])
	case "commit":
		return mainCommit(args[1:])
	}
	fmt.Fprintln(os.Stderr, "unknown mode", args[0])
	return 2
}

func mainRun(args []string) int {
	fs := flag.NewFlagSet("run", flag.ContinueOnError)
	scripts := fs.String("scripts", "", "ndjson file of scripts")
	out := fs.String("out", "", "trace output (ndjson)")
	timerMS := fs.Int("timer-ms", 15, "inventory poll period for scripts that contain a Timer step")
	waitMS := fs.Int("wait-ms", 20000, "watchdog for every wait on the real code")
	if err := fs.Parse(args); err != nil || *scripts == "" || *out == "" {
		return 2
	}
	w, err := vcommon.NewWriter(*out)
	if err != nil {
		fmt.Fprintln(os.Stderr, err)
		return 2
	}
	n, steps := 0, 0
	err = vcommon.ReadLines(*scripts, func(raw json.RawMessage) error {
		var sc Script
		if err := json.Unmarshal(raw, &sc); err != nil {
			return fmt.Errorf("bad script: %v", err)
		}
		lines, err := runScript(sc, time.Duration(*timerMS)*time.Millisecond, time.Duration(*waitMS)*time.Millisecond)
		if err != nil {
			return err
		}
		for _, l := range lines {
			if err := w.Write(l); err != nil {
				return err
			}
		}
		n++
		steps += len(lines) - 1
		return nil
	})
	if cerr := w.Close(); err == nil {
		err = cerr
	}
	if err != nil {
		fmt.Fprintln(os.Stderr, "inventoryh:", err)
		if errors.Is(err, errHarness) {
			return 2
		}
		return 2
	}
	fmt.Printf("{\"scripts\":%d,\"steps\":%d}\n", n, steps)
	return 0
}

func mainCommit(args []string) int {
	fs := flag.NewFlagSet("commit", flag.ContinueOnError)
	in := fs.String("in", "", "ndjson rows {v,n,d}")
	out := fs.String("out", "", "ndjson rows {v,n,d,out}")
	if err := fs.Parse(args); err != nil || *in == "" || *out == "" {
		return 2
	}
	w, err := vcommon.NewWriter(*out)
	if err != nil {
		fmt.Fprintln(os.Stderr, err)
		return 2
	}
	err = vcommon.ReadLines(*in, func(raw json.RawMessage) error {
		var r struct {
			V uint64 `json:"v"`
			N int    `json:"n"`
			D int    `json:"d"`
		}
		if err := json.Unmarshal(raw, &r); err != nil {
			return err
		}
		got := clusterUtil.ComputeCommittedResources(factor([2]int{r.N, r.D}), atypes.NewResourceValue(r.V)).Value()
		return w.Write(map[string]interface{}{"v": r.V, "n": r.N, "d": r.D, "out": got})
	})
	if cerr := w.Close(); err == nil {
		err = cerr
	}
	if err != nil {
		fmt.Fprintln(os.Stderr, "inventoryh:", err)
		return 2
	}
	return 0
}
