package inventoryh

import (
	"encoding/json"
	"errors"
	"flag"
	"fmt"
	"os"
	"time"

	"verif/harness/vcommon"

	"github.com/ovrclk/akash/util/veriftrace"
)

// Main is the entry point of `vh inventory <mode> ...`.
//
//	run  -scripts <ndjson of Script> -out <trace ndjson> [-timer-ms 15] [-wait-ms 20000]
//	free -seed N -runs R -ops K -out <trace ndjson>        (randomised concurrent drivers, no gates)
//
// Exit code 0: everything executed; 2: harness failure (inconclusive). The harness never judges.
func Main(args []string) int {
	if len(args) < 1 {
		fmt.Fprintln(os.Stderr, "usage: vh inventory run|free ...")
		return 2
	}
	if !veriftrace.Enabled {
		fmt.Fprintln(os.Stderr, "inventoryh: built without -tags verif")
		return 2
	}
	veriftrace.SetSink(sink)
	switch args[0] {
	case "run":
		return mainRun(args[1:])
	case "free":
		return mainFree(args[1:])
	}
	fmt.Fprintln(os.Stderr, "unknown mode", args[0])
	return 2
}

func mainRun(args []string) int {
	fs := flag.NewFlagSet("run", flag.ContinueOnError)
	scripts := fs.String("scripts", "", "ndjson file of scripts")
	out := fs.String("out", "", "trace output (ndjson)")
	timerMS := fs.Int("timer-ms", 15, "inventory poll period for scripts that contain a Timer step")
	waitMS := fs.Int("wait-ms", 20000, "watchdog for every wait on the real code")
	if err := fs.Parse(args); err != nil || *scripts == "" || *out == "" {
		return 2
	}
	w, err := vcommon.NewWriter(*out)
	if err != nil {
		fmt.Fprintln(os.Stderr, err)
		return 2
	}
	n, steps := 0, 0
	err = vcommon.ReadLines(*scripts, func(raw json.RawMessage) error {
		var sc Script
		if err := json.Unmarshal(raw, &sc); err != nil {
			return fmt.Errorf("bad script: %v", err)
		}
		lines, err := runScript(sc, time.Duration(*timerMS)*time.Millisecond, time.Duration(*waitMS)*time.Millisecond)
		if err != nil {
			return err
		}
		for _, l := range lines {
			if err := w.Write(l); err != nil {
				return err
			}
		}
		n++
		steps += len(lines) - 1
		return nil
	})
	if cerr := w.Close(); err == nil {
		err = cerr
	}
	if err != nil {
		fmt.Fprintln(os.Stderr, "inventoryh:", err)
		if errors.Is(err, errHarness) {
			return 2
		}
		return 2
	}
	fmt.Printf("{\"scripts\":%d,\"steps\":%d}\n", n, steps)
	return 0
}
