// Package inventoryh drives the real provider inventory service (cluster.NewService with a scripted
// cluster.Client and the real pubsub bus) through scripts enumerated by TLC from spec/inventory/Inventory.tla
// and records one ndjson line per iteration of the inventory loop (property C12).
package inventoryh

import (
	"fmt"

	sdk "github.com/cosmos/cosmos-sdk/types"

	"github.com/ovrclk/akash/manifest"
	atypes "github.com/ovrclk/akash/types"
	dtypes "github.com/ovrclk/akash/x/deployment/types"
	mtypes "github.com/ovrclk/akash/x/market/types"
)

// Unit is one resource entry of a reservation request: per-replica amounts, endpoint count, replica count.
// Model integers ARE the real quantities (cpu milli-units, memory bytes, storage bytes): the mapping is the identity,
// so the rounding of ComputeCommittedResources is exercised on exactly the numbers TLC reasons about.
type Unit struct {
	CPU   uint64 `json:"cpu"`
	Mem   uint64 `json:"mem"`
	Sto   uint64 `json:"sto"`
	Eps   int    `json:"eps"`
	Count uint32 `json:"count"`
}

// Cap is a node's available capacity (or a status sum).
type Cap struct {
	CPU uint64 `json:"cpu"`
	Mem uint64 `json:"mem"`
	Sto uint64 `json:"sto"`
}

// Cfg is the provider configuration of one script: commit levels as rationals [num, den], external port quantity.
type Cfg struct {
	FCpu  [2]int `json:"fcpu"`
	FMem  [2]int `json:"fmem"`
	FSto  [2]int `json:"fsto"`
	Ports int    `json:"ports"`
}

// Adopted is a deployment found at start-up (cluster.Client.Deployments + active lease): it becomes a reservation
// with the manifest group's amounts, not scaled.
type Adopted struct {
	Order string `json:"order"`
	Name  string `json:"name"`
	Units []Unit `json:"units"`
}

// Step is one abstract action of Inventory.tla.
type Step struct {
	A      string `json:"a"` // Reserve | Unreserve | Status | Lookup | CD | Refresh | Timer
	Order  string `json:"order,omitempty"`
	Name   string `json:"name,omitempty"`
	Units  []Unit `json:"units,omitempty"`
	Status string `json:"status,omitempty"` // CD: deployed | pending
	Ok     bool   `json:"ok,omitempty"`     // Refresh
	Inv    []Cap  `json:"inv,omitempty"`    // Refresh ok
}

// Script is a behaviour exported by TLC.
type Script struct {
	ID    string    `json:"id"`
	Cfg   Cfg       `json:"cfg"`
	Adopt []Adopted `json:"adopt,omitempty"`
	Steps []Step    `json:"steps"`
}

// ResvSnap is a reservation as held by the inventory loop (projected inside the loop by the verif hook).
type ResvSnap struct {
	ID    int    `json:"id"`
	Order string `json:"order"`
	Name  string `json:"name"`
	Alloc bool   `json:"alloc"`
	Units []Unit `json:"units"`
}

// Snapshot is the loop's state before it selects again.
type Snapshot struct {
	Resv      []ResvSnap `json:"resv"`
	Ports     int        `json:"ports"`
	Accepting bool       `json:"accepting"`
	Fetching  bool       `json:"fetching"`
	Inv       []Cap      `json:"inv"`

	invCall int // free-running mode: the Inventory call whose nodes the loop holds
}

// atypesUnits abbreviates the repo's resource vector type.
type atypesUnits = atypes.ResourceUnits

var providerAddr = sdk.AccAddress([]byte("verif-inventory-prov")).String()

var ownerAddr = sdk.AccAddress([]byte("verif-inventory-ownr")).String()

// orderOf maps the model's order names o1, o2, ... to real order ids (distinct deployments).
func orderOf(name string) (mtypes.OrderID, error) {
	var n uint64
	if _, err := fmt.Sscanf(name, "o%d", &n); err != nil || n == 0 {
		return mtypes.OrderID{}, fmt.Errorf("bad order name %q", name)
	}
	return mtypes.OrderID{Owner: ownerAddr, DSeq: n, GSeq: 1, OSeq: 1}, nil
}

func orderName(s string) string {
	for n := uint64(1); n <= 16; n++ {
		o := mtypes.OrderID{Owner: ownerAddr, DSeq: n, GSeq: 1, OSeq: 1}
		if o.String() == s {
			return fmt.Sprintf("o%d", n)
		}
	}
	return "?" + s
}

func leaseOf(o mtypes.OrderID) mtypes.LeaseID {
	return mtypes.LeaseID{Owner: o.Owner, DSeq: o.DSeq, GSeq: o.GSeq, OSeq: o.OSeq, Provider: providerAddr}
}

func unitsOf(u Unit) atypes.ResourceUnits {
	return atypes.ResourceUnits{
		CPU:       &atypes.CPU{Units: atypes.NewResourceValue(u.CPU)},
		Memory:    &atypes.Memory{Quantity: atypes.NewResourceValue(u.Mem)},
		Storage:   &atypes.Storage{Quantity: atypes.NewResourceValue(u.Sto)},
		Endpoints: make([]atypes.Endpoint, u.Eps),
	}
}

func groupSpecOf(name string, units []Unit) dtypes.GroupSpec {
	g := dtypes.GroupSpec{Name: name}
	for _, u := range units {
		g.Resources = append(g.Resources, dtypes.Resource{Resources: unitsOf(u), Count: u.Count})
	}
	return g
}

func manifestGroupOf(name string, units []Unit) manifest.Group {
	g := manifest.Group{Name: name}
	for i, u := range units {
		g.Services = append(g.Services, manifest.Service{Name: fmt.Sprintf("svc%d", i), Resources: unitsOf(u), Count: u.Count})
	}
	return g
}

func projectUnits(u atypes.ResourceUnits) Cap {
	var c Cap
	if u.CPU != nil {
		c.CPU = u.CPU.Units.Value()
	}
	if u.Memory != nil {
		c.Mem = u.Memory.Quantity.Value()
	}
	if u.Storage != nil {
		c.Sto = u.Storage.Quantity.Value()
	}
	return c
}

func projectGroup(g atypes.ResourceGroup) []Unit {
	out := []Unit{}
	for _, r := range g.GetResources() {
		c := projectUnits(r.Resources)
		out = append(out, Unit{CPU: c.CPU, Mem: c.Mem, Sto: c.Sto, Eps: len(r.Resources.Endpoints), Count: r.Count})
	}
	return out
}

func factor(f [2]int) float64 {
	if f[1] == 0 {
		return 0
	}
	return float64(f[0]) / float64(f[1])
}
