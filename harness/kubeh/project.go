//go:build verif
// +build verif

package kubeh

import (
	"fmt"
	"net"
	"regexp"
	"sort"

	appsv1 "k8s.io/api/apps/v1"
	corev1 "k8s.io/api/core/v1"
	netv1 "k8s.io/api/networking/v1"
	metav1 "k8s.io/apimachinery/pkg/apis/meta/v1"
	"k8s.io/apimachinery/pkg/labels"
	"k8s.io/apimachinery/pkg/util/intstr"

	akashv1 "github.com/ovrclk/akash/pkg/apis/akash.network/v1"
)

// The projection is field copying. Arrays that the spec reads as sets are emitted in a sorted order only to make
// the output deterministic. Nothing here decides anything about C11.

type pair [2]string

type PExpr struct {
	Key    string   `json:"key"`
	Op     string   `json:"op"`
	Values []string `json:"values"`
}

type PSel struct {
	Labels []pair  `json:"labels"`
	Exprs  []PExpr `json:"exprs"`
}

type PPort struct {
	Proto string `json:"proto"`
	Port  int    `json:"port"`
	Named bool   `json:"named"`
}

type PPeer struct {
	HasNs  bool     `json:"hasNs"`
	NsSel  PSel     `json:"nsSel"`
	HasPod bool     `json:"hasPod"`
	PodSel PSel     `json:"podSel"`
	HasIP  bool     `json:"hasIp"`
	CIDR   [5]int   `json:"cidr"`
	Except [][5]int `json:"except"`
}

type PRule struct {
	Ports []PPort `json:"ports"`
	Peers []PPeer `json:"peers"`
}

type PRes struct {
	CPU     Quantity `json:"cpu"`
	Memory  Quantity `json:"memory"`
	Storage Quantity `json:"storage"`
}

type PContainer struct {
	Name       string `json:"name"`
	Privileged string `json:"privileged"`
	APE        string `json:"ape"`
	Caps       int    `json:"caps"`
	Limits     PRes   `json:"limits"`
	Requests   PRes   `json:"requests"`
	Ports      []int  `json:"ports"`
}

type PSvcPort struct {
	Port   int    `json:"port"`
	Target int    `json:"target"`
	Proto  string `json:"proto"`
}

type PIngRule struct {
	Host [2]string `json:"host"`
	Svc  string    `json:"svc"`
	Port int       `json:"port"`
}

// PObj is a canonical object record; Kind selects the concrete type behind it.
type PObj interface{ kind() string }

type PMeta struct {
	Kind   string `json:"kind"`
	Ans    string `json:"ans"` // namespace the API call was made in / the object is stored in
	Name   string `json:"name"`
	Mns    string `json:"mns"` // metadata.namespace of the object itself
	Labels []pair `json:"labels"`
}

func (m PMeta) kind() string { return m.Kind }

type PPlain struct{ PMeta } // namespace, manifest

type PNetPol struct {
	PMeta
	PodSel  PSel     `json:"podSel"`
	Types   []string `json:"types"`
	Ingress []PRule  `json:"ingress"`
	Egress  []PRule  `json:"egress"`
}

type PDeployment struct {
	PMeta
	Selector   PSel         `json:"selector"`
	TmplLabels []pair       `json:"tmplLabels"`
	Replicas   int          `json:"replicas"`
	Automount  string       `json:"automount"`
	Runtime    string       `json:"runtime"`
	HostNet    bool         `json:"hostNet"`
	HostPID    bool         `json:"hostPID"`
	HostIPC    bool         `json:"hostIPC"`
	NVolumes   int          `json:"nvolumes"`
	SA         string       `json:"sa"`
	Containers []PContainer `json:"containers"`
}

type PService struct {
	PMeta
	Selector []pair     `json:"selector"`
	Type     string     `json:"type"`
	Ports    []PSvcPort `json:"ports"`
}

type PIngress struct {
	PMeta
	Rules []PIngRule `json:"rules"`
}

func pairs(m map[string]string) []pair {
	out := make([]pair, 0, len(m))
	for k, v := range m {
		out = append(out, pair{k, v})
	}
	sort.Slice(out, func(i, j int) bool { return out[i][0] < out[j][0] })
	return out
}

func tri(b *bool) string {
	switch {
	case b == nil:
		return "unset"
	case *b:
		return "true"
	default:
		return "false"
	}
}

func sel(s *metav1.LabelSelector) PSel {
	out := PSel{Labels: []pair{}, Exprs: []PExpr{}}
	if s == nil {
		return out
	}
	out.Labels = pairs(s.MatchLabels)
	for _, e := range s.MatchExpressions {
		out.Exprs = append(out.Exprs, PExpr{Key: e.Key, Op: string(e.Operator), Values: append([]string{}, e.Values...)})
	}
	return out
}

// selFromString projects the label selector of a list / delete-collection call.
func selFromSelector(s labels.Selector) PSel {
	out := PSel{Labels: []pair{}, Exprs: []PExpr{}}
	if s == nil {
		return out
	}
	reqs, _ := s.Requirements()
	for _, r := range reqs {
		vals := r.Values().List()
		sort.Strings(vals)
		out.Exprs = append(out.Exprs, PExpr{Key: r.Key(), Op: string(r.Operator()), Values: vals})
	}
	sort.Slice(out.Exprs, func(i, j int) bool { return out.Exprs[i].Key < out.Exprs[j].Key })
	return out
}

func cidr(s string) ([5]int, error) {
	ip, n, err := net.ParseCIDR(s)
	if err != nil {
		return [5]int{}, err
	}
	base := n.IP.To4()
	if ip.To4() == nil || base == nil {
		return [5]int{}, fmt.Errorf("not an IPv4 CIDR: %q", s)
	}
	ones, _ := n.Mask.Size()
	return [5]int{int(base[0]), int(base[1]), int(base[2]), int(base[3]), ones}, nil
}

func peers(in []netv1.NetworkPolicyPeer) ([]PPeer, error) {
	out := make([]PPeer, 0, len(in))
	for _, p := range in {
		pp := PPeer{NsSel: sel(nil), PodSel: sel(nil), Except: [][5]int{}}
		if p.NamespaceSelector != nil {
			pp.HasNs, pp.NsSel = true, sel(p.NamespaceSelector)
		}
		if p.PodSelector != nil {
			pp.HasPod, pp.PodSel = true, sel(p.PodSelector)
		}
		if p.IPBlock != nil {
			pp.HasIP = true
			c, err := cidr(p.IPBlock.CIDR)
			if err != nil {
				return nil, err
			}
			pp.CIDR = c
			for _, x := range p.IPBlock.Except {
				c, err := cidr(x)
				if err != nil {
					return nil, err
				}
				pp.Except = append(pp.Except, c)
			}
		}
		out = append(out, pp)
	}
	return out, nil
}

func polPorts(in []netv1.NetworkPolicyPort) []PPort {
	out := make([]PPort, 0, len(in))
	for _, p := range in {
		pp := PPort{Port: -1}
		if p.Protocol != nil {
			pp.Proto = string(*p.Protocol)
		}
		if p.Port != nil {
			if p.Port.Type == intstr.Int {
				pp.Port = p.Port.IntValue()
			} else {
				pp.Named = true
			}
		}
		out = append(out, pp)
	}
	return out
}

func res(l corev1.ResourceList) PRes {
	out := PRes{CPU: unsetQuantity, Memory: unsetQuantity, Storage: unsetQuantity}
	if q, ok := l[corev1.ResourceCPU]; ok {
		out.CPU = quantity(q.MilliValue())
	}
	if q, ok := l[corev1.ResourceMemory]; ok {
		out.Memory = quantity(q.Value())
	}
	if q, ok := l[corev1.ResourceEphemeralStorage]; ok {
		out.Storage = quantity(q.Value())
	}
	return out
}

func containers(in []corev1.Container) []PContainer {
	out := []PContainer{}
	for _, c := range in {
		pc := PContainer{Name: c.Name, Privileged: "unset", APE: "unset", Limits: res(c.Resources.Limits), Requests: res(c.Resources.Requests), Ports: []int{}}
		if sc := c.SecurityContext; sc != nil {
			pc.Privileged, pc.APE = tri(sc.Privileged), tri(sc.AllowPrivilegeEscalation)
			if sc.Capabilities != nil {
				pc.Caps = len(sc.Capabilities.Add)
			}
		}
		for _, p := range c.Ports {
			pc.Ports = append(pc.Ports, int(p.ContainerPort))
		}
		out = append(out, pc)
	}
	return out
}

var staticHostRe = regexp.MustCompile(`^[0-9a-v]{26}\.(.+)$`)

// hostClass: a host the provider generated (<base32 uuid>.<ingress domain>) is <<"static", domain>>, any other
// host is <<"host", h>> (TLC has no string arithmetic; the uuid itself is irrelevant to C11).
func hostClass(h string) [2]string {
	if m := staticHostRe.FindStringSubmatch(h); m != nil {
		return [2]string{"static", m[1]}
	}
	return [2]string{"host", h}
}

// project turns one real object into its canonical record; ans is the namespace of the API call (or of the
// stored object).
func project(ans string, o interface{}) (PObj, error) {
	switch x := o.(type) {
	case *corev1.Namespace:
		return PPlain{PMeta{"namespace", ans, x.Name, x.Namespace, pairs(x.Labels)}}, nil
	case *akashv1.Manifest:
		return PPlain{PMeta{"manifest", ans, x.Name, x.Namespace, pairs(x.Labels)}}, nil
	case *netv1.NetworkPolicy:
		p := PNetPol{PMeta: PMeta{"netpol", ans, x.Name, x.Namespace, pairs(x.Labels)}, PodSel: sel(&x.Spec.PodSelector),
			Types: []string{}, Ingress: []PRule{}, Egress: []PRule{}}
		for _, t := range x.Spec.PolicyTypes {
			p.Types = append(p.Types, string(t))
		}
		for _, r := range x.Spec.Ingress {
			pe, err := peers(r.From)
			if err != nil {
				return nil, err
			}
			p.Ingress = append(p.Ingress, PRule{Ports: polPorts(r.Ports), Peers: pe})
		}
		for _, r := range x.Spec.Egress {
			pe, err := peers(r.To)
			if err != nil {
				return nil, err
			}
			p.Egress = append(p.Egress, PRule{Ports: polPorts(r.Ports), Peers: pe})
		}
		return p, nil
	case *appsv1.Deployment:
		spec := x.Spec.Template.Spec
		replicas, rt := -1, ""
		if x.Spec.Replicas != nil {
			replicas = int(*x.Spec.Replicas)
		}
		if spec.RuntimeClassName != nil {
			rt = *spec.RuntimeClassName
		}
		cs := containers(spec.Containers)
		cs = append(cs, containers(spec.InitContainers)...)
		return PDeployment{PMeta: PMeta{"deployment", ans, x.Name, x.Namespace, pairs(x.Labels)}, Selector: sel(x.Spec.Selector),
			TmplLabels: pairs(x.Spec.Template.Labels), Replicas: replicas, Automount: tri(spec.AutomountServiceAccountToken),
			Runtime: rt, HostNet: spec.HostNetwork, HostPID: spec.HostPID, HostIPC: spec.HostIPC, NVolumes: len(spec.Volumes),
			SA: spec.ServiceAccountName, Containers: cs}, nil
	case *corev1.Service:
		p := PService{PMeta: PMeta{"service", ans, x.Name, x.Namespace, pairs(x.Labels)},
			Selector: pairs(x.Spec.Selector), Type: string(x.Spec.Type), Ports: []PSvcPort{}}
		for _, sp := range x.Spec.Ports {
			p.Ports = append(p.Ports, PSvcPort{Port: int(sp.Port), Target: sp.TargetPort.IntValue(), Proto: string(sp.Protocol)})
		}
		return p, nil
	case *netv1.Ingress:
		p := PIngress{PMeta: PMeta{"ingress", ans, x.Name, x.Namespace, pairs(x.Labels)}, Rules: []PIngRule{}}
		for _, r := range x.Spec.Rules {
			if r.HTTP == nil {
				p.Rules = append(p.Rules, PIngRule{Host: hostClass(r.Host), Svc: "", Port: -1})
				continue
			}
			for _, path := range r.HTTP.Paths {
				ir := PIngRule{Host: hostClass(r.Host), Port: -1}
				if path.Backend.Service != nil {
					ir.Svc, ir.Port = path.Backend.Service.Name, int(path.Backend.Service.Port.Number)
				}
				p.Rules = append(p.Rules, ir)
			}
		}
		return p, nil
	}
	return nil, fmt.Errorf("unprojectable object %T", o)
}
