//go:build verif
// +build verif

// Package kubeh binds spec/kube/KubePolicy.tla (property C11) to the real provider/cluster/kube package:
// it concretises every abstract input TLC enumerated (lease id, manifest group(s), provider settings) into the
// real types, runs the real client.Deploy against client-go's fake clientset and the akash fake clientset, and
// writes what the clientsets recorded -- every API call with the namespace it was made in and the object it
// carried -- projected to the canonical records of the spec, one ndjson line per input.
package kubeh

import (
	"crypto/sha256"
	"fmt"
	"strconv"

	"github.com/cosmos/cosmos-sdk/types/bech32"

	"github.com/ovrclk/akash/manifest"
	"github.com/ovrclk/akash/provider/cluster/kube"
	atypes "github.com/ovrclk/akash/types"
	mtypes "github.com/ovrclk/akash/x/market/types"
)

// ---- the abstract input, exactly as MC_KubePolicy.tla serialises it ----

type AExpose struct {
	Port   int      `json:"port"`
	As     int      `json:"as"`
	Proto  string   `json:"proto"`
	Global bool     `json:"global"`
	Hosts  []string `json:"hosts"`
}

type AService struct {
	Name    string    `json:"name"`
	NP      string    `json:"np"`
	Pol     string    `json:"pol"`
	Count   int       `json:"count"`
	CPU     Quantity  `json:"cpu"`
	Mem     Quantity  `json:"mem"`
	Sto     Quantity  `json:"sto"`
	Exposes []AExpose `json:"exposes"`
}

// Quantity is <<hi, lo>> = hi * 2^20 + lo: TLC integers are 32 bit, leased quantities are not.
type Quantity [2]int64

func (q Quantity) value() uint64 { return uint64(q[0])<<20 + uint64(q[1]) }

func quantity(v int64) Quantity { return Quantity{v >> 20, v & (1<<20 - 1)} }

var unsetQuantity = Quantity{-1, 0}

type ASettings struct {
	CPU     [2]int `json:"cpu"`
	Mem     [2]int `json:"mem"`
	Sto     [2]int `json:"sto"`
	Netpol  bool   `json:"netpol"`
	Runtime string `json:"runtime"`
	Static  bool   `json:"static"`
	Domain  string `json:"domain"`
}

type ARound struct {
	Svcs []AService `json:"svcs"`
	St   ASettings  `json:"st"`
}

// ALease: the sequence numbers are decimal strings (TLC integers are 32 bit signed; dseq is a uint64).
type ALease struct {
	Owner    string `json:"owner"`
	DSeq     string `json:"dseq"`
	GSeq     string `json:"gseq"`
	OSeq     string `json:"oseq"`
	Provider string `json:"provider"`
	NS       string `json:"ns,omitempty"` // abstract name in the model universe; unused here
}

// AOther: a second lease deployed into the same cluster after the rounds of the main lease.
type AOther struct {
	Lease ALease `json:"lease"`
	R     ARound `json:"r"`
}

type AInput struct {
	ID     int      `json:"id"`
	Slice  string   `json:"slice"`
	Lease  ALease   `json:"lease"`
	Rounds []ARound `json:"rounds"`
	Other  []AOther `json:"other"`
}

// ---- concretisation ----

// address turns an abstract account name ("o1", "p2") into a real bech32 account address.
func address(name string) string {
	h := sha256.Sum256([]byte("verif/kube/" + name))
	s, err := bech32.ConvertAndEncode("akash", h[:20])
	if err != nil {
		panic(err)
	}
	return s
}

func leaseID(l ALease) (mtypes.LeaseID, error) {
	d, err := strconv.ParseUint(l.DSeq, 10, 64)
	if err != nil {
		return mtypes.LeaseID{}, err
	}
	g, err := strconv.ParseUint(l.GSeq, 10, 32)
	if err != nil {
		return mtypes.LeaseID{}, err
	}
	o, err := strconv.ParseUint(l.OSeq, 10, 32)
	if err != nil {
		return mtypes.LeaseID{}, err
	}
	return mtypes.LeaseID{Owner: address(l.Owner), DSeq: d, GSeq: uint32(g), OSeq: uint32(o), Provider: address(l.Provider)}, nil
}

// concrete is the lease id as the real code sees it, sequence numbers back as decimal strings.
func concrete(lid mtypes.LeaseID) ALease {
	return ALease{Owner: lid.Owner, DSeq: strconv.FormatUint(lid.DSeq, 10), GSeq: strconv.FormatUint(uint64(lid.GSeq), 10),
		OSeq: strconv.FormatUint(uint64(lid.OSeq), 10), Provider: lid.Provider}
}

func group(r ARound) (*manifest.Group, error) {
	g := &manifest.Group{Name: "g"}
	for _, s := range r.Svcs {
		if s.NP != s.Name+"-np" || s.Pol != "akash-"+s.Name+"-np" {
			return nil, fmt.Errorf("input service %q: derived names %q %q do not follow the code's naming", s.Name, s.NP, s.Pol)
		}
		svc := manifest.Service{
			Name:  s.Name,
			Image: "img/" + s.Name,
			Env:   []string{"FOO=bar", "AKASH_OWNER"},
			Count: uint32(s.Count),
			Resources: atypes.ResourceUnits{
				CPU:     &atypes.CPU{Units: atypes.NewResourceValue(s.CPU.value())},
				Memory:  &atypes.Memory{Quantity: atypes.NewResourceValue(s.Mem.value())},
				Storage: &atypes.Storage{Quantity: atypes.NewResourceValue(s.Sto.value())},
			},
		}
		for _, e := range s.Exposes {
			svc.Expose = append(svc.Expose, manifest.ServiceExpose{
				Port:         uint16(e.Port),
				ExternalPort: uint16(e.As),
				Proto:        manifest.ServiceProtocol(e.Proto),
				Global:       e.Global,
				Hosts:        append([]string{}, e.Hosts...),
			})
		}
		g.Services = append(g.Services, svc)
	}
	return g, nil
}

func settings(s ASettings) kube.Settings {
	st := kube.NewDefaultSettings()
	st.CPUCommitLevel = float64(s.CPU[0]) / float64(s.CPU[1])
	st.MemoryCommitLevel = float64(s.Mem[0]) / float64(s.Mem[1])
	st.StorageCommitLevel = float64(s.Sto[0]) / float64(s.Sto[1])
	st.NetworkPoliciesEnabled = s.Netpol
	st.DeploymentRuntimeClass = s.Runtime
	st.DeploymentIngressStaticHosts = s.Static
	st.DeploymentIngressDomain = s.Domain
	st.ClusterPublicHostname = "provider.example.com"
	return st
}
