//go:build verif
// +build verif

package kubeh

import (
	"context"
	"encoding/json"
	"flag"
	"fmt"
	"os"
	"runtime"
	"sort"
	"strings"
	"sync"

	"github.com/tendermint/tendermint/libs/log"
	"k8s.io/apimachinery/pkg/api/meta"
	metav1 "k8s.io/apimachinery/pkg/apis/meta/v1"
	"k8s.io/apimachinery/pkg/labels"
	k8sruntime "k8s.io/apimachinery/pkg/runtime"
	kfake "k8s.io/client-go/kubernetes/fake"
	ktesting "k8s.io/client-go/testing"

	afake "github.com/ovrclk/akash/pkg/client/clientset/versioned/fake"
	"github.com/ovrclk/akash/provider/cluster/kube"
	mtypes "github.com/ovrclk/akash/x/market/types"

	"verif/harness/vcommon"
)

const providerNS = "lease" // the provider's own namespace (ProviderNS in the spec)

// PAct is one API call as the fake clientsets saw it.
type PAct struct {
	Verb  string   `json:"verb"`
	Kind  string   `json:"kind"`
	Ans   string   `json:"ans"`
	Name  string   `json:"name,omitempty"`
	Obj   PObj     `json:"obj,omitempty"`
	Sel   *PSel    `json:"sel,omitempty"`
	Names []string `json:"names,omitempty"`
}

type PBuilt struct {
	NS  string `json:"ns"` // builder.ns()
	Obj PObj   `json:"obj"`
}

type PRound struct {
	Err   string   `json:"err"`
	Acts  []PAct   `json:"acts"`
	Snap  []PObj   `json:"snap"`  // every object in the cluster after this Deploy
	Built []PBuilt `json:"built"` // what the builders' create() return, called directly
}

// POther is the Deploy of a second lease into the same cluster.
type POther struct {
	Lease   ALease   `json:"lease"`
	NS      string   `json:"ns"`
	NSChars []string `json:"nsChars"`
	Round   PRound   `json:"round"`
}

// PTeardown is TeardownLease(main lease), called last.
type PTeardown struct {
	Err  string `json:"err"`
	Acts []PAct `json:"acts"`
}

type PLine struct {
	ID       int       `json:"id"`
	Slice    string    `json:"slice"`
	Input    AInput    `json:"input"`
	Lease    ALease    `json:"lease"` // concrete: real bech32 addresses
	NS       string    `json:"ns"`    // lidNS(lease)
	NSChars  []string  `json:"nsChars"`
	Rounds   []PRound  `json:"rounds"`
	Other    []POther  `json:"other"`
	Teardown PTeardown `json:"teardown"`
}

var kinds = map[string]string{"namespaces": "namespace", "networkpolicies": "netpol", "deployments": "deployment",
	"services": "service", "ingresses": "ingress", "manifests": "manifest"}

type recorder struct {
	mu   sync.Mutex
	on   bool
	acts []PAct
	err  error
}

func (r *recorder) set(on bool) {
	r.mu.Lock()
	r.on = on
	r.mu.Unlock()
}

func (r *recorder) react(a ktesting.Action) (bool, k8sruntime.Object, error) {
	r.mu.Lock()
	defer r.mu.Unlock()
	if !r.on {
		return false, nil, nil
	}
	kind, ok := kinds[a.GetResource().Resource]
	if !ok {
		kind = a.GetResource().Resource
	}
	act := PAct{Verb: a.GetVerb(), Kind: kind, Ans: a.GetNamespace()}
	switch a.GetVerb() {
	case "get":
		act.Name = a.(ktesting.GetAction).GetName()
	case "delete":
		act.Name = a.(ktesting.DeleteAction).GetName()
	case "delete-collection":
		s := selFromSelector(a.(ktesting.DeleteCollectionAction).GetListRestrictions().Labels)
		act.Sel = &s
	case "list":
		s := selFromSelector(a.(ktesting.ListAction).GetListRestrictions().Labels)
		act.Sel = &s
	case "create", "update":
		obj := a.(ktesting.UpdateAction).GetObject().DeepCopyObject()
		m, err := meta.Accessor(obj)
		if err != nil {
			r.err = err
			return false, nil, nil
		}
		act.Name = m.GetName()
		p, err := project(a.GetNamespace(), obj)
		if err != nil {
			r.err = err
			return false, nil, nil
		}
		act.Obj = p
	default:
		r.err = fmt.Errorf("unrecorded action type %T (%s)", a, a.GetVerb())
	}
	r.acts = append(r.acts, act)
	return false, nil, nil
}

// take returns the recorded calls, with consecutive single deletes of one kind merged into one "delete-set"
// (the code deletes stale services in the order a map-backed List returned them).
func (r *recorder) take() []PAct {
	r.mu.Lock()
	defer r.mu.Unlock()
	out := []PAct{}
	for _, a := range r.acts {
		if a.Verb == "delete" {
			if n := len(out); n > 0 && out[n-1].Verb == "delete-set" && out[n-1].Kind == a.Kind && out[n-1].Ans == a.Ans {
				out[n-1].Names = append(out[n-1].Names, a.Name)
				sort.Strings(out[n-1].Names)
				continue
			}
			out = append(out, PAct{Verb: "delete-set", Kind: a.Kind, Ans: a.Ans, Names: []string{a.Name}})
			continue
		}
		out = append(out, a)
	}
	r.acts = nil
	return out
}

// deleteCollection gives the fake clientset the API server's delete-collection semantics (client-go's object
// tracker has none): delete every object of the resource in the namespace whose labels match the selector.
func deleteCollection(tr ktesting.ObjectTracker) ktesting.ReactionFunc {
	return func(a ktesting.Action) (bool, k8sruntime.Object, error) {
		dc, ok := a.(ktesting.DeleteCollectionAction)
		if !ok {
			return false, nil, nil
		}
		gvr := a.GetResource()
		gvk := gvr.GroupVersion().WithKind(map[string]string{"deployments": "Deployment", "ingresses": "Ingress"}[gvr.Resource])
		list, err := tr.List(gvr, gvk, a.GetNamespace())
		if err != nil {
			return true, nil, err
		}
		items, err := meta.ExtractList(list)
		if err != nil {
			return true, nil, err
		}
		for _, it := range items {
			m, err := meta.Accessor(it)
			if err != nil {
				return true, nil, err
			}
			if dc.GetListRestrictions().Labels.Matches(labels.Set(m.GetLabels())) {
				if err := tr.Delete(gvr, m.GetNamespace(), m.GetName()); err != nil {
					return true, nil, err
				}
			}
		}
		return true, nil, nil
	}
}

func snapshot(ctx context.Context, kc *kfake.Clientset, ac *afake.Clientset) ([]PObj, error) {
	out := []PObj{}
	add := func(ns string, o interface{}) error {
		p, err := project(ns, o)
		if err != nil {
			return err
		}
		out = append(out, p)
		return nil
	}
	all := metav1.ListOptions{}
	nss, err := kc.CoreV1().Namespaces().List(ctx, all)
	if err != nil {
		return nil, err
	}
	for i := range nss.Items {
		if err := add("", &nss.Items[i]); err != nil {
			return nil, err
		}
	}
	pols, err := kc.NetworkingV1().NetworkPolicies("").List(ctx, all)
	if err != nil {
		return nil, err
	}
	for i := range pols.Items {
		if err := add(pols.Items[i].Namespace, &pols.Items[i]); err != nil {
			return nil, err
		}
	}
	deps, err := kc.AppsV1().Deployments("").List(ctx, all)
	if err != nil {
		return nil, err
	}
	for i := range deps.Items {
		if err := add(deps.Items[i].Namespace, &deps.Items[i]); err != nil {
			return nil, err
		}
	}
	svcs, err := kc.CoreV1().Services("").List(ctx, all)
	if err != nil {
		return nil, err
	}
	for i := range svcs.Items {
		if err := add(svcs.Items[i].Namespace, &svcs.Items[i]); err != nil {
			return nil, err
		}
	}
	ings, err := kc.NetworkingV1().Ingresses("").List(ctx, all)
	if err != nil {
		return nil, err
	}
	for i := range ings.Items {
		if err := add(ings.Items[i].Namespace, &ings.Items[i]); err != nil {
			return nil, err
		}
	}
	mans, err := ac.AkashV1().Manifests("").List(ctx, all)
	if err != nil {
		return nil, err
	}
	for i := range mans.Items {
		if err := add(mans.Items[i].Namespace, &mans.Items[i]); err != nil {
			return nil, err
		}
	}
	return out, nil
}

// runInput executes one abstract input on the real code.
func runInput(in AInput) (*PLine, error) {
	ctx := context.Background()
	lid, err := leaseID(in.Lease)
	if err != nil {
		return nil, fmt.Errorf("input %d: lease id: %w", in.ID, err)
	}
	ns := kube.VerifLidNS(lid)
	line := &PLine{ID: in.ID, Slice: in.Slice, Input: in, NS: ns, NSChars: strings.Split(ns, ""), Lease: concrete(lid)}

	kc := kfake.NewSimpleClientset()
	ac := afake.NewSimpleClientset()
	rec := &recorder{}
	kc.PrependReactor("delete-collection", "*", deleteCollection(kc.Tracker()))
	kc.PrependReactor("*", "*", rec.react)
	ac.PrependReactor("*", "*", rec.react)

	deploy := func(lid mtypes.LeaseID, r ARound) (*PRound, error) {
		g, err := group(r)
		if err != nil {
			return nil, err
		}
		st := settings(r.St)
		// the client is rebuilt per Deploy: a provider restarted with other settings redeploys into the same cluster
		client, err := kube.VerifNewClient(ctx, log.NewNopLogger(), providerNS, st, kc, ac)
		if err != nil {
			return nil, fmt.Errorf("input %d: constructing client: %w", in.ID, err)
		}
		rec.set(true)
		derr := client.Deploy(ctx, lid, g)
		rec.set(false)
		if rec.err != nil {
			return nil, fmt.Errorf("input %d: %w", in.ID, rec.err)
		}
		pr := &PRound{Acts: rec.take(), Built: []PBuilt{}}
		if derr != nil {
			pr.Err = derr.Error()
		}
		if pr.Snap, err = snapshot(ctx, kc, ac); err != nil {
			return nil, fmt.Errorf("input %d: snapshot: %w", in.ID, err)
		}
		built, err := kube.VerifBuild(log.NewNopLogger(), providerNS, st, lid, g)
		if err != nil {
			return nil, fmt.Errorf("input %d: builders: %w", in.ID, err)
		}
		for _, b := range built {
			p, err := project(b.NS, b.Obj)
			if err != nil {
				return nil, fmt.Errorf("input %d: %w", in.ID, err)
			}
			pr.Built = append(pr.Built, PBuilt{NS: b.NS, Obj: p})
		}
		return pr, nil
	}

	for _, r := range in.Rounds {
		pr, err := deploy(lid, r)
		if err != nil {
			return nil, err
		}
		line.Rounds = append(line.Rounds, *pr)
	}
	line.Other = []POther{}
	for _, o := range in.Other {
		lid2, err := leaseID(o.Lease)
		if err != nil {
			return nil, fmt.Errorf("input %d: lease id: %w", in.ID, err)
		}
		pr, err := deploy(lid2, o.R)
		if err != nil {
			return nil, err
		}
		ns2 := kube.VerifLidNS(lid2)
		line.Other = append(line.Other, POther{NS: ns2, NSChars: strings.Split(ns2, ""), Round: *pr, Lease: concrete(lid2)})
	}
	// teardown of the main lease
	{
		var st kube.Settings
		if n := len(in.Rounds); n > 0 {
			st = settings(in.Rounds[n-1].St)
		}
		client, err := kube.VerifNewClient(ctx, log.NewNopLogger(), providerNS, st, kc, ac)
		if err != nil {
			return nil, fmt.Errorf("input %d: constructing client: %w", in.ID, err)
		}
		rec.set(true)
		terr := client.TeardownLease(ctx, lid)
		rec.set(false)
		if rec.err != nil {
			return nil, fmt.Errorf("input %d: %w", in.ID, rec.err)
		}
		line.Teardown = PTeardown{Acts: rec.take()}
		if terr != nil {
			line.Teardown.Err = terr.Error()
		}
	}
	return line, nil
}

// PProbe: the namespace name the real code derives for one lease id.
type PProbe struct {
	Lease   ALease   `json:"lease"`
	NS      string   `json:"ns"`
	NSChars []string `json:"nsChars"`
}

// probes: vh kube ns -in probes.ndjson -out names.ndjson -- lidNS for every abstract lease id of the file.
func probes(args []string) int {
	fs := flag.NewFlagSet("kube ns", flag.ContinueOnError)
	inPath := fs.String("in", "", "abstract lease ids, ndjson (exported by TLC from MC_KubePolicy)")
	outPath := fs.String("out", "", "lease id, namespace name; ndjson")
	if err := fs.Parse(args); err != nil {
		return 2
	}
	w, err := vcommon.NewWriter(*outPath)
	if err != nil {
		fmt.Fprintln(os.Stderr, "kubeh:", err)
		return 2
	}
	n := 0
	if err := vcommon.ReadLines(*inPath, func(raw json.RawMessage) error {
		var l ALease
		if err := json.Unmarshal(raw, &l); err != nil {
			return err
		}
		lid, err := leaseID(l)
		if err != nil {
			return err
		}
		ns := kube.VerifLidNS(lid)
		n++
		return w.Write(PProbe{Lease: concrete(lid), NS: ns, NSChars: strings.Split(ns, "")})
	}); err != nil {
		fmt.Fprintln(os.Stderr, "kubeh: probes:", err)
		return 2
	}
	if err := w.Close(); err != nil {
		fmt.Fprintln(os.Stderr, "kubeh:", err)
		return 2
	}
	fmt.Printf("{\"probes\": %d}\n", n)
	return 0
}

// Main: vh kube run -in inputs.ndjson -out out.ndjson | vh kube ns -in probes.ndjson -out names.ndjson
func Main(args []string) int {
	if len(args) > 0 && args[0] == "ns" {
		return probes(args[1:])
	}
	if len(args) == 0 || args[0] != "run" {
		fmt.Fprintln(os.Stderr, "usage: vh kube run -in inputs.ndjson -out out.ndjson [-workers N] | vh kube ns -in probes.ndjson -out names.ndjson")
		return 2
	}
	fs := flag.NewFlagSet("kube run", flag.ContinueOnError)
	inPath := fs.String("in", "", "abstract inputs, ndjson (exported by TLC from MC_KubePolicy)")
	outPath := fs.String("out", "", "recorded lines, ndjson")
	workers := fs.Int("workers", runtime.NumCPU(), "parallel workers")
	if err := fs.Parse(args[1:]); err != nil {
		return 2
	}
	var inputs []AInput
	if err := vcommon.ReadLines(*inPath, func(raw json.RawMessage) error {
		var in AInput
		if err := json.Unmarshal(raw, &in); err != nil {
			return err
		}
		if in.Other == nil {
			in.Other = []AOther{}
		}
		inputs = append(inputs, in)
		return nil
	}); err != nil {
		fmt.Fprintln(os.Stderr, "kubeh: reading inputs:", err)
		return 2
	}
	lines := make([]*PLine, len(inputs))
	errs := make([]error, len(inputs))
	var wg sync.WaitGroup
	ch := make(chan int)
	for w := 0; w < *workers; w++ {
		wg.Add(1)
		go func() {
			defer wg.Done()
			for i := range ch {
				func() {
					defer func() {
						if p := recover(); p != nil {
							errs[i] = fmt.Errorf("input %d: panic: %v", inputs[i].ID, p)
						}
					}()
					lines[i], errs[i] = runInput(inputs[i])
				}()
			}
		}()
	}
	for i := range inputs {
		ch <- i
	}
	close(ch)
	wg.Wait()
	w, err := vcommon.NewWriter(*outPath)
	if err != nil {
		fmt.Fprintln(os.Stderr, "kubeh:", err)
		return 2
	}
	for i := range inputs {
		if errs[i] != nil {
			fmt.Fprintln(os.Stderr, "kubeh:", errs[i])
			return 2
		}
		if err := w.Write(lines[i]); err != nil {
			fmt.Fprintln(os.Stderr, "kubeh:", err)
			return 2
		}
	}
	if err := w.Close(); err != nil {
		fmt.Fprintln(os.Stderr, "kubeh:", err)
		return 2
	}
	fmt.Printf("{\"inputs\": %d}\n", len(inputs))
	return 0
}
