package mmanagerh

import (
	"encoding/json"
	"flag"
	"fmt"
	"math/rand"
	"os"
	"runtime"
	"sort"
	"sync"
	"time"

	sdk "github.com/cosmos/cosmos-sdk/types"

	"verif/harness/vcommon"

	"github.com/ovrclk/akash/provider/event"
	pmanifest "github.com/ovrclk/akash/provider/manifest"
	"github.com/ovrclk/akash/util/veriftrace"
	dtypes "github.com/ovrclk/akash/x/deployment/types"
	mtypes "github.com/ovrclk/akash/x/market/types"
)

// Free-running direction: the same service, no gates. Chain events are published and Submit is called from
// concurrent goroutines with random yields, the scripted chain answers each query after a random pause. The
// manager's hooks give the order in which its loop consumed the stimuli (the loop is the only writer of its
// state, so that order is the linearisation); the recorded events are folded into the same step records the
// forced replay produces and validated by the same trace specification.

type lockedRand struct {
	mu sync.Mutex
	r  *rand.Rand
}

func (l *lockedRand) Intn(n int) int {
	l.mu.Lock()
	defer l.mu.Unlock()
	return l.r.Intn(n)
}

func (l *lockedRand) pause() {
	switch l.Intn(4) {
	case 0:
	case 1:
		runtime.Gosched()
	case 2:
		time.Sleep(time.Duration(l.Intn(60)) * time.Microsecond)
	default:
		time.Sleep(time.Duration(l.Intn(400)) * time.Microsecond)
	}
}

func mainFree(args []string) int {
	fs := flag.NewFlagSet("free", flag.ContinueOnError)
	repo := fs.String("repo", "/repo", "checkout the fixtures are read from")
	seed := fs.Int64("seed", 1, "seed")
	runs := fs.Int("runs", 10, "number of executions")
	ops := fs.Int("ops", 12, "stimuli per execution")
	first := fs.Int("first", 1000000, "id of the first execution")
	out := fs.String("out", "", "trace output (ndjson)")
	hangMS := fs.Int("hang-ms", 5000, "how long the driver waits for outstanding Submit calls and for shutdown")
	if err := fs.Parse(args); err != nil || *out == "" {
		return 2
	}
	fx, err := loadFixtures(*repo)
	if err != nil {
		fmt.Fprintln(os.Stderr, "fixtures:", err)
		return 2
	}
	w, err := vcommon.NewWriter(*out)
	if err != nil {
		fmt.Fprintln(os.Stderr, err)
		return 2
	}
	steps := 0
	for i := 0; i < *runs; i++ {
		n, err := freeOne(fx, *first+i, *seed*100003+int64(i), *ops, time.Duration(*hangMS)*time.Millisecond, w)
		if err != nil {
			fmt.Fprintln(os.Stderr, "free run:", err)
			_ = w.Close()
			return 2
		}
		steps += n
	}
	if err := w.Close(); err != nil {
		fmt.Fprintln(os.Stderr, err)
		return 2
	}
	b, _ := json.Marshal(map[string]int{"runs": *runs, "steps": steps})
	fmt.Println(string(b))
	return 0
}

type freeSubmit struct {
	tag int // harness tag, carried in the Submit context
	mf  int
	ret *string
}

func freeOne(fx *fixtures, id int, seed int64, ops int, hangTO time.Duration, w *vcommon.Writer) (int, error) {
	rnd := &lockedRand{r: rand.New(rand.NewSource(seed))}
	e, err := newEnv(fx, id, pmanifest.ServiceConfig{})
	if err != nil {
		return 0, err
	}
	e.freeFetch = func(c *fetchCall) {
		rnd.pause()
		switch x := rnd.Intn(10); {
		case x < 2:
			c.release <- fetchResult{version: 0}
		case x < 7:
			c.release <- fetchResult{version: 1}
		default:
			c.release <- fetchResult{version: 2 + rnd.Intn(3)}
		}
	}

	// the plan: chain events for one publisher goroutine (in order), submissions for submitter goroutines
	var chain []interface{}
	var subs []*freeSubmit
	won := []int{}
	nextLease := 1
	shutdownAt := -1
	if rnd.Intn(4) == 0 {
		shutdownAt = rnd.Intn(ops)
	}
	for i := 0; i < ops; i++ {
		switch x := rnd.Intn(20); {
		case x < 4 && nextLease <= 3:
			chain = append(chain, e.leaseWon(nextLease))
			won = append(won, nextLease)
			nextLease++
		case x < 6 && len(won) > 0:
			l := won[rnd.Intn(len(won))]
			chain = append(chain, mtypes.EventLeaseClosed{ID: e.leaseID(l), Price: sdk.NewInt64Coin("uakt", 111)})
		case x < 9:
			chain = append(chain, dtypes.EventDeploymentUpdated{ID: e.did, Version: fx.hash[1+rnd.Intn(4)]})
		case x < 10:
			chain = append(chain, dtypes.EventDeploymentClosed{ID: e.did})
		default:
			mf := 1 + rnd.Intn(2)
			if rnd.Intn(4) == 0 {
				mf = 3 + rnd.Intn(2)
			}
			subs = append(subs, &freeSubmit{tag: len(subs) + 1, mf: mf})
		}
	}
	if len(won) == 0 {
		chain = append([]interface{}{e.leaseWon(nextLease)}, chain...)
	}

	var wg sync.WaitGroup
	wg.Add(1)
	go func() {
		defer wg.Done()
		for i, ev := range chain {
			rnd.pause()
			if i == shutdownAt {
				e.cancel()
			}
			_ = e.bus.Publish(ev)
		}
	}()
	var retMu sync.Mutex
	nsubmitters := 1 + rnd.Intn(3)
	for k := 0; k < nsubmitters; k++ {
		wg.Add(1)
		go func(k int) {
			defer wg.Done()
			var inner sync.WaitGroup
			for i := k; i < len(subs); i += nsubmitters {
				rnd.pause()
				s := subs[i]
				inner.Add(1)
				go func() {
					defer inner.Done()
					done := make(chan error, 1)
					go func() { done <- e.submitTagged(s.tag, s.mf) }()
					select {
					case err := <-done:
						k := classify(err)
						retMu.Lock()
						s.ret = &k
						retMu.Unlock()
					case <-time.After(hangTO + 20*time.Second):
					}
				}()
				if rnd.Intn(2) == 0 {
					inner.Wait() // this submitter waits for its answer before the next submission
				}
			}
			inner.Wait()
		}(k)
	}

	// let the stimuli drain, then stop the provider: Submit calls still outstanding must be answered by then
	stimuliDone := make(chan struct{})
	go func() { wg.Wait(); close(stimuliDone) }()
	hung := false
	select {
	case <-stimuliDone:
	case <-time.After(hangTO):
		// some Submit call has not returned: a chain query answer may still be on its way; after the pause below
		// the provider is stopped, which must answer it
	}
	time.Sleep(time.Duration(rnd.Intn(300)) * time.Microsecond)
	e.cancel()
	select {
	case <-e.svc.Done():
	case <-time.After(hangTO):
		hung = true
	}
	select {
	case <-stimuliDone:
	case <-time.After(hangTO):
		hung = true
	}
	e.close(2 * time.Second)

	// collect hook events
	var evs []veriftrace.Event
	for more := true; more; {
		select {
		case ev := <-e.hooks:
			evs = append(evs, ev)
		default:
			more = false
		}
	}
	sort.Slice(evs, func(i, j int) bool { return evs[i].Seq < evs[j].Seq })
	if os.Getenv("VERIF_MM_DUMP") == fmt.Sprint(id) {
		for _, ev := range evs {
			b, _ := json.Marshal(ev)
			fmt.Fprintln(os.Stderr, string(b))
		}
	}
	busAnn := 0
	for more := true; more; {
		select {
		case ev := <-e.busEvents:
			if _, ok := ev.(event.ManifestReceived); ok {
				busAnn++
			}
		default:
			more = false
		}
	}
	retMu.Lock()
	defer retMu.Unlock()
	recs := foldFree(namer{lease: e.leaseNum, version: e.fx.version}, id, evs, subs, busAnn, hung || e.overflow, false)
	for _, r := range recs {
		if err := w.Write(r); err != nil {
			return 0, err
		}
	}
	return len(recs) - 1, nil
}

// namer maps concrete lease ids and version hashes to the small integers of the specification.
type namer struct {
	lease   func(string) int
	version func(string) int
}

// foldFree turns the hook events of one execution into step records. With synth (traces of executions the harness
// did not drive, e.g. the repository's own tests) submissions are reconstructed from the request hooks and the
// replies received are taken to be the replies written.
func foldFree(e namer, id int, evs []veriftrace.Event, subs []*freeSubmit, busAnn int, hung bool, synth bool) []*Rec {
	blank := func(name string, arg int) *Rec {
		return &Rec{E: "step", Script: id, Name: name, Arg: arg, Sends: [][]interface{}{}, Rets: [][]interface{}{}, Ann: [][2]int{},
			AnnHook: [][2]int{}, Missing: []int{}, Errs: []string{}}
	}
	reset := blank("", 0)
	reset.E = "reset"
	reset.St = emptyState("run")
	reset.Chain = "idle"
	out := []*Rec{reset}

	byTag := map[int]*freeSubmit{}
	for _, s := range subs {
		byTag[s.tag] = s
	}
	model := map[int]int{} // harness tag -> request id of the model (order in which the provider took them)
	nreq := 0
	chReq := map[string]int{}
	sendStep := map[int]*Rec{} // model request -> the step that wrote its reply
	routed := map[int]bool{}

	mgr, svcShut, managers := "none", false, 0
	svcNow := "run" // what submitters see: "down" once a manager has swallowed the provider's stop request
	zombie := false
	// swallowed: a validating iteration answered ErrNotRunning although the manager carries on (the hostname
	// check consumed a stop request). Returns the ordinal of the victim among the requests that reach the check.
	swallowed := func(c *Rec, queue [][2]int, st StateRec) int {
		victim := 0
		for _, sd := range c.Sends {
			if sd[1].(string) == "notrunning" {
				victim = sd[0].(int)
			}
		}
		if victim == 0 {
			return 0
		}
		expected := st.Data
		if len(st.Versions) > 0 {
			expected = st.Versions[len(st.Versions)-1]
		}
		k := 0
		for _, q := range queue {
			if q[1] == expected && q[1] != 4 { // reaches the hostname check (4 fails the deployment-group validation)
				k++
			}
			if q[0] == victim {
				return k
			}
		}
		return 0
	}
	curID := ""
	var cur *Rec // the manager iteration being assembled
	var prev StateRec = emptyState("run")
	hookAnn := 0

	stateOf := func(ev *veriftrace.Event, dead bool) StateRec {
		st := emptyState(svcNow)
		st.Mgr = mgr
		for _, ch := range kvl(ev, "requests") {
			q := chReq[ch]
			mf := 0
			for t, m := range model {
				if m == q {
					mf = byTag[t].mf
				}
			}
			st.Requests = append(st.Requests, [2]int{q, mf})
		}
		for _, ch := range kvl(ev, "pending") {
			st.Pending = append(st.Pending, chReq[ch])
		}
		if dead {
			return st
		}
		if kvb(ev, "fetch") {
			st.Fetch = "inflight"
		}
		for _, l := range kvl(ev, "leases") {
			st.Leases = append(st.Leases, e.lease(l))
		}
		if kvb(ev, "hasData") {
			st.Data = e.version(kvs(ev, "data"))
		}
		for _, h := range kvl(ev, "manifests") {
			st.Manifests = append(st.Manifests, e.version(h))
		}
		for _, h := range kvl(ev, "versions") {
			st.Versions = append(st.Versions, e.version(h))
		}
		return st
	}
	emit := func(r *Rec) {
		r.Chain = r.St.Fetch // (no gate in this direction: the hooks' word is all there is)
		r.I = len(out)
		r.Ann = r.AnnHook
		out = append(out, r)
		prev = r.St
	}
	ensure := func() *Rec {
		if cur == nil {
			cur = blank("?", 0)
		}
		return cur
	}
	last := func(l []int) int {
		if len(l) == 0 {
			return 0
		}
		return l[len(l)-1]
	}

	var deferred []*veriftrace.Event
	refuse := func(ev *veriftrace.Event) {
		tag, _ := ev.KV["tag"].(int)
		if synth {
			tag = len(byTag) + 1
			byTag[tag] = &freeSubmit{tag: tag, mf: e.version(kvs(ev, "manifest"))}
			subs = append(subs, byTag[tag])
		}
		nreq++
		model[tag] = nreq
		chReq[kvs(ev, "ch")] = nreq
		r := blank("Submit", byTag[tag].mf)
		r.Sends = append(r.Sends, []interface{}{nreq, classifyText(kvs(ev, "err"))})
		sendStep[nreq] = r
		r.St = prev
		emit(r)
	}

	for i := range evs {
		ev := &evs[i]
		if ev.Component == compService {
			n, _ := ev.KV["managers"].(int)
			switch ev.Event {
			case "shutdown":
				svcShut = true
				// (mgr "none" with a manager registered: it has taken its first stimulus but not reported yet; the
				// shutdown is then ordered at that manager's exit, like for any running manager)
				if mgr == "stopping" || (mgr == "none" && n == 0) {
					r := blank("Shutdown", 0)
					mgr = "none"
					r.St = emptyState("down")
					emit(r)
				}
			case "iter":
				if n < managers && mgr == "stopping" {
					r := blank("ManagerDone", 0)
					mgr = "none"
					r.St = emptyState("run")
					emit(r)
				}
			}
			managers = n
			continue
		}
		switch ev.Event {
		case "request":
			tag, _ := ev.KV["tag"].(int)
			if synth {
				tag = len(byTag) + 1
				byTag[tag] = &freeSubmit{tag: tag, mf: e.version(kvs(ev, "manifest"))}
				subs = append(subs, byTag[tag])
			}
			nreq++
			model[tag] = nreq
			routed[nreq] = true
			chReq[kvs(ev, "ch")] = nreq
			c := ensure()
			c.Name, c.Arg = "Submit", byTag[tag].mf
		case "refuse":
			// handleManifest saw the manager shutting down. The manager declares that (ShutdownInitiated) before
			// it runs its exit path and reports "stop": a refusal seen before "stop" is ordered after it.
			if mgr == "run" && ev.ID == curID {
				deferred = append(deferred, ev)
				continue
			}
			refuse(ev)
		case "reply":
			q := chReq[kvs(ev, "ch")]
			kind := "ok"
			if !kvb(ev, "ok") {
				kind = classifyText(kvs(ev, "err"))
			}
			c := ensure()
			c.Sends = append(c.Sends, []interface{}{q, kind})
			if _, dup := sendStep[q]; !dup {
				sendStep[q] = c
			}
		case "announce":
			c := ensure()
			c.AnnHook = append(c.AnnHook, [2]int{e.lease(kvs(ev, "lease")), e.version(kvs(ev, "manifest"))})
			hookAnn++
		case "exit", "stop-timer":
			// "stop" already closed the step
		default:
			c := ensure()
			cur = nil
			if ev.ID != curID {
				curID = ev.ID
			}
			switch ev.Event {
			case "lease":
				mgr = "run"
				c.St = stateOf(ev, false)
				c.Name, c.Arg = "LeaseWon", last(c.St.Leases)
			case "manifest":
				mgr = "run"
				c.St = stateOf(ev, false)
				if len(c.Sends) > 0 {
					newReq := c.Sends[0][0].(int)
					for _, sd := range c.Sends {
						if sd[0].(int) > newReq {
							newReq = sd[0].(int)
						}
					}
					queue := append(append([][2]int{}, prev.Requests...), [2]int{newReq, c.Arg})
					if k := swallowed(c, queue, c.St); k > 0 {
						c.Name, c.K, c.C = "SubmitSw", k, 1
						if svcShut {
							c.C, svcNow, zombie = 2, "down", true
							c.St.Svc = "down"
						}
					}
				}
			case "update":
				c.St = stateOf(ev, false)
				c.Name, c.Arg = "Update", last(c.St.Versions)
			case "lease-removed":
				c.St = stateOf(ev, false)
				gone := 0
				for _, l := range prev.Leases {
					found := false
					for _, k := range c.St.Leases {
						found = found || k == l
					}
					if !found {
						gone = l
					}
				}
				if gone == 0 {
					gone = 9 // a lease that was not held
				}
				c.Name, c.Arg = "LeaseRemoved", gone
			case "fetch-ok":
				c.St = stateOf(ev, false)
				c.Name, c.Arg = "FetchOk", c.St.Data
				if k := swallowed(c, prev.Requests, c.St); k > 0 {
					c.Name, c.K, c.C = "FetchOkSw", k, 1
					if svcShut {
						c.C, svcNow, zombie = 2, "down", true
						c.St.Svc = "down"
					}
				}
			case "fetch-err":
				c.St = stateOf(ev, false)
				c.Name = "FetchErr"
			case "stop":
				if svcShut {
					mgr = "none"
					c.Name = "Shutdown"
					c.St = stateOf(ev, true)
					c.St.Svc = "down"
				} else {
					mgr = "stopping"
					c.Name = "DeploymentClosed"
					c.St = stateOf(ev, true)
				}
			}
			emit(c)
			if ev.Event == "stop" {
				for _, d := range deferred {
					refuse(d)
				}
				deferred = nil
			}
		}
	}
	if !svcShut && !synth {
		r := blank("Shutdown", 0)
		r.St = emptyState("down")
		r.Timeout = "service never shut down"
		emit(r)
	}
	// Submit returns: attributed to the step that wrote the reply; unanswered-by-the-manager ones to the shutdown
	var shutdownStep *Rec
	for _, r := range out {
		if r.Name == "Shutdown" {
			shutdownStep = r
		}
	}
	if synth {
		// replies received := replies written
		for _, r := range out {
			for _, sd := range r.Sends {
				r.Rets = append(r.Rets, sd)
			}
		}
		subs = nil
	}
	// the state submitters meet after the provider stopped: nothing left, or the zombie manager as it was
	downState := func() StateRec {
		if zombie {
			st := prev
			st.Svc = "down"
			return st
		}
		return emptyState("down")
	}
	tags := make([]int, 0, len(subs))
	for _, s := range subs {
		tags = append(tags, s.tag)
	}
	sort.Ints(tags)
	var finalMissing []int
	for _, t := range tags {
		s := byTag[t]
		q, known := model[t]
		switch {
		case known && s.ret != nil:
			if st := sendStep[q]; st != nil {
				kind := *s.ret
				if kind == "notrunning" && svcShut {
					// Submit selects between the manager's answer and the service's Done channel; when the provider
					// stops right after the answer was written both are ready and Done may win. The submitter still got
					// exactly one reply; it is recorded as the one written (and noted).
					for _, sd := range st.Sends {
						if sd[0].(int) == q && sd[1].(string) != kind {
							st.Errs = append(st.Errs, fmt.Sprintf("late: request %d returned %s through Done, %s was written", q, kind, sd[1]))
							kind = sd[1].(string)
						}
					}
				}
				st.Rets = append(st.Rets, []interface{}{q, kind})
			} else if shutdownStep != nil {
				shutdownStep.Rets = append(shutdownStep.Rets, []interface{}{q, *s.ret})
			}
		case known:
			finalMissing = append(finalMissing, q)
		case s.ret != nil:
			// never reached a manager: refused by Service.Submit itself (service shutting down)
			nreq++
			r := blank("Submit", s.mf)
			r.St = downState()
			r.Rets = append(r.Rets, []interface{}{nreq, *s.ret})
			emit(r)
		default:
			nreq++
			r := blank("Submit", s.mf)
			r.St = downState()
			finalMissing = append(finalMissing, nreq)
			emit(r)
		}
	}
	lastRec := out[len(out)-1]
	lastRec.Missing = append(lastRec.Missing, finalMissing...)
	if hung && len(finalMissing) == 0 && !zombie {
		lastRec.Timeout = "free-running execution did not stop in time"
	}
	if busAnn != hookAnn && !synth {
		lastRec.Errs = append(lastRec.Errs, fmt.Sprintf("bus delivered %d ManifestReceived, publish hook saw %d", busAnn, hookAnn))
	}
	return out
}
