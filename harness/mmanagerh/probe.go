package mmanagerh

import (
	"encoding/json"
	"fmt"
	"time"

	pmanifest "github.com/ovrclk/akash/provider/manifest"
	dtypes "github.com/ovrclk/akash/x/deployment/types"
)

// mainProbe runs the one schedule the forced replay cannot express with an always-answering hostname service:
// the provider is shut down (or the deployment closed) while the manager waits, inside validateRequest, for the
// hostname service. checkHostnamesForManifest selects on lc.ShutdownRequest() and thereby CONSUMES the one-shot
// stop request. The probe reports what the real code does; it never judges (the observation is outside C20:
// every submission is still answered).
func mainProbe(args []string) int {
	repo := "/repo"
	if len(args) > 0 {
		repo = args[0]
	}
	fx, err := loadFixtures(repo)
	if err != nil {
		fmt.Println(err)
		return 2
	}
	res := map[string]interface{}{}
	for _, mode := range []string{"shutdown", "deployment-closed"} {
		e, err := newEnv(fx, 900000, pmanifest.ServiceConfig{})
		if err != nil {
			fmt.Println(err)
			return 2
		}
		held := e.hosts.arm(1)
		r := newRunner(e, 900000, 3*time.Second, time.Second)
		out := map[string]interface{}{}
		step := func(s Step) bool {
			rec, ok := r.do(0, s)
			if !ok {
				out["timeout at "+s.Name] = rec.Timeout
			}
			return ok
		}
		if step(Step{Name: "LeaseWon", Arg: 1}) && step(Step{Name: "FetchOk", Arg: 1}) {
			// Submit: the manager blocks in the hostname check
			r.nsub++
			r.sub[1] = 1
			e.submit(1, 1)
			<-held
			if mode == "shutdown" {
				e.cancel()
			} else {
				_ = e.bus.Publish(dtypes.EventDeploymentClosed{ID: e.did})
			}
			select {
			case ret := <-e.returns:
				out["reply to the submission in the hostname check"] = classify(ret.err)
			case <-time.After(3 * time.Second):
				out["reply to the submission in the hostname check"] = "none within 3s"
			}
			e.hosts.disarm()
			if mode == "shutdown" {
				select {
				case <-e.svc.Done():
					out["service done after shutdown"] = true
				case <-time.After(3 * time.Second):
					out["service done after shutdown"] = false
				}
			} else {
				// is the manager still alive and serving after the deployment was closed?
				time.Sleep(50 * time.Millisecond)
				e.submit(2, 1)
				select {
				case ret := <-e.returns:
					out["reply to a later submission"] = classify(ret.err)
				case <-time.After(3 * time.Second):
					out["reply to a later submission"] = "none within 3s"
				}
				active, _ := e.svc.IsActive(ctxTimeout(time.Second), e.did)
				out["manager still registered after deployment closed"] = active
			}
		}
		res[mode+" during hostname check"] = out
		e.zombie = true
		e.close(time.Second)
	}
	b, _ := json.MarshalIndent(res, "", " ")
	fmt.Println(string(b))
	return 0
}
