package mmanagerh

import (
	"encoding/json"
	"flag"
	"fmt"
	"os"
	"sort"
	"strings"

	"verif/harness/vcommon"

	"github.com/ovrclk/akash/util/veriftrace"
)

// mainFold converts a VERIF_TRACE file written by an execution the harness did not drive (the repository's own
// provider/manifest tests run with -tags verif) into step records for ManifestManagerTrace.tla.
//
//	fold -repo <checkout> -in <VERIF_TRACE ndjson> -out <trace ndjson> [-first N]
func mainFold(args []string) int {
	fs := flag.NewFlagSet("fold", flag.ContinueOnError)
	repo := fs.String("repo", "/repo", "checkout the fixtures are read from")
	in := fs.String("in", "", "VERIF_TRACE file")
	out := fs.String("out", "", "trace output (ndjson)")
	first := fs.Int("first", 2000000, "id of the first execution")
	if err := fs.Parse(args); err != nil || *in == "" || *out == "" {
		return 2
	}
	fx, err := loadFixtures(*repo)
	if err != nil {
		fmt.Fprintln(os.Stderr, "fixtures:", err)
		return 2
	}
	var evs []veriftrace.Event
	err = vcommon.ReadLines(*in, func(raw json.RawMessage) error {
		var ev veriftrace.Event
		if err := json.Unmarshal(raw, &ev); err != nil {
			return err
		}
		if ev.Component != compManager && ev.Component != compService {
			return nil
		}
		for k, v := range ev.KV { // JSON numbers and arrays back to what the in-process sink delivers
			switch x := v.(type) {
			case float64:
				ev.KV[k] = int(x)
			case []interface{}:
				l := make([]string, 0, len(x))
				for _, y := range x {
					l = append(l, fmt.Sprint(y))
				}
				ev.KV[k] = l
			}
		}
		evs = append(evs, ev)
		return nil
	})
	if err != nil {
		fmt.Fprintln(os.Stderr, err)
		return 2
	}
	sort.SliceStable(evs, func(i, j int) bool { return evs[i].Seq < evs[j].Seq })

	// one execution per service instance: the tests run one after the other, each with its own provider and deployment
	var segs [][]veriftrace.Event
	var cur []veriftrace.Event
	ended := false
	owner, dpath := "", ""
	for _, ev := range evs {
		if ev.Component == compService {
			if ended && ev.ID != owner && len(cur) > 0 {
				segs, cur, ended, dpath = append(segs, cur), nil, false, ""
			}
			owner = ev.ID
			if ev.Event == "shutdown" {
				ended = true
			}
		} else {
			d := ev.ID
			if i := strings.Index(d, "#"); i >= 0 {
				d = d[:i]
			}
			if ended && dpath != "" && d != dpath && len(cur) > 0 {
				segs, cur, ended, owner = append(segs, cur), nil, false, ""
			}
			dpath = d
		}
		cur = append(cur, ev)
	}
	if len(cur) > 0 {
		segs = append(segs, cur)
	}

	w, err := vcommon.NewWriter(*out)
	if err != nil {
		fmt.Fprintln(os.Stderr, err)
		return 2
	}
	steps := 0
	for i, seg := range segs {
		leases := map[string]int{}
		unknown := map[string]int{}
		nm := namer{
			lease: func(s string) int {
				if _, ok := leases[s]; !ok {
					leases[s] = len(leases) + 1
				}
				return leases[s]
			},
			version: func(h string) int {
				if v, ok := fx.byHash[h]; ok {
					return v
				}
				if _, ok := unknown[h]; !ok {
					unknown[h] = 90 + len(unknown)
				}
				return unknown[h]
			},
		}
		recs := foldFree(nm, *first+i, seg, nil, 0, false, true)
		for _, r := range recs {
			if err := w.Write(r); err != nil {
				fmt.Fprintln(os.Stderr, err)
				return 2
			}
		}
		steps += len(recs) - 1
	}
	if err := w.Close(); err != nil {
		fmt.Fprintln(os.Stderr, err)
		return 2
	}
	b, _ := json.Marshal(map[string]int{"runs": len(segs), "steps": steps, "events": len(evs)})
	fmt.Println(string(b))
	return 0
}
