// Package mmanagerh binds spec/mmanager/ManifestManager.tla to the real provider/manifest service: behaviours
// enumerated by TLC are replayed, one forced loop iteration at a time, on manifest.NewService with a scripted
// chain (Query().Deployment gate), a scripted hostname service and the real pubsub bus; a free-running
// randomised driver records unforced executions through the same hooks. The harness never judges: it records
// ndjson that TLC validates (spec/mmanager/ManifestManagerTrace.tla).
package mmanagerh

import (
	"encoding/json"
	"flag"
	"fmt"
	"os"
	"time"

	"verif/harness/vcommon"

	pmanifest "github.com/ovrclk/akash/provider/manifest"
	"github.com/ovrclk/akash/util/veriftrace"
)

// Main is the entry point of `vh mmanager <mode> ...`.
//
//	replay -repo <checkout> -scripts <ndjson of Script> -out <trace ndjson> [-from N] [-step-ms 5000] [-hang-ms 3000]
//	free   -repo <checkout> -seed N -runs R -ops K -out <trace ndjson>
//
// Exit 0: all scripts executed (including ones abandoned on a timeout, which are recorded as such);
// 3: an abandoned environment could not be torn down, restart with -from <printed index>; 2: harness failure.
func Main(args []string) int {
	if len(args) < 1 {
		fmt.Fprintln(os.Stderr, "usage: vh mmanager replay|free ...")
		return 2
	}
	if !veriftrace.Enabled {
		fmt.Fprintln(os.Stderr, "mmanagerh: built without -tags verif")
		return 2
	}
	installHooks()
	switch args[0] {
	case "replay":
		return mainReplay(args[1:])
	case "free":
		return mainFree(args[1:])
	case "fold":
		return mainFold(args[1:])
	case "probe-hostcheck":
		return mainProbe(args[1:])
	}
	fmt.Fprintln(os.Stderr, "unknown mode", args[0])
	return 2
}

func mainReplay(args []string) int {
	fs := flag.NewFlagSet("replay", flag.ContinueOnError)
	repo := fs.String("repo", "/repo", "checkout the fixtures are read from")
	scripts := fs.String("scripts", "", "ndjson file of scripts")
	out := fs.String("out", "", "trace output (ndjson)")
	from := fs.Int("from", 0, "skip the first N scripts")
	stepMS := fs.Int("step-ms", 5000, "watchdog for every wait on a hook event")
	hangMS := fs.Int("hang-ms", 3000, "how long a Submit call may take to return once the manager is quiescent")
	final := fs.Bool("final-shutdown", true, "end every script with a provider shutdown")
	budget := fs.Int("budget", 3, "full-length timeouts this process affords before it shortens its waits")
	if err := fs.Parse(args); err != nil || *scripts == "" || *out == "" {
		return 2
	}
	fx, err := loadFixtures(*repo)
	if err != nil {
		fmt.Fprintln(os.Stderr, "fixtures:", err)
		return 2
	}
	timeoutBudget, hangBudget = *budget, *budget
	w, err := vcommon.NewWriter(*out)
	if err != nil {
		fmt.Fprintln(os.Stderr, err)
		return 2
	}
	idx, steps, abandoned := 0, 0, 0
	stuck := -1
	err = vcommon.ReadLines(*scripts, func(raw json.RawMessage) error {
		if stuck >= 0 {
			return nil
		}
		idx++
		if idx <= *from {
			return nil
		}
		var sc Script
		if err := json.Unmarshal(raw, &sc); err != nil {
			return fmt.Errorf("bad script: %v", err)
		}
		n, ok, torn := replayScript(fx, sc, w, time.Duration(*stepMS)*time.Millisecond, time.Duration(*hangMS)*time.Millisecond, *final)
		steps += n
		if !ok {
			abandoned++
		}
		if !torn {
			stuck = idx
		}
		return nil
	})
	if cerr := w.Close(); err == nil {
		err = cerr
	}
	if err != nil {
		fmt.Fprintln(os.Stderr, err)
		return 2
	}
	res := map[string]int{"scripts": idx - *from, "steps": steps, "abandoned": abandoned, "next": idx}
	b, _ := json.Marshal(res)
	fmt.Println(string(b))
	if stuck >= 0 {
		return 3
	}
	return 0
}

// replayScript runs one script in a fresh environment. It returns the number of steps executed, whether the
// script ran to its end, and whether the environment could be torn down.
func replayScript(fx *fixtures, sc Script, w *vcommon.Writer, stepTO, hangTO time.Duration, final bool) (int, bool, bool) {
	// odd scripts run with the manifest watchdog configured (it never fires: one hour), which adds the watchdog
	// bookkeeping of service.go to every schedule, including the drain at shutdown
	cfg := pmanifest.ServiceConfig{}
	if sc.ID%2 == 1 {
		cfg.ManifestTimeout = time.Hour
	}
	var pre []int
	for _, s := range sc.Steps {
		if s.Name != "PreLease" {
			break
		}
		pre = append(pre, s.Arg)
	}
	e, err := newEnv(fx, sc.ID, cfg, pre...)
	if err != nil {
		_ = w.Write(Rec{E: "reset", Script: sc.ID, St: emptyState("run"), Timeout: "setup: " + err.Error()})
		return 0, false, true
	}
	_ = w.Write(Rec{E: "reset", Script: sc.ID, St: emptyState("run"), Chain: "idle", Sends: [][]interface{}{}, Rets: [][]interface{}{},
		Ann: [][2]int{}, AnnHook: [][2]int{}, Missing: []int{}, Errs: []string{}})
	r := newRunner(e, sc.ID, stepTO, hangTO)
	steps := sc.Steps
	n := 0
	ok := true
	for i := 0; i <= len(steps); i++ {
		var s Step
		if i < len(steps) {
			s = steps[i]
		} else if final && !r.svcDown {
			s = Step{Name: "Shutdown"}
		} else {
			break
		}
		r.extra = nil
		rec, fine := r.do(i+1, s)
		_ = w.Write(rec)
		for _, x := range r.extra {
			_ = w.Write(x)
		}
		n++
		if !fine {
			ok = false
			break
		}
	}
	wait := 2 * time.Second
	if !ok {
		wait = 300 * time.Millisecond
	}
	torn := e.close(wait)
	return n, ok, torn
}
