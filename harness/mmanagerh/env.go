package mmanagerh

import (
	"context"
	"crypto/sha256"
	"encoding/hex"
	"errors"
	"fmt"
	"strconv"
	"strings"
	"sync"
	"time"

	sdk "github.com/cosmos/cosmos-sdk/types"
	"github.com/tendermint/tendermint/libs/log"
	"google.golang.org/grpc"

	clientMocks "github.com/ovrclk/akash/client/mocks"
	"github.com/ovrclk/akash/manifest"
	"github.com/ovrclk/akash/provider/event"
	pmanifest "github.com/ovrclk/akash/provider/manifest"
	"github.com/ovrclk/akash/provider/session"
	"github.com/ovrclk/akash/pubsub"
	"github.com/ovrclk/akash/sdl"
	"github.com/ovrclk/akash/util/veriftrace"
	dquery "github.com/ovrclk/akash/x/deployment/query"
	dtypes "github.com/ovrclk/akash/x/deployment/types"
	mtypes "github.com/ovrclk/akash/x/market/types"
	ptypes "github.com/ovrclk/akash/x/provider/types"
)

const (
	compManager = "manifest-manager"
	compService = "manifest-service"
	gateDone    = "manifest-manager-done"
)

var errFetch = errors.New("scripted: chain query failed")

// ---------------------------------------------------------------------------------------------
// process-wide hook plumbing (veriftrace has one sink and one gate function per process; the harness runs one
// environment at a time and shards across processes)

var (
	curMu  sync.Mutex
	curEnv *env
)

func installHooks() {
	veriftrace.SetSink(func(ev veriftrace.Event) {
		curMu.Lock()
		e := curEnv
		curMu.Unlock()
		if e == nil {
			return
		}
		if ev.Component == compManager && !strings.HasPrefix(ev.ID, e.dpath+"#") {
			return // a stale manager of an earlier environment
		}
		if ev.Component == compService && ev.ID != e.prov.String() {
			return // a stale service of an earlier environment
		}
		if ev.Component != compManager && ev.Component != compService {
			return
		}
		select {
		case e.hooks <- ev:
		default:
			e.overflow = true
		}
	})
	veriftrace.SetGate(func(name string) {
		if name != gateDone {
			return
		}
		curMu.Lock()
		e := curEnv
		curMu.Unlock()
		if e == nil {
			return
		}
		e.gateMu.Lock()
		ch := e.gateHold
		e.gateMu.Unlock()
		if ch != nil {
			<-ch
		}
	})
}

// ---------------------------------------------------------------------------------------------
// scripted neighbours

// fetchCall is one Query().Deployment call in flight: the scripted chain blocks it until the script decides.
type fetchCall struct {
	ctx     context.Context
	release chan fetchResult
}

type fetchResult struct {
	version int // 0 = error
}

// gatedQuery is the repository's QueryClient mock with Deployment and ActiveLeasesForProvider scripted.
type gatedQuery struct {
	*clientMocks.QueryClient
	e *env
}

// ActiveLeasesForProvider returns the leases the script says the provider holds when it starts.
func (g *gatedQuery) ActiveLeasesForProvider(id sdk.AccAddress) ([]mtypes.QueryLeaseResponse, error) {
	var out []mtypes.QueryLeaseResponse
	for _, l := range g.e.pre {
		out = append(out, mtypes.QueryLeaseResponse{Lease: mtypes.Lease{LeaseID: g.e.leaseID(l), State: mtypes.LeaseActive,
			Price: sdk.NewInt64Coin("uakt", 111)}})
	}
	return out, nil
}

func (g *gatedQuery) Group(ctx context.Context, in *dtypes.QueryGroupRequest, _ ...grpc.CallOption) (*dtypes.QueryGroupResponse, error) {
	return &dtypes.QueryGroupResponse{Group: dtypes.Group{GroupID: in.ID, GroupSpec: *g.e.fx.groups[0]}}, nil
}

func (g *gatedQuery) Deployment(ctx context.Context, in *dtypes.QueryDeploymentRequest, _ ...grpc.CallOption) (*dtypes.QueryDeploymentResponse, error) {
	e := g.e
	call := &fetchCall{ctx: ctx, release: make(chan fetchResult, 1)}
	if e.freeFetch != nil {
		// free-running mode: the driver decides on its own, after a random pause
		go e.freeFetch(call)
	} else {
		e.fetchStarted <- call
	}
	select {
	case r := <-call.release:
		if r.version == 0 {
			return nil, errFetch
		}
		return e.deploymentResponse(r.version), nil
	case <-ctx.Done():
		// a real gRPC query returns when its context is cancelled (the manager cancels on exit)
		e.fetchCancelled <- call
		return nil, ctx.Err()
	}
}

// scriptedHostnames refuses takenHost and accepts everything else.
type scriptedHostnames struct {
	mu     sync.Mutex
	calls  int
	holdAt int           // the holdAt-th call from arm() on is withheld (0: none)
	held   chan struct{} // closed when that call has arrived
	free   chan struct{} // closed to let the withheld call answer
}

// arm makes the k-th call from now on wait; the returned channel is closed when that call has arrived.
func (h *scriptedHostnames) arm(k int) <-chan struct{} {
	h.mu.Lock()
	defer h.mu.Unlock()
	h.calls, h.holdAt = 0, k
	h.held, h.free = make(chan struct{}), make(chan struct{})
	return h.held
}

func (h *scriptedHostnames) disarm() {
	h.mu.Lock()
	defer h.mu.Unlock()
	if h.free != nil {
		close(h.free)
	}
	h.holdAt, h.held, h.free = 0, nil, nil
}

func (h *scriptedHostnames) answer(hostnames []string) <-chan error {
	var verdict error
	for _, hn := range hostnames {
		if hn == takenHost {
			verdict = fmt.Errorf("scripted: host %q in use", hn)
			break
		}
	}
	ch := make(chan error, 1)
	h.mu.Lock()
	h.calls++
	hold := h.holdAt != 0 && h.calls == h.holdAt
	held, free := h.held, h.free
	h.mu.Unlock()
	if hold {
		close(held)
		go func() {
			<-free
			ch <- verdict
		}()
		return ch
	}
	ch <- verdict
	return ch
}

func (h *scriptedHostnames) ReserveHostnames(hostnames []string, _ dtypes.DeploymentID) <-chan error {
	return h.answer(hostnames)
}
func (h *scriptedHostnames) CanReserveHostnames(hostnames []string, _ dtypes.DeploymentID) <-chan error {
	return h.answer(hostnames)
}
func (h *scriptedHostnames) ReleaseHostnames([]string) {}

// marker is published on the bus by the harness to delimit what has been delivered so far.
type marker struct{ n int }

// ---------------------------------------------------------------------------------------------

type submitReturn struct {
	r   int
	err error
}

type env struct {
	fx     *fixtures
	did    dtypes.DeploymentID
	dpath  string
	owner  string
	prov   sdk.AccAddress
	bus    pubsub.Bus
	sub    pubsub.Subscriber
	svc    pmanifest.Service
	cancel context.CancelFunc
	hosts  *scriptedHostnames
	pre    []int // leases held when the provider starts (fetchExistingLeases)

	hooks          chan veriftrace.Event
	overflow       bool
	busEvents      chan interface{}
	fetchStarted   chan *fetchCall
	fetchCancelled chan *fetchCall
	freeFetch      func(*fetchCall)
	returns        chan submitReturn

	gateMu   sync.Mutex
	gateHold chan struct{}

	markers int
	zombie  bool // the manager swallowed the provider's stop request: the service will never be done
}

func addr(seed string) sdk.AccAddress {
	h := sha256.Sum256([]byte(seed))
	return sdk.AccAddress(h[:20])
}

func newEnv(fx *fixtures, n int, cfg pmanifest.ServiceConfig, pre ...int) (*env, error) {
	e := &env{
		pre:            pre,
		fx:             fx,
		owner:          addr("owner-" + strconv.Itoa(n)).String(),
		prov:           addr("provider-" + strconv.Itoa(n)),
		hosts:          &scriptedHostnames{},
		hooks:          make(chan veriftrace.Event, 1<<14),
		busEvents:      make(chan interface{}, 1<<12),
		fetchStarted:   make(chan *fetchCall, 64),
		fetchCancelled: make(chan *fetchCall, 64),
		returns:        make(chan submitReturn, 1<<10),
	}
	e.did = dtypes.DeploymentID{Owner: e.owner, DSeq: uint64(n + 1)}
	e.dpath = dquery.DeploymentPath(e.did)

	curMu.Lock()
	curEnv = e
	curMu.Unlock()

	e.bus = pubsub.NewBus()
	sub, err := e.bus.Subscribe()
	if err != nil {
		return nil, err
	}
	e.sub = sub
	go func() {
		for {
			select {
			case ev := <-sub.Events():
				switch ev.(type) {
				case event.ManifestReceived, marker:
					e.busEvents <- ev
				}
			case <-sub.Done():
				return
			}
		}
	}()

	qc := &gatedQuery{QueryClient: &clientMocks.QueryClient{}, e: e}
	cl := &clientMocks.Client{}
	cl.On("Query").Return(qc)

	ctx, cancel := context.WithCancel(context.Background())
	e.cancel = cancel
	sess := session.New(log.NewNopLogger(), cl, &ptypes.Provider{Owner: e.prov.String()})
	svc, err := pmanifest.NewService(ctx, sess, e.bus, e.hosts, cfg)
	if err != nil {
		cancel()
		return nil, err
	}
	e.svc = svc
	return e, nil
}

func (e *env) leaseID(l int) mtypes.LeaseID {
	return mtypes.LeaseID{Owner: e.did.Owner, DSeq: e.did.DSeq, GSeq: uint32(l), OSeq: 1, Provider: e.prov.String()}
}

func (e *env) leaseNum(s string) int {
	for l := 1; l <= 9; l++ {
		if e.leaseID(l).String() == s {
			return l
		}
	}
	return 99
}

func (e *env) leaseWon(l int) event.LeaseWon {
	lid := e.leaseID(l)
	return event.LeaseWon{
		LeaseID: lid,
		Group:   &dtypes.Group{GroupID: lid.GroupID(), GroupSpec: *e.fx.groups[0]},
		Price:   sdk.NewInt64Coin("uakt", 111),
	}
}

func (e *env) deploymentResponse(v int) *dtypes.QueryDeploymentResponse {
	groups := make([]dtypes.Group, 0, len(e.fx.groups))
	for i, g := range e.fx.groups {
		groups = append(groups, dtypes.Group{
			GroupID:   dtypes.GroupID{Owner: e.did.Owner, DSeq: e.did.DSeq, GSeq: uint32(i + 1)},
			GroupSpec: *g,
		})
	}
	ver := make([]byte, len(e.fx.hash[v]))
	copy(ver, e.fx.hash[v])
	return &dtypes.QueryDeploymentResponse{
		Deployment: dtypes.Deployment{DeploymentID: e.did, Version: ver},
		Groups:     groups,
	}
}

// submit calls the public Service.Submit from its own goroutine; the return value is the reply.
func (e *env) submit(r, mf int) {
	m := e.fx.manifests[mf]
	go func() {
		err := e.svc.Submit(context.WithValue(context.Background(), pmanifest.VerifRequestKey{}, r), e.did, m)
		e.returns <- submitReturn{r: r, err: err}
	}()
}

// submitTagged is the synchronous form used by the free-running drivers.
func (e *env) submitTagged(tag, mf int) error {
	return e.svc.Submit(context.WithValue(context.Background(), pmanifest.VerifRequestKey{}, tag), e.did, e.fx.manifests[mf])
}

func (e *env) holdGate() {
	e.gateMu.Lock()
	if e.gateHold == nil {
		e.gateHold = make(chan struct{})
	}
	e.gateMu.Unlock()
}

func (e *env) releaseGate() {
	e.gateMu.Lock()
	if e.gateHold != nil {
		close(e.gateHold)
		e.gateHold = nil
	}
	e.gateMu.Unlock()
}

// close tears the environment down; it reports whether everything stopped in time.
func (e *env) close(wait time.Duration) bool {
	e.releaseGate()
	e.cancel()
	ok := true
	if !e.zombie {
		select {
		case <-e.svc.Done():
		case <-time.After(wait):
			ok = false
		}
	}
	e.bus.Close()
	curMu.Lock()
	if curEnv == e {
		curEnv = nil
	}
	curMu.Unlock()
	return ok
}

func ctxTimeout(d time.Duration) context.Context {
	ctx, _ := context.WithTimeout(context.Background(), d) // nolint: govet
	return ctx
}

func vhashOf(m *manifest.Manifest) string {
	v, err := sdl.ManifestVersion(*m)
	if err != nil {
		return "!" + err.Error()
	}
	return hex.EncodeToString(v)
}

// classify maps a reply (error value or its text) to the abstract reply kinds of the specification.
func classify(err error) string {
	if err == nil {
		return "ok"
	}
	return classifyText(err.Error())
}

func classifyText(msg string) string {
	switch {
	case msg == "":
		return "ok"
	case msg == pmanifest.ErrNoLeaseForDeployment.Error():
		return "nolease"
	case msg == pmanifest.ErrManifestVersion.Error():
		return "wrongversion"
	case msg == pmanifest.ErrNotRunning.Error():
		return "notrunning"
	case msg == errFetch.Error():
		return "fetcherr"
	case msg == context.Canceled.Error() || msg == context.DeadlineExceeded.Error():
		return "ctx"
	default:
		return "invalid"
	}
}
