package mmanagerh

import (
	"fmt"
	"os"
	"runtime"
	"sort"
	"strings"
	"time"

	"github.com/ovrclk/akash/provider/event"
	pmanifest "github.com/ovrclk/akash/provider/manifest"
	"github.com/ovrclk/akash/util/veriftrace"
	dtypes "github.com/ovrclk/akash/x/deployment/types"
	mtypes "github.com/ovrclk/akash/x/market/types"

	sdk "github.com/cosmos/cosmos-sdk/types"
)

// Step is one abstract action of ManifestManager.tla.
type Step struct {
	Name string `json:"name"`
	Arg  int    `json:"arg"`
	C    int    `json:"c"` // SubmitSw/FetchOkSw: the stop request swallowed (1 deployment closed, 2 provider shutdown)
	K    int    `json:"k"` // SubmitSw/FetchOkSw: the hostname check (ordinal within the iteration) that swallows it
}

// Script is one behaviour to replay.
type Script struct {
	ID    int    `json:"id"`
	Steps []Step `json:"steps"`
}

// StateRec is the projected abstract state (the variables of ManifestManager.tla that the code holds).
type StateRec struct {
	Svc       string   `json:"svc"`
	Mgr       string   `json:"mgr"`
	Leases    []int    `json:"leases"`
	Data      int      `json:"data"`
	Fetch     string   `json:"fetch"`
	Requests  [][2]int `json:"requests"` // [r, mf]
	Pending   []int    `json:"pending"`
	Manifests []int    `json:"manifests"`
	Versions  []int    `json:"versions"`
}

// Rec is one line of the recorded trace.
type Rec struct {
	E       string          `json:"e"` // "reset" | "step"
	Script  int             `json:"script"`
	I       int             `json:"i"`
	Name    string          `json:"name"`
	Arg     int             `json:"arg"`
	C       int             `json:"c"`
	K       int             `json:"k"`
	St      StateRec        `json:"st"`
	Sends   [][]interface{} `json:"sends"`   // replies written by the manager in this step (hooks): [r, kind]
	Rets    [][]interface{} `json:"rets"`    // Submit calls that returned in this step: [r, kind]
	Ann     [][2]int        `json:"ann"`     // ManifestReceived events received from the bus in this step: [lease, mf]
	AnnHook [][2]int        `json:"annhook"` // the same as seen by the publish hook
	Chain   string          `json:"chain"`   // ground truth of the scripted chain: "inflight" iff a Deployment query is held at the gate
	Blocked bool            `json:"blocked"` // (timeout only) the manager or service goroutine is blocked outside its idle select
	Where   string          `json:"where"`   // (timeout only) where it is blocked
	Missing []int           `json:"missing"` // requests without a return although the manager is quiescent
	Timeout string          `json:"timeout"` // non-empty: the step did not complete (what was awaited)
	Errs    []string        `json:"errs"`    // raw reply texts (for humans)
}

func emptyState(svc string) StateRec {
	return StateRec{Svc: svc, Mgr: "none", Leases: []int{}, Fetch: "idle", Requests: [][2]int{}, Pending: []int{},
		Manifests: []int{}, Versions: []int{}}
}

// swallowGrace is how long a stop request may sit next to a withheld hostname answer before the answer is released.
const swallowGrace = 2 * time.Second

// blockedLoops inspects the goroutine stacks for the manager's and the service's loops. A loop parked in its own
// select is idle (it waits for stimuli: nothing hangs); a loop parked anywhere else (a channel receive or send, a
// nested select) while the harness is waiting for it is blocked.
func blockedLoops() (bool, string) {
	buf := make([]byte, 4<<20)
	n := runtime.Stack(buf, true)
	gs := strings.Split(string(buf[:n]), "\n\n")
	// (the manager first: a service loop waiting for a blocked manager is the consequence, not the cause)
	for _, loop := range []string{"provider/manifest.(*manager).run(", "provider/manifest.(*service).run("} {
		for _, g := range gs {
			if !strings.Contains(g, loop) {
				continue
			}
			lines := strings.Split(g, "\n")
			if len(lines) < 2 {
				continue
			}
			state := lines[0] // goroutine N [chan receive, 2 minutes]:
			if i := strings.Index(state, "["); i >= 0 {
				state = strings.TrimSuffix(strings.SplitN(state[i+1:], ",", 2)[0], "]:")
			}
			// the innermost frame of the repository's code
			top := ""
			for _, ln := range lines[1:] {
				if strings.HasPrefix(ln, "github.com/ovrclk/akash/") {
					top = ln
					break
				}
			}
			fn := top
			if i := strings.Index(fn, "("); i > 0 {
				if j := strings.LastIndex(fn[:i], "/"); j >= 0 {
					fn = fn[j+1:]
				}
			}
			if i := strings.LastIndex(fn, "("); i > 0 {
				fn = fn[:i]
			}
			idle := state == "select" && strings.HasPrefix(top, "github.com/ovrclk/akash/"+loop)
			if strings.Contains(g, "util/veriftrace.Gate(") {
				idle = true // parked by the harness itself (the stopping window is held open)
			}
			if state == "running" || state == "runnable" || idle {
				continue
			}
			return true, state + " in " + fn
		}
	}
	return false, ""
}

var stackDumps = 3

// dumpStacks writes all goroutine stacks to the file named by VERIF_MM_STACKS (diagnosis of a wait that timed out:
// a starved process shows the awaited goroutines runnable, a real deadlock shows them blocked).
func dumpStacks(script, step int, what string) {
	path := os.Getenv("VERIF_MM_STACKS")
	if path == "" || stackDumps <= 0 {
		return
	}
	stackDumps--
	buf := make([]byte, 1<<20)
	n := runtime.Stack(buf, true)
	f, err := os.OpenFile(path, os.O_CREATE|os.O_APPEND|os.O_WRONLY, 0644)
	if err != nil {
		return
	}
	defer f.Close()
	fmt.Fprintf(f, "=== script %d step %d: %s (%s)\n%s\n", script, step, what, time.Now().Format(time.RFC3339Nano), buf[:n])
}

// runTimer is a timeout measured in time this process was actually running: it counts ticks of a ticker, and a
// ticker delivers at most one tick for any stretch during which the whole process (or machine) stood still. Waits on
// the real code use it so that a stalled machine cannot be mistaken for a hung manager.
type runTimer struct {
	C    chan struct{}
	stop chan struct{}
}

const runTick = 5 * time.Millisecond

func newRunTimer(d time.Duration) *runTimer {
	t := &runTimer{C: make(chan struct{}), stop: make(chan struct{})}
	go func() {
		tk := time.NewTicker(runTick)
		defer tk.Stop()
		for n := int(d / runTick); n > 0; n-- {
			select {
			case <-tk.C:
			case <-t.stop:
				return
			}
		}
		close(t.C)
	}()
	return t
}

func (t *runTimer) Stop() {
	select {
	case <-t.stop:
	default:
		close(t.stop)
	}
}

// hangBudget is the number of full-length waits for a missing Submit return this process still affords.
var hangBudget = 3

// runner drives one environment step by step.
type runner struct {
	e         *env
	stepTO    time.Duration
	hangTO    time.Duration
	script    int
	nsub      int
	sub       map[int]int    // r -> mf
	chReq     map[string]int // reply channel -> r
	curReq    int            // the request being submitted by the current step
	open      map[int]bool   // submitted, Submit not returned yet
	mgrID     string
	mgrLast   *veriftrace.Event // last state event of the current manager
	exited    bool              // current manager ran its exit path
	managers  int
	watchdogs int
	svcDown   bool
	itersWant int
	itersSeen int
	fetch     *fetchCall
	seen      map[string]int    // manager/service events seen in the current step
	gaveUp    map[int]bool      // requests reported missing
	main      *Rec              // the record of the step being executed
	over      *Rec              // a second manager iteration inside one step (only under drift): recorded on its own
	first     *veriftrace.Event // the state event that ended the step's own iteration
	firstMgr  string
	extra     []*Rec // surplus-iteration records of the last step, to be written after its own record
	rec       *Rec
}

// timeoutBudget is the number of full-length step timeouts this process still affords; afterwards steps of later
// scripts are given a tenth of the time (every script that times out is re-examined alone, with doubled full
// timeouts, by the check, so nothing is decided on the short wait).
var timeoutBudget = 3

func newRunner(e *env, script int, stepTO, hangTO time.Duration) *runner {
	if timeoutBudget <= 0 {
		stepTO /= 10
	}
	return &runner{e: e, stepTO: stepTO, hangTO: hangTO, script: script, sub: map[int]int{}, chReq: map[string]int{},
		open: map[int]bool{}, gaveUp: map[int]bool{}}
}

func kvs(ev *veriftrace.Event, k string) string {
	s, _ := ev.KV[k].(string)
	return s
}

func kvb(ev *veriftrace.Event, k string) bool {
	b, _ := ev.KV[k].(bool)
	return b
}

func kvl(ev *veriftrace.Event, k string) []string {
	l, _ := ev.KV[k].([]string)
	return l
}

// absorb folds one hook event into the runner and the current step record.
func (r *runner) absorb(ev veriftrace.Event) {
	if ev.Component == compService {
		if n, ok := ev.KV["managers"].(int); ok {
			r.managers = n
		}
		wd, _ := ev.KV["watchdogs"].(int)
		if ev.Event == "iter" && wd >= r.watchdogs {
			// (an iteration that collected a finished watchdog is nobody's stimulus: not counted)
			r.itersSeen++
		}
		r.watchdogs = wd
		r.seen["svc:"+ev.Event]++
		return
	}
	switch ev.Event {
	case "request":
		ch := kvs(&ev, "ch")
		if tag, _ := ev.KV["tag"].(int); tag != r.curReq {
			r.rec.Errs = append(r.rec.Errs, fmt.Sprintf("request tagged %d arrived while submitting %d", tag, r.curReq))
		}
		r.chReq[ch] = r.curReq
		if got := r.e.fx.version(kvs(&ev, "manifest")); got != r.sub[r.curReq] {
			r.rec.Errs = append(r.rec.Errs, fmt.Sprintf("request %d arrived with manifest %d, submitted %d", r.curReq, got, r.sub[r.curReq]))
		}
	case "refuse":
		// answered by handleManifest: the manager's loop has exited
		req, _ := ev.KV["tag"].(int)
		r.chReq[kvs(&ev, "ch")] = req
		r.rec.Errs = append(r.rec.Errs, fmt.Sprintf("%d: %s", req, kvs(&ev, "err")))
		r.rec.Sends = append(r.rec.Sends, []interface{}{req, classifyText(kvs(&ev, "err"))})
	case "reply":
		ch := kvs(&ev, "ch")
		req := r.chReq[ch]
		kind := "ok"
		if !kvb(&ev, "ok") {
			kind = classifyText(kvs(&ev, "err"))
			r.rec.Errs = append(r.rec.Errs, fmt.Sprintf("%d: %s", req, kvs(&ev, "err")))
		}
		r.rec.Sends = append(r.rec.Sends, []interface{}{req, kind})
	case "announce":
		if !r.svcDown {
			r.itersWant++ // the service's own subscription receives the ManifestReceived event too: one iteration
		}
		r.rec.AnnHook = append(r.rec.AnnHook, [2]int{r.e.leaseNum(kvs(&ev, "lease")), r.e.fx.version(kvs(&ev, "manifest"))})
	default:
		if ev.ID != r.mgrID {
			r.mgrID = ev.ID
			r.exited = false
		}
		evc := ev
		r.mgrLast = &evc
		if ev.Event == "stop" || ev.Event == "exit" {
			r.exited = true
		}
		r.seen["mgr:"+ev.Event]++
		if ev.Event == "exit" || ev.Event == "stop-timer" {
			break
		}
		// One step of a script is one iteration of the manager's loop. A second iteration inside the same step (it
		// happens only when the code departs from the specification, e.g. a stop request the step expected to be
		// swallowed is acted upon) gets a record of its own, so that each record describes one iteration.
		if r.first == nil {
			r.first = &evc
			r.firstMgr = "run"
			break
		}
		if r.over == nil && r.main != nil {
			name := "Unexpected"
			if ev.Event == "stop" {
				name = "DeploymentClosed"
				if r.seen["svc:shutdown"] > 0 {
					name = "Shutdown"
				}
			}
			r.over = &Rec{E: "step", Script: r.script, I: r.main.I, Name: name, Sends: [][]interface{}{}, Rets: [][]interface{}{},
				Ann: [][2]int{}, AnnHook: [][2]int{}, Missing: []int{}, Errs: []string{}}
			r.rec = r.over // replies and announcements from here on belong to the second iteration
		}
	}
}

// await consumes hook events until cond holds; false on timeout.
func (r *runner) await(cond func() bool) bool {
	if cond() {
		return true
	}
	t := newRunTimer(r.stepTO)
	defer t.Stop()
	for {
		select {
		case ev := <-r.e.hooks:
			r.absorb(ev)
			if cond() {
				return true
			}
		case <-t.C:
			return false
		}
	}
}

func (r *runner) drainHooks() {
	for {
		select {
		case ev := <-r.e.hooks:
			r.absorb(ev)
		default:
			return
		}
	}
}

func (r *runner) publish(ev interface{}) error {
	if !r.svcDown {
		r.itersWant++
	}
	return r.e.bus.Publish(ev)
}

func (r *runner) itersDone() bool { return r.svcDown || r.itersSeen >= r.itersWant }

func (r *runner) mgrState() string {
	switch {
	case r.managers == 0:
		return "none"
	case r.exited:
		return "stopping"
	default:
		return "run"
	}
}

// state projects the abstract state from the last hook observations.
func (r *runner) state() StateRec { return r.stateAt(r.mgrLast, r.mgrState()) }

// stateAt projects the abstract state from one state event of the manager.
func (r *runner) stateAt(ev *veriftrace.Event, mgr string) StateRec {
	svc := "run"
	if r.svcDown {
		svc = "down"
	}
	st := emptyState(svc)
	st.Mgr = mgr
	if ev == nil {
		return st
	}
	reqs := func() {
		for _, ch := range kvl(ev, "requests") {
			q := r.chReq[ch]
			st.Requests = append(st.Requests, [2]int{q, r.sub[q]})
		}
		for _, ch := range kvl(ev, "pending") {
			st.Pending = append(st.Pending, r.chReq[ch])
		}
		if kvb(ev, "fetch") {
			st.Fetch = "inflight"
		}
	}
	if st.Mgr != "run" {
		// a manager that ran its exit path is dead: only what it failed to clean up is reported
		if r.exited && r.seen["mgr:stop"]+r.seen["mgr:exit"] > 0 {
			reqs()
		}
		return st
	}
	reqs()
	for _, l := range kvl(ev, "leases") {
		st.Leases = append(st.Leases, r.e.leaseNum(l))
	}
	if kvb(ev, "hasData") {
		st.Data = r.e.fx.version(kvs(ev, "data"))
	}
	for _, h := range kvl(ev, "manifests") {
		st.Manifests = append(st.Manifests, r.e.fx.version(h))
	}
	for _, h := range kvl(ev, "versions") {
		st.Versions = append(st.Versions, r.e.fx.version(h))
	}
	return st
}

// awaitFetch waits until the scripted chain has the manager's Deployment query in hand.
func (r *runner) awaitFetch() bool {
	if r.fetch != nil && r.fetch.ctx.Err() == nil {
		return true
	}
	r.fetch = nil
	t := newRunTimer(r.stepTO)
	defer t.Stop()
	for {
		select {
		case c := <-r.e.fetchStarted:
			if c.ctx.Err() != nil {
				continue // a query cancelled by a manager that has exited
			}
			r.fetch = c
			return true
		case <-t.C:
			return false
		}
	}
}

// do executes one step on the real service; returns false if the script must be abandoned.
func (r *runner) do(i int, s Step) (*Rec, bool) {
	rec := &Rec{E: "step", Script: r.script, I: i, Name: s.Name, Arg: s.Arg, C: s.C, K: s.K, Sends: [][]interface{}{}, Rets: [][]interface{}{},
		Ann: [][2]int{}, AnnHook: [][2]int{}, Missing: []int{}, Errs: []string{}}
	r.rec, r.main, r.over, r.first = rec, rec, nil, nil
	r.seen = map[string]int{}
	r.curReq = 0
	e := r.e
	fail := func(what string) (*Rec, bool) {
		timeoutBudget--
		dumpStacks(r.script, i, what)
		rec.Timeout = what
		rec.St = r.state()
		rec.Chain = rec.St.Fetch
		rec.Blocked, rec.Where = blockedLoops()
		return rec, false
	}
	mgrSaw := func(name string) func() bool {
		return func() bool { return r.seen["mgr:"+name] > 0 && r.itersDone() }
	}
	// Scripts are sequences of stimuli and stay executable when the code has left the path the specification
	// predicted (drift): a stimulus that, in the state the implementation is actually in, has no manager loop to
	// consume it is complete when the service has dealt with it.
	pre := r.mgrState()
	routedTo := func(name string) func() bool {
		if r.svcDown {
			return func() bool { return true }
		}
		if pre != "run" {
			return r.itersDone
		}
		return mgrSaw(name)
	}

	switch s.Name {
	case "PreLease":
		// the lease was handed to the service by fetchExistingLeases, before its loop started
		// (no service iteration, nothing published, nothing to answer: the step is the manager's iteration alone)
		if !r.await(func() bool { return r.seen["mgr:lease"] > 0 }) {
			return fail("hook lease (pre-existing)")
		}
		r.managers = 1
		rec.St = r.state()
		rec.Chain = rec.St.Fetch
		return rec, true
	case "LeaseWon":
		_ = r.publish(e.leaseWon(s.Arg))
		cond := mgrSaw("lease")
		if r.svcDown {
			cond = func() bool { return true }
		} else if pre == "stopping" {
			cond = r.itersDone
		}
		if !r.await(cond) {
			return fail("hook lease")
		}
	case "Dropped":
		var ev interface{}
		switch s.Arg {
		case 1:
			ev = e.leaseWon(1)
		case 2:
			ev = dtypes.EventDeploymentUpdated{ID: e.did, Version: e.fx.hash[1]}
		case 3:
			ev = mtypes.EventLeaseClosed{ID: e.leaseID(1), Price: sdk.NewInt64Coin("uakt", 111)}
		default:
			ev = dtypes.EventDeploymentClosed{ID: e.did}
		}
		_ = r.publish(ev)
		if !r.await(r.itersDone) {
			return fail("service iteration (dropped event)")
		}
	case "Submit":
		r.nsub++
		r.curReq = r.nsub
		r.sub[r.curReq] = s.Arg
		r.open[r.curReq] = true
		routed := !r.svcDown
		toLoop := routed && r.mgrState() != "stopping"
		if routed {
			r.itersWant++
		}
		e.submit(r.curReq, s.Arg)
		switch {
		case toLoop:
			if !r.await(mgrSaw("manifest")) {
				return fail("hook manifest")
			}
		case routed:
			if !r.await(func() bool { return len(rec.Sends) > 0 && r.itersDone() }) {
				return fail("reply of a stopping manager")
			}
		}
	case "SubmitSw", "FetchOkSw":
		// the manager is made to wait in its K-th hostname check of this iteration; the stop request arrives; the
		// check's select has nothing else to take
		if r.svcDown {
			if s.Name == "SubmitSw" { // (drift) the provider is down: the call is refused by Service.Submit itself
				r.nsub++
				r.curReq = r.nsub
				r.sub[r.curReq] = s.Arg
				r.open[r.curReq] = true
				e.submit(r.curReq, s.Arg)
			}
			break
		}
		if s.Name == "FetchOkSw" && r.fetch == nil && (pre != "run" || r.mgrLast == nil || !kvb(r.mgrLast, "fetch")) {
			break // (drift) no query is in flight
		}
		held := e.hosts.arm(s.K)
		hook := "manifest"
		if s.Name == "SubmitSw" {
			r.nsub++
			r.curReq = r.nsub
			r.sub[r.curReq] = s.Arg
			r.open[r.curReq] = true
			r.itersWant++
			e.submit(r.curReq, s.Arg)
		} else {
			hook = "fetch-ok"
			if !r.awaitFetch() {
				e.hosts.disarm()
				return fail("chain query start")
			}
			c := r.fetch
			r.fetch = nil
			c.release <- fetchResult{version: s.Arg}
		}
		ht := newRunTimer(r.stepTO)
		reached := false
	hold:
		for {
			select {
			case <-held:
				reached = true
				break hold
			case ev := <-e.hooks:
				r.absorb(ev)
				if r.seen["mgr:"+hook] > 0 {
					break hold // the iteration ended without a K-th hostname check: nothing to interrupt
				}
			case <-ht.C:
				e.hosts.disarm()
				return fail("hostname check to hold")
			}
		}
		ht.Stop()
		if !reached {
			e.hosts.disarm()
			if !r.await(r.itersDone) {
				return fail("service iteration")
			}
			break
		}
		if s.C == 1 {
			_ = r.publish(dtypes.EventDeploymentClosed{ID: e.did})
		} else {
			e.cancel()
		}
		cond := func() bool {
			if r.seen["mgr:"+hook] == 0 {
				return false
			}
			if s.C == 1 {
				return r.itersDone()
			}
			return r.seen["svc:shutdown"] > 0
		}
		// If the check does not take the stop request (a tree where the check no longer listens for it), the
		// hostname answer is let through after a grace period: the step then completes the ordinary way and is
		// judged as whatever it was (drift, not a hang).
		full := r.stepTO
		r.stepTO = swallowGrace
		done := r.await(cond)
		r.stepTO = full
		e.hosts.disarm()
		if !done {
			done = r.await(cond)
		}
		if !done {
			return fail("hook " + hook + " (stop request in the hostname check)")
		}
		if s.C == 2 {
			r.svcDown = true
			e.zombie = true
		}
	case "Update":
		_ = r.publish(dtypes.EventDeploymentUpdated{ID: e.did, Version: e.fx.hash[s.Arg]})
		if !r.await(routedTo("update")) {
			return fail("hook update")
		}
	case "LeaseRemoved":
		_ = r.publish(mtypes.EventLeaseClosed{ID: e.leaseID(s.Arg), Price: sdk.NewInt64Coin("uakt", 111)})
		if !r.await(routedTo("lease-removed")) {
			return fail("hook lease-removed")
		}
	case "FetchOk", "FetchErr":
		if r.fetch == nil && (pre != "run" || r.mgrLast == nil || !kvb(r.mgrLast, "fetch")) {
			break // (drift) no query is in flight: there is nothing to complete
		}
		if !r.awaitFetch() {
			return fail("chain query start")
		}
		c := r.fetch
		r.fetch = nil
		name := "fetch-ok"
		if s.Name == "FetchErr" {
			c.release <- fetchResult{version: 0}
			name = "fetch-err"
		} else {
			c.release <- fetchResult{version: s.Arg}
		}
		if !r.await(mgrSaw(name)) {
			return fail("hook " + name)
		}
	case "DeploymentClosed":
		if pre == "run" {
			e.holdGate()
		}
		_ = r.publish(dtypes.EventDeploymentClosed{ID: e.did})
		if !r.await(routedTo("exit")) {
			return fail("hook exit")
		}
	case "ManagerDone":
		if pre != "stopping" {
			break // (drift) there is no stopped manager to collect
		}
		r.itersWant++
		e.releaseGate()
		if !r.await(func() bool { return r.itersDone() && r.managers == 0 }) {
			return fail("service collects the manager")
		}
	case "Shutdown":
		e.cancel()
		if !r.await(func() bool { return r.seen["svc:shutdown"] > 0 }) {
			return fail("service shutdown hook")
		}
		e.releaseGate()
		dt := newRunTimer(r.stepTO)
		select {
		case <-e.svc.Done():
			dt.Stop()
		case <-dt.C:
			return fail("service done")
		}
		r.svcDown = true
		r.drainHooks()
	default:
		return fail("unknown action " + s.Name)
	}

	// the chain query the manager may have cancelled on exit
	if r.exited && r.fetch == nil {
		select {
		case c := <-e.fetchStarted:
			r.fetch = c
		default:
		}
	}
	if r.exited {
		r.fetch = nil
	}

	// everything published so far has been delivered once our marker comes back
	e.markers++
	mk := marker{n: e.markers}
	_ = r.publish(mk)
	t := newRunTimer(r.stepTO)
wait:
	for {
		select {
		case ev := <-e.busEvents:
			switch ev := ev.(type) {
			case marker:
				if ev.n == mk.n {
					break wait
				}
			case event.ManifestReceived:
				mf := 99
				if ev.Manifest != nil {
					mf = e.fx.version(vhashOf(ev.Manifest))
				}
				rec.Ann = append(rec.Ann, [2]int{e.leaseNum(ev.LeaseID.String()), mf})
			}
		case <-t.C:
			return fail("bus marker")
		}
	}
	t.Stop()
	if !r.await(r.itersDone) {
		return fail("service iteration (marker)")
	}
	rec.St = r.state()

	// replies: every reply the manager wrote must come back as the return of that Submit call
	want := map[int]bool{}
	allSends := rec.Sends
	if r.over != nil {
		allSends = append(append([][]interface{}{}, rec.Sends...), r.over.Sends...)
	}
	for _, sd := range allSends {
		q := sd[0].(int)
		if r.open[q] {
			want[q] = true
		}
	}
	if r.svcDown {
		for q := range r.open {
			want[q] = true
		}
	}
	// Quiescence is judged on the harness' own knowledge of the chain, not on the manager's word: a query the manager
	// says is in flight must have reached the scripted chain (it does within microseconds); if none arrives, none is
	// in flight, whatever the manager believes.
	if r.fetch != nil && r.fetch.ctx.Err() != nil {
		r.fetch = nil
	}
	if rec.St.Fetch == "inflight" && r.fetch == nil {
		full := r.stepTO
		r.stepTO = r.hangTO
		if hangBudget <= 0 {
			r.stepTO = r.hangTO / 20
		}
		if !r.awaitFetch() {
			hangBudget--
			rec.Errs = append(rec.Errs, "the manager reports a chain query in flight, none reached the chain")
		}
		r.stepTO = full
	}
	rec.Chain = "idle"
	if r.fetch != nil {
		rec.Chain = "inflight"
	}
	quiet := rec.Chain == "idle"
	if quiet {
		for q := range r.open {
			want[q] = true
		}
	}
	hangTO := r.hangTO
	if hangBudget <= 0 {
		// this process has already sat out several full waits: later sightings are recorded after a short wait
		// and re-examined in isolation, with full (doubled) timeouts, by the check
		hangTO = r.hangTO / 20
	}
	deadline := newRunTimer(hangTO)
	for len(want) > 0 {
		select {
		case ret := <-e.returns:
			rec.Rets = append(rec.Rets, []interface{}{ret.r, classify(ret.err)})
			delete(r.open, ret.r)
			delete(want, ret.r)
		case <-deadline.C:
			for q := range want {
				rec.Missing = append(rec.Missing, q)
				delete(r.open, q) // reported once; not awaited again
				r.gaveUp[q] = true
			}
			sort.Ints(rec.Missing)
			want = nil
			hangBudget--
		}
	}
	deadline.Stop()
	for more := true; more; {
		select {
		case ret := <-e.returns:
			rec.Rets = append(rec.Rets, []interface{}{ret.r, classify(ret.err)})
			delete(r.open, ret.r)
		default:
			more = false
		}
	}
	if e.overflow {
		return fail("hook buffer overflow")
	}
	if r.over != nil {
		// two iterations in one step: the step's own record describes the first, the surplus one follows
		over := r.over
		over.Chain = rec.Chain
		over.St = rec.St
		rec.St = r.stateAt(r.first, "run")
		if n := len(rec.AnnHook); n <= len(rec.Ann) {
			over.Ann = append(over.Ann, rec.Ann[n:]...)
			rec.Ann = rec.Ann[:n]
		}
		mine := map[int]bool{}
		for _, sd := range over.Sends {
			mine[sd[0].(int)] = true
		}
		keep := rec.Rets[:0:0]
		for _, rt := range rec.Rets {
			if mine[rt[0].(int)] {
				over.Rets = append(over.Rets, rt)
			} else {
				keep = append(keep, rt)
			}
		}
		rec.Rets = keep
		over.Missing, rec.Missing = rec.Missing, []int{}
		r.extra = append(r.extra, over)
	}
	return rec, true
}

var _ = pmanifest.ErrNotRunning
