package mmanagerh

import (
	"bytes"
	"encoding/hex"
	"fmt"
	"os"
	"path/filepath"

	"github.com/ovrclk/akash/manifest"
	"github.com/ovrclk/akash/sdl"
	dtypes "github.com/ovrclk/akash/x/deployment/types"
)

// The abstract manifests of ManifestManager.tla, concretised as real manifests built by the real SDL
// package from the repository's own fixtures (x/deployment/testdata):
//
//	1  deployment-v2.yaml
//	2  deployment-v2-newcontainer.yaml            (same groups, other image => other version hash)
//	3  deployment-v2.yaml with host taken.localhost: hash matches when the chain says so, both structural
//	   validations pass, the (scripted) hostname service refuses the host            => "invalid"
//	4  deployment-v2.yaml with 256Mi memory: hash matches when the chain says so, ValidateManifestWithDeployment
//	   fails against the deployment's groups (which are those of fixture 1)           => "invalid"
const takenHost = "taken.localhost"

type fixtures struct {
	manifests map[int]manifest.Manifest
	hash      map[int][]byte
	byHash    map[string]int
	groups    []*dtypes.GroupSpec // groups of fixture 1 (the deployment on chain)
}

func loadFixtures(repo string) (*fixtures, error) {
	dir := filepath.Join(repo, "x", "deployment", "testdata")
	base, err := os.ReadFile(filepath.Join(dir, "deployment-v2.yaml"))
	if err != nil {
		return nil, err
	}
	newc, err := os.ReadFile(filepath.Join(dir, "deployment-v2-newcontainer.yaml"))
	if err != nil {
		return nil, err
	}
	if !bytes.Contains(base, []byte("test.localhost")) || !bytes.Contains(base, []byte("128Mi")) {
		return nil, fmt.Errorf("fixture deployment-v2.yaml no longer has the expected host/memory lines")
	}
	nohost, err := os.ReadFile(filepath.Join(dir, "deployment-v2-nohost.yaml"))
	if err != nil {
		return nil, err
	}
	texts := map[int][]byte{
		5: nohost, // only met in traces of the repository's own tests (HTTPServicesRequireAtLeastOneHost)
		1: base,
		2: newc,
		3: bytes.Replace(base, []byte("test.localhost"), []byte(takenHost), -1),
		4: bytes.Replace(base, []byte("128Mi"), []byte("256Mi"), -1),
	}
	fx := &fixtures{manifests: map[int]manifest.Manifest{}, hash: map[int][]byte{}, byHash: map[string]int{}}
	for id, txt := range texts {
		s, err := sdl.Read(txt)
		if err != nil {
			return nil, fmt.Errorf("fixture %d: %v", id, err)
		}
		m, err := s.Manifest()
		if err != nil {
			return nil, fmt.Errorf("fixture %d: %v", id, err)
		}
		h, err := sdl.ManifestVersion(m)
		if err != nil {
			return nil, fmt.Errorf("fixture %d: %v", id, err)
		}
		fx.manifests[id] = m
		fx.hash[id] = h
		if prev, dup := fx.byHash[hex.EncodeToString(h)]; dup {
			return nil, fmt.Errorf("fixtures %d and %d have the same version hash", prev, id)
		}
		fx.byHash[hex.EncodeToString(h)] = id
		if id == 1 {
			fx.groups, err = s.DeploymentGroups()
			if err != nil {
				return nil, err
			}
		}
	}
	return fx, nil
}

// version maps a hex version hash back to the abstract version; unknown hashes map to 99 so that TLC sees a
// value outside Versions rather than a harness crash.
func (fx *fixtures) version(hexHash string) int {
	if v, ok := fx.byHash[hexHash]; ok {
		return v
	}
	return 99
}
