package limitsh

import (
	"bytes"
	"crypto/sha256"
	"encoding/hex"
	"encoding/json"
	"flag"
	"fmt"
	"math/rand"
	"os"
	"reflect"
	"runtime"
	"sync"

	sdk "github.com/cosmos/cosmos-sdk/types"

	dtypes "github.com/ovrclk/akash/x/deployment/types"

	"verif/harness/vcommon"
)

// Proj is the projected abstract state: every stored deployment re-derived from the raw records, counts of
// the neighbouring stores, the signer's balances, and a digest of every store of the application.
type Proj struct {
	Deployments []ADep            `json:"deployments"`
	Orders      int               `json:"orders"`
	Bids        int               `json:"bids"`
	Leases      int               `json:"leases"`
	Accounts    int               `json:"accounts"`
	Payments    int               `json:"payments"`
	Bal         int64             `json:"bal"`      // signer, deposit denomination (-1: not representable)
	BalOther    int64             `json:"balother"` // signer, the other denomination
	Digest      map[string]string `json:"digest"`
}

// In is one line of TLC's enumeration.
type In struct {
	ID  int    `json:"id"`
	Fam string `json:"fam"`
	M   AMsg   `json:"m"`
}

// Line is one recorded execution on the real code.
type Line struct {
	ID       int    `json:"id"`
	Fam      string `json:"fam"`
	Msg      AMsg   `json:"msg"` // projection of the message the node decoded (not a copy of the input)
	DSeq     int64  `json:"dseq"`
	Accepted bool   `json:"accepted"`
	Reason   string `json:"reason"`
	Err      string `json:"err"`
	Stage    string `json:"stage"`
	Before   Proj   `json:"before"`
	After    Proj   `json:"after"`
}

func (b *Binding) project(c *Chain, ctx sdk.Context) (Proj, error) {
	p := Proj{Deployments: []ADep{}}
	deps, groups, err := c.rawDeployments(ctx)
	if err != nil {
		return p, err
	}
	accts, payments, err := c.escrowAccounts(ctx)
	if err != nil {
		return p, err
	}
	seen := map[string]bool{}
	for _, d := range deps {
		id := d.DeploymentID.String()
		seen[id] = true
		a := ADep{Owner: "other", DSeq: -1, State: stateName(int32(d.State), dtypes.Deployment_State_name),
			GStates: []string{}, GSeqs: []int64{}, Groups: []AGroup{}, Version: int64(len(d.Version)),
			Deposit: AVal{K: "nil"}, DDenom: ""}
		if d.DeploymentID.Owner == b.Owner {
			a.Owner = "signer"
		}
		if d.DeploymentID.DSeq <= uint64(linMax) {
			a.DSeq = int64(d.DeploymentID.DSeq)
		}
		for _, g := range groups[id] {
			a.Groups = append(a.Groups, b.absGroupSpec(g.GroupSpec))
			a.GStates = append(a.GStates, stateName(int32(g.State), dtypes.Group_State_name))
			a.GSeqs = append(a.GSeqs, int64(g.GroupID.GSeq))
		}
		if acct, ok := accts["deployment/"+id]; ok {
			a.Deposit = abstract(bigOf(acct.Balance.Amount), 1, nil)
			a.DDenom = acct.Balance.Denom
		}
		p.Deployments = append(p.Deployments, a)
	}
	for id := range groups {
		if !seen[id] {
			return p, fmt.Errorf("group records without a deployment record: %s", id)
		}
	}
	if p.Orders, p.Bids, p.Leases, err = c.marketCounts(ctx); err != nil {
		return p, err
	}
	p.Accounts, p.Payments = len(accts), payments
	small := func(denom string) (int64, error) {
		x, err := c.balance(ctx, c.Signer, denom)
		if err != nil {
			return 0, err
		}
		if !x.IsInt64() || x.Int64() > linMax || x.Int64() < 0 {
			return -1, nil
		}
		return x.Int64(), nil
	}
	if p.Bal, err = small(b.T.DepDenom); err != nil {
		return p, err
	}
	if p.BalOther, err = small(OtherDenom); err != nil {
		return p, err
	}
	all, _ := c.Digests(ctx)
	p.Digest = map[string]string{}
	rest := ""
	for _, name := range c.Stores {
		switch name {
		case "bank", "escrow", "deployment", "market":
			p.Digest[name] = all[name]
		default:
			rest += name + "=" + all[name] + ";"
		}
	}
	sum := sha256.Sum256([]byte(rest))
	p.Digest["rest"] = hex.EncodeToString(sum[:])[:16]
	return p, nil
}

func stateName(v int32, names map[int32]string) string {
	if n, ok := names[v]; ok {
		return n
	}
	return fmt.Sprintf("state-%d", v)
}

// worker owns one real application instance with the base state: one valid deployment by the signer.
type worker struct {
	c *Chain
	b *Binding
}

func newWorker(seed int64) (*worker, error) {
	c, err := NewChain()
	if err != nil {
		return nil, err
	}
	t, err := NewTable(c)
	if err != nil {
		return nil, err
	}
	b := &Binding{T: t, Owner: c.Signer.String(), BaseDSeq: BaseDSeq, FreshDSeq: uint64(1000 + seed%100000), Seed: seed}
	tl := t.TLA()
	lin := func(name string) AVal {
		v := AVal{K: "lin", A: tl[name].(int64)}
		if bb, ok := tl[name+"B"]; ok {
			v.B = bb.(int64)
		}
		return v
	}
	base := AMsg{Kind: "create", Idc: "exists", Version: t.VersionLen, Deposit: lin("MinDeposit"), DDenom: t.DepDenom,
		Groups: []AGroup{{Name: "base", Units: []AUnit{{CPU: lin("MinUnitCPU"), Mem: lin("MinUnitMem"), Sto: lin("MinUnitSto"),
			Count: tl["MinUnitCount"].(int64), Price: lin("MinUnitPrice"), PDenom: t.NetDenom}}}}}
	msg, err := b.Concretise(base, versionBytes(seed))
	if err != nil {
		return nil, err
	}
	if out := c.Deliver(c.Base, msg); !out.Accepted {
		return nil, fmt.Errorf("the base deployment (all values at their minimum) was refused: %s", out.Err)
	}
	return &worker{c: c, b: b}, nil
}

func versionBytes(seed int64) []byte {
	r := rand.New(rand.NewSource(seed))
	v := make([]byte, 256)
	r.Read(v)
	return v
}

func (w *worker) exec(in In) (Line, error) {
	ln := Line{ID: in.ID, Fam: in.Fam, DSeq: int64(w.b.FreshDSeq)}
	msg, err := w.b.Concretise(in.M, versionBytes(w.b.Seed+int64(in.ID)))
	if err != nil {
		return ln, fmt.Errorf("message %d: %v", in.ID, err)
	}
	// what the node would decode: judge that, not the script
	wire, _, err := decode(msg)
	if err != nil {
		return ln, fmt.Errorf("message %d does not survive the wire: %v", in.ID, err)
	}
	if ln.Msg, err = w.b.Abstract(wire); err != nil {
		return ln, err
	}
	want := in.M
	if want.Groups == nil {
		want.Groups = []AGroup{}
	}
	for i := range want.Groups {
		if want.Groups[i].Units == nil {
			want.Groups[i].Units = []AUnit{}
		}
	}
	if !reflect.DeepEqual(ln.Msg, want) {
		a, _ := json.Marshal(ln.Msg)
		e, _ := json.Marshal(want)
		return ln, fmt.Errorf("message %d: concretise/abstract round trip differs\n sent %s\n want %s", in.ID, a, e)
	}
	return w.execWire(ln, msg)
}

// execWire runs one concrete message on its own branch of the base state and records everything TLC judges.
func (w *worker) execWire(ln Line, msg wireMsg) (Line, error) {
	var err error
	ctx, _ := w.c.Base.CacheContext()
	if ln.Before, err = w.b.project(w.c, ctx); err != nil {
		return ln, err
	}
	out := w.c.Deliver(ctx, msg)
	if ln.After, err = w.b.project(w.c, ctx); err != nil {
		return ln, err
	}
	ln.Accepted, ln.Err, ln.Stage, ln.Reason = out.Accepted, out.Err, out.Stage, errClass(out)
	if len(ln.Err) > 300 {
		ln.Err = ln.Err[:300]
	}
	return ln, nil
}

// Main: vh limits table | run -in msgs.ndjson -out trace.ndjson [-seed N] [-workers N] | fuzz -n N -out F [-seed N] [-first ID]
func Main(args []string) int {
	if len(args) < 1 {
		fmt.Fprintln(os.Stderr, "usage: vh limits table | run -in F -out F [-seed N]")
		return 2
	}
	switch args[0] {
	case "table":
		c, err := NewChain()
		if err != nil {
			fmt.Fprintln(os.Stderr, "limits:", err)
			return 2
		}
		t, err := NewTable(c)
		if err != nil {
			fmt.Fprintln(os.Stderr, "limits:", err)
			return 2
		}
		_ = json.NewEncoder(os.Stdout).Encode(map[string]interface{}{"tla": t.TLA(), "raw": t.Raw(), "stores": c.Stores})
		return 0
	case "run":
		fs := flag.NewFlagSet("run", flag.ContinueOnError)
		in := fs.String("in", "", "abstract messages (ndjson, one {id,fam,m} per line)")
		out := fs.String("out", "", "recorded trace (ndjson)")
		seed := fs.Int64("seed", 1, "seed (ids, version bytes)")
		nw := fs.Int("workers", 0, "parallel application instances")
		if err := fs.Parse(args[1:]); err != nil || *in == "" || *out == "" {
			return 2
		}
		if err := run(*in, *out, *seed, *nw); err != nil {
			fmt.Fprintln(os.Stderr, "limits:", err)
			return 2
		}
		return 0
	}
	if args[0] == "fuzz" {
		fs := flag.NewFlagSet("fuzz", flag.ContinueOnError)
		n := fs.Int("n", 1000, "number of random concrete messages")
		out := fs.String("out", "", "recorded trace (ndjson)")
		seed := fs.Int64("seed", 1, "seed")
		first := fs.Int("first", 1, "id of the first line")
		nw := fs.Int("workers", 0, "parallel application instances")
		if err := fs.Parse(args[1:]); err != nil || *out == "" {
			return 2
		}
		if err := fuzz(*n, *out, *seed, *first, *nw); err != nil {
			fmt.Fprintln(os.Stderr, "limits:", err)
			return 2
		}
		return 0
	}
	fmt.Fprintln(os.Stderr, "limits: unknown sub-command", args[0])
	return 2
}

func run(inPath, outPath string, seed int64, nw int) error {
	var ins []In
	if err := vcommon.ReadLines(inPath, func(raw json.RawMessage) error {
		var x In
		dec := json.NewDecoder(bytesReader(raw))
		dec.DisallowUnknownFields()
		if err := dec.Decode(&x); err != nil {
			return fmt.Errorf("bad input line: %v: %s", err, truncate(string(raw), 200))
		}
		ins = append(ins, x)
		return nil
	}); err != nil {
		return err
	}
	lines, err := parallel(len(ins), seed, nw, func(w *worker, i int) (Line, error) { return w.exec(ins[i]) })
	if err != nil {
		return err
	}
	return writeLines(outPath, lines)
}

// parallel runs job(i) for i in 0..n-1 on nw application instances (each with the same base state).
func parallel(n int, seed int64, nw int, job func(w *worker, i int) (Line, error)) ([]Line, error) {
	if nw <= 0 {
		nw = runtime.NumCPU()
		if nw > 12 {
			nw = 12
		}
	}
	if nw > n/50+1 {
		nw = n/50 + 1
	}
	lines := make([]Line, n)
	errs := make([]error, nw)
	var wg sync.WaitGroup
	for k := 0; k < nw; k++ {
		wg.Add(1)
		go func(k int) {
			defer wg.Done()
			w, err := newWorker(seed)
			if err != nil {
				errs[k] = err
				return
			}
			for i := k; i < n; i += nw {
				ln, err := job(w, i)
				if err != nil {
					errs[k] = err
					return
				}
				lines[i] = ln
			}
		}(k)
	}
	wg.Wait()
	for _, e := range errs {
		if e != nil {
			return nil, e
		}
	}
	return lines, nil
}

func writeLines(outPath string, lines []Line) error {
	w, err := vcommon.NewWriter(outPath)
	if err != nil {
		return err
	}
	for i := range lines {
		if err := w.Write(lines[i]); err != nil {
			return err
		}
	}
	return w.Close()
}

func truncate(s string, n int) string {
	if len(s) > n {
		return s[:n]
	}
	return s
}

func bytesReader(b []byte) *bytes.Reader { return bytes.NewReader(b) }
