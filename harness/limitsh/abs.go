package limitsh

import (
	"fmt"
	"math/big"
	"strings"

	sdk "github.com/cosmos/cosmos-sdk/types"

	atypes "github.com/ovrclk/akash/types"
	dtypes "github.com/ovrclk/akash/x/deployment/types"
)

// ---------------------------------------------------------------------------------------------------------
// Abstract values. The TLA+ spec never sees a byte count: a quantity is "a units and b more", a*U + b, with U a
// per-resource unit chosen from the real limits table (Table.Unit), or one of a few named values beyond 64 bits.
// This file is the only place where abstract values become numbers and numbers become abstract values.

// AVal is the abstract value [k, a, b] of Limits.tla.
type AVal struct {
	K string `json:"k"`
	A int64  `json:"a"`
	B int64  `json:"b"`
}

const linMax = int64(2000000000) // largest `a` handed to TLC (its integers are 32 bit)

var (
	two63  = new(big.Int).Lsh(big.NewInt(1), 63)
	two64  = new(big.Int).Lsh(big.NewInt(1), 64)
	u64max = new(big.Int).Sub(two64, big.NewInt(1))
)

// concrete returns the number an abstract value stands for (nil for k="nil": the field is absent).
// wrapBase is the in-range amount that v*2 wraps to modulo 2^64 for k="wrap".
func concrete(v AVal, unit int64, wrapBase *big.Int) (*big.Int, error) {
	switch v.K {
	case "lin":
		x := new(big.Int).Mul(big.NewInt(v.A), big.NewInt(unit))
		return x.Add(x, big.NewInt(v.B)), nil
	case "nil":
		return nil, nil
	case "neg":
		return big.NewInt(-1), nil
	case "p63":
		return new(big.Int).Set(two63), nil
	case "wrap":
		return new(big.Int).Add(two63, wrapBase), nil
	case "u64max":
		return new(big.Int).Set(u64max), nil
	case "ovp": // 2^64 + 2*min: its low 64 bits are an in-range amount
		x := new(big.Int).Add(two64, wrapBase)
		return x.Add(x, wrapBase), nil
	case "ovn": // -(2^64 + min): the low 64 bits of its absolute value are an in-range amount; ovp + ovn = min
		x := new(big.Int).Add(two64, wrapBase)
		return x.Neg(x), nil
	case "over64":
		return new(big.Int).Set(two64), nil
	}
	return nil, fmt.Errorf("abstract value kind %q cannot be concretised", v.K)
}

// abstract is the inverse of concrete and total: every number has an abstract value ("big" when it is none of
// the named ones and above 2e9 units, "vast" when moreover above 2^64, "other" when below -1; the spec treats
// all three as outside every bound).
func abstract(x *big.Int, unit int64, wrapBase *big.Int) AVal {
	if x == nil {
		return AVal{K: "nil"}
	}
	switch {
	case x.Cmp(big.NewInt(-1)) == 0:
		return AVal{K: "neg"}
	case x.Cmp(two63) == 0:
		return AVal{K: "p63"}
	case wrapBase != nil && x.Cmp(new(big.Int).Add(two63, wrapBase)) == 0:
		return AVal{K: "wrap"}
	case x.Cmp(u64max) == 0:
		return AVal{K: "u64max"}
	case x.Cmp(two64) == 0:
		return AVal{K: "over64"}
	case wrapBase != nil && x.Cmp(new(big.Int).Add(two64, new(big.Int).Lsh(wrapBase, 1))) == 0:
		return AVal{K: "ovp"}
	case wrapBase != nil && x.Cmp(new(big.Int).Neg(new(big.Int).Add(two64, wrapBase))) == 0:
		return AVal{K: "ovn"}
	case x.Sign() < 0:
		return AVal{K: "other"}
	}
	u := big.NewInt(unit)
	half := big.NewInt(unit / 2)
	a := new(big.Int).Add(x, half)
	a.Div(a, u) // floor, x >= 0
	b := new(big.Int).Sub(x, new(big.Int).Mul(a, u))
	if !a.IsInt64() || a.Int64() > linMax {
		if x.Cmp(two64) > 0 {
			return AVal{K: "vast"} // does not fit 64 bits
		}
		return AVal{K: "big"}
	}
	return AVal{K: "lin", A: a.Int64(), B: b.Int64()}
}

// ---------------------------------------------------------------------------------------------------------
// Abstract message / stored deployment (shapes of Limits.tla)

type AUnit struct {
	CPU    AVal   `json:"cpu"`
	Mem    AVal   `json:"mem"`
	Sto    AVal   `json:"sto"`
	Count  int64  `json:"count"`
	Price  AVal   `json:"price"`
	PDenom string `json:"pdenom"`
}

type AGroup struct {
	Name  string  `json:"name"`
	Units []AUnit `json:"units"`
}

type AMsg struct {
	Kind    string   `json:"kind"` // "create" | "update"
	Idc     string   `json:"idc"`
	Groups  []AGroup `json:"groups"`
	Version int64    `json:"version"`
	Deposit AVal     `json:"deposit"`
	DDenom  string   `json:"ddenom"`
}

// ADep is one deployment as found in the stores (deployment record, its group records, its escrow account).
type ADep struct {
	Owner   string   `json:"owner"` // "signer" | "other"
	DSeq    int64    `json:"dseq"`
	State   string   `json:"state"`
	GStates []string `json:"gstates"`
	GSeqs   []int64  `json:"gseqs"`
	Groups  []AGroup `json:"groups"`
	Version int64    `json:"version"`
	Deposit AVal     `json:"deposit"` // balance of the deployment's escrow account (k="nil": no account)
	DDenom  string   `json:"ddenom"`
}

const countSat = int64(2147483647) // TLC's view of any replica count >= 2^31-1 (concretely: max uint32)

func absCount(c uint32) int64 {
	if int64(c) >= countSat {
		return countSat
	}
	return int64(c)
}

func concCount(c int64) (uint32, error) {
	switch {
	case c == countSat:
		return ^uint32(0), nil
	case c < 0 || c > countSat:
		return 0, fmt.Errorf("replica count %d not representable", c)
	}
	return uint32(c), nil
}

func sdkInt(x *big.Int) sdk.Int { return sdk.NewIntFromBigInt(x) }

// Binding carries what both directions need: the table (units) and the ids of this run.
type Binding struct {
	T         *Table
	Owner     string
	BaseDSeq  uint64
	FreshDSeq uint64
	Seed      int64
}

func (b *Binding) wrapBase(res string) *big.Int {
	switch res {
	case "cpu":
		return new(big.Int).SetUint64(uint64(b.T.raw.MinUnitCPU))
	case "mem":
		return new(big.Int).SetUint64(b.T.raw.MinUnitMemory)
	case "sto":
		return new(big.Int).SetUint64(b.T.raw.MinUnitStorage)
	case "price":
		return new(big.Int).SetUint64(b.T.raw.MinUnitPrice)
	}
	return nil
}

func (b *Binding) concID(idc string) (dtypes.DeploymentID, error) {
	id := dtypes.DeploymentID{Owner: b.Owner}
	switch idc {
	case "fresh":
		id.DSeq = b.FreshDSeq
	case "exists":
		id.DSeq = b.BaseDSeq
	case "zero":
		id.DSeq = 0
	case "badowner":
		id.Owner = "not-a-bech32-address"
		id.DSeq = b.FreshDSeq
	default:
		return id, fmt.Errorf("unknown id class %q", idc)
	}
	return id, nil
}

func (b *Binding) concGroups(groups []AGroup) ([]dtypes.GroupSpec, error) {
	var out []dtypes.GroupSpec
	for _, g := range groups {
		gs := dtypes.GroupSpec{Name: g.Name}
		for _, u := range g.Units {
			r := dtypes.Resource{}
			cpu, err := concrete(u.CPU, b.T.Unit["cpu"], b.wrapBase("cpu"))
			if err != nil {
				return nil, err
			}
			if cpu != nil {
				r.Resources.CPU = &atypes.CPU{Units: atypes.ResourceValue{Val: sdkInt(cpu)}}
			}
			mem, err := concrete(u.Mem, b.T.Unit["mem"], b.wrapBase("mem"))
			if err != nil {
				return nil, err
			}
			if mem != nil {
				r.Resources.Memory = &atypes.Memory{Quantity: atypes.ResourceValue{Val: sdkInt(mem)}}
			}
			sto, err := concrete(u.Sto, b.T.Unit["sto"], b.wrapBase("sto"))
			if err != nil {
				return nil, err
			}
			if sto != nil {
				r.Resources.Storage = &atypes.Storage{Quantity: atypes.ResourceValue{Val: sdkInt(sto)}}
			}
			if r.Count, err = concCount(u.Count); err != nil {
				return nil, err
			}
			price, err := concrete(u.Price, 1, b.wrapBase("price"))
			if err != nil || price == nil {
				return nil, fmt.Errorf("price: %v", err)
			}
			r.Price = sdk.Coin{Denom: u.PDenom, Amount: sdkInt(price)}
			gs.Resources = append(gs.Resources, r)
		}
		out = append(out, gs)
	}
	return out, nil
}

// Concretise turns an abstract message into a real MsgCreateDeployment / MsgUpdateDeployment.
func (b *Binding) Concretise(m AMsg, version []byte) (wireMsg, error) {
	id, err := b.concID(m.Idc)
	if err != nil {
		return nil, err
	}
	if int(m.Version) > len(version) {
		return nil, fmt.Errorf("version length %d not supported", m.Version)
	}
	var ver []byte
	if m.Version > 0 {
		ver = append([]byte{}, version[:m.Version]...)
	}
	groups, err := b.concGroups(m.Groups)
	if err != nil {
		return nil, err
	}
	switch m.Kind {
	case "create":
		dep, err := concrete(m.Deposit, 1, nil)
		if err != nil || dep == nil {
			return nil, fmt.Errorf("deposit: %v", err)
		}
		return &dtypes.MsgCreateDeployment{ID: id, Groups: groups, Version: ver,
			Deposit: sdk.Coin{Denom: m.DDenom, Amount: sdkInt(dep)}}, nil
	case "update":
		if m.Deposit != (AVal{K: "lin"}) || m.DDenom != "" {
			return nil, fmt.Errorf("an update message carries no deposit")
		}
		return &dtypes.MsgUpdateDeployment{ID: id, Groups: groups, Version: ver}, nil
	}
	return nil, fmt.Errorf("unknown message kind %q", m.Kind)
}

func bigOf(i sdk.Int) *big.Int {
	if i.IsNil() {
		return big.NewInt(0) // what the wire encoding of a nil Int decodes to
	}
	return i.BigInt()
}

func (b *Binding) absGroupSpec(gs dtypes.GroupSpec) AGroup {
	g := AGroup{Name: gs.Name, Units: make([]AUnit, 0, len(gs.Resources))}
	for _, r := range gs.Resources {
		u := AUnit{Count: absCount(r.Count), PDenom: r.Price.Denom}
		if r.Resources.CPU == nil {
			u.CPU = AVal{K: "nil"}
		} else {
			u.CPU = abstract(bigOf(r.Resources.CPU.Units.Val), b.T.Unit["cpu"], b.wrapBase("cpu"))
		}
		if r.Resources.Memory == nil {
			u.Mem = AVal{K: "nil"}
		} else {
			u.Mem = abstract(bigOf(r.Resources.Memory.Quantity.Val), b.T.Unit["mem"], b.wrapBase("mem"))
		}
		if r.Resources.Storage == nil {
			u.Sto = AVal{K: "nil"}
		} else {
			u.Sto = abstract(bigOf(r.Resources.Storage.Quantity.Val), b.T.Unit["sto"], b.wrapBase("sto"))
		}
		u.Price = abstract(bigOf(r.Price.Amount), 1, b.wrapBase("price"))
		g.Units = append(g.Units, u)
	}
	return g
}

func (b *Binding) absID(id dtypes.DeploymentID) string {
	_, err := sdk.AccAddressFromBech32(id.Owner)
	switch {
	case err != nil:
		return "badowner"
	case id.DSeq == 0:
		return "zero"
	case id.DSeq == b.BaseDSeq && id.Owner == b.Owner:
		return "exists"
	}
	return "fresh"
}

// Abstract is the projection of a real message (as decoded from the wire) onto the spec's message shape.
func (b *Binding) Abstract(msg wireMsg) (AMsg, error) {
	switch x := msg.(type) {
	case *dtypes.MsgCreateDeployment:
		m := AMsg{Kind: "create", Idc: b.absID(x.ID), Groups: make([]AGroup, 0, len(x.Groups)),
			Version: int64(len(x.Version)), DDenom: x.Deposit.Denom, Deposit: abstract(bigOf(x.Deposit.Amount), 1, nil)}
		for _, gs := range x.Groups {
			m.Groups = append(m.Groups, b.absGroupSpec(gs))
		}
		return m, nil
	case *dtypes.MsgUpdateDeployment:
		m := AMsg{Kind: "update", Idc: b.absID(x.ID), Groups: make([]AGroup, 0, len(x.Groups)),
			Version: int64(len(x.Version)), DDenom: "", Deposit: AVal{K: "lin"}}
		for _, gs := range x.Groups {
			m.Groups = append(m.Groups, b.absGroupSpec(gs))
		}
		return m, nil
	}
	return AMsg{}, fmt.Errorf("unsupported message type %T", msg)
}

// errClass maps the implementation's error text onto the reason names used by Verdict(m) in Limits.tla. This
// is only used for the (informational) reason-conformance count, never for the property verdict.
func errClass(o Outcome) string {
	if o.Accepted {
		return "ok"
	}
	if o.Panicked {
		return "panic"
	}
	table := []struct{ sub, class string }{
		{"Invalid Owner Address", "id-owner"},
		{"Invalid Deployment Sequence", "id-dseq"},
		{"empty version", "empty-version"},
		{"Invalid: deployment version", "bad-version"},
		{"group has empty name", "empty-name"},
		{"too many units", "too-many-units"},
		{"invalid unit CPU", "unit-cpu"},
		{"invalid unit memory", "unit-mem"},
		{"invalid unit storage", "unit-sto"},
		{"invalid unit count", "unit-count"},
		{"invalid total CPU", "total-cpu"},
		{"invalid total memory", "total-mem"},
		{"invalid total storage", "total-sto"},
		{"invalid price object", "price-invalid"},
		{"invalid unit price", "price-range"},
		{"denomination must be", "price-denom"},
		{"Deployment exists", "exists"},
		{"Deployment not found", "not-found"},
		{"Deployment closed", "closed"},
		{"Deposit invalid", "deposit"},
		{"duplicate deployment group name", "dup-name"},
		{"too many groups", "too-many-groups"},
		{"insufficient funds", "funds"},
		{"Invalid groups", "no-groups"},
	}
	for _, e := range table {
		if strings.Contains(o.Err, e.sub) {
			return e.class
		}
	}
	return "unknown"
}
