// Package limitsh binds spec/limits/Limits.tla (property C19) to the real code: it builds the real AkashApp
// (real bank, real escrow/market wiring), concretises the abstract create-deployment messages enumerated by TLC
// into real MsgCreateDeployment values, runs them the way baseapp.runTx does (proto round trip, ValidateBasic,
// handler from the app's own MsgServiceRouter on a cache branch, commit on nil error, panic = rejection) and
// records, for TLC to judge, the result and a projection of every store before and after.
package limitsh

import (
	"crypto/sha256"
	"encoding/hex"
	"encoding/json"
	"fmt"
	"sort"

	"github.com/cosmos/cosmos-sdk/simapp"
	sdk "github.com/cosmos/cosmos-sdk/types"
	authtypes "github.com/cosmos/cosmos-sdk/x/auth/types"
	banktypes "github.com/cosmos/cosmos-sdk/x/bank/types"
	abci "github.com/tendermint/tendermint/abci/types"
	"github.com/tendermint/tendermint/crypto/ed25519"
	"github.com/tendermint/tendermint/libs/log"
	tmproto "github.com/tendermint/tendermint/proto/tendermint/types"
	dbm "github.com/tendermint/tm-db"

	"github.com/ovrclk/akash/app"
	"github.com/ovrclk/akash/validation/constants"
	dtypes "github.com/ovrclk/akash/x/deployment/types"
	etypes "github.com/ovrclk/akash/x/escrow/types"
)

// OtherDenom is a well-formed denomination that is not the network's. The signer is funded in it as well, so
// that a deposit or a price in it can only be refused by the limits, never by an empty wallet.
const OtherDenom = "uatom"

// Funds is the signer's balance in each denomination (fits a TLC integer).
const Funds = int64(1500000000)

const (
	createMethod = "/akash.deployment.v1beta1.Msg/CreateDeployment"
	updateMethod = "/akash.deployment.v1beta1.Msg/UpdateDeployment"
)

// wireMsg: a message the node receives as bytes.
type wireMsg interface {
	sdk.Msg
	Marshal() ([]byte, error)
	Unmarshal([]byte) error
}

// decode is the protobuf round trip: what the node works on is what it decoded, never the sender's struct.
func decode(msg wireMsg) (wireMsg, string, error) {
	bz, err := msg.Marshal()
	if err != nil {
		return nil, "", err
	}
	var out wireMsg
	var method string
	switch msg.(type) {
	case *dtypes.MsgCreateDeployment:
		out, method = &dtypes.MsgCreateDeployment{}, createMethod
	case *dtypes.MsgUpdateDeployment:
		out, method = &dtypes.MsgUpdateDeployment{}, updateMethod
	default:
		return nil, "", fmt.Errorf("unsupported message type %T", msg)
	}
	if err := out.Unmarshal(bz); err != nil {
		return nil, "", err
	}
	return out, method, nil
}

// storeNames: every KV store of the application; "rejected without effect" is judged over all of them.
var storeNames = []string{
	"acc", "bank", "staking", "mint", "distribution", "slashing", "gov", "params", "ibc", "upgrade",
	"evidence", "transfer", "capability",
	"escrow", "deployment", "market", "provider", "audit", "cert",
}

// Chain is one real application instance with a funded signer and a committed base state.
type Chain struct {
	App    *app.AkashApp
	Base   sdk.Context
	Signer sdk.AccAddress
	Stores []string
	// MinDeposit as read from the running chain's x/deployment params.
	MinDeposit sdk.Coin
	// NetDenom is the denomination the validation code demands for prices.
	NetDenom string
}

func addr(seed string) sdk.AccAddress {
	return sdk.AccAddress(ed25519.GenPrivKeyFromSecret([]byte(seed)).PubKey().Address())
}

// NewChain builds the real app on a MemDB with a genesis that funds the signer, and runs InitChain.
func NewChain() (*Chain, error) {
	a := app.NewApp(log.NewNopLogger(), dbm.NewMemDB(), nil, true, 5, map[int64]bool{}, app.DefaultHome,
		simapp.EmptyAppOptions{})
	gen := app.NewDefaultGenesisState()
	cdc := a.AppCodec()

	signer := addr("limits-signer")
	coins := sdk.NewCoins(sdk.NewInt64Coin(constants.AkashDenom, Funds), sdk.NewInt64Coin(OtherDenom, Funds))

	var authGen authtypes.GenesisState
	cdc.MustUnmarshalJSON(gen[authtypes.ModuleName], &authGen)
	accs := authtypes.GenesisAccounts{authtypes.NewBaseAccount(signer, nil, 0, 0)}
	packed, err := authtypes.PackAccounts(accs)
	if err != nil {
		return nil, err
	}
	authGen.Accounts = packed
	gen[authtypes.ModuleName] = cdc.MustMarshalJSON(&authGen)

	var bankGen banktypes.GenesisState
	cdc.MustUnmarshalJSON(gen[banktypes.ModuleName], &bankGen)
	bankGen.Balances = []banktypes.Balance{{Address: signer.String(), Coins: coins}}
	bankGen.Supply = coins
	gen[banktypes.ModuleName] = cdc.MustMarshalJSON(&bankGen)

	state, err := json.Marshal(gen)
	if err != nil {
		return nil, err
	}
	a.InitChain(abci.RequestInitChain{Validators: []abci.ValidatorUpdate{}, AppStateBytes: state})

	ctx := a.BaseApp.NewContext(false, tmproto.Header{Height: 1, ChainID: "limits"})
	c := &Chain{App: a, Base: ctx, Signer: signer, NetDenom: constants.AkashDenom}

	for _, n := range storeNames {
		if a.GetKey(n) != nil {
			c.Stores = append(c.Stores, n)
		}
	}
	for _, must := range []string{"bank", "escrow", "deployment", "market"} {
		if a.GetKey(must) == nil {
			return nil, fmt.Errorf("store %q not found in the application", must)
		}
	}

	var params dtypes.Params
	a.GetSubspace(dtypes.ModuleName).GetParamSet(ctx, &params)
	c.MinDeposit = params.DeploymentMinDeposit
	return c, nil
}

// Outcome of one transaction.
type Outcome struct {
	Accepted bool
	Err      string
	Panicked bool
	Stage    string // "encode", "validate-basic", "handler", "ok"
}

// Deliver runs msg on ctx the way baseapp.runTx runs a transaction's message (minus the ante handler):
// protobuf round trip (the node only ever sees decoded bytes), ValidateBasic, then the module's handler on a
// cache branch that is written back only on success. A panic anywhere is a rejection (runTx recovers it).
func (c *Chain) Deliver(ctx sdk.Context, msg wireMsg) (out Outcome) {
	defer func() {
		if r := recover(); r != nil {
			out = Outcome{Accepted: false, Err: fmt.Sprint("panic: ", r), Panicked: true, Stage: out.Stage}
		}
	}()
	out.Stage = "encode"
	wire, method, err := decode(msg)
	if err != nil {
		out.Err = err.Error()
		return out
	}
	out.Stage = "validate-basic"
	if err := wire.ValidateBasic(); err != nil {
		out.Err = err.Error()
		return out
	}
	out.Stage = "handler"
	h := c.App.MsgServiceRouter().Handler(method)
	if h == nil {
		panic("no handler registered for " + method)
	}
	cctx, write := ctx.CacheContext()
	if _, err := h(cctx, wire); err != nil {
		out.Err = err.Error()
		return out
	}
	write()
	out.Stage = "ok"
	out.Accepted = true
	return out
}

// Digests returns, per store, a digest of every (key, value) pair, plus the number of keys.
func (c *Chain) Digests(ctx sdk.Context) (map[string]string, map[string]int) {
	d := map[string]string{}
	n := map[string]int{}
	for _, name := range c.Stores {
		h := sha256.New()
		it := ctx.KVStore(c.App.GetKey(name)).Iterator(nil, nil)
		cnt := 0
		for ; it.Valid(); it.Next() {
			k, v := it.Key(), it.Value()
			fmt.Fprintf(h, "%d:%d:", len(k), len(v))
			h.Write(k)
			h.Write(v)
			cnt++
		}
		it.Close()
		d[name] = hex.EncodeToString(h.Sum(nil))[:16]
		n[name] = cnt
	}
	return d, n
}

// rawDeployments decodes every record of the deployment store (0x01 deployments, 0x02 groups) with the real
// codec. Any key that does not decode is an error (unprojectable key).
func (c *Chain) rawDeployments(ctx sdk.Context) ([]dtypes.Deployment, map[string][]dtypes.Group, error) {
	st := ctx.KVStore(c.App.GetKey("deployment"))
	cdc := c.App.AppCodec()
	var deps []dtypes.Deployment
	groups := map[string][]dtypes.Group{}
	it := st.Iterator(nil, nil)
	defer it.Close()
	for ; it.Valid(); it.Next() {
		k := it.Key()
		switch {
		case len(k) > 0 && k[0] == 0x01:
			var d dtypes.Deployment
			if err := cdc.UnmarshalBinaryBare(it.Value(), &d); err != nil {
				return nil, nil, fmt.Errorf("deployment key %x: %v", k, err)
			}
			deps = append(deps, d)
		case len(k) > 0 && k[0] == 0x02:
			var g dtypes.Group
			if err := cdc.UnmarshalBinaryBare(it.Value(), &g); err != nil {
				return nil, nil, fmt.Errorf("group key %x: %v", k, err)
			}
			id := g.GroupID.DeploymentID().String()
			groups[id] = append(groups[id], g)
		default:
			return nil, nil, fmt.Errorf("unprojectable deployment store key %x", k)
		}
	}
	for _, gs := range groups {
		sort.SliceStable(gs, func(i, j int) bool { return gs[i].GroupID.GSeq < gs[j].GroupID.GSeq })
	}
	return deps, groups, nil
}

// escrowAccounts decodes every escrow account record (prefix 0x01).
func (c *Chain) escrowAccounts(ctx sdk.Context) (map[string]etypes.Account, int, error) {
	st := ctx.KVStore(c.App.GetKey("escrow"))
	cdc := c.App.AppCodec()
	out := map[string]etypes.Account{}
	payments := 0
	it := st.Iterator(nil, nil)
	defer it.Close()
	for ; it.Valid(); it.Next() {
		k := it.Key()
		switch {
		case len(k) > 0 && k[0] == 0x01:
			var a etypes.Account
			if err := cdc.UnmarshalBinaryBare(it.Value(), &a); err != nil {
				return nil, 0, fmt.Errorf("escrow key %x: %v", k, err)
			}
			out[a.ID.Scope+"/"+a.ID.XID] = a
		case len(k) > 0 && k[0] == 0x02:
			payments++
		default:
			return nil, 0, fmt.Errorf("unprojectable escrow store key %x", k)
		}
	}
	return out, payments, nil
}

// marketCounts counts orders / bids / leases by key prefix.
func (c *Chain) marketCounts(ctx sdk.Context) (orders, bids, leases int, err error) {
	it := ctx.KVStore(c.App.GetKey("market")).Iterator(nil, nil)
	defer it.Close()
	for ; it.Valid(); it.Next() {
		k := it.Key()
		switch {
		case len(k) > 1 && k[0] == 0x01:
			orders++
		case len(k) > 1 && k[0] == 0x02:
			bids++
		case len(k) > 1 && k[0] == 0x03:
			leases++
		default:
			return 0, 0, 0, fmt.Errorf("unprojectable market store key %x", k)
		}
	}
	return
}

// balance reads the bank store directly ("balances" | addr | denom).
func (c *Chain) balance(ctx sdk.Context, who sdk.AccAddress, denom string) (sdk.Int, error) {
	st := ctx.KVStore(c.App.GetKey("bank"))
	key := append(append([]byte("balances"), who.Bytes()...), []byte(denom)...)
	bz := st.Get(key)
	if bz == nil {
		return sdk.ZeroInt(), nil
	}
	var coin sdk.Coin
	if err := c.App.AppCodec().UnmarshalBinaryBare(bz, &coin); err != nil {
		return sdk.Int{}, err
	}
	return coin.Amount, nil
}
