package limitsh

import (
	"fmt"
	"math/big"

	dtypes "github.com/ovrclk/akash/x/deployment/types"
)

// Table is the network's limits as the running code has them (types.GetValidationConfig(), the chain's
// DeploymentMinDeposit parameter, ManifestVersionLength, the price denomination), together with the unit in
// which each resource is handed to TLC (whose integers are 32 bit): a real amount is a*Unit + b.
type Table struct {
	raw        dtypes.ValidationConfig
	Unit       map[string]int64
	MinDeposit int64
	DepDenom   string
	NetDenom   string
	VersionLen int64
}

// BaseDSeq is the sequence number of the deployment that exists in the base state.
const BaseDSeq = 7

// chooseUnit: 1 if every total the spec computes fits TLC's integers, otherwise 2^20 (limits then have an `a` and
// a `b` part like every other amount; they need not be multiples of the unit).
func chooseUnit(name string, minU, maxU, maxG uint64, maxCount, maxUnits uint64) (int64, error) {
	fits := func(u uint64) bool {
		if maxU/u+1 > uint64(linMax) || maxG/u+1 > uint64(linMax) {
			return false
		}
		return (maxU/u+1)*maxCount*maxUnits <= uint64(linMax)
	}
	if fits(1) {
		return 1, nil
	}
	const u = 1 << 20
	if !fits(u) {
		return 0, fmt.Errorf("limits for %s (min %d, max %d, group max %d) with %d replicas x %d units exceed what "+
			"32-bit integers in units of 2^20 can total: extend limitsh.chooseUnit", name, minU, maxU, maxG, maxCount, maxUnits)
	}
	return u, nil
}

func NewTable(c *Chain) (*Table, error) {
	cfg := dtypes.GetValidationConfig()
	t := &Table{raw: cfg, Unit: map[string]int64{}, DepDenom: c.MinDeposit.Denom, NetDenom: c.NetDenom,
		VersionLen: int64(dtypes.ManifestVersionLength)}
	if !c.MinDeposit.Amount.IsInt64() || c.MinDeposit.Amount.Int64() > linMax/4 || c.MinDeposit.Amount.Int64() < 1 {
		return nil, fmt.Errorf("DeploymentMinDeposit %s outside the range the harness funds (1..%d)", c.MinDeposit, linMax/4)
	}
	t.MinDeposit = c.MinDeposit.Amount.Int64()
	if t.MinDeposit+2 >= Funds {
		return nil, fmt.Errorf("DeploymentMinDeposit %s not below the signer's funds %d", c.MinDeposit, Funds)
	}
	if cfg.MaxGroupCount < 1 || cfg.MaxGroupUnits < 1 || cfg.MaxGroupCount > 200 || cfg.MaxGroupUnits > 200 {
		return nil, fmt.Errorf("MaxGroupCount %d / MaxGroupUnits %d outside what the enumeration is sized for (1..200)",
			cfg.MaxGroupCount, cfg.MaxGroupUnits)
	}
	if cfg.MaxUnitCount < 1 || uint64(cfg.MaxUnitCount) > 1<<20 || cfg.MaxUnitPrice > uint64(linMax/2) {
		return nil, fmt.Errorf("MaxUnitCount %d / MaxUnitPrice %d outside the representable range", cfg.MaxUnitCount, cfg.MaxUnitPrice)
	}
	var err error
	mc, mu := uint64(cfg.MaxUnitCount), uint64(cfg.MaxGroupUnits)
	if t.Unit["cpu"], err = chooseUnit("cpu", uint64(cfg.MinUnitCPU), uint64(cfg.MaxUnitCPU), cfg.MaxGroupCPU, mc, mu); err != nil {
		return nil, err
	}
	if t.Unit["mem"], err = chooseUnit("memory", cfg.MinUnitMemory, cfg.MaxUnitMemory, cfg.MaxGroupMemory, mc, mu); err != nil {
		return nil, err
	}
	if t.Unit["sto"], err = chooseUnit("storage", cfg.MinUnitStorage, cfg.MaxUnitStorage, cfg.MaxGroupStorage, mc, mu); err != nil {
		return nil, err
	}
	return t, nil
}

// TLA returns the constants of Limits.tla for this table: every resource limit as an (a, b) pair, a*Unit + b.
func (t *Table) TLA() map[string]interface{} {
	c := t.raw
	out := map[string]interface{}{
		"Denom": t.NetDenom, "DepositDenom": t.DepDenom, "OtherDenom": OtherDenom,
		"UnitCPU": t.Unit["cpu"], "UnitMem": t.Unit["mem"], "UnitSto": t.Unit["sto"],
		"MinUnitCount": int64(c.MinUnitCount), "MaxUnitCount": int64(c.MaxUnitCount),
		"MinUnitPrice": int64(c.MinUnitPrice), "MaxUnitPrice": int64(c.MaxUnitPrice),
		"MaxGroupCount": int64(c.MaxGroupCount), "MaxGroupUnits": int64(c.MaxGroupUnits),
		"VersionLen": t.VersionLen, "MinDeposit": t.MinDeposit, "BaseDSeq": int64(BaseDSeq),
		"Funds": Funds - t.MinDeposit, // the signer's balance in the base state (after the base deployment's deposit)
	}
	pair := func(name string, x uint64, r string) {
		v := abstract(new(big.Int).SetUint64(x), t.Unit[r], nil)
		out[name], out[name+"B"] = v.A, v.B
	}
	pair("MinUnitCPU", uint64(c.MinUnitCPU), "cpu")
	pair("MaxUnitCPU", uint64(c.MaxUnitCPU), "cpu")
	pair("MaxGroupCPU", c.MaxGroupCPU, "cpu")
	pair("MinUnitMem", c.MinUnitMemory, "mem")
	pair("MaxUnitMem", c.MaxUnitMemory, "mem")
	pair("MaxGroupMem", c.MaxGroupMemory, "mem")
	pair("MinUnitSto", c.MinUnitStorage, "sto")
	pair("MaxUnitSto", c.MaxUnitStorage, "sto")
	pair("MaxGroupSto", c.MaxGroupStorage, "sto")
	return out
}

// Raw is the table in the code's own numbers (for the evidence file and the docs).
func (t *Table) Raw() map[string]interface{} {
	c := t.raw
	return map[string]interface{}{
		"MinUnitCPU": c.MinUnitCPU, "MaxUnitCPU": c.MaxUnitCPU, "MaxGroupCPU": c.MaxGroupCPU,
		"MinUnitMemory": c.MinUnitMemory, "MaxUnitMemory": c.MaxUnitMemory, "MaxGroupMemory": c.MaxGroupMemory,
		"MinUnitStorage": c.MinUnitStorage, "MaxUnitStorage": c.MaxUnitStorage, "MaxGroupStorage": c.MaxGroupStorage,
		"MinUnitCount": c.MinUnitCount, "MaxUnitCount": c.MaxUnitCount,
		"MinUnitPrice": c.MinUnitPrice, "MaxUnitPrice": c.MaxUnitPrice,
		"MaxGroupCount": c.MaxGroupCount, "MaxGroupUnits": c.MaxGroupUnits,
		"DeploymentMinDeposit": fmt.Sprintf("%d%s", t.MinDeposit, t.DepDenom), "PriceDenom": t.NetDenom,
		"ManifestVersionLength": t.VersionLen,
	}
}
