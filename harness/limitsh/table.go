package limitsh

import (
	"fmt"

	dtypes "github.com/ovrclk/akash/x/deployment/types"
)

// Table is the network's limits as the running code has them (types.GetValidationConfig(), the chain's
// DeploymentMinDeposit parameter, ManifestVersionLength, the price denomination), together with the unit in
// which each resource is handed to TLC (whose integers are 32 bit): a real amount is a*Unit + b.
type Table struct {
	raw        dtypes.ValidationConfig
	Unit       map[string]int64
	MinDeposit int64
	DepDenom   string
	NetDenom   string
	VersionLen int64
}

// BaseDSeq is the sequence number of the deployment that exists in the base state.
const BaseDSeq = 7

func twoPart(x uint64) uint64 {
	if x == 0 {
		return 1 << 62
	}
	return x & (^x + 1)
}

// chooseUnit: 1 if every total the spec computes fits TLC's integers, otherwise the largest power of two (at
// most 2^20) dividing all three limits of the resource.
func chooseUnit(name string, minU, maxU, maxG uint64, maxCount, maxUnits uint64) (int64, error) {
	fits := func(u uint64) bool {
		if maxU/u > uint64(linMax) || maxG/u > uint64(linMax) {
			return false
		}
		return (maxU/u)*maxCount*maxUnits <= uint64(linMax)
	}
	if fits(1) {
		return 1, nil
	}
	u := twoPart(minU)
	for _, x := range []uint64{maxU, maxG} {
		if t := twoPart(x); t < u {
			u = t
		}
	}
	if u > 1<<20 {
		u = 1 << 20
	}
	if u < 1024 || !fits(u) {
		return 0, fmt.Errorf("limits for %s (min %d, max %d, group max %d) cannot be scaled into 32-bit integers "+
			"exactly (common power of two %d): extend limitsh.chooseUnit", name, minU, maxU, maxG, u)
	}
	return int64(u), nil
}

func NewTable(c *Chain) (*Table, error) {
	cfg := dtypes.GetValidationConfig()
	t := &Table{raw: cfg, Unit: map[string]int64{}, DepDenom: c.MinDeposit.Denom, NetDenom: c.NetDenom,
		VersionLen: int64(dtypes.ManifestVersionLength)}
	if !c.MinDeposit.Amount.IsInt64() || c.MinDeposit.Amount.Int64() > linMax/4 || c.MinDeposit.Amount.Int64() < 1 {
		return nil, fmt.Errorf("DeploymentMinDeposit %s outside the range the harness funds (1..%d)", c.MinDeposit, linMax/4)
	}
	t.MinDeposit = c.MinDeposit.Amount.Int64()
	if t.MinDeposit+2 >= Funds {
		return nil, fmt.Errorf("DeploymentMinDeposit %s not below the signer's funds %d", c.MinDeposit, Funds)
	}
	if cfg.MaxGroupCount < 1 || cfg.MaxGroupUnits < 1 || cfg.MaxGroupCount > 200 || cfg.MaxGroupUnits > 200 {
		return nil, fmt.Errorf("MaxGroupCount %d / MaxGroupUnits %d outside what the enumeration is sized for (1..200)",
			cfg.MaxGroupCount, cfg.MaxGroupUnits)
	}
	if cfg.MaxUnitCount < 1 || uint64(cfg.MaxUnitCount) > 1<<20 || cfg.MaxUnitPrice > uint64(linMax/2) {
		return nil, fmt.Errorf("MaxUnitCount %d / MaxUnitPrice %d outside the representable range", cfg.MaxUnitCount, cfg.MaxUnitPrice)
	}
	var err error
	mc, mu := uint64(cfg.MaxUnitCount), uint64(cfg.MaxGroupUnits)
	if t.Unit["cpu"], err = chooseUnit("cpu", uint64(cfg.MinUnitCPU), uint64(cfg.MaxUnitCPU), cfg.MaxGroupCPU, mc, mu); err != nil {
		return nil, err
	}
	if t.Unit["mem"], err = chooseUnit("memory", cfg.MinUnitMemory, cfg.MaxUnitMemory, cfg.MaxGroupMemory, mc, mu); err != nil {
		return nil, err
	}
	if t.Unit["sto"], err = chooseUnit("storage", cfg.MinUnitStorage, cfg.MaxUnitStorage, cfg.MaxGroupStorage, mc, mu); err != nil {
		return nil, err
	}
	return t, nil
}

// TLA returns the constants of Limits.tla for this table (amounts divided by their unit).
func (t *Table) TLA() map[string]interface{} {
	c := t.raw
	d := func(x uint64, r string) int64 { return int64(x / uint64(t.Unit[r])) }
	return map[string]interface{}{
		"Denom": t.NetDenom, "DepositDenom": t.DepDenom, "OtherDenom": OtherDenom,
		"UnitCPU": t.Unit["cpu"], "UnitMem": t.Unit["mem"], "UnitSto": t.Unit["sto"],
		"MinUnitCPU": d(uint64(c.MinUnitCPU), "cpu"), "MaxUnitCPU": d(uint64(c.MaxUnitCPU), "cpu"), "MaxGroupCPU": d(c.MaxGroupCPU, "cpu"),
		"MinUnitMem": d(c.MinUnitMemory, "mem"), "MaxUnitMem": d(c.MaxUnitMemory, "mem"), "MaxGroupMem": d(c.MaxGroupMemory, "mem"),
		"MinUnitSto": d(c.MinUnitStorage, "sto"), "MaxUnitSto": d(c.MaxUnitStorage, "sto"), "MaxGroupSto": d(c.MaxGroupStorage, "sto"),
		"MinUnitCount": int64(c.MinUnitCount), "MaxUnitCount": int64(c.MaxUnitCount),
		"MinUnitPrice": int64(c.MinUnitPrice), "MaxUnitPrice": int64(c.MaxUnitPrice),
		"MaxGroupCount": int64(c.MaxGroupCount), "MaxGroupUnits": int64(c.MaxGroupUnits),
		"VersionLen": t.VersionLen, "MinDeposit": t.MinDeposit, "BaseDSeq": int64(BaseDSeq),
		"Funds": Funds - t.MinDeposit, // the signer's balance in the base state (after the base deployment's deposit)
	}
}

// Raw is the table in the code's own numbers (for the evidence file and the docs).
func (t *Table) Raw() map[string]interface{} {
	c := t.raw
	return map[string]interface{}{
		"MinUnitCPU": c.MinUnitCPU, "MaxUnitCPU": c.MaxUnitCPU, "MaxGroupCPU": c.MaxGroupCPU,
		"MinUnitMemory": c.MinUnitMemory, "MaxUnitMemory": c.MaxUnitMemory, "MaxGroupMemory": c.MaxGroupMemory,
		"MinUnitStorage": c.MinUnitStorage, "MaxUnitStorage": c.MaxUnitStorage, "MaxGroupStorage": c.MaxGroupStorage,
		"MinUnitCount": c.MinUnitCount, "MaxUnitCount": c.MaxUnitCount,
		"MinUnitPrice": c.MinUnitPrice, "MaxUnitPrice": c.MaxUnitPrice,
		"MaxGroupCount": c.MaxGroupCount, "MaxGroupUnits": c.MaxGroupUnits,
		"DeploymentMinDeposit": fmt.Sprintf("%d%s", t.MinDeposit, t.DepDenom), "PriceDenom": t.NetDenom,
		"ManifestVersionLength": t.VersionLen,
	}
}
