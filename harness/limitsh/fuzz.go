package limitsh

import (
	"fmt"
	"math/big"
	"math/rand"

	sdk "github.com/cosmos/cosmos-sdk/types"

	atypes "github.com/ovrclk/akash/types"
	dtypes "github.com/ovrclk/akash/x/deployment/types"
)

// The free-running direction: random CONCRETE create-deployment messages (arbitrary integers, not the boundary
// classes TLC enumerates), executed on the real application like the scripted ones and projected onto the
// spec's message shape, so that TLC judges them with the same operators. Values strictly inside the ranges,
// totals that land anywhere around the per-group bounds, and exotic magnitudes all occur.

type gen struct {
	r *rand.Rand
	t *Table
	b *Binding
}

func (g *gen) p(x float64) bool { return g.r.Float64() < x }

func (g *gen) between(lo, hi uint64) *big.Int { // uniform in [lo, hi]
	if hi <= lo {
		return new(big.Int).SetUint64(lo)
	}
	span := new(big.Int).SetUint64(hi - lo)
	span.Add(span, big.NewInt(1))
	x := new(big.Int).Rand(g.r, span)
	return x.Add(x, new(big.Int).SetUint64(lo))
}

func (g *gen) exotic() *big.Int {
	switch g.r.Intn(5) {
	case 0:
		return big.NewInt(-int64(g.r.Intn(5)) - 1)
	case 1:
		return big.NewInt(0)
	default:
		x := new(big.Int).Lsh(big.NewInt(1), uint(30+g.r.Intn(45)))
		return x.Add(x, big.NewInt(int64(g.r.Intn(5))-2))
	}
}

// amount of one resource: mostly inside [min, max], sometimes at/around a bound, sometimes chosen so that the
// group total (amount x count) lands next to the per-group bound, sometimes exotic.
func (g *gen) amount(minU, maxU, maxG uint64, count uint32, noisy bool) *big.Int {
	x := g.r.Float64()
	if !noisy {
		x *= 0.80
	}
	switch {
	case x < 0.55:
		return g.between(minU, maxU)
	case x < 0.65: // small amounts (so that many units fit in a group)
		return g.between(minU, minU+(maxU-minU)/64)
	case x < 0.80: // the group total next to its bound
		c := uint64(count)
		if c == 0 {
			c = 1
		}
		v := new(big.Int).SetUint64(maxG / c)
		return v.Add(v, big.NewInt(int64(g.r.Intn(5))-2))
	case x < 0.90: // around a bound
		base := []uint64{minU, maxU, maxG}[g.r.Intn(3)]
		v := new(big.Int).SetUint64(base)
		return v.Add(v, big.NewInt(int64(g.r.Intn(7))-3))
	case x < 0.96: // just outside
		if g.p(0.5) {
			return g.between(0, minU)
		}
		return g.between(maxU, 4*maxU)
	}
	return g.exotic()
}

func (g *gen) count(noisy bool) uint32 {
	c := g.t.raw
	x := g.r.Float64()
	if !noisy {
		x *= 0.85
	}
	switch {
	case x < 0.55:
		return uint32(1 + g.r.Intn(4))
	case x < 0.85:
		return uint32(g.between(uint64(c.MinUnitCount), uint64(c.MaxUnitCount)).Uint64())
	case x < 0.93:
		return uint32(int(c.MaxUnitCount) + g.r.Intn(3) - 1)
	case x < 0.97:
		return 0
	}
	return uint32(g.r.Uint32())
}

func (g *gen) denom(net string, noisy bool) string {
	x := g.r.Float64()
	if !noisy {
		x *= 0.97
	}
	switch {
	case x < 0.94:
		return net
	case x < 0.98:
		return OtherDenom
	}
	return ""
}

func (g *gen) pick(noisy bool, usual []int, odd []int) int {
	if noisy && g.p(0.25) || g.p(0.03) {
		return odd[g.r.Intn(len(odd))]
	}
	return usual[g.r.Intn(len(usual))]
}

func (g *gen) message(i int) wireMsg {
	c := g.t.raw
	noisy := g.p(0.4)
	msg := &dtypes.MsgCreateDeployment{}
	msg.ID = dtypes.DeploymentID{Owner: g.b.Owner, DSeq: g.b.FreshDSeq}
	if noisy && g.p(0.08) {
		switch g.r.Intn(3) {
		case 0:
			msg.ID.DSeq = g.b.BaseDSeq
		case 1:
			msg.ID.DSeq = 0
		default:
			msg.ID.Owner = "not-a-bech32-address"
		}
	}
	vlen := int(g.t.VersionLen)
	if noisy && g.p(0.1) {
		vlen = g.r.Intn(2*vlen + 2)
	}
	msg.Version = versionBytes(g.b.Seed + int64(i))[:vlen]
	if vlen == 0 {
		msg.Version = nil
	}
	var dep *big.Int
	switch x := g.r.Float64(); {
	case x < 0.80 || !noisy:
		dep = g.between(uint64(g.t.MinDeposit), uint64(4*g.t.MinDeposit))
	case x < 0.90:
		dep = big.NewInt(g.t.MinDeposit + int64(g.r.Intn(5)) - 2)
	case x < 0.95:
		dep = g.between(0, uint64(Funds)+5)
	default:
		dep = g.exotic()
	}
	msg.Deposit = sdk.Coin{Denom: g.denom(g.t.DepDenom, noisy), Amount: sdkInt(dep)}

	ng := g.pick(noisy, []int{1, 1, 1, 2, 2, 3, 4}, []int{0, c.MaxGroupCount - 1, c.MaxGroupCount, c.MaxGroupCount + 1, c.MaxGroupCount + 5})
	for gi := 0; gi < ng; gi++ {
		gs := dtypes.GroupSpec{Name: fmt.Sprintf("g%d", gi+1)}
		if noisy && g.p(0.04) {
			gs.Name = ""
		} else if noisy && gi > 0 && g.p(0.06) {
			gs.Name = fmt.Sprintf("g%d", 1+g.r.Intn(gi))
		}
		nu := g.pick(noisy, []int{1, 1, 1, 2, 2, 3, 4, 6}, []int{0, c.MaxGroupUnits - 1, c.MaxGroupUnits, c.MaxGroupUnits + 1})
		for ui := 0; ui < nu; ui++ {
			r := dtypes.Resource{Count: g.count(noisy)}
			// a fair share of the group's budget, so that a good part of the messages is admitted and the totals
			// land on both sides of the per-group bounds
			amt := func(minU, maxU, maxG uint64) *big.Int {
				cnt := uint64(r.Count)
				if cnt == 0 {
					cnt = 1
				}
				share := maxG / (uint64(nu) * cnt)
				if share > maxU {
					share = maxU
				}
				if share < minU {
					share = minU
				}
				switch x := g.r.Float64(); {
				case x < 0.62:
					return g.between(minU, share)
				case x < 0.80:
					hi := 2 * share
					if hi > maxU {
						hi = maxU
					}
					return g.between(minU, hi)
				case x < 0.86: // exactly the share, give or take a little: totals next to the bound
					v := new(big.Int).SetUint64(share)
					return v.Add(v, big.NewInt(int64(g.r.Intn(5))-2))
				}
				return g.amount(minU, maxU, maxG, r.Count, noisy)
			}
			if !(noisy && g.p(0.01)) {
				r.Resources.CPU = &atypes.CPU{Units: atypes.ResourceValue{Val: sdkInt(amt(uint64(c.MinUnitCPU), uint64(c.MaxUnitCPU), c.MaxGroupCPU))}}
			}
			if !(noisy && g.p(0.01)) {
				r.Resources.Memory = &atypes.Memory{Quantity: atypes.ResourceValue{Val: sdkInt(amt(c.MinUnitMemory, c.MaxUnitMemory, c.MaxGroupMemory))}}
			}
			if !(noisy && g.p(0.01)) {
				r.Resources.Storage = &atypes.Storage{Quantity: atypes.ResourceValue{Val: sdkInt(amt(c.MinUnitStorage, c.MaxUnitStorage, c.MaxGroupStorage))}}
			}
			var price *big.Int
			switch x := g.r.Float64(); {
			case x < 0.85 || !noisy:
				price = g.between(c.MinUnitPrice, c.MaxUnitPrice)
			case x < 0.95:
				base := []uint64{c.MinUnitPrice, c.MaxUnitPrice}[g.r.Intn(2)]
				price = new(big.Int).Add(new(big.Int).SetUint64(base), big.NewInt(int64(g.r.Intn(5))-2))
			default:
				price = g.exotic()
			}
			r.Price = sdk.Coin{Denom: g.denom(g.t.NetDenom, noisy), Amount: sdkInt(price)}
			gs.Resources = append(gs.Resources, r)
		}
		// now and then: two amounts beyond 64 bits with opposite signs whose sum is an ordinary in-range amount
		// (a bound check that looks at a truncated value must not be fooled by them)
		if len(gs.Resources) >= 2 && g.p(0.04) {
			k := uint64(1 + g.r.Intn(3))
			lims := [][2]uint64{{uint64(c.MinUnitCPU), uint64(c.MaxUnitCPU)}, {c.MinUnitMemory, c.MaxUnitMemory}, {c.MinUnitStorage, c.MaxUnitStorage}}
			which := g.r.Intn(3)
			lo := lims[which][0]
			hi := new(big.Int).Lsh(big.NewInt(1), uint(64*k))
			a := new(big.Int).Add(hi, g.between(2*lo, 3*lo))
			b := new(big.Int).Neg(new(big.Int).Add(hi, g.between(lo, 2*lo-1)))
			for i, v := range []*big.Int{a, b} {
				gs.Resources[i].Count = 1
				switch which {
				case 0:
					gs.Resources[i].Resources.CPU = &atypes.CPU{Units: atypes.ResourceValue{Val: sdkInt(v)}}
				case 1:
					gs.Resources[i].Resources.Memory = &atypes.Memory{Quantity: atypes.ResourceValue{Val: sdkInt(v)}}
				default:
					gs.Resources[i].Resources.Storage = &atypes.Storage{Quantity: atypes.ResourceValue{Val: sdkInt(v)}}
				}
			}
		}
		msg.Groups = append(msg.Groups, gs)
	}
	return msg
}

func fuzz(n int, outPath string, seed int64, first int, nw int) error {
	c, err := NewChain()
	if err != nil {
		return err
	}
	t, err := NewTable(c)
	if err != nil {
		return err
	}
	proto, err := newWorker(seed)
	if err != nil {
		return err
	}
	g := &gen{r: rand.New(rand.NewSource(seed*1000003 + 17)), t: t, b: proto.b}
	msgs := make([]wireMsg, n)
	for i := range msgs {
		msgs[i] = g.message(i)
	}
	lines, err := parallel(n, seed, nw, func(w *worker, i int) (Line, error) {
		ln := Line{ID: first + i, Fam: "fuzz", DSeq: int64(w.b.FreshDSeq)}
		wire, _, err := decode(msgs[i])
		if err != nil {
			return ln, fmt.Errorf("fuzz message %d does not survive the wire: %v", i, err)
		}
		if ln.Msg, err = w.b.Abstract(wire); err != nil {
			return ln, err
		}
		return w.execWire(ln, msgs[i])
	})
	if err != nil {
		return err
	}
	return writeLines(outPath, lines)
}
