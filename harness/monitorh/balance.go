package monitorh

import (
	"context"
	"fmt"
	"math/rand"
	"strings"
	"time"

	sdk "github.com/cosmos/cosmos-sdk/types"
	bankTypes "github.com/cosmos/cosmos-sdk/x/bank/types"
	"google.golang.org/grpc"

	"github.com/ovrclk/akash/provider"
	"github.com/ovrclk/akash/provider/event"
	"github.com/ovrclk/akash/pubsub"
	"verif/harness/vcommon"
)

const (
	balFn      = "provider.(*balanceChecker).run"
	balFile    = "provider/balance_checker.go"
	shortTick  = 10 * time.Millisecond
	longTick   = time.Hour
	threshold  = 1000
	probeTicks = 100 // ~2 s of running time = 200 periods
)

// fakeBank answers Balance through a gate; no other query is expected.
type fakeBank struct {
	bankTypes.QueryClient
	c *calls
}

func (f *fakeBank) Balance(ctx context.Context, in *bankTypes.QueryBalanceRequest, _ ...grpc.CallOption) (*bankTypes.QueryBalanceResponse, error) {
	r := f.c.enter(&gated{kind: "query", ctx: ctx, addr: in.Address, denom: in.Denom})
	if r.err != nil {
		return nil, r.err
	}
	coin := sdk.NewCoin("uakt", sdk.NewInt(r.balance))
	return &bankTypes.QueryBalanceResponse{Balance: &coin}, nil
}

// gateBus is the real bus; Publish goes through a gate (it is called from a runner goroutine of the checker).
type gateBus struct {
	pubsub.Bus
	c *calls
}

func (b *gateBus) Publish(ev pubsub.Event) error {
	r := b.c.enter(&gated{kind: "pub", ctx: context.Background(), ev: ev})
	if r.err != nil {
		return r.err
	}
	return b.Bus.Publish(ev)
}

// deadSeen: a ticker of the kind was already found dead in this process.
var deadSeen = map[string]bool{}

type answer struct {
	Name string `json:"name"`
	Err  bool   `json:"err"`
	Cmp  string `json:"cmp"`
}

func (a answer) result() gatedResult {
	if a.Err {
		return gatedResult{err: errScripted}
	}
	return gatedResult{balance: map[string]int64{"below": threshold - 1, "equal": threshold, "above": threshold + 1}[a.Cmp]}
}

// balPlan is one run: a configuration and the environment's decisions in the order TLC took them.
type balPlan struct {
	Fires []string `json:"fires"`
	Thr   string   `json:"thr"`
	Ops   []op     `json:"ops"`
}

type balPlanFile struct {
	Answers map[string]answer `json:"answers"`
	Plans   []balPlan         `json:"plans"`
}

type balWorld struct {
	h      *hub
	out    *vcommon.Writer
	run    int
	plan   balPlan
	own    sdk.AccAddress
	calls  *calls
	bus    pubsub.Bus
	cancel context.CancelFunc
	done   <-chan struct{}
	base   int
	free   bool

	hookPos  int
	procTick int // tick cases whose line has been recorded
	procWS   int // withdraw-start cases whose line has been recorded
	stopped  bool
	stopReq  bool
	stuck    bool
	inconcl  string
	lines    int
	amb      bool // a call was answered whose place among the loop's result channels is not certain
}

func balCensus() int {
	return countStacks("provider.(*balanceChecker)", "go-lifecycle.(*lifecycle).WatchContext", "pubsub.(*bus).run")
}

func has(xs []string, x string) bool {
	for _, y := range xs {
		if y == x {
			return true
		}
	}
	return false
}

func newBalWorld(out *vcommon.Writer, run int, plan balPlan, free bool) *balWorld {
	w := &balWorld{h: newHub(), out: out, run: run, plan: plan, own: addr(byte(10 + run%200)), free: free}
	w.calls = &calls{h: w.h}
	w.bus = pubsub.NewBus()
	if sub, err := w.bus.Subscribe(); err == nil {
		sub.Close()
		<-sub.Done()
	}
	route(w.h, w.own.String())
	w.base = settleTo(balCensus)
	cfg := provider.BalanceCheckerConfig{PollingPeriod: longTick, WithdrawalPeriod: longTick}
	if has(plan.Fires, "P") {
		cfg.PollingPeriod = shortTick
	}
	if has(plan.Fires, "W") {
		cfg.WithdrawalPeriod = shortTick
	}
	if plan.Thr == "set" {
		cfg.MinimumBalanceThreshold = threshold
	}
	var ctx context.Context
	ctx, w.cancel = context.WithCancel(context.Background())
	w.done = provider.VerifNewBalanceChecker(ctx, &fakeBank{c: w.calls}, w.own, newSession(w.calls, w.own), &gateBus{Bus: w.bus, c: w.calls}, cfg)
	return w
}

func (w *balWorld) write(l line) {
	l["run"] = w.run
	if err := w.out.Write(l); err != nil {
		panic(err)
	}
	w.lines++
}

func (w *balWorld) close() {
	w.cancel()
	for _, k := range []string{"query", "pub"} {
		for g := w.calls.take(k); g != nil; g = w.calls.take(k) {
			g.release <- gatedResult{err: errScripted}
		}
	}
	w.bus.Close()
	route(nil, "\x00")
}

// counts reads (under h.mu) the runners the loop reported starting and the calls that reached the fakes.
func (w *balWorld) counts() (nTick, nQ, nWS, nP int, ok bool) {
	for _, e := range w.h.hooks {
		if e.ev == "case" {
			switch e.kv["c"] {
			case "tick":
				nTick++
			case "withdraw-start":
				nWS++
			}
		}
	}
	ok = true
	for _, g := range w.calls.started {
		switch g.kind {
		case "query":
			nQ++
			if g.addr != w.own.String() || g.denom != "uakt" {
				ok = false
			}
		case "pub":
			nP++
			if _, isW := g.ev.(event.LeaseWithdrawNow); !isW {
				ok = false
			}
		}
	}
	return
}

func (w *balWorld) snapshot(l line, settle bool) {
	if settle {
		_ = w.h.waitFor(func() bool { t, q, s, p, _ := w.counts(); return q >= t && p >= s })
	}
	w.h.mu.Lock()
	t, q, s, p, ok := w.counts()
	w.h.mu.Unlock()
	l["nt"], l["nq"], l["nws"], l["np"], l["argsok"], l["settled"] = t, q, s, p, ok, settle
}

// iterationReady: the hooks of a complete iteration are waiting.
func (w *balWorld) iterationReady() bool {
	for _, e := range w.h.hooks[w.hookPos:] {
		if e.ev == "loop" || e.ev == "stopped" {
			return true
		}
	}
	return false
}

// nextLoop records the loop's next iteration (blocking until it has ended).
func (w *balWorld) nextLoop(await string) string {
	cases := []string{}
	for {
		if err := w.h.waitFor(func() bool { return len(w.h.hooks) > w.hookPos }); err != nil {
			w.stuck = true
			if !parkedIn(balFn, balFile) {
				w.inconcl = "the balance checker did not reach its next trace point (awaiting " + await + ") and is not parked in its own select"
				return ""
			}
			w.write(line{"k": "stuck", "await": await})
			return ""
		}
		w.h.mu.Lock()
		e := w.h.hooks[w.hookPos]
		w.hookPos++
		w.h.mu.Unlock()
		switch e.ev {
		case "case":
			c, _ := e.kv["c"].(string)
			cases = append(cases, c)
			if c == "tick" {
				w.procTick++
			}
			if c == "withdraw-start" {
				w.procWS++
			}
		case "loop":
			l := line{"k": "loop", "cases": cases, "checkc": kvBool(e.kv, "check"), "wdc": kvBool(e.kv, "withdraw")}
			if w.lines == 0 {
				l["k"], l["fires"], l["thr"] = "start", append([]string{}, w.plan.Fires...), w.plan.Thr
			}
			w.snapshot(l, false)
			w.write(l)
			return "loop"
		case "stopped":
			done := waitChan(w.done)
			l := line{"k": "stopped", "cases": cases, "checkc": kvBool(e.kv, "check"), "wdc": kvBool(e.kv, "withdraw"), "done": done}
			w.snapshot(l, true)
			w.stopped = true
			w.write(l)
			return "stopped"
		default:
			w.inconcl = "unknown hook event " + e.ev
			return ""
		}
	}
}

// drain records every complete iteration already emitted.
func (w *balWorld) drain() {
	for !w.stopped && w.inconcl == "" && !w.stuck {
		w.h.mu.Lock()
		ready := w.iterationReady()
		w.h.mu.Unlock()
		if !ready {
			return
		}
		w.nextLoop("any")
	}
}

// ambiguous: two runners of the kind were started without the first one's call reaching the fake in between, so the
// order in which their calls arrived need not be the order of the result channels the loop holds (caller holds h.mu).
func (w *balWorld) ambiguous(kind string, idx int, ofKind []*gated) bool {
	hook := "tick"
	if kind == "pub" {
		hook = "withdraw-start"
	}
	var starts []int
	for i, e := range w.h.hooks {
		if e.ev == "case" && e.kv["c"] == hook {
			starts = append(starts, i)
		}
	}
	if idx+1 < len(starts) && idx < len(ofKind) && ofKind[idx].hookAt > starts[idx+1] {
		return true
	}
	if idx > 0 && idx < len(starts) && ofKind[idx-1].hookAt > starts[idx] {
		return true
	}
	return false
}

// takeCall: a pending call of the kind whose runner's iteration has been recorded; latest = it is the newest such call.
func (w *balWorld) takeCall(kind string) (*gated, bool, bool) {
	w.h.mu.Lock()
	defer w.h.mu.Unlock()
	n := w.procTick
	if kind == "pub" {
		n = w.procWS
	}
	var ofKind []*gated
	for _, g := range w.calls.started {
		if g.kind == kind {
			ofKind = append(ofKind, g)
		}
	}
	last := n - 1 // the newest runner whose iteration is recorded; its call may not have reached the fake yet
	if n > len(ofKind) {
		n = len(ofKind)
	}
	for idx, g := range ofKind[:n] {
		for i, p := range w.calls.pending {
			if p == g {
				w.calls.pending = append(w.calls.pending[:i:i], w.calls.pending[i+1:]...)
				amb := w.ambiguous(kind, idx, ofKind)
				if amb {
					w.amb = true
				}
				return g, idx == last, amb
			}
		}
	}
	return nil, false, false
}

// env performs one decision if it can be performed now.
func (w *balWorld) env(o op, answers map[string]answer) bool {
	switch o.Op {
	case "qret":
		a, ok := answers[o.V]
		if !ok {
			return false
		}
		g, latest, amb := w.takeCall("query")
		if g == nil {
			return false
		}
		for g != nil {
			ctx := g.ctxState(w.stopped)
			if !w.stopped {
				ctx = "na" // the loop may be leaving right now: only a reading taken after its end is recorded
			}
			w.write(line{"k": "qret", "latest": latest, "a": a, "ctx": ctx})
			g.release <- a.result()
			if !amb {
				break
			}
			// the driver cannot tell which of two back-to-back queries the loop still listens to: both get this answer
			g, latest, amb = w.takeCall("query")
		}
	case "pret":
		g, latest, _ := w.takeCall("pub")
		if g == nil {
			return false
		}
		w.write(line{"k": "pret", "latest": latest, "e": o.V})
		r := gatedResult{}
		if o.V == "err" {
			r.err = errScripted
		}
		g.release <- r
	case "stop":
		if w.stopReq {
			return false
		}
		w.stopReq = true
		w.write(line{"k": "stop"})
		w.cancel()
	default:
		return false
	}
	return true
}

// await runs the loop's iterations into the trace until cond holds (evaluated on the driver's state), bounded.
func (w *balWorld) await(ticks int, cond func() bool) bool {
	for i := 0; i < ticks; {
		w.drain()
		if w.stopped || w.stuck || w.inconcl != "" {
			return cond()
		}
		if cond() {
			return true
		}
		t0 := time.Now()
		select {
		case <-w.h.notify:
		case <-time.After(20 * time.Millisecond):
		}
		if time.Since(t0) >= 15*time.Millisecond {
			i++
		}
	}
	return false
}

func (w *balWorld) pendingRecorded(kind string) bool {
	w.h.mu.Lock()
	defer w.h.mu.Unlock()
	n, seen := w.procTick, 0
	if kind == "pub" {
		n = w.procWS
	}
	for _, g := range w.calls.started {
		if g.kind != kind {
			continue
		}
		seen++
		if seen > n {
			break
		}
		for _, p := range w.calls.pending {
			if p == g {
				return true
			}
		}
	}
	return false
}

func (w *balWorld) replay(answers map[string]answer) {
	if w.nextLoop("start") == "" {
		return
	}
	for _, o := range w.plan.Ops {
		if w.stopped || w.stuck || w.inconcl != "" {
			break
		}
		switch o.Op {
		case "qret":
			if !w.await(50, func() bool { return w.pendingRecorded("query") }) {
				continue // the decision does not arise in this execution
			}
		case "pret":
			if !w.await(50, func() bool { return w.pendingRecorded("pub") }) {
				continue
			}
		}
		if w.stopped || w.stuck || w.inconcl != "" {
			break
		}
		w.env(o, answers)
	}
	w.finishRun(answers)
}

// finishRun: with every call answered, a checker whose periods elapse must keep ticking (probe); then stop it.
func (w *balWorld) finishRun(answers map[string]answer) {
	if w.inconcl != "" || w.stuck {
		return
	}
	if !w.stopReq && !w.stopped {
		for _, what := range []string{"P", "W"} {
			if !has(w.plan.Fires, what) || deadSeen[what] {
				continue // (one witness of a dead ticker is enough: each costs the full probe wait)
			}
			// answer whatever is in flight so that the ticker in question is (or will be) running, then wait for its next tick
			kind, hook := "query", "tick"
			if what == "W" {
				kind, hook = "pub", "withdraw-tick"
			}
			count := func() int {
				w.h.mu.Lock()
				defer w.h.mu.Unlock()
				n := 0
				for _, e := range w.h.hooks {
					if e.ev == "case" && e.kv["c"] == hook {
						n++
					}
				}
				return n
			}
			release := func() {
				for w.pendingRecorded(kind) {
					if kind == "query" {
						w.env(op{Op: "qret", V: "above"}, map[string]answer{"above": {Name: "above", Cmp: "above"}})
					} else {
						w.env(op{Op: "pret", V: "ok"}, nil)
					}
				}
			}
			release()
			n0 := count()
			ok := w.await(probeTicks, func() bool { release(); return count() > n0 })
			if w.stopped || w.stuck || w.inconcl != "" {
				return
			}
			w.drain()
			if !ok {
				w.write(line{"k": "dead", "what": what})
				deadSeen[what] = true
			}
		}
		w.env(op{Op: "stop"}, nil)
	}
	for !w.stopped {
		if w.nextLoop("shutdown") == "" {
			return
		}
	}
	for {
		if w.env(op{Op: "qret", V: "x"}, map[string]answer{"x": {Name: "wind", Err: true, Cmp: "below"}}) || w.env(op{Op: "pret", V: "ok"}, nil) {
			continue
		}
		break
	}
	leaked := settle(func() int { return balCensus() - w.base })
	l := line{"k": "post", "leaked": leaked, "amb": w.amb}
	w.snapshot(l, true)
	w.h.mu.Lock()
	l["inflight"] = len(w.calls.pending)
	w.h.mu.Unlock()
	w.write(l)
}

func balanceReplay(plans, outPath string) int {
	var pf balPlanFile
	if err := readJSON(plans, &pf); err != nil {
		fmt.Println("monitorh:", err)
		return 2
	}
	out := openOut(outPath)
	defer out.Close()
	installSink()
	stuck, inconcl := 0, 0
	for i, p := range pf.Plans {
		w := newBalWorld(out, i, p, false)
		w.replay(pf.Answers)
		w.close()
		if w.inconcl != "" {
			fmt.Printf("INCONCLUSIVE run=%d %s\n", i, w.inconcl)
			inconcl++
		}
		if w.stuck {
			stuck++
		}
		if stuck >= maxStuck {
			fmt.Printf("STOPPED after %d stuck runs (run %d)\n", stuck, i)
			break
		}
	}
	fmt.Printf("REPLAYED runs=%d lines=%d stuck=%d inconclusive=%d\n", len(pf.Plans), out.N, stuck, inconcl)
	if inconcl > 0 {
		return 2
	}
	return 0
}

// balanceFree: random configurations and random decisions (seeded).
func balanceFree(outPath string, seed int64, runs int) int {
	rng := rand.New(rand.NewSource(seed))
	names := []string{"below", "equal", "above", "err"}
	answers := map[string]answer{"below": {"below", false, "below"}, "equal": {"equal", false, "equal"},
		"above": {"above", false, "above"}, "err": {"err", true, "below"}}
	out := openOut(outPath)
	defer out.Close()
	installSink()
	stuck, inconcl := 0, 0
	for i := 0; i < runs; i++ {
		p := balPlan{Fires: [][]string{{"P"}, {"W"}, {"P", "W"}, {"P", "W"}}[rng.Intn(4)], Thr: []string{"zero", "set", "set"}[rng.Intn(3)]}
		n := 2 + rng.Intn(8)
		for j := 0; j < n; j++ {
			switch r := rng.Intn(10); {
			case r < 5:
				p.Ops = append(p.Ops, op{Op: "qret", V: names[rng.Intn(4)]})
			case r < 9:
				p.Ops = append(p.Ops, op{Op: "pret", V: []string{"ok", "err"}[rng.Intn(2)]})
			default:
				p.Ops = append(p.Ops, op{Op: "stop"})
			}
		}
		w := newBalWorld(out, i, p, true)
		w.replay(answers)
		w.close()
		if w.inconcl != "" {
			fmt.Printf("INCONCLUSIVE run=%d %s\n", i, w.inconcl)
			inconcl++
		}
		if w.stuck {
			stuck++
		}
		if stuck >= maxStuck {
			break
		}
	}
	fmt.Printf("FREE runs=%d lines=%d stuck=%d inconclusive=%d\n", runs, out.N, stuck, inconcl)
	if inconcl > 0 {
		return 2
	}
	return 0
}

var _ = strings.Contains
