package monitorh

import (
	"fmt"
	"math/rand"
	"sync"
	"time"

	"github.com/ovrclk/akash/provider/manifest"
	dtypes "github.com/ovrclk/akash/x/deployment/types"
	mtypes "github.com/ovrclk/akash/x/market/types"
	"verif/harness/vcommon"
)

// wdScript is one watchdog run: whether the manifest timeout elapses (5 ms) or not (1 h), and the steps.
type wdScript struct {
	Fires bool `json:"fires"`
	Ops   []op `json:"ops"`
}

type wdScriptFile struct {
	Scripts []wdScript `json:"scripts"`
}

type wdWorld struct {
	h      *hub
	out    *vcommon.Writer
	run    int
	lease  mtypes.LeaseID
	calls  *calls
	parent chan struct{}
	doneCh chan dtypes.DeploymentID
	stop   func()
	ended  <-chan struct{}
	base   int

	mu         sync.Mutex
	notified   int
	badNotify  bool
	stopCalls  int
	stopRets   int
	parentDone bool
	stopOwn    bool
	repBcast   int
	isEnded    bool
	inconcl    string
}

func wdCensus() int {
	return countStacks("provider/manifest.newWatchdog", "manifest.(*watchdog).run", "go-lifecycle.(*lifecycle).WatchChannel")
}

func newWdWorld(out *vcommon.Writer, run int, fires bool) *wdWorld {
	w := &wdWorld{h: newHub(), out: out, run: run, lease: mkLease(uint64(9000 + run)), parent: make(chan struct{}),
		doneCh: make(chan dtypes.DeploymentID)}
	w.calls = &calls{h: w.h}
	w.base = settleTo(wdCensus)
	timeout := time.Hour
	if fires {
		timeout = 5 * time.Millisecond
	}
	go func() { // the manifest service's side of the channel
		for id := range w.doneCh {
			w.mu.Lock()
			w.notified++
			if !id.Equals(w.lease.DeploymentID()) {
				w.badNotify = true
			}
			w.mu.Unlock()
			w.h.wake()
		}
	}()
	w.write(line{"k": "start", "fires": fires})
	w.stop, w.ended = manifest.VerifNewWatchdog(newSession(w.calls, addr(2)), w.parent, w.doneCh, w.lease, timeout)
	return w
}

func (w *wdWorld) write(l line) {
	l["run"] = w.run
	if err := w.out.Write(l); err != nil {
		panic(err)
	}
}

// bcasts reports the close broadcasts that reached the tx client since the last line, and whether all are well-formed.
func (w *wdWorld) bcasts(l line) {
	w.h.mu.Lock()
	n, ok := len(w.calls.started), true
	for _, g := range w.calls.started {
		if len(g.msgs) != 1 {
			ok = false
		} else if m, isC := g.msgs[0].(*mtypes.MsgCloseBid); !isC || !m.BidID.Equals(mtypes.MakeBidID(w.lease.OrderID(), addr(2))) {
			ok = false
		}
	}
	w.h.mu.Unlock()
	l["bcasts"], l["argsok"] = n-w.repBcast, ok
	w.repBcast = n
}

func (w *wdWorld) doStop(via string) bool {
	if via == "parent" {
		if w.parentDone {
			return false
		}
		w.parentDone = true
		w.write(line{"k": "stop", "via": "parent"})
		close(w.parent)
		return true
	}
	w.stopOwn = true
	w.write(line{"k": "stop", "via": "own"})
	w.mu.Lock()
	w.stopCalls++
	w.mu.Unlock()
	go func() {
		w.stop()
		w.mu.Lock()
		w.stopRets++
		w.mu.Unlock()
		w.h.wake()
	}()
	return true
}

// awaitEnded records the end of run(): the deployment reported to the service, stop() calls returned.
func (w *wdWorld) awaitEnded(l line) bool {
	// run() ends -- or, against the script, a close broadcast shows up first: record it and answer it
	_ = w.h.waitFor(func() bool {
		select {
		case <-w.ended:
			return true
		default:
		}
		return len(w.calls.started) > w.repBcast
	})
	select {
	case <-w.ended:
	default:
		w.h.mu.Lock()
		unexpected := len(w.calls.started) > w.repBcast
		w.h.mu.Unlock()
		if unexpected && l["via"] == "stop" {
			if !w.awaitTimeout() {
				return false
			}
			return w.bret("ok")
		}
	}
	if !waitChan(w.ended) {
		w.inconcl = "the watchdog did not end"
		return false
	}
	_ = w.h.waitFor(func() bool {
		w.mu.Lock()
		defer w.mu.Unlock()
		return w.notified >= 1 && w.stopRets == w.stopCalls
	})
	w.mu.Lock()
	l["notified"], l["stopret"] = w.notified, w.stopRets == w.stopCalls
	if w.badNotify {
		l["notified"] = 99
	}
	w.mu.Unlock()
	w.bcasts(l)
	w.isEnded = true
	w.write(l)
	return true
}

func shortCtx(g *gated) string {
	for i := 0; i < 8 && g.ctx.Err() == nil; i++ {
		select {
		case <-g.ctx.Done():
		case <-time.After(20 * time.Millisecond):
		}
	}
	if g.ctx.Err() != nil {
		return "done"
	}
	return "live"
}

func (w *wdWorld) bret(e string) bool {
	g := w.calls.take("bcast")
	if g == nil {
		return false
	}
	ctx := "live"
	if w.parentDone {
		ctx = shortCtx(g)
	} else if g.ctx.Err() != nil {
		ctx = "done"
	}
	r := gatedResult{}
	if e == "err" {
		r.err = errScripted
	}
	g.release <- r
	return w.awaitEnded(line{"k": "ended", "via": "bret", "e": e, "ctx": ctx})
}

func (w *wdWorld) post() {
	if !w.parentDone {
		w.parentDone = true
		close(w.parent)
	}
	ctx := "na"
	w.h.mu.Lock()
	var first *gated
	if len(w.calls.started) > 0 {
		first = w.calls.started[0]
	}
	w.h.mu.Unlock()
	if first != nil {
		ctx = shortCtx(first)
	}
	leaked := settleN(80, func() int { return wdCensus() - w.base })
	w.mu.Lock()
	n := w.notified
	w.mu.Unlock()
	l := line{"k": "post", "leaked": leaked, "ctx": ctx, "notified": n}
	w.bcasts(l)
	w.write(l)
}

func (w *wdWorld) awaitTimeout() bool {
	if err := w.h.waitFor(func() bool { return len(w.calls.started) > w.repBcast }); err != nil {
		return false
	}
	l := line{"k": "timeout"}
	w.bcasts(l)
	w.write(l)
	return true
}

func (w *wdWorld) replay(sc wdScript) {
	for i, o := range sc.Ops {
		ok := true
		switch o.Op {
		case "stop":
			ok = w.doStop(o.V)
		case "timeout":
			ok = w.awaitTimeout()
		case "stopped":
			ok = w.awaitEnded(line{"k": "ended", "via": "stop", "e": "", "ctx": "na"})
		case "bret":
			ok = w.bret(o.V)
		case "post":
			w.post()
			return
		}
		if !ok || w.inconcl != "" {
			if w.inconcl == "" {
				w.write(line{"k": "diverged", "at": i, "op": o.Op})
			}
			break
		}
	}
	w.windDown()
}

// windDown ends a run the script left open.
func (w *wdWorld) windDown() {
	if w.inconcl != "" {
		return
	}
	if !w.isEnded {
		w.h.mu.Lock()
		inBcast := len(w.calls.pending) > 0
		w.h.mu.Unlock()
		if inBcast {
			if !w.bret("ok") {
				return
			}
		} else {
			w.doStop("own")
			// either the request is taken, or a timeout got in first
			_ = w.h.waitFor(func() bool {
				select {
				case <-w.ended:
					return true
				default:
				}
				return len(w.calls.started) > w.repBcast
			})
			w.h.mu.Lock()
			inBcast = len(w.calls.pending) > 0
			w.h.mu.Unlock()
			if inBcast {
				if !w.awaitTimeout() || !w.bret("ok") {
					return
				}
			} else if !w.awaitEnded(line{"k": "ended", "via": "stop", "e": "", "ctx": "na"}) {
				return
			}
		}
	}
	w.post()
}

func (w *wdWorld) close() {
	for g := w.calls.take("bcast"); g != nil; g = w.calls.take("bcast") {
		g.release <- gatedResult{}
	}
	if !w.parentDone {
		w.parentDone = true
		close(w.parent)
	}
}

func watchdogReplay(scripts, outPath string) int {
	var sf wdScriptFile
	if err := readJSON(scripts, &sf); err != nil {
		fmt.Println("monitorh:", err)
		return 2
	}
	out := openOut(outPath)
	defer out.Close()
	inconcl := 0
	for i, sc := range sf.Scripts {
		w := newWdWorld(out, i, sc.Fires)
		w.replay(sc)
		w.close()
		if w.inconcl != "" {
			fmt.Printf("INCONCLUSIVE run=%d %s\n", i, w.inconcl)
			inconcl++
		}
	}
	fmt.Printf("REPLAYED runs=%d lines=%d stuck=0 inconclusive=%d\n", len(sf.Scripts), out.N, inconcl)
	if inconcl > 0 {
		return 2
	}
	return 0
}

// watchdogFree races a stop request against a timeout that does elapse.
func watchdogFree(outPath string, seed int64, runs int) int {
	rng := rand.New(rand.NewSource(seed))
	out := openOut(outPath)
	defer out.Close()
	inconcl := 0
	for i := 0; i < runs; i++ {
		w := newWdWorld(out, i, true)
		time.Sleep(time.Duration(rng.Intn(9000)) * time.Microsecond)
		w.h.mu.Lock()
		arrived := len(w.calls.started) > 0
		w.h.mu.Unlock()
		if arrived {
			w.awaitTimeout()
		}
		via := []string{"own", "parent"}[rng.Intn(2)]
		w.doStop(via)
		if rng.Intn(3) == 0 {
			w.doStop(map[string]string{"own": "parent", "parent": "own"}[via])
		}
		_ = w.h.waitFor(func() bool {
			select {
			case <-w.ended:
				return true
			default:
			}
			return len(w.calls.started) > w.repBcast || arrived
		})
		w.h.mu.Lock()
		inBcast := len(w.calls.pending) > 0
		w.h.mu.Unlock()
		if inBcast {
			if !arrived {
				w.awaitTimeout()
			}
			w.bret([]string{"ok", "err"}[rng.Intn(2)])
		} else {
			w.awaitEnded(line{"k": "ended", "via": "stop", "e": "", "ctx": "na"})
		}
		if w.inconcl == "" {
			w.post()
		}
		w.close()
		if w.inconcl != "" {
			fmt.Printf("INCONCLUSIVE run=%d %s\n", i, w.inconcl)
			inconcl++
		}
	}
	fmt.Printf("FREE runs=%d lines=%d stuck=0 inconclusive=%d\n", runs, out.N, inconcl)
	if inconcl > 0 {
		return 2
	}
	return 0
}
