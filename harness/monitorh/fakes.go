package monitorh

import (
	"context"
	"errors"
	"time"

	sdk "github.com/cosmos/cosmos-sdk/types"
	"github.com/tendermint/tendermint/libs/log"

	aclient "github.com/ovrclk/akash/client"
	"github.com/ovrclk/akash/client/broadcaster"
	"github.com/ovrclk/akash/manifest"
	"github.com/ovrclk/akash/provider/cluster"
	ctypes "github.com/ovrclk/akash/provider/cluster/types"
	"github.com/ovrclk/akash/provider/event"
	"github.com/ovrclk/akash/provider/session"
	"github.com/ovrclk/akash/pubsub"
	mtypes "github.com/ovrclk/akash/x/market/types"
	ptypes "github.com/ovrclk/akash/x/provider/types"
)

var errScripted = errors.New("scripted failure")

// ctxWaits: how many more times this process waits for a context that should be cancelled but is not yet.
var ctxWaits = 5

// gated is one call of a loop into a scripted neighbour: it is announced to the hub when it starts and returns when the
// driver releases it.
type gated struct {
	kind    string // "status" | "bcast"
	ctx     context.Context
	lease   mtypes.LeaseID
	msgs    []sdk.Msg
	release chan gatedResult
	seq     int
	addr    string       // query: address asked about
	denom   string       // query: denomination asked about
	ev      pubsub.Event // pub: the event being published
	hookAt  int          // number of hook events emitted when the call reached the fake
}

type gatedResult struct {
	status  *ctypes.LeaseStatus
	err     error
	balance int64 // query: the balance to report
}

// ctxState reports whether the call's context is cancelled; when the loop is known to have left its select, the
// cancellation (the statement after the exit trace point) is given a moment to happen.
func (g *gated) ctxState(expectDone bool) string {
	if expectDone && g.ctx.Err() == nil && ctxWaits > 0 {
		ctxWaits-- // a loop that does not cancel at all is found on the first calls; do not pay the wait for every call
		for i := 0; i < 50 && g.ctx.Err() == nil; i++ {
			select {
			case <-g.ctx.Done():
			case <-time.After(20 * time.Millisecond):
			}
		}
	}
	if g.ctx.Err() != nil {
		return "done"
	}
	return "live"
}

// calls is the shared book of gated calls (guarded by hub.mu).
type calls struct {
	h       *hub
	started []*gated // every call, in start order
	pending []*gated // started, not released
	n       int
}

func (c *calls) enter(g *gated) gatedResult {
	g.release = make(chan gatedResult, 1)
	c.h.mu.Lock()
	c.n++
	g.seq = c.n
	g.hookAt = len(c.h.hooks)
	c.started = append(c.started, g)
	c.pending = append(c.pending, g)
	c.h.mu.Unlock()
	c.h.wake()
	return <-g.release
}

// take removes the oldest pending call of a kind (nil if none).
func (c *calls) take(kind string) *gated {
	c.h.mu.Lock()
	defer c.h.mu.Unlock()
	for i, g := range c.pending {
		if g.kind == kind {
			c.pending = append(c.pending[:i:i], c.pending[i+1:]...)
			return g
		}
	}
	return nil
}

func (c *calls) countPending(kind string) int {
	n := 0
	for _, g := range c.pending {
		if g.kind == kind {
			n++
		}
	}
	return n
}

// ---------------------------------------------------------------------------------------------------------------
// cluster client: only LeaseStatus is scripted (the monitor calls nothing else)

type fakeCluster struct {
	cluster.Client // nil: any other call of the monitor would panic
	c              *calls
}

func (f *fakeCluster) LeaseStatus(ctx context.Context, lid mtypes.LeaseID) (*ctypes.LeaseStatus, error) {
	r := f.c.enter(&gated{kind: "status", ctx: ctx, lease: lid})
	return r.status, r.err
}

// ---------------------------------------------------------------------------------------------------------------
// chain client: only Tx().Broadcast is scripted

type fakeTx struct{ c *calls }

func (f fakeTx) Broadcast(ctx context.Context, msgs ...sdk.Msg) error {
	r := f.c.enter(&gated{kind: "bcast", ctx: ctx, msgs: msgs})
	return r.err
}

type fakeChain struct {
	q  aclient.QueryClient
	tx broadcaster.Client
}

func (c fakeChain) Query() aclient.QueryClient { return c.q }
func (c fakeChain) Tx() broadcaster.Client     { return c.tx }

func newSession(c *calls, provider sdk.AccAddress) session.Session {
	return session.New(log.NewNopLogger(), fakeChain{tx: fakeTx{c: c}}, &ptypes.Provider{Owner: provider.String()})
}

// ---------------------------------------------------------------------------------------------------------------
// bus: the real bus behind a wrapper that records Publish calls in the caller's goroutine, before forwarding

type recBus struct {
	pubsub.Bus
	h    *hub
	pubs []pubsub.Event // guarded by h.mu; unreported publications
	fail bool           // scripted: Publish reports an error without forwarding
}

func (b *recBus) Publish(ev pubsub.Event) error {
	b.h.mu.Lock()
	b.pubs = append(b.pubs, ev)
	fail := b.fail
	b.h.mu.Unlock()
	b.h.wake()
	if fail {
		return errScripted
	}
	return b.Bus.Publish(ev)
}

func addr(b byte) sdk.AccAddress {
	a := make([]byte, 20)
	for i := range a {
		a[i] = b
	}
	return sdk.AccAddress(a)
}

func mkLease(dseq uint64) mtypes.LeaseID {
	return mtypes.LeaseID{Owner: addr(1).String(), DSeq: dseq, GSeq: 1, OSeq: 1, Provider: addr(2).String()}
}

// the manifest group of every monitor run: MCSpec of spec/monitor/MC_Monitor.tla
func mkGroup() *manifest.Group {
	return &manifest.Group{Name: "g", Services: []manifest.Service{{Name: "web", Count: 2}, {Name: "db", Count: 1}}}
}

// variant is an answer of the cluster client as the specification writes it.
type variant struct {
	Name  string         `json:"name"`
	Err   bool           `json:"err"`
	Avail map[string]int `json:"avail"`
}

func (v variant) result() gatedResult {
	if v.Err {
		return gatedResult{err: errScripted}
	}
	st := &ctypes.LeaseStatus{Services: map[string]*ctypes.ServiceStatus{}}
	for name, n := range v.Avail {
		if n < 0 {
			continue
		}
		st.Services[name] = &ctypes.ServiceStatus{Name: name, Available: int32(n), Total: int32(n)}
	}
	return gatedResult{status: st}
}

func statusName(ev pubsub.Event, lease mtypes.LeaseID, g *manifest.Group) string {
	cd, ok := ev.(event.ClusterDeployment)
	if !ok {
		return "other"
	}
	if !cd.LeaseID.Equals(lease) || cd.Group != g {
		return "foreign:" + string(cd.Status)
	}
	return string(cd.Status)
}
