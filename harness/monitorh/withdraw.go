package monitorh

import (
	"fmt"
	"math/rand"
	"os"
	"strings"

	"github.com/ovrclk/akash/provider/cluster"
	"github.com/ovrclk/akash/provider/event"
	"github.com/ovrclk/akash/pubsub"
	mtypes "github.com/ovrclk/akash/x/market/types"
	"verif/harness/vcommon"
)

const (
	wdrFn   = "cluster.(*deploymentWithdrawal).run"
	wdrFile = "provider/cluster/lease_withdraw.go"
)

// wdrWorld is one lease withdrawal loop under test (started on its own through the verif-tagged constructor).
type wdrWorld struct {
	h     *hub
	out   *vcommon.Writer
	run   int
	lease mtypes.LeaseID
	calls *calls
	bus   pubsub.Bus
	loop  *cluster.VerifLoop
	free  bool
	base  int // goroutine census before the loop existed

	hookPos   int
	repBcast  int
	resc      bool
	stopped   bool
	stopOwn   chan struct{}
	parent    bool
	stuck     bool
	inconcl   string
	lines     int
	unserved  int // published, not yet seen taken (driver's count)
	unservedW int // ... of which withdraw markers
	procW     int // withdraw markers whose loop line has been recorded
}

func wdrCensus() int {
	return countStacks("cluster.(*deploymentWithdrawal)", "go-lifecycle.(*lifecycle).WatchChannel", "pubsub.(*bus).run")
}

func newWdrWorld(out *vcommon.Writer, run int, free bool) *wdrWorld {
	w := &wdrWorld{h: newHub(), out: out, run: run, lease: mkLease(uint64(5000 + run)), free: free}
	w.calls = &calls{h: w.h}
	w.bus = pubsub.NewBus()
	if sub, err := w.bus.Subscribe(); err == nil { // a round trip: the bus's own goroutine is running when the census is taken
		sub.Close()
		<-sub.Done()
	}
	route(w.h, w.lease.String())
	w.base = settleTo(wdrCensus)
	w.loop = cluster.VerifNewDeploymentWithdrawal(w.bus, newSession(w.calls, addr(2)), w.lease)
	return w
}

// settleTo returns a census once two consecutive readings agree (goroutines of the previous run may still be ending).
func settleTo(fn func() int) int {
	n := fn()
	for i := 0; i < 50; i++ {
		m := fn()
		if m == n {
			return n
		}
		n = m
	}
	return n
}

func (w *wdrWorld) write(l line) {
	l["run"] = w.run
	if err := w.out.Write(l); err != nil {
		panic(err)
	}
	w.lines++
}

func (w *wdrWorld) close() {
	for g := w.calls.take("bcast"); g != nil; g = w.calls.take("bcast") {
		g.release <- gatedResult{err: errScripted}
	}
	w.bus.Close()
	route(nil, "\x00")
}

// snapshot adds to a line one consistent reading of: markers the loop has reported taken (every "event" trace point
// emitted so far, processed by the driver or not) and MsgWithdrawLease calls that reached the tx client. settle: wait
// (bounded) until the two agree, i.e. until every runner the loop started has got to the tx client.
func (w *wdrWorld) snapshot(l line, settle bool) {
	read := func() (seen, sent int, ok bool) {
		for _, e := range w.h.hooks {
			if e.ev == "event" && kvBool(e.kv, "withdraw") {
				seen++
			}
		}
		ok = true
		for _, g := range w.calls.started {
			if len(g.msgs) != 1 {
				ok = false
			} else if m, isW := g.msgs[0].(*mtypes.MsgWithdrawLease); !isW || !m.LeaseID.Equals(w.lease) {
				ok = false
			}
		}
		return seen, len(w.calls.started), ok
	}
	if settle {
		_ = w.h.waitFor(func() bool { seen, sent, _ := read(); return sent >= seen })
	}
	w.h.mu.Lock()
	seen, sent, ok := read()
	w.h.mu.Unlock()
	l["seenw"], l["sent"], l["argsok"], l["settled"] = seen, sent, ok, settle
	w.repBcast = sent
}

// nextLoop waits for the end of the loop's current iteration (its next "loop" / "stopped" trace point) and records it.
func (w *wdrWorld) nextLoop(await string) string {
	ev := ""
	for {
		if err := w.h.waitFor(func() bool { return len(w.h.hooks) > w.hookPos }); err != nil {
			w.stuck = true
			if !parkedIn(wdrFn, wdrFile) {
				w.inconcl = "the withdrawal loop did not reach its next trace point (awaiting " + await + ") and is not parked in its own select"
				return ""
			}
			l := line{"k": "stuck", "await": await}
			w.write(l)
			return ""
		}
		w.h.mu.Lock()
		e := w.h.hooks[w.hookPos]
		w.hookPos++
		w.h.mu.Unlock()
		switch e.ev {
		case "event":
			ev = "other"
			if kvBool(e.kv, "withdraw") {
				ev = "withdraw"
				w.unservedW--
				w.procW++
			}
			w.unserved--
		case "loop":
			resc := kvBool(e.kv, "result")
			l := line{"k": "loop", "resc": resc, "ev": ev}
			if w.lines == 0 {
				l["k"] = "start"
			}
			w.snapshot(l, !w.free)
			w.resc = resc
			w.write(l)
			return "loop"
		case "stopped":
			done := waitChan(w.loop.Done())
			l := line{"k": "stopped", "resc": kvBool(e.kv, "result"), "ev": ev, "done": done}
			w.snapshot(l, true)
			w.stopped = true
			w.write(l)
			return "stopped"
		default:
			w.inconcl = "unknown hook event " + e.ev
			return ""
		}
	}
}

// takeCall removes a pending broadcast for the driver to answer: the one of the last marker whose line has been
// recorded (latest), or an older one. Calls of markers the loop has taken but whose lines are not recorded yet are left
// alone, so that the recorded order stays a linearisation.
func (w *wdrWorld) takeCall(latest bool) *gated {
	w.h.mu.Lock()
	defer w.h.mu.Unlock()
	c := w.calls
	n := w.procW
	if n > len(c.started) {
		n = len(c.started)
	}
	if n == 0 {
		return nil
	}
	last := c.started[n-1]
	for i, g := range c.pending {
		if g.seq > n {
			continue
		}
		if (g == last) == latest {
			c.pending = append(c.pending[:i:i], c.pending[i+1:]...)
			return g
		}
	}
	return nil
}

func (w *wdrWorld) env(o op) bool {
	switch o.Op {
	case "pub":
		w.write(line{"k": "pub", "kind": o.V})
		w.unserved++
		if o.V == "withdraw" {
			w.unservedW++
		}
		var ev pubsub.Event = event.LeaseWithdrawNow{}
		if o.V != "withdraw" {
			ev = event.ClusterDeployment{LeaseID: w.lease, Status: event.ClusterDeploymentDeployed}
		}
		if err := w.bus.Publish(ev); err != nil {
			w.inconcl = "bus refused a publication: " + err.Error()
			return false
		}
	case "bret", "oret":
		g := w.takeCall(o.Op == "bret")
		if g == nil {
			return false
		}
		ctx := g.ctxState(w.stopped)
		if w.free && !w.stopped {
			ctx = "na"
		}
		w.write(line{"k": "bret", "latest": o.Op == "bret", "e": o.V, "ctx": ctx})
		r := gatedResult{}
		if o.V == "err" {
			r.err = errScripted
		}
		g.release <- r
	case "stop":
		if o.V == "parent" {
			if w.parent {
				return false
			}
			w.parent = true
			w.write(line{"k": "stop", "via": "parent"})
			w.loop.ParentShuttingDown()
		} else {
			if w.stopOwn != nil {
				return false
			}
			w.stopOwn = make(chan struct{})
			w.write(line{"k": "stop", "via": "own"})
			go func(ch chan struct{}) { w.loop.Shutdown(); close(ch) }(w.stopOwn)
		}
	default:
		return false
	}
	return true
}

func (w *wdrWorld) replay(script []op) {
	if w.nextLoop("start") == "" {
		return
	}
	for i, o := range script {
		if o.Op == "post" {
			break // the end of a run is always taken by windDown
		}
		if w.stopped || w.stuck || w.inconcl != "" {
			if !w.stuck && w.inconcl == "" {
				w.write(line{"k": "diverged", "at": i, "op": o.Op})
			}
			break
		}
		switch o.Op {
		case "pub", "bret", "oret", "stop":
			if !w.env(o) {
				w.write(line{"k": "diverged", "at": i, "op": o.Op})
				w.windDown()
				return
			}
		default:
			w.nextLoop(o.Op)
		}
	}
	w.windDown()
}

// windDown stops the loop if the script did not, then lets every broadcast in flight return and takes the census.
func (w *wdrWorld) windDown() {
	if w.inconcl != "" {
		return
	}
	if w.stuck {
		go w.loop.Shutdown()
		return
	}
	if !w.stopped && w.stopOwn == nil && !w.parent {
		w.env(op{Op: "stop", V: "own"})
	}
	for !w.stopped {
		if w.nextLoop("shutdown") == "" {
			return
		}
	}
	for w.env(op{Op: "oret", V: "ok"}) || w.env(op{Op: "bret", V: "ok"}) {
	}
	leaked := settle(func() int { return wdrCensus() - w.base })
	if leaked > 0 && os.Getenv("VERIF_DEBUG_STACKS") != "" {
		fmt.Fprintln(os.Stderr, "CENSUS base", w.base, "dw", countStacks("cluster.(*deploymentWithdrawal)"), "wc", countStacks("go-lifecycle.(*lifecycle).WatchChannel"), "bus", countStacks("pubsub.(*bus).run"))
		for _, g := range goroutines() {
			if strings.Contains(g, "cluster.(*deploymentWithdrawal)") || strings.Contains(g, "WatchChannel") || strings.Contains(g, "pubsub.(*bus).run") {
				fmt.Fprintln(os.Stderr, "LEAK", g)
			}
		}
	}
	l := line{"k": "post", "leaked": leaked}
	w.snapshot(l, true)
	w.write(l)
}

func (w *wdrWorld) finish() (stuck, inconcl bool) {
	if w.stopOwn != nil && !w.stuck {
		if !waitChan(w.stopOwn) {
			w.inconcl = "shutdown never returned"
		}
	}
	w.close()
	if w.inconcl != "" {
		fmt.Printf("INCONCLUSIVE run=%d %s\n", w.run, w.inconcl)
	}
	return w.stuck, w.inconcl != ""
}

func withdrawReplay(scripts, outPath string) int {
	var sf scriptFile
	if err := readJSON(scripts, &sf); err != nil {
		fmt.Println("monitorh:", err)
		return 2
	}
	out := openOut(outPath)
	defer out.Close()
	installSink()
	stuck, inconcl := 0, 0
	for i, sc := range sf.Scripts {
		w := newWdrWorld(out, i, false)
		w.replay(sc)
		s, ic := w.finish()
		if os.Getenv("VERIF_DEBUG_STACKS") != "" {
			fmt.Fprintln(os.Stderr, "AFTER run", i, settle(func() int { return countStacks("pubsub.(*bus).run") }), sc)
		}
		if s {
			stuck++
		}
		if ic {
			inconcl++
		}
		if stuck >= maxStuck {
			fmt.Printf("STOPPED after %d stuck runs (run %d)\n", stuck, i)
			break
		}
	}
	fmt.Printf("REPLAYED runs=%d lines=%d stuck=%d inconclusive=%d\n", len(sf.Scripts), out.N, stuck, inconcl)
	if inconcl > 0 {
		return 2
	}
	return 0
}

// free-running driver: publications, answers and shutdown requests at random, not waiting for the loop
func (w *wdrWorld) freeRun(rng *rand.Rand, maxActs int, pStop, pWait float64) {
	if w.nextLoop("start") == "" {
		return
	}
	for a := 0; a < maxActs && !w.stopped && !w.stuck && w.inconcl == ""; a++ {
		// record what the loop has done meanwhile
		for !w.stopped && w.inconcl == "" {
			w.h.mu.Lock()
			more := false
			for _, e := range w.h.hooks[w.hookPos:] {
				if e.ev == "loop" || e.ev == "stopped" {
					more = true
				}
			}
			w.h.mu.Unlock()
			if !more {
				break
			}
			w.nextLoop("any")
		}
		if w.stopped {
			break
		}
		var choices []op
		w.h.mu.Lock()
		np := len(w.calls.pending)
		seen := 0
		for _, e := range w.h.hooks {
			if e.ev == "event" && kvBool(e.kv, "withdraw") {
				seen++
			}
		}
		reported := len(w.calls.started) == seen // every runner the loop started has reached the tx client
		w.h.mu.Unlock()
		if w.unserved < 6 {
			choices = append(choices, op{Op: "pub", V: "other"})
			// two runners started back to back may reach the tx client in either order, and the driver could not tell
			// whose result channel the loop still reads: a marker is published when the previous one's call has been seen
			if w.unservedW == 0 && reported {
				choices = append(choices, op{Op: "pub", V: "withdraw"}, op{Op: "pub", V: "withdraw"})
			}
		}
		if np > 0 && reported {
			e := []string{"ok", "err"}[rng.Intn(2)]
			choices = append(choices, op{Op: "bret", V: e}, op{Op: "oret", V: e})
		}
		if rng.Float64() < pStop {
			choices = []op{{Op: "stop", V: []string{"own", "parent"}[rng.Intn(2)]}}
		}
		if len(choices) == 0 {
			if w.nextLoop("any") == "" {
				return
			}
			continue
		}
		o := choices[rng.Intn(len(choices))]
		if !w.env(o) {
			continue // e.g. no orphan to answer
		}
		if w.inconcl != "" {
			return
		}
		if rng.Float64() < pWait && (w.unserved > 0 || o.Op == "bret" || o.Op == "stop") {
			if w.nextLoop("any") == "" {
				return
			}
		}
	}
	w.windDown()
}

func withdrawFree(outPath string, seed int64, runs int) int {
	out := openOut(outPath)
	defer out.Close()
	installSink()
	rng := rand.New(rand.NewSource(seed))
	stuck, inconcl := 0, 0
	for i := 0; i < runs; i++ {
		w := newWdrWorld(out, i, true)
		w.freeRun(rng, 120, []float64{0.01, 0.05, 0.2}[i%3], []float64{0.1, 0.5, 0.9}[(i/3)%3])
		s, ic := w.finish()
		if s {
			stuck++
		}
		if ic {
			inconcl++
		}
		if stuck >= maxStuck {
			fmt.Printf("STOPPED after %d stuck runs (run %d)\n", stuck, i)
			break
		}
	}
	fmt.Printf("FREE runs=%d lines=%d stuck=%d inconclusive=%d\n", runs, out.N, stuck, inconcl)
	if inconcl > 0 {
		return 2
	}
	return 0
}
