package monitorh

import (
	"flag"
	"fmt"
	"os"
)

// Main dispatches the sub-commands of `vh monitor`.
func Main(args []string) int {
	if len(args) == 0 {
		fmt.Fprintln(os.Stderr, "usage: vh monitor <monitor-replay|monitor-free|...> [flags]")
		return 2
	}
	fs := flag.NewFlagSet(args[0], flag.ExitOnError)
	scripts := fs.String("scripts", "", "script file (JSON)")
	out := fs.String("out", "trace.ndjson", "ndjson trace to write")
	from := fs.Int("from", 0, "first script")
	to := fs.Int("to", 0, "one past the last script (0 = all)")
	seed := fs.Int64("seed", 1, "seed of the free-running driver")
	runs := fs.Int("runs", 10, "free runs")
	wait := fs.Int("wait", 0, "wait budget in 20 ms slices (0 = default)")
	_ = fs.Parse(args[1:])
	if *wait > 0 {
		waitTicks = *wait
	}
	switch args[0] {
	case "monitor-replay":
		return monitorReplay(*scripts, *out, *from, *to)
	case "lease-replay":
		return leaseReplay(*scripts, *out)
	case "watchdog-replay":
		return watchdogReplay(*scripts, *out)
	case "watchdog-free":
		return watchdogFree(*out, *seed, *runs)
	case "balance-replay":
		return balanceReplay(*scripts, *out)
	case "balance-free":
		return balanceFree(*out, *seed, *runs)
	case "withdraw-replay":
		return withdrawReplay(*scripts, *out)
	case "withdraw-free":
		return withdrawFree(*out, *seed, *runs)
	case "monitor-free":
		return monitorFree(*out, *seed, *runs)
	}
	fmt.Fprintln(os.Stderr, "unknown sub-command", args[0])
	return 2
}
