// Package monitorh binds spec/monitor/*.tla to the provider's per-lease background loops: the deployment monitor
// (provider/cluster/monitor.go), the lease withdrawal loop (provider/cluster/lease_withdraw.go), the balance checker
// (provider/balance_checker.go) and the manifest watchdog (provider/manifest/watchdog.go).  Every neighbour of a loop is
// scripted: the cluster client and the chain tx client are fakes whose calls block on gates, the bus is the real pubsub
// bus behind a recording wrapper, timers are channels of the harness (monitor: verif-tagged seam) or real timers with
// periods of a millisecond or an hour.  Scripts enumerated by TLC are replayed step by step; one ndjson line is recorded
// per environment action and per loop iteration, holding only what was observed (hook fields, calls seen by the fakes).
package monitorh

import (
	"bytes"
	"encoding/json"
	"fmt"
	"os"
	"runtime"
	"strings"
	"sync"
	"time"

	sdk "github.com/cosmos/cosmos-sdk/types"

	"github.com/ovrclk/akash/util/veriftrace"
	"verif/harness/vcommon"
)

// line is one recorded ndjson line (a flat map keeps the JSON stable and small).
type line map[string]interface{}

// hookEv is one veriftrace event, in sink order.
type hookEv struct {
	comp, id, ev string
	kv           map[string]interface{}
}

// hub receives hook events and fake-call marks from any goroutine and lets the driver wait for them.
type hub struct {
	mu     sync.Mutex
	hooks  []hookEv
	notify chan struct{}
}

func newHub() *hub { return &hub{notify: make(chan struct{}, 1)} }

func (h *hub) wake() {
	select {
	case h.notify <- struct{}{}:
	default:
	}
}

func (h *hub) push(e hookEv) {
	h.mu.Lock()
	h.hooks = append(h.hooks, e)
	h.mu.Unlock()
	h.wake()
}

// errStuck is returned by waits that ran out of (process) time.
var errStuck = fmt.Errorf("wait timed out")

// waitTicks is the bound of every wait, counted in slices of at most 20 ms of this process being scheduled: a frozen
// box does not use the budget up.
var waitTicks = 500 // ~10 s of running time

// maxStuck: a loop that is stuck costs a full wait; after this many stuck runs the remaining runs are not executed.
var maxStuck = 3

// waitFor blocks until cond() (evaluated under h.mu) holds.
func (h *hub) waitFor(cond func() bool) error {
	for i := 0; i < waitTicks; {
		h.mu.Lock()
		ok := cond()
		h.mu.Unlock()
		if ok {
			return nil
		}
		t0 := time.Now()
		select {
		case <-h.notify:
		case <-time.After(20 * time.Millisecond):
		}
		if time.Since(t0) >= 15*time.Millisecond {
			i++
		}
	}
	return errStuck
}

// waitChan waits for a channel to be closed / readable within the same budget.
func waitChan(ch <-chan struct{}) bool {
	for i := 0; i < waitTicks; i++ {
		select {
		case <-ch:
			return true
		case <-time.After(20 * time.Millisecond):
		}
	}
	return false
}

var (
	hubMu  sync.Mutex
	curHub *hub
	curPfx string
)

// route installs the process-wide veriftrace sink once; events whose id starts with the current prefix go to the
// current hub.
func route(h *hub, idPrefix string) {
	hubMu.Lock()
	curHub, curPfx = h, idPrefix
	hubMu.Unlock()
}

func installSink() {
	veriftrace.SetSink(func(ev veriftrace.Event) {
		hubMu.Lock()
		h, pfx := curHub, curPfx
		hubMu.Unlock()
		if h == nil || !strings.HasPrefix(ev.ID, pfx) {
			return
		}
		h.push(hookEv{comp: ev.Component, id: ev.ID, ev: ev.Event, kv: ev.KV})
	})
}

// goroutines returns the stacks of all goroutines, one string each.
func goroutines() []string {
	buf := make([]byte, 1<<20)
	for {
		n := runtime.Stack(buf, true)
		if n < len(buf) {
			buf = buf[:n]
			break
		}
		buf = make([]byte, 2*len(buf))
	}
	return strings.Split(string(bytes.TrimSpace(buf)), "\n\n")
}

// countStacks counts goroutines whose stack mentions any of the markers.
func countStacks(markers ...string) int {
	n := 0
	for _, g := range goroutines() {
		for _, m := range markers {
			if strings.Contains(g, m) {
				n++
				break
			}
		}
	}
	return n
}

// parkedIn reports whether some goroutine running fn is parked in a select / channel receive of file (the loop is idle
// in its own code, not blocked inside a neighbour and not running).
func parkedIn(fn, file string) bool {
	if os.Getenv("VERIF_DEBUG_STACKS") != "" {
		for _, g := range goroutines() {
			if strings.Contains(g, fn) {
				fmt.Fprintln(os.Stderr, "STACK", g)
			}
		}
	}
	for _, g := range goroutines() {
		if !strings.Contains(g, fn+"(") {
			continue
		}
		head := strings.SplitN(g, "\n", 2)[0]
		if !(strings.Contains(head, "[select") || strings.Contains(head, "[chan receive")) {
			continue
		}
		// the first frame below the runtime frames must be the loop function itself, in the loop's own file
		ls := strings.Split(g, "\n")
		for i := 1; i+1 < len(ls); i += 2 {
			if strings.HasPrefix(ls[i], "runtime.") {
				continue
			}
			if strings.Contains(ls[i], fn+"(") && strings.Contains(ls[i+1], file) {
				return true
			}
			break
		}
	}
	return false
}

// settle polls fn (a goroutine census) until it returns 0 or the budget is used; goroutines end a moment after the
// channel that announces their end is closed.
func settle(fn func() int) int { return settleN(200, fn) }

func settleN(max int, fn func() int) int {
	n := fn()
	for i := 0; n != 0 && i < max; i++ {
		runtime.Gosched()
		if i > 20 {
			time.Sleep(time.Millisecond)
		}
		n = fn()
	}
	return n
}

func msgNames(msgs []sdk.Msg) []string {
	out := make([]string, 0, len(msgs))
	for _, m := range msgs {
		out = append(out, fmt.Sprintf("%T", m))
	}
	return out
}

func openOut(path string) *vcommon.Writer {
	w, err := vcommon.NewWriter(path)
	if err != nil {
		fmt.Fprintln(os.Stderr, "monitorh:", err)
		os.Exit(2)
	}
	return w
}

func readJSON(path string, v interface{}) error {
	b, err := os.ReadFile(path)
	if err != nil {
		return err
	}
	return json.Unmarshal(b, v)
}

func kvBool(kv map[string]interface{}, k string) bool { b, _ := kv[k].(bool); return b }
func kvInt(kv map[string]interface{}, k string) int {
	switch v := kv[k].(type) {
	case int:
		return v
	case int64:
		return int(v)
	case float64:
		return int(v)
	}
	return -1
}
