package monitorh

import (
	"context"
	"errors"
	"fmt"
	"io"
	"strings"
	"time"

	sdk "github.com/cosmos/cosmos-sdk/types"
	"github.com/tendermint/tendermint/libs/log"
	"k8s.io/client-go/tools/remotecommand"

	aclient "github.com/ovrclk/akash/client"
	"github.com/ovrclk/akash/manifest"
	"github.com/ovrclk/akash/provider/cluster"
	ctypes "github.com/ovrclk/akash/provider/cluster/types"
	"github.com/ovrclk/akash/provider/event"
	"github.com/ovrclk/akash/provider/session"
	"github.com/ovrclk/akash/pubsub"
	atypes "github.com/ovrclk/akash/types"
	dtypes "github.com/ovrclk/akash/x/deployment/types"
	mtypes "github.com/ovrclk/akash/x/market/types"
	ptypes "github.com/ovrclk/akash/x/provider/types"
	"verif/harness/vcommon"
)

// The lease part drives the real cluster service (cluster.NewService) with one lease: manifests, a closed lease and
// LeaseWithdrawNow markers are published on the real bus, the cluster client's Deploy / TeardownLease and the tx
// client's Broadcast are gated. What is recorded is which loops the deployment manager has alive (from the loops' own
// trace points, by instance) and how many MsgWithdrawLease a marker produces.

type fullCluster struct{ c *calls }

func (f *fullCluster) Deploy(ctx context.Context, lid mtypes.LeaseID, g *manifest.Group) error {
	return f.c.enter(&gated{kind: "deploy", ctx: ctx, lease: lid}).err
}
func (f *fullCluster) TeardownLease(ctx context.Context, lid mtypes.LeaseID) error {
	return f.c.enter(&gated{kind: "teardown", ctx: ctx, lease: lid}).err
}
func (f *fullCluster) Deployments(context.Context) ([]ctypes.Deployment, error) { return nil, nil }
func (f *fullCluster) Inventory(context.Context) ([]ctypes.Node, error) {
	big := atypes.ResourceUnits{
		CPU:     &atypes.CPU{Units: atypes.NewResourceValue(1000000)},
		Memory:  &atypes.Memory{Quantity: atypes.NewResourceValue(1 << 40)},
		Storage: &atypes.Storage{Quantity: atypes.NewResourceValue(1 << 40)},
	}
	return []ctypes.Node{cluster.NewNode("n1", big, big)}, nil
}
func (f *fullCluster) LeaseStatus(ctx context.Context, lid mtypes.LeaseID) (*ctypes.LeaseStatus, error) {
	r := f.c.enter(&gated{kind: "status", ctx: ctx, lease: lid})
	return r.status, r.err
}
func (f *fullCluster) LeaseEvents(context.Context, mtypes.LeaseID, string, bool) (ctypes.EventsWatcher, error) {
	return nil, errScripted
}
func (f *fullCluster) LeaseLogs(context.Context, mtypes.LeaseID, string, bool, *int64) ([]*ctypes.ServiceLog, error) {
	return nil, errScripted
}
func (f *fullCluster) ServiceStatus(context.Context, mtypes.LeaseID, string) (*ctypes.ServiceStatus, error) {
	return nil, errScripted
}
func (f *fullCluster) Exec(context.Context, mtypes.LeaseID, string, uint, []string, io.Reader, io.Writer, io.Writer, bool,
	remotecommand.TerminalSizeQueue) (ctypes.ExecResult, error) {
	return nil, errScripted
}

type leaseQuery struct{ aclient.QueryClient }

func (leaseQuery) ActiveLeasesForProvider(sdk.AccAddress) ([]mtypes.QueryLeaseResponse, error) {
	return nil, nil
}

func leaseGroup(id int) manifest.Group {
	return manifest.Group{Name: "g", Services: []manifest.Service{{
		Name: "web", Image: fmt.Sprintf("m%d", id), Count: 1,
		Resources: atypes.ResourceUnits{
			CPU:     &atypes.CPU{Units: atypes.NewResourceValue(100)},
			Memory:  &atypes.Memory{Quantity: atypes.NewResourceValue(1 << 20)},
			Storage: &atypes.Storage{Quantity: atypes.NewResourceValue(1 << 20)},
		},
	}}}
}

type leaseExp struct {
	Mgr    string `json:"mgr"`
	Mons   int    `json:"mons"`
	Wloops int    `json:"wloops"`
	Dcall  bool   `json:"dcall"`
	Tcall  bool   `json:"tcall"`
	Bcasts int    `json:"bcasts"`
}

type leaseOp struct {
	Op  string   `json:"op"`
	V   string   `json:"v"`
	Exp leaseExp `json:"exp"`
}

type leaseScriptFile struct {
	Scripts [][]leaseOp `json:"scripts"`
}

type leaseWorld struct {
	h       *hub
	out     *vcommon.Writer
	run     int
	lease   mtypes.LeaseID
	calls   *calls
	bus     pubsub.Bus
	svc     cluster.Service
	cancel  context.CancelFunc
	base    int
	nman    int
	inconcl string
}

func leaseCensus() int {
	return countStacks("cluster.(*deploymentMonitor)", "cluster.(*deploymentWithdrawal)", "cluster.(*deploymentManager)")
}

func newLeaseWorld(out *vcommon.Writer, run int) (*leaseWorld, error) {
	w := &leaseWorld{h: newHub(), out: out, run: run, lease: mkLease(uint64(20000 + run))}
	w.calls = &calls{h: w.h}
	w.bus = pubsub.NewBus()
	route(w.h, w.lease.String())
	cluster.VerifMonitorTimer = func(string) <-chan time.Time { return make(chan time.Time) } // monitors never tick here
	w.base = settleTo(leaseCensus)
	sess := session.New(log.NewNopLogger(), fakeChain{q: leaseQuery{}, tx: fakeTx{c: w.calls}}, &ptypes.Provider{Owner: addr(2).String()})
	cfg := cluster.NewDefaultConfig()
	cfg.InventoryResourcePollPeriod = time.Hour
	cfg.InventoryExternalPortQuantity = 1000
	var ctx context.Context
	ctx, w.cancel = context.WithCancel(context.Background())
	svc, err := cluster.NewService(ctx, sess, w.bus, &fullCluster{c: w.calls}, cfg)
	if err != nil {
		return nil, err
	}
	w.svc = svc
	select {
	case <-svc.Ready():
	case <-time.After(20 * time.Second):
		return nil, errors.New("cluster service never became ready")
	}
	g := leaseGroup(0)
	gs := dtypes.GroupSpec{Name: "g"}
	for _, r := range g.GetResources() {
		gs.Resources = append(gs.Resources, dtypes.Resource{Resources: r.Resources, Count: r.Count})
	}
	if _, err := svc.Reserve(w.lease.OrderID(), gs); err != nil {
		return nil, fmt.Errorf("reserve: %w", err)
	}
	return w, nil
}

// observed projects the hooks and the gates onto the specification's variables (caller holds h.mu).
func (w *leaseWorld) observed() leaseExp {
	o := leaseExp{Mgr: "none"}
	mon, wdr := map[string]int{}, map[string]int{}
	for _, e := range w.h.hooks {
		switch e.comp {
		case "cluster-manager":
			switch e.ev {
			case "loop":
				o.Mgr, _ = e.kv["state"].(string)
			case "stopped":
				o.Mgr = "gone"
			}
		case "cluster-monitor":
			if e.ev == "stopped" {
				mon[e.id] = 2
			} else if mon[e.id] == 0 {
				mon[e.id] = 1
			}
		case "cluster-withdrawal":
			if e.ev == "stopped" {
				wdr[e.id] = 2
			} else if wdr[e.id] == 0 {
				wdr[e.id] = 1
			}
		}
	}
	for _, v := range mon {
		if v == 1 {
			o.Mons++
		}
	}
	for _, v := range wdr {
		if v == 1 {
			o.Wloops++
		}
	}
	o.Dcall = w.calls.countPending("deploy") > 0
	o.Tcall = w.calls.countPending("teardown") > 0
	return o
}

func (w *leaseWorld) markersTaken() int {
	n := 0
	for _, e := range w.h.hooks {
		if e.comp == "cluster-withdrawal" && e.ev == "event" && kvBool(e.kv, "withdraw") {
			n++
		}
	}
	return n
}

// leaseWait (slices): what the script expects is there within a moment, or it is not coming; after a few misses in a
// process (a manager that does something else than the scripts expect) the wait is cut down.
var (
	leaseWait   = 150
	leaseMisses = 0
)

func missed() {
	leaseMisses++
	if leaseMisses >= 4 {
		leaseWait = 10
	}
}

// mgrHooks counts the manager's trace points of a kind (caller holds h.mu).
func (w *leaseWorld) mgrHooks(ev string) int {
	n := 0
	for _, e := range w.h.hooks {
		if e.comp == "cluster-manager" && e.ev == ev {
			n++
		}
	}
	return n
}

// taken waits until the manager has received what the driver just sent it (its recv-* trace point) and has finished
// that iteration (a later loop / stopped trace point): state equality alone cannot tell "nothing changes" from "not yet".
func (w *leaseWorld) taken(recv string, before int) {
	save := waitTicks
	waitTicks = leaseWait
	err := w.h.waitFor(func() bool {
		seen := 0
		for _, e := range w.h.hooks {
			if e.comp != "cluster-manager" {
				continue
			}
			if e.ev == recv {
				seen++
			} else if seen > before && (e.ev == "loop" || e.ev == "stopped") {
				return true
			}
		}
		return false
	})
	if err != nil {
		missed()
	}
	waitTicks = save
}

func (w *leaseWorld) waitExp(exp leaseExp) leaseExp {
	save := waitTicks
	waitTicks = leaseWait
	if err := w.h.waitFor(func() bool {
		o := w.observed()
		return o.Mgr == exp.Mgr && o.Mons == exp.Mons && o.Wloops == exp.Wloops && o.Dcall == exp.Dcall && o.Tcall == exp.Tcall
	}); err != nil {
		missed()
	}
	waitTicks = save
	w.h.mu.Lock()
	defer w.h.mu.Unlock()
	return w.observed()
}

func (w *leaseWorld) write(k, v string, o leaseExp, extra line) {
	l := line{"k": k, "v": v, "run": w.run, "mgr": o.Mgr, "mons": o.Mons, "wloops": o.Wloops, "dcall": o.Dcall, "tcall": o.Tcall, "bcasts": o.Bcasts}
	for a, b := range extra {
		l[a] = b
	}
	if err := w.out.Write(l); err != nil {
		panic(err)
	}
}

func (w *leaseWorld) replay(script []leaseOp) {
	w.h.mu.Lock()
	o := w.observed()
	w.h.mu.Unlock()
	w.write("start", "", o, nil)
	for i, op := range script {
		recv := map[string]string{"manifest": "recv-update", "dret": "recv-result", "tret": "recv-result", "closed": "recv-teardown"}[op.Op]
		w.h.mu.Lock()
		before, existed := w.mgrHooks(recv), w.mgrHooks("loop") > 0 && w.mgrHooks("stopped") == 0
		w.h.mu.Unlock()
		switch op.Op {
		case "manifest":
			w.nman++
			g := leaseGroup(w.nman)
			m := manifest.Manifest{g}
			ev := event.ManifestReceived{LeaseID: w.lease, Manifest: &m,
				Group: &dtypes.Group{GroupID: w.lease.GroupID(), GroupSpec: dtypes.GroupSpec{Name: "g"}}}
			if err := w.bus.Publish(ev); err != nil {
				w.inconcl = err.Error()
				return
			}
		case "dret", "tret":
			kind := map[string]string{"dret": "deploy", "tret": "teardown"}[op.Op]
			g := w.calls.take(kind)
			if g == nil {
				w.write("diverged", op.Op, o, line{"at": i})
				return
			}
			r := gatedResult{}
			if op.V == "err" {
				r.err = errScripted
			}
			g.release <- r
		case "closed":
			if err := w.bus.Publish(mtypes.EventLeaseClosed{ID: w.lease}); err != nil {
				w.inconcl = err.Error()
				return
			}
		case "marker":
			w.h.mu.Lock()
			taken0, arrived0 := w.markersTaken(), len(w.calls.started)
			live := w.observed().Wloops
			w.h.mu.Unlock()
			if err := w.bus.Publish(event.LeaseWithdrawNow{}); err != nil {
				w.inconcl = err.Error()
				return
			}
			// every loop alive takes the marker, and every runner it starts reaches the tx client
			save := waitTicks
			waitTicks = leaseWait
			_ = w.h.waitFor(func() bool {
				taken := w.markersTaken() - taken0
				return taken >= live && w.calls.countPending("bcast") >= taken
			})
			waitTicks = save
			w.h.mu.Lock()
			n, ok := 0, true
			for _, g := range w.calls.started[arrived0:] {
				if g.kind != "bcast" {
					continue
				}
				n++
				if len(g.msgs) != 1 {
					ok = false
				} else if m, isW := g.msgs[0].(*mtypes.MsgWithdrawLease); !isW || !m.LeaseID.Equals(w.lease) {
					ok = false
				}
			}
			w.h.mu.Unlock()
			for g := w.calls.take("bcast"); g != nil; g = w.calls.take("bcast") {
				g.release <- gatedResult{}
			}
			o = w.waitExp(op.Exp)
			o.Bcasts = n
			w.write("marker", "", o, line{"argsok": ok})
			continue
		}
		if existed && recv != "" {
			w.taken(recv, before)
		}
		o = w.waitExp(op.Exp)
		w.write(op.Op, op.V, o, nil)
	}
}

// end closes the service, answers what is in flight and takes the census of the lease's loops.
func (w *leaseWorld) end() {
	w.cancel()
	stop := make(chan struct{})
	go func() { // whatever the managers still call during their exit returns at once
		for {
			select {
			case <-stop:
				return
			case <-w.h.notify:
			case <-time.After(5 * time.Millisecond):
			}
			for _, k := range []string{"deploy", "teardown", "bcast", "status"} {
				for g := w.calls.take(k); g != nil; g = w.calls.take(k) {
					g.release <- gatedResult{} // success: a failed teardown is retried with back-off for minutes
				}
			}
		}
	}()
	done := waitChan(w.svc.Done())
	close(stop)
	leaked := settle(func() int { return leaseCensus() - w.base })
	w.h.mu.Lock()
	o := w.observed()
	w.h.mu.Unlock()
	if w.inconcl == "" {
		w.write("post", "", o, line{"leaked": leaked, "done": done})
	}
	w.bus.Close()
	route(nil, "\x00")
}

func leaseReplay(scripts, outPath string) int {
	var sf leaseScriptFile
	if err := readJSON(scripts, &sf); err != nil {
		fmt.Println("monitorh:", err)
		return 2
	}
	out := openOut(outPath)
	defer out.Close()
	installSink()
	inconcl := 0
	for i, sc := range sf.Scripts {
		w, err := newLeaseWorld(out, i)
		if err != nil {
			fmt.Println("INCONCLUSIVE", err)
			return 2
		}
		w.replay(sc)
		w.end()
		if w.inconcl != "" {
			fmt.Printf("INCONCLUSIVE run=%d %s\n", i, w.inconcl)
			inconcl++
		}
	}
	fmt.Printf("REPLAYED runs=%d lines=%d stuck=0 inconclusive=%d\n", len(sf.Scripts), out.N, inconcl)
	if inconcl > 0 {
		return 2
	}
	return 0
}

var _ = strings.Contains
