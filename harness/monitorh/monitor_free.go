package monitorh

import (
	"fmt"
	"math/rand"
)

// free-running driver of one monitor: environment actions are chosen at random and are NOT held back until the loop is
// parked, so that several select cases are ready at once (timer and shutdown, result and shutdown, ...) and Go's select
// picks among them. An action only uses what a recorded line has already reported (a timer after the line that shows it
// armed, a call after the line that shows it started), which keeps the recorded order a linearisation.

type freePlan struct {
	pBad    float64 // probability that a check answer is unhealthy
	pStop   float64 // probability per choice of asking for shutdown
	pWait   float64 // probability of waiting for the loop's next trace point after an action that made a case ready
	pRace   float64 // probability of asking for shutdown right after an action that made a case ready (both ready at once)
	maxActs int
}

var freeVariants = []variant{
	{Name: "ok", Avail: map[string]int{"web": 2, "db": 1}},
	{Name: "over", Avail: map[string]int{"web": 5, "db": 1}},
	{Name: "short", Avail: map[string]int{"web": 1, "db": 1}},
	{Name: "absent", Avail: map[string]int{"web": 2, "db": -1}},
	{Name: "empty", Avail: map[string]int{"web": -1, "db": -1}},
	{Name: "err", Err: true, Avail: map[string]int{"web": 2, "db": 1}},
}

// drainHooks records every trace point already emitted, without waiting.
func (w *monWorld) drainHooks() {
	for w.inconcl == "" && !w.stopped {
		w.h.mu.Lock()
		more := len(w.h.hooks) > w.hookPos
		w.h.mu.Unlock()
		if !more {
			return
		}
		w.nextHook("any")
	}
}

func (w *monWorld) freeRun(rng *rand.Rand, p freePlan) {
	if w.nextHook("start") == "" {
		return
	}
	expect := 0
	for acts := 0; acts < p.maxActs && !w.stopped && !w.stuck && w.inconcl == ""; acts++ {
		before := w.lines
		w.drainHooks()
		expect -= w.lines - before
		if expect < 0 {
			expect = 0
		}
		if w.exited {
			break
		}
		// feasible environment actions
		var choices []op
		w.h.mu.Lock()
		if w.timer != nil && !w.fired && w.repArms == w.armsSeen {
			choices = append(choices, op{Op: "fire"})
		}
		for _, g := range w.calls.pending {
			reported := (g.kind == "status" && w.statusIndex(g) < w.repStatus) || (g.kind == "bcast" && w.bcastIndex(g) < w.repBcast)
			if !reported {
				continue
			}
			if g.kind == "status" {
				choices = append(choices, op{Op: "ret"})
			} else {
				choices = append(choices, op{Op: "cret", V: []string{"ok", "err"}[rng.Intn(2)]})
			}
		}
		w.h.mu.Unlock()
		if rng.Float64() < p.pStop || (len(choices) == 0 && expect == 0) {
			via := []string{"own", "parent"}[rng.Intn(2)]
			if (via == "own" && w.stopOwn == nil) || (via == "parent" && !w.parentDone) {
				choices = append(choices, op{Op: "stop", V: via})
			}
		}
		if len(choices) == 0 {
			if w.nextHook("any") == "" {
				return
			}
			expect--
			continue
		}
		o := choices[rng.Intn(len(choices))]
		vs := map[string]variant{}
		if o.Op == "ret" {
			v := freeVariants[rng.Intn(2)]
			if rng.Float64() < p.pBad {
				v = freeVariants[2+rng.Intn(4)]
			}
			o.V = v.Name
			vs[v.Name] = v
		}
		if !w.env(o, vs) {
			w.inconcl = fmt.Sprintf("free driver chose an infeasible action %v", o)
			return
		}
		expect++
		if o.Op != "stop" && rng.Float64() < p.pRace {
			via := []string{"own", "parent"}[rng.Intn(2)]
			if w.env(op{Op: "stop", V: via}, nil) {
				expect++
			}
			if rng.Float64() < 0.3 {
				if w.env(op{Op: "stop", V: map[string]string{"own": "parent", "parent": "own"}[via]}, nil) {
					expect++
				}
			}
		}
		if rng.Float64() < p.pWait {
			if w.nextHook("any") == "" {
				return
			}
			expect--
		}
	}
	w.windDown()
}

func (w *monWorld) statusIndex(g *gated) int {
	i := 0
	for _, x := range w.calls.started {
		if x == g {
			return i
		}
		if x.kind == "status" {
			i++
		}
	}
	return 1 << 30
}

func (w *monWorld) bcastIndex(g *gated) int {
	i := 0
	for _, x := range w.calls.started {
		if x == g {
			return i
		}
		if x.kind == "bcast" {
			i++
		}
	}
	return 1 << 30
}

func monitorFree(outPath string, seed int64, runs int) int {
	out := openOut(outPath)
	defer out.Close()
	installSink()
	rng := rand.New(rand.NewSource(seed))
	stuck, inconcl := 0, 0
	for i := 0; i < runs; i++ {
		p := freePlan{pBad: []float64{0.5, 0.9, 0.985, 1.0}[i%4], pStop: []float64{0.002, 0.01, 0.05}[i%3], pWait: []float64{0.2, 0.6, 0.9}[(i/2)%3],
			pRace: []float64{0, 0.02, 0.1, 0.3, 0.02}[i%5], maxActs: 600}
		w := newMonWorld(out, i, true)
		w.freeRun(rng, p)
		if w.stopOwn != nil && !w.stuck {
			if !waitChan(w.stopOwn) {
				w.inconcl = "shutdown() never returned"
			}
		}
		w.close()
		if w.inconcl != "" {
			fmt.Printf("INCONCLUSIVE run=%d %s\n", i, w.inconcl)
			inconcl++
		}
		if w.stuck {
			stuck++
		}
		if stuck >= maxStuck {
			fmt.Printf("STOPPED after %d stuck runs (run %d)\n", stuck, i)
			break
		}
	}
	fmt.Printf("FREE runs=%d lines=%d stuck=%d inconclusive=%d\n", runs, out.N, stuck, inconcl)
	if inconcl > 0 {
		return 2
	}
	return 0
}
