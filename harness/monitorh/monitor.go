package monitorh

import (
	"fmt"
	"math/rand"
	"strings"
	"time"

	"github.com/ovrclk/akash/manifest"
	"github.com/ovrclk/akash/provider/cluster"
	"github.com/ovrclk/akash/pubsub"
	mtypes "github.com/ovrclk/akash/x/market/types"
	"verif/harness/vcommon"
)

// op is one step of a script: an environment action the driver performs (fire, ret, cret, stop) or a loop action it
// waits for (tick, result, close, shutdown, stopped).
type op struct {
	Op string `json:"op"`
	V  string `json:"v"`
}

type scriptFile struct {
	Variants map[string]variant `json:"variants"`
	Scripts  [][]op             `json:"scripts"`
}

const (
	monFn   = "cluster.(*deploymentMonitor).run"
	monFile = "provider/cluster/monitor.go"
)

// monWorld is one deployment monitor under test and the driver's view of it.
type monWorld struct {
	h      *hub
	out    *vcommon.Writer
	run    int
	lease  mtypes.LeaseID
	group  *manifest.Group
	calls  *calls
	bus    *recBus
	loop   *cluster.VerifLoop
	free   bool
	baseWC int // WatchChannel goroutines before the monitor existed

	// guarded by h.mu
	timer    chan time.Time // the channel of the latest seam call
	armsSeen int
	fired    bool

	// driver only
	hookPos    int
	repStatus  int // status call starts already reported on a line
	repBcast   int
	repArms    int
	tick, runc bool // channel state the loop reported last
	closec     bool
	exited     bool
	stopped    bool
	stopOwn    chan struct{} // closed when an own Shutdown() call returned
	parentDone bool
	stuck      bool
	inconcl    string
	lines      int
}

func (w *monWorld) write(l line) {
	l["run"] = w.run
	if err := w.out.Write(l); err != nil {
		panic(err)
	}
	w.lines++
}

func newMonWorld(out *vcommon.Writer, run int, free bool) *monWorld {
	w := &monWorld{h: newHub(), out: out, run: run, lease: mkLease(uint64(1000 + run)), group: mkGroup(), free: free}
	w.calls = &calls{h: w.h}
	w.bus = &recBus{Bus: pubsub.NewBus(), h: w.h}
	route(w.h, w.lease.String())
	cluster.VerifMonitorTimer = func(id string) <-chan time.Time {
		if !strings.HasPrefix(id, w.lease.String()) {
			return nil // a monitor of an earlier run that is still around keeps its real timer
		}
		ch := make(chan time.Time, 1)
		w.h.mu.Lock()
		w.timer, w.fired = ch, false
		w.armsSeen++
		w.h.mu.Unlock()
		w.h.wake()
		return ch
	}
	w.baseWC = settleTo(func() int { return countStacks("go-lifecycle.(*lifecycle).WatchChannel") })
	w.loop = cluster.VerifNewDeploymentMonitor(w.bus, newSession(w.calls, addr(2)), &fakeCluster{c: w.calls}, w.lease, w.group)
	return w
}

func (w *monWorld) close() {
	// let whatever is still blocked in a fake end
	for _, k := range []string{"status", "bcast"} {
		for g := w.calls.take(k); g != nil; g = w.calls.take(k) {
			g.release <- gatedResult{err: errScripted}
		}
	}
	w.bus.Bus.Close()
	route(nil, "\x00")
}

// effects collects what the fakes saw since the last line. wantStatus / wantBcast: a runner was started according to
// the hook (its call reaches the fake from another goroutine a moment later).
func (w *monWorld) effects(l line, wantStatus, wantBcast bool) {
	_ = w.h.waitFor(func() bool {
		ns, nb := w.countStarted()
		return (!wantStatus || ns > w.repStatus) && (!wantBcast || nb > w.repBcast)
	})
	w.h.mu.Lock()
	ns, nb := w.countStarted()
	pubs := make([]string, 0, len(w.bus.pubs))
	for _, ev := range w.bus.pubs {
		pubs = append(pubs, statusName(ev, w.lease, w.group))
	}
	w.bus.pubs = nil
	msgok := true
	for _, g := range w.calls.started {
		if g.kind == "status" && !g.lease.Equals(w.lease) {
			msgok = false
		}
		if g.kind == "bcast" {
			if len(g.msgs) != 1 {
				msgok = false
			} else if m, ok := g.msgs[0].(*mtypes.MsgCloseBid); !ok || !m.BidID.Equals(w.lease.BidID()) {
				msgok = false
			}
		}
	}
	arms := w.armsSeen
	w.h.mu.Unlock()
	l["calls"], l["bcasts"], l["arms"], l["pubs"], l["argsok"] = ns-w.repStatus, nb-w.repBcast, arms-w.repArms, pubs, msgok
	w.repStatus, w.repBcast, w.repArms = ns, nb, arms
}

func (w *monWorld) countStarted() (ns, nb int) {
	for _, g := range w.calls.started {
		if g.kind == "status" {
			ns++
		} else {
			nb++
		}
	}
	return
}

// nextHook waits for the loop's next trace point and records its line. It returns the event name, or "" when the loop
// did not move (stuck / inconclusive already recorded).
func (w *monWorld) nextHook(await string) string {
	err := w.h.waitFor(func() bool { return len(w.h.hooks) > w.hookPos })
	if err != nil {
		w.noteStuck(await)
		return ""
	}
	w.h.mu.Lock()
	ev := w.h.hooks[w.hookPos]
	w.hookPos++
	w.h.mu.Unlock()
	switch ev.ev {
	case "loop", "exit":
		tick, runc, closec := kvBool(ev.kv, "tick"), kvBool(ev.kv, "run"), kvBool(ev.kv, "close")
		l := line{"k": ev.ev, "attempts": kvInt(ev.kv, "attempts"), "tick": tick, "runc": runc, "closec": closec}
		if w.lines == 0 {
			l["k"] = "start"
		}
		w.effects(l, runc && !w.runc, closec && !w.closec)
		w.tick, w.runc, w.closec = tick, runc, closec
		if ev.ev == "exit" {
			w.exited = true
		}
		w.write(l)
	case "stopped":
		done := waitChan(w.loop.Done())
		leaked := settle(func() int {
			return countStacks("cluster.(*deploymentMonitor)", "go-lifecycle.(*lifecycle).WatchChannel") - w.baseWC
		})
		l := line{"k": "stopped", "done": done, "leaked": leaked}
		w.effects(l, false, false)
		w.h.mu.Lock()
		l["inflight"] = len(w.calls.pending)
		w.h.mu.Unlock()
		w.stopped = true
		w.write(l)
	default:
		w.inconcl = "unknown hook event " + ev.ev
		return ""
	}
	return ev.ev
}

func (w *monWorld) noteStuck(await string) {
	idle := parkedIn(monFn, monFile)
	w.stuck = true
	if !idle {
		w.inconcl = "the monitor did not reach its next trace point (awaiting " + await + ") and is not parked in its own select"
		return
	}
	l := line{"k": "stuck", "await": await}
	w.effects(l, false, false)
	w.write(l)
}

// env performs one environment action if the implementation is in a state that allows it; false = the script diverged.
func (w *monWorld) env(o op, variants map[string]variant) bool {
	switch o.Op {
	case "fire":
		w.h.mu.Lock()
		ch, ok := w.timer, w.timer != nil && !w.fired
		if ok {
			w.fired = true
		}
		w.h.mu.Unlock()
		if !ok {
			return false
		}
		w.write(line{"k": "fire"})
		ch <- time.Now()
	case "ret":
		v, ok := variants[o.V]
		g := w.calls.take("status")
		if g == nil || !ok {
			return false
		}
		ctx := g.ctxState(w.exited)
		if w.free && !w.exited {
			ctx = "na"
		}
		w.write(line{"k": "ret", "v": v, "ctx": ctx})
		g.release <- v.result()
	case "cret":
		g := w.calls.take("bcast")
		if g == nil {
			return false
		}
		ctx := g.ctxState(w.exited)
		if w.free && !w.exited {
			ctx = "na"
		}
		w.write(line{"k": "cret", "e": o.V, "ctx": ctx})
		r := gatedResult{}
		if o.V == "err" {
			r.err = errScripted
		}
		g.release <- r
	case "stop":
		switch o.V {
		case "parent":
			if w.parentDone {
				return false
			}
			w.parentDone = true
			w.write(line{"k": "stop", "via": "parent"})
			w.loop.ParentShuttingDown()
		default:
			if w.stopOwn != nil {
				return false
			}
			w.stopOwn = make(chan struct{})
			w.write(line{"k": "stop", "via": "own"})
			go func(ch chan struct{}) { w.loop.Shutdown(); close(ch) }(w.stopOwn)
		}
	default:
		return false
	}
	return true
}

func isEnv(o string) bool { return o == "fire" || o == "ret" || o == "cret" || o == "stop" }

// replay runs one script under the forced schedule, then winds the monitor down.
func (w *monWorld) replay(script []op, variants map[string]variant) {
	if w.nextHook("start") == "" {
		return
	}
	diverged := false
	for i, o := range script {
		if w.stopped || w.stuck || w.inconcl != "" {
			if !w.stuck && w.inconcl == "" {
				diverged = true
				w.write(line{"k": "diverged", "at": i, "op": o.Op})
			}
			break
		}
		if isEnv(o.Op) {
			if !w.env(o, variants) {
				diverged = true
				w.write(line{"k": "diverged", "at": i, "op": o.Op})
				break
			}
			continue
		}
		w.nextHook(o.Op)
	}
	if diverged && !w.exited {
		// the loop did not do what the script expected: keep failing checks for a few more rounds, so that a monitor
		// that should have closed the lease by now is seen not to
		bad := variant{Name: "tail", Err: true, Avail: map[string]int{"web": 2, "db": 1}}
		for i := 0; i < 3 && !w.stuck && w.inconcl == ""; i++ {
			if !w.env(op{Op: "fire"}, nil) {
				break
			}
			if w.nextHook("tick") == "" || !w.env(op{Op: "ret", V: "tail"}, map[string]variant{"tail": bad}) {
				break
			}
			w.nextHook("result")
		}
	}
	w.windDown()
}

// windDown stops the monitor (if the script did not), answers what is in flight once the loop has left its select, and
// records the end.
func (w *monWorld) windDown() {
	if w.stopped || w.inconcl != "" {
		return
	}
	if w.stuck {
		// best effort, unrecorded: do not leave the goroutine behind if it can still be stopped
		go w.loop.Shutdown()
		return
	}
	if !w.exited && w.stopOwn == nil && !w.parentDone {
		w.env(op{Op: "stop", V: "own"}, nil)
	}
	for !w.exited {
		if ev := w.nextHook("shutdown"); ev == "" {
			return
		}
	}
	for !w.stopped {
		if w.env(op{Op: "ret", V: "x"}, map[string]variant{"x": {Name: "wind", Err: true, Avail: map[string]int{"web": 2, "db": 1}}}) {
			continue
		}
		if w.env(op{Op: "cret", V: "ok"}, nil) {
			continue
		}
		if ev := w.nextHook("stopped"); ev == "" {
			return
		}
	}
}

// MonitorReplay replays every script of the file; returns the process exit code.
func monitorReplay(scripts, outPath string, from, to int) int {
	var sf scriptFile
	if err := readJSON(scripts, &sf); err != nil {
		fmt.Println("monitorh:", err)
		return 2
	}
	out := openOut(outPath)
	defer out.Close()
	installSink()
	if to <= 0 || to > len(sf.Scripts) {
		to = len(sf.Scripts)
	}
	stuck, inconcl := 0, 0
	for i := from; i < to; i++ {
		w := newMonWorld(out, i, false)
		w.replay(sf.Scripts[i], sf.Variants)
		if w.stopOwn != nil && !w.stuck {
			if !waitChan(w.stopOwn) {
				w.inconcl = "shutdown() never returned"
			}
		}
		w.close()
		if w.inconcl != "" {
			fmt.Printf("INCONCLUSIVE run=%d %s\n", i, w.inconcl)
			inconcl++
		}
		if w.stuck {
			stuck++
		}
		if stuck >= maxStuck {
			fmt.Printf("STOPPED after %d stuck runs (run %d)\n", stuck, i)
			break
		}
	}
	fmt.Printf("REPLAYED runs=%d lines=%d stuck=%d inconclusive=%d\n", to-from, out.N, stuck, inconcl)
	if inconcl > 0 {
		return 2
	}
	return 0
}

var _ = rand.Int
